package main

// C13, further histories:
//
//  (1) dense registrations - every callback list that takes part in a pass
//      (or in an addition) holds several callbacks at once, in tables with
//      several columns and rows (c13GenDense);
//  (2) two tables that share rows - a *Row built once and added to two tables,
//      each table with recording callbacks of its own, both rendered
//      (c13Joint, c13RunPair, c13GenShared).

import (
	"encoding/json"
	"fmt"
	"strings"

	"go.pennock.tech/tabular"
)

// ---------------------------------------------------------------- (1) dense registrations

// c13DenseLayout builds a table of `cols` columns and `rows` body rows (a
// header first when hdr) in which every owner gets its registrations as soon
// as it exists - the table and the columns before the first body row, a row
// before its cells, a cell as soon as it is there - so that the same layout
// serves add-time and render-time lists.  counts: how many callbacks go into
// each list of (table, column n, row, cell) for time tm; late: register
// everything only after the table is complete (render-time lists only see a
// difference in registration order); order permutes the groups.
type c13DenseCounts struct{ table, column, row, cell int }

func c13DenseOps(tm string, cols, rows int, hdr bool, k c13DenseCounts, mode int, late bool, order int) []C13Op {
	var ops, regs []C13Op
	cb := 0
	kindOf := func() string {
		if cb%4 == 3 {
			return "twin"
		}
		return ""
	}
	mk := func(owner, target string, r, n, count int) []C13Op {
		var out []C13Op
		for i := 0; i < count; i++ {
			cb++
			out = append(out, C13Op{K: "reg", Owner: owner, Time: tm, Target: target, R: r, N: n, CB: cb, Kind: kindOf()})
		}
		return out
	}
	place := func(group []C13Op) {
		if late {
			regs = append(regs, group...)
		} else {
			ops = append(ops, group...)
		}
	}
	id := 0
	if hdr {
		ops = append(ops, opN("headers", cols))
	} else {
		ops = append(ops, opN("items", cols))
	}
	id++
	// the table's three lists and the columns' two lists
	var tcGroups [][]C13Op
	tcGroups = append(tcGroups, mk("table", "cell", 0, 0, k.table), mk("table", "itself", 0, 0, (k.table+1)/2), mk("table", "row", 0, 0, (k.table+1)/2))
	for n := 0; n <= cols; n++ {
		// columns get different numbers of callbacks: n-th column k.column + (n mod 2)
		kc := k.column
		if kc > 0 {
			kc += n % 2
		}
		tcGroups = append(tcGroups, mk("column", "cell", 0, n, kc), mk("column", "itself", 0, n, (kc+1)/2))
	}
	switch order {
	case 1: // columns before the table
		for i := len(tcGroups) - 1; i >= 0; i-- {
			place(tcGroups[i])
		}
	case 2: // round robin over the groups
		for more := true; more; {
			more = false
			for gi := range tcGroups {
				if len(tcGroups[gi]) > 0 {
					place(tcGroups[gi][:1])
					tcGroups[gi] = tcGroups[gi][1:]
					more = true
				}
			}
		}
	default:
		for _, g := range tcGroups {
			place(g)
		}
	}
	for i := 0; i < rows; i++ {
		rid := id
		id++
		switch (mode + i) % 3 {
		case 0: // built detached, then added
			ops = append(ops, opK("newrow"))
			place(mk("row", "cell", rid, 0, k.row))
			place(mk("row", "itself", rid, 0, (k.row+1)/2))
			for c := 1; c <= cols; c++ {
				ops = append(ops, opR("rowadd", rid))
				place(mk("cell", "itself", rid, c, k.cell))
			}
			ops = append(ops, opR("addrow", rid))
		case 1: // appended empty, cells added to the attached row
			ops = append(ops, opK("append"))
			place(mk("row", "cell", rid, 0, k.row))
			place(mk("row", "itself", rid, 0, (k.row+1)/2))
			for c := 1; c <= cols; c++ {
				ops = append(ops, opR("rowadd", rid))
				place(mk("cell", "itself", rid, c, k.cell))
			}
		default: // from items
			ops = append(ops, opN("items", cols))
			place(mk("row", "cell", rid, 0, k.row))
			place(mk("row", "itself", rid, 0, (k.row+1)/2))
			for c := 1; c <= cols; c++ {
				place(mk("cell", "itself", rid, c, k.cell))
			}
		}
	}
	return append(ops, regs...)
}

// Every list that takes part in the per-cell sequence (the table's, the
// column's, the row's, the cell's) and in the additions holds several
// callbacks at the same time: 1..5, 8, 9 and 17 in the table's lists (the
// sizes at which a Go slice that grows by append has no / some spare
// capacity), 0..3 in each column's (unequal between neighbouring columns), the
// row's and the cell's; tables of 2 and 3 columns with 2 and 3 rows and a
// header, rows built in the three ways; registered as soon as the owner
// exists and after the table is complete, in three orders.  Exactly once per
// registration and target, in registration order within a list, whatever the
// lists' lengths.
func c13GenDense(r *RNG, tier string, add func([]C13Op)) {
	patterns := []c13DenseCounts{
		{3, 1, 0, 0}, {3, 1, 1, 1}, {4, 2, 3, 1}, {5, 1, 3, 3}, {9, 1, 1, 0}, {1, 3, 1, 1}, {2, 4, 1, 3}, {0, 3, 3, 3}, {17, 2, 0, 1}, {8, 3, 2, 0},
	}
	n := 0
	for _, tm := range c13Times {
		for _, k := range patterns {
			for _, cols := range []int{2, 3} {
				for _, rows := range []int{2, 3} {
					hdr := (n/2)%2 == 0
					late := tm != "add" && n%3 == 1
					add(c13DenseOps(tm, cols, rows, hdr, k, n, late, n%3))
					if tier == "thorough" {
						add(c13DenseOps(tm, cols, rows, !hdr, k, n+1, !late && tm != "add", (n+1)%3))
					}
					n++
				}
			}
		}
	}
	// all four times at once, random counts per list
	m := 100
	if tier == "thorough" {
		m = 1000
	}
	for i := 0; i < m; i++ {
		add(c13RandDense(r))
	}
}

func c13RandDense(r *RNG) []C13Op {
	cols, rows := 1+r.Intn(4), 1+r.Intn(4)
	counts := []int{0, 0, 1, 1, 2, 3, 3, 4, 5, 9}
	var ops []C13Op
	cb := 0
	budget := 48
	regs := func(owner string, targets []string, rid, n int, times []string) []C13Op {
		var out []C13Op
		for _, tg := range targets {
			for _, tm := range times {
				if !r.Pct(45) {
					continue
				}
				k := pick(r, counts)
				if owner != "table" && k > 3 {
					k = 3
				}
				for i := 0; i < k && budget > 0; i++ {
					cb++
					budget--
					out = append(out, C13Op{K: "reg", Owner: owner, Time: tm, Target: tg, R: rid, N: n, CB: cb, Kind: pick(r, []string{"", "", "twin", "val"}), Fail: r.Pct(10)})
				}
			}
		}
		return out
	}
	// one or two times carry most of the weight
	focus := []string{pick(r, c13Times)}
	if r.Bool() {
		focus = append(focus, pick(r, c13Times))
	}
	if r.Pct(25) {
		focus = c13Times
	}
	var lateRegs []C13Op
	hdr := r.Bool()
	id := 0
	if hdr {
		ops = append(ops, opN("headers", cols))
	} else {
		ops = append(ops, opN("items", cols))
	}
	id++
	var tc []C13Op
	tc = append(tc, regs("table", []string{"cell", "cell", "itself", "row"}, 0, 0, focus)...)
	for n := 0; n <= cols; n++ {
		tc = append(tc, regs("column", []string{"cell", "itself"}, 0, n, focus)...)
	}
	// shuffle
	for i := len(tc) - 1; i > 0; i-- {
		j := r.Intn(i + 1)
		tc[i], tc[j] = tc[j], tc[i]
	}
	if r.Pct(60) {
		ops = append(ops, tc...)
	} else {
		lateRegs = append(lateRegs, tc...)
	}
	for i := 0; i < rows; i++ {
		rid := id
		id++
		w := cols
		if r.Pct(20) {
			w = r.Intn(cols + 1) // a shorter row
		}
		if r.Pct(10) {
			ops = append(ops, opK("sep"))
			continue
		}
		rowRegs := regs("row", []string{"cell", "itself"}, rid, 0, focus)
		switch r.Intn(3) {
		case 0:
			ops = append(ops, opK("newrow"))
			ops = append(ops, rowRegs...)
			for c := 1; c <= w; c++ {
				ops = append(ops, opR("rowadd", rid))
				ops = append(ops, regs("cell", []string{"itself"}, rid, c, focus)...)
			}
			ops = append(ops, opR("addrow", rid))
		case 1:
			ops = append(ops, opK("append"))
			ops = append(ops, rowRegs...)
			for c := 1; c <= w; c++ {
				ops = append(ops, opR("rowadd", rid))
				ops = append(ops, regs("cell", []string{"itself"}, rid, c, focus)...)
			}
		default:
			ops = append(ops, opN("items", w))
			ops = append(ops, rowRegs...)
			for c := 1; c <= w; c++ {
				ops = append(ops, regs("cell", []string{"itself"}, rid, c, focus)...)
			}
		}
	}
	return append(ops, lateRegs...)
}

// ---------------------------------------------------------------- (2) two tables sharing rows

// Domain of the pair histories (DESIGN 13.1 reaches one step further here than
// the theorems' single-table histories; each table is judged against its own
// history, in which the other table's taking a row is no event at all):
//   - a row is taken by the other table at most once, and never a header row
//     or a separator (the public API hands out no pointer to the former and no
//     way to add the latter);
//   - once a row is known to both tables no cell is added to it any more (the
//     row has one inTable; which table such a cell joins is not defined by the
//     property);
//   - no column-level cell callbacks for the two render times: a cell finds
//     "its column" through its row's one inTable pointer, so for a row held by
//     two tables the column of the table it was added to LAST is consulted in
//     the passes of both (reported as a finding of the library, not judged
//     here); column-level callbacks upon the column itself and add-time ones are in;
//   - no panicking callbacks, no nested tables, no column handles, no cell
//     values with a history (each has its own family of histories).
//
// Registrations upon a shared row or its cells are stored on the row: whichever
// table's RegisterPropertyCallback made them, they are registrations of both
// tables from then on.  The joint simulator therefore mirrors them into the
// other table's history (ids of the two tables are disjoint: B's start at 100).

type c13Joint struct {
	a, b *c13Sim
	aToB map[int]int
	bToA map[int]int
	// the B operations in the form given to B's simulator (take carries its cell count)
	bOps []C13Op
}

func newC13Joint() *c13Joint {
	return &c13Joint{a: newC13Sim(), b: newC13Sim(), aToB: map[int]int{}, bToA: map[int]int{}}
}

func c13PairOpOK(o C13Op, side int) bool {
	switch o.K {
	case "newrow", "rowadd", "addrow", "append", "items", "sep", "headers":
	case "peer":
		return side == 0
	case "take":
		return side == 1
	case "reg":
		switch o.Owner {
		case "table", "column", "row", "cell":
		default:
			return false
		}
		if o.H != 0 || o.Panic != 0 || o.Nest {
			return false
		}
		if o.Owner == "column" && o.Target == "cell" && (o.Time == "pre" || o.Time == "post") {
			return false
		}
		if side == 0 && o.CB >= 100 || side == 1 && o.CB < 100 {
			return false
		}
	default:
		return false
	}
	return true
}

// step one operation of table A (side 0) or B (side 1); false = outside the domain
func (j *c13Joint) step(side int, o C13Op) bool {
	if !c13PairOpOK(o, side) {
		return false
	}
	me, other := j.a, j.b
	mine, theirs := j.aToB, j.bToA
	if side == 1 {
		me, other = j.b, j.a
		mine, theirs = j.bToA, j.aToB
	}
	_ = theirs
	if o.K == "take" {
		if o.R < 0 || o.R >= len(j.a.rows) || j.a.rows[o.R].sep || j.a.rows[o.R].header {
			return false
		}
		if _, done := j.aToB[o.R]; done {
			return false
		}
		o.N = j.a.rows[o.R].cells
		id := len(j.b.rows)
		j.b.step(o)
		j.bOps = append(j.bOps, o)
		j.aToB[o.R], j.bToA[id] = id, o.R
		if j.a.rows[o.R].attached {
			j.b.otherAddRow(id) // A added it before B came to know it
		}
		// the registrations the row and its cells carry already
		for _, q := range j.a.regs {
			if (q.Owner == "row" || q.Owner == "cell") && q.R == o.R {
				q.R = id
				j.b.mirror(q)
			}
		}
		return true
	}
	if !me.wf(o) {
		return false
	}
	if o.K == "rowadd" {
		if _, sh := mine[o.R]; sh {
			return false
		}
	}
	nregs := len(me.regs)
	me.step(o)
	if side == 1 {
		j.bOps = append(j.bOps, o)
	}
	if o.K == "addrow" {
		if r2, sh := mine[o.R]; sh {
			other.otherAddRow(r2)
		}
	}
	if o.K == "reg" && (o.Owner == "row" || o.Owner == "cell") && len(me.regs) == nregs+1 {
		if r2, sh := mine[o.R]; sh {
			q := me.regs[nregs]
			q.R = r2
			other.mirror(q)
		}
	}
	return true
}

// run the whole pair history in its interleaved order; false = outside the domain
func (j *c13Joint) run(sp C13Spec) bool {
	if sp.Peer == nil || sp.Inner != nil || sp.Peer.Inner != nil || sp.Peer.Peer != nil {
		return false
	}
	switch sp.Order {
	case "", "peerfirst", "alt":
	default:
		return false
	}
	nb := 0
	for _, o := range sp.Ops {
		if o.K == "peer" {
			if !j.step(0, o) {
				return false
			}
			if nb < len(sp.Peer.Ops) {
				if !j.step(1, sp.Peer.Ops[nb]) {
					return false
				}
				nb++
			}
			continue
		}
		if !j.step(0, o) {
			return false
		}
	}
	for ; nb < len(sp.Peer.Ops); nb++ {
		if !j.step(1, sp.Peer.Ops[nb]) {
			return false
		}
	}
	return true
}

func c13PrepOf(sp C13Spec, sim *c13Sim, names []string) *c13Prep {
	pr := &c13Prep{sp: sp, sim: sim, wf: true, names: names}
	pr.size = len(sp.Ops)*4 + sp.Passes
	for _, o := range sp.Ops {
		if o.K != "take" {
			pr.size += o.N
		}
	}
	if sp.Via != "" {
		pr.size++
	}
	pr.pass = sim.renderPass()
	for p := 0; p < sp.Passes; p++ {
		pr.expRender = append(pr.expRender, pr.pass...)
	}
	return pr
}

func c13PairNames(sp C13Spec) (both []string) {
	nb := 0
	name := func(side string, o C13Op) string {
		if o.K == "take" {
			return fmt.Sprintf("%s: takes row%d of A", side, o.R)
		}
		return side + ": " + o.String()
	}
	for _, o := range sp.Ops {
		if o.K == "peer" {
			if nb < len(sp.Peer.Ops) {
				both = append(both, name("B", sp.Peer.Ops[nb]))
				nb++
			}
			continue
		}
		both = append(both, name("A", o))
	}
	for ; nb < len(sp.Peer.Ops); nb++ {
		both = append(both, name("B", sp.Peer.Ops[nb]))
	}
	return both
}

// c13PairSchedule: the render passes in the order they are asked for (0 = A, 1 = B)
func c13PairSchedule(sp C13Spec) []int {
	var out []int
	pa, pb := sp.Passes, sp.Peer.Passes
	switch sp.Order {
	case "peerfirst":
		for i := 0; i < pb; i++ {
			out = append(out, 1)
		}
		for i := 0; i < pa; i++ {
			out = append(out, 0)
		}
	case "alt":
		for i := 0; i < pa || i < pb; i++ {
			if i < pa {
				out = append(out, 0)
			}
			if i < pb {
				out = append(out, 1)
			}
		}
	default:
		for i := 0; i < pa; i++ {
			out = append(out, 0)
		}
		for i := 0; i < pb; i++ {
			out = append(out, 1)
		}
	}
	return out
}

// c13ExecPair replays the pair history on two fresh tables
func c13ExecPair(sp C13Spec, bOps []C13Op) (obA, obB *c13Obs) {
	spB := *sp.Peer
	spB.Ops = bOps
	g := &c13Group{}
	xa, xb := c13NewRunner(sp, nil), c13NewRunner(spB, nil)
	xa.env.group, xb.env.group = g, g
	xa.env.shared, xb.env.shared = map[int]bool{}, map[int]bool{}
	obA, obB = xa.ob, xb.ob
	nb := 0
	guard := func(x *c13Runner, f func()) (ok bool) {
		defer func() {
			if r := recover(); r != nil {
				x.ob.Kind = "panic"
				x.ob.Panic = fmt.Sprint(r)
				ok = false
			}
		}()
		g.active = x.env
		f()
		return true
	}
	xb.takeRow = func(R int) *tabular.Row {
		xa.env.shared[R] = true
		return xa.env.rowPtr(R)
	}
	stepB := func() bool {
		if nb >= len(bOps) {
			return true
		}
		i := nb
		nb++
		return guard(xb, func() { xb.doOp(i, bOps[i]) })
	}
	alive := true
	for opi, o := range sp.Ops {
		if !alive {
			break
		}
		if o.K == "peer" {
			alive = stepB()
			continue
		}
		opi, o := opi, o
		alive = guard(xa, func() { xa.doOp(opi, o) })
	}
	for alive && nb < len(bOps) {
		alive = stepB()
	}
	if alive {
		xa.env.render, xb.env.render = true, true
		done := [2]int{}
		for _, side := range c13PairSchedule(sp) {
			x := xa
			if side == 1 {
				x = xb
			}
			i := done[side]
			done[side]++
			if alive = guard(x, func() { x.renderPass(i) }); !alive {
				break
			}
		}
		xa.env.render, xb.env.render = false, false
	}
	g.active = nil
	// every id of the pair is looked for on every object of either table
	all := append(append([]int{}, xa.cids...), xb.cids...)
	xa.cids, xb.cids = append([]int{}, all...), append([]int{}, all...)
	if alive {
		guard(xa, xa.readBack)
		guard(xb, xb.readBack)
		g.active = nil
	}
	obA.add, obA.rnd = xa.env.addLog, xa.env.rndLog
	obB.add, obB.rnd = xb.env.addLog, xb.env.rndLog
	return obA, obB
}

func c13SnippetPair(sp C13Spec) string {
	var sb strings.Builder
	sb.WriteString("A := tabular.New(); B := tabular.New(); ")
	ids := [2]int{}
	bRow := map[int]string{}
	emit := func(side int, o C13Op) {
		t := []string{"A", "B"}[side]
		row := func(id int) string {
			if side == 1 {
				if s, ok := bRow[id]; ok {
					return s
				}
				return fmt.Sprintf("b%d", id)
			}
			return fmt.Sprintf("a%d", id)
		}
		id := ids[side]
		switch o.K {
		case "take":
			bRow[id] = fmt.Sprintf("a%d", o.R)
			fmt.Fprintf(&sb, "/* B's row %d is a%d */ ", id, o.R)
		case "newrow":
			fmt.Fprintf(&sb, "%s := tabular.NewRow(); ", row(id))
		case "rowadd":
			fmt.Fprintf(&sb, "%s.Add(tabular.NewCell(\"x\")); ", row(o.R))
		case "addrow":
			fmt.Fprintf(&sb, "%s.AddRow(%s); ", t, row(o.R))
		case "append":
			fmt.Fprintf(&sb, "%s := %s.AppendNewRow(); ", row(id), t)
		case "items":
			fmt.Fprintf(&sb, "%s.AddRowItems(%d items) /*%s := %s.AllRows()[last]*/; ", t, o.N, row(id), t)
		case "sep":
			fmt.Fprintf(&sb, "%s.AddSeparator() /*%s*/; ", t, row(id))
		case "headers":
			fmt.Fprintf(&sb, "%s.AddHeaders(%d items) /*%s*/; ", t, o.N, row(id))
		case "reg":
			ow := t
			switch o.Owner {
			case "column":
				ow = fmt.Sprintf("%s.Column(%d)", t, o.N)
			case "row":
				ow = row(o.R)
			case "cell":
				ow = fmt.Sprintf("&%s.Cells()[%d]", row(o.R), o.N-1)
			}
			rec := fmt.Sprintf("rec(%d)", o.CB)
			if o.Kind != "" {
				rec = fmt.Sprintf("%sRec(%d)", o.Kind, o.CB)
			}
			if o.Fail {
				rec = "failing:" + rec
			}
			fmt.Fprintf(&sb, "%s.RegisterPropertyCallback(%s, %s, %s, %s); ", t, ow,
				map[string]string{"add": "CB_AT_ADD", "pre": "CB_AT_RENDER_PRECELL", "render": "CB_AT_RENDER", "post": "CB_AT_RENDER_POSTCELL"}[o.Time],
				map[string]string{"itself": "CB_ON_ITSELF", "cell": "CB_ON_CELL", "row": "CB_ON_ROW"}[o.Target], rec)
		}
		if o.allocates() {
			ids[side]++
		}
	}
	nb := 0
	for _, o := range sp.Ops {
		if o.K == "peer" {
			if nb < len(sp.Peer.Ops) {
				emit(1, sp.Peer.Ops[nb])
				nb++
			}
			continue
		}
		emit(0, o)
	}
	for ; nb < len(sp.Peer.Ops); nb++ {
		emit(1, sp.Peer.Ops[nb])
	}
	call := func(t, via string) string {
		if via == "" {
			return t + ".InvokeRenderCallbacks()"
		}
		return via + " of " + t
	}
	sb.WriteString("then the passes: ")
	for _, side := range c13PairSchedule(sp) {
		if side == 0 {
			sb.WriteString(call("A", sp.Via) + "; ")
		} else {
			sb.WriteString(call("B", sp.Peer.Via) + "; ")
		}
	}
	sb.WriteString(" // rec(i) logs (i, object received) in the log of the table being built / rendered at that moment and sets property i on the object; each table's log is judged against that table's own history (a callback registered upon a shared row belongs to both)")
	return sb.String()
}

func c13RunPair(sp C13Spec, spec json.RawMessage) CaseOut {
	j := newC13Joint()
	if !j.run(sp) {
		return CaseOut{Coq: cqPair(cqPair(cqPair("[]", cqNat(0)), "(Ok (mkObs [] [] [] [] [] []))"), "[]"), Desc: map[string]interface{}{"sig": "", "skipped": "history outside the property's quantifier"},
			Size: len(sp.Ops) + len(sp.Peer.Ops), Tags: []string{"not-wf"}, Key: "notwf" + string(spec), Nontrivial: false}
	}
	names := c13PairNames(sp)
	spB := *sp.Peer
	spB.Ops = j.bOps
	prA, prB := c13PrepOf(sp, j.a, names), c13PrepOf(spB, j.b, names)
	obA, obB := c13ExecPair(sp, j.bOps)
	caseA := c13Complete(prA, obA, -1)
	caseB := c13Complete(prB, obB, -1)
	obA.Inner = obB
	if obA.Sig != "" || obB.Sig != "" {
		sig := obA.Sig
		if sig == "" {
			sig = obB.Sig
		}
		if strings.Contains(sig, ":") {
			sig = sig[:strings.Index(sig, ":")]
		}
		obA.Sig = "two-tables-sharing-a-row/" + sig
		obA.Snippet = c13SnippetPair(sp)
	}
	tags := []string{"two-tables-sharing-rows", fmt.Sprintf("passes=%d", sp.Passes), fmt.Sprintf("peer-passes=%d", min(sp.Peer.Passes, 3)),
		"pass-order=" + map[string]string{"": "this-table-first", "peerfirst": "peer-first", "alt": "alternating"}[sp.Order],
		"via=" + map[bool]string{true: "direct", false: sp.Via}[sp.Via == ""], fmt.Sprintf("shared-rows=%d", min(len(j.aToB), 3))}
	if sp.Peer.Via != "" {
		tags = append(tags, "peer-via-renderer")
	}
	both, lastA, lastB := 0, 0, 0
	{
		// which table a shared row was added to last
		seq := []string{}
		nb := 0
		bid := 0
		bmap := map[int]int{}
		note := func(side int, o C13Op) {
			if side == 1 {
				if o.K == "take" {
					bmap[bid] = o.R
				}
				if o.allocates() {
					bid++
				}
				if o.K == "addrow" {
					if ar, ok := bmap[o.R]; ok {
						seq = append(seq, fmt.Sprintf("B%d", ar))
					}
				}
				return
			}
			if o.K == "addrow" {
				seq = append(seq, fmt.Sprintf("A%d", o.R))
			}
		}
		for _, o := range sp.Ops {
			if o.K == "peer" {
				if nb < len(sp.Peer.Ops) {
					note(1, sp.Peer.Ops[nb])
					nb++
				}
				continue
			}
			note(0, o)
		}
		for ; nb < len(sp.Peer.Ops); nb++ {
			note(1, sp.Peer.Ops[nb])
		}
		for ar, br := range j.aToB {
			inA, inB := j.a.rows[ar].attached, j.b.rows[br].attached
			if inA && inB {
				both++
				last := "B"
				for _, s := range seq {
					if s == fmt.Sprintf("A%d", ar) {
						last = "A"
					} else if s == fmt.Sprintf("B%d", ar) {
						last = "B"
					}
				}
				if last == "A" {
					lastA++
				} else {
					lastB++
				}
			}
		}
	}
	if both > 0 {
		tags = append(tags, "row-in-both-tables")
	}
	if lastA > 0 {
		tags = append(tags, "shared-row-last-added-to-this-table")
	}
	if lastB > 0 {
		tags = append(tags, "shared-row-last-added-to-the-peer")
	}
	mirrored := false
	for _, sim := range []*c13Sim{j.a, j.b} {
		for _, o := range sim.coqRegOrigin {
			if o < 0 {
				mirrored = true
			}
		}
	}
	if mirrored {
		tags = append(tags, "callback-upon-a-shared-row-or-its-cell")
	}
	for _, o := range append(append([]C13Op{}, sp.Ops...), sp.Peer.Ops...) {
		if o.K == "reg" {
			tags = append(tags, "reg="+o.Owner+"/"+o.Time+"/"+o.Target)
		}
	}
	tags = dedupe(tags)
	if obA.Sig != "" {
		tags = append(tags, "sig="+obA.Sig)
	}
	return CaseOut{
		Coq:        cqPair(caseA, "["+caseB+"]"),
		Desc:       obA,
		Size:       prA.size + prB.size + 1,
		Tags:       tags,
		Key:        string(spec),
		Nontrivial: len(j.a.add)+len(prA.expRender)+len(j.b.add)+len(prB.expRender) > 0,
	}
}

// ---- generation of pair histories

// Systematic: a row built in one of three ways (detached then added, appended
// empty and filled, from items) inside table A (alone, after another row,
// under a header) is taken by table B (empty, with a row of its own before or
// after, with a header) and added there - before or after A adds it where the
// way it is built allows - with every (owner kind x time x target)
// registration upon A, upon B (table, column 0/1, B's own row), upon the
// shared row and its cell (made through A before the row is shared, through A
// afterwards, through B), singly; and one registration of the same combination
// upon both tables at once.  Passes: 1-2 per table, in three orders, directly
// and through renderers.
func c13GenShared(r *RNG, tier string, emit func(C13Spec)) {
	type layout struct {
		aBefore []C13Op // A's operations before the shared row is built
		build   int     // 0 newrow+rowadd.., 1 append+rowadd.., 2 items
		cells   int
		bBefore []C13Op
		bAfter  []C13Op
		bFirst  bool // B adds the row before A does (build 0 only)
		aAfter  []C13Op
	}
	layouts := []layout{
		{nil, 0, 2, nil, nil, false, nil},
		{[]C13Op{opN("items", 2)}, 0, 2, nil, nil, false, nil},
		{[]C13Op{opN("items", 2)}, 0, 2, nil, nil, true, nil},
		{[]C13Op{opN("headers", 2), opN("items", 1)}, 0, 1, []C13Op{opN("items", 2)}, nil, false, []C13Op{opN("items", 2)}},
		{nil, 0, 1, []C13Op{opN("headers", 2)}, []C13Op{opN("items", 1)}, true, []C13Op{opN("items", 1)}},
		{[]C13Op{opN("items", 1)}, 1, 2, nil, []C13Op{opN("items", 3)}, false, nil},
		{nil, 2, 2, []C13Op{opN("items", 1)}, nil, false, []C13Op{opK("sep"), opN("items", 2)}},
		{[]C13Op{opN("items", 3)}, 2, 1, []C13Op{opN("headers", 1)}, nil, false, nil},
	}
	n := 0
	for li, l := range layouts {
		sid0 := 0 // A's id of the shared row
		for _, o := range l.aBefore {
			if o.allocates() {
				sid0++
			}
		}
		bsid0 := 0
		for _, o := range l.bBefore {
			if o.allocates() {
				bsid0++
			}
		}
		for _, c := range c13Combos() {
			type variant struct {
				side  int    // who registers: 0 A, 1 B, 2 both
				owner string // "" = as the combination says, on the table's own objects; "shared" = upon the shared row / its first cell
				when  int    // for shared owners: 0 before the row is taken, 1 after B took it (before the adds where possible), 2 after everything
			}
			var variants []variant
			switch c.owner {
			case "table":
				variants = []variant{{0, "", 0}, {1, "", 0}, {2, "", 0}, {2, "", 2}}
			case "column":
				variants = []variant{{0, "", 0}, {1, "", 0}, {2, "", 2}}
			case "row", "cell":
				variants = []variant{{0, "shared", 0}, {0, "shared", 1}, {1, "shared", 1}, {0, "shared", 2}, {1, "shared", 2}}
			}
			if c.owner == "column" && c.target == "cell" && (c.time == "pre" || c.time == "post") {
				continue
			}
			for _, v := range variants {
				if tier != "thorough" && (n+li)%2 == 1 && c.owner != "table" {
					n++
					continue
				}
				sid, bsid := sid0, bsid0
				regA := C13Op{K: "reg", Owner: c.owner, Time: c.time, Target: c.target, CB: 1}
				regB := C13Op{K: "reg", Owner: c.owner, Time: c.time, Target: c.target, CB: 100}
				if c.owner == "column" {
					regA.N, regB.N = 1, 1
				}
				if v.owner == "shared" {
					regA.R, regB.R = sid, bsid
					if c.owner == "cell" {
						regA.N, regB.N = 1, 1
					}
				}
				var aOps, bOps []C13Op
				early := func() { // registrations that do not need the shared row
					if v.owner == "" && v.when == 0 {
						if v.side != 1 {
							aOps = append(aOps, regA)
						}
						if v.side != 0 {
							bOps = append(bOps, regB)
						}
					}
				}
				// a column owner must exist: B's column 1 exists only after a row or header
				if c.owner == "column" {
					aOps = append(aOps, l.aBefore...)
					bOps = append(bOps, l.bBefore...)
					if len(l.aBefore) == 0 {
						aOps = append(aOps, opN("items", 1))
						sid++
					}
					if len(l.bBefore) == 0 {
						bOps = append(bOps, opN("items", 1))
						bsid++
					}
					early()
				} else {
					early()
					aOps = append(aOps, l.aBefore...)
					bOps = append(bOps, l.bBefore...)
				}
				sharedRegs := func(when int) { // through A, before B knows the row
					if v.owner == "shared" && v.when == when && v.side == 0 {
						aOps = append(aOps, regA)
					}
				}
				// bring B up to date: everything B has so far runs now
				syncB := func(done *int) {
					for *done < len(bOps) {
						aOps = append(aOps, opK("peer"))
						*done++
					}
				}
				bDone := 0
				switch l.build {
				case 0:
					aOps = append(aOps, opK("newrow"))
					for i := 0; i < l.cells; i++ {
						aOps = append(aOps, opR("rowadd", sid))
					}
					sharedRegs(0)
					if l.bFirst {
						bOps = append(bOps, opR("take", sid))
						syncB(&bDone)
						if v.owner == "shared" && v.when == 1 {
							if v.side == 0 {
								aOps = append(aOps, regA)
							} else {
								bOps = append(bOps, regB)
								syncB(&bDone)
							}
						}
						bOps = append(bOps, opR("addrow", bsid))
						syncB(&bDone)
						aOps = append(aOps, opR("addrow", sid))
					} else {
						if v.owner == "shared" && v.when == 1 {
							// B knows the row before either table adds it
							bOps = append(bOps, opR("take", sid))
							syncB(&bDone)
							if v.side == 0 {
								aOps = append(aOps, regA)
							} else {
								bOps = append(bOps, regB)
								syncB(&bDone)
							}
							aOps = append(aOps, opR("addrow", sid))
							bOps = append(bOps, opR("addrow", bsid))
						} else {
							aOps = append(aOps, opR("addrow", sid))
							bOps = append(bOps, opR("take", sid), opR("addrow", bsid))
						}
						syncB(&bDone)
					}
				case 1:
					aOps = append(aOps, opK("append"))
					for i := 0; i < l.cells; i++ {
						aOps = append(aOps, opR("rowadd", sid))
					}
					sharedRegs(0)
					bOps = append(bOps, opR("take", sid))
					syncB(&bDone)
					if v.owner == "shared" && v.when == 1 {
						if v.side == 0 {
							aOps = append(aOps, regA)
						} else {
							bOps = append(bOps, regB)
							syncB(&bDone)
						}
					}
					bOps = append(bOps, opR("addrow", bsid))
					syncB(&bDone)
				default:
					aOps = append(aOps, opN("items", l.cells))
					sharedRegs(0)
					bOps = append(bOps, opR("take", sid))
					syncB(&bDone)
					if v.owner == "shared" && v.when == 1 {
						if v.side == 0 {
							aOps = append(aOps, regA)
						} else {
							bOps = append(bOps, regB)
							syncB(&bDone)
						}
					}
					bOps = append(bOps, opR("addrow", bsid))
					syncB(&bDone)
				}
				aOps = append(aOps, l.aAfter...)
				bOps = append(bOps, l.bAfter...)
				syncB(&bDone)
				if v.when == 2 {
					if v.owner == "shared" {
						if v.side == 0 {
							aOps = append(aOps, regA)
						} else {
							bOps = append(bOps, regB)
						}
					} else {
						if v.side != 1 {
							aOps = append(aOps, regA)
						}
						if v.side != 0 {
							bOps = append(bOps, regB)
						}
					}
				}
				// every cell of either table is accounted for by a plain table-level callback
				aOps = append(aOps, C13Op{K: "reg", Owner: "table", Time: "render", Target: "cell", CB: 2})
				bOps = append(bOps, C13Op{K: "reg", Owner: "table", Time: "render", Target: "cell", CB: 101})
				sp := C13Spec{Ops: aOps, Passes: 1 + n%2, Peer: &C13Spec{Ops: bOps, Passes: 1 + (n/2)%2}, Order: []string{"", "peerfirst", "alt"}[n%3]}
				if n%5 == 4 {
					sp.Via = c13Vias[(n/5)%len(c13Vias)]
				}
				if n%7 == 6 {
					sp.Peer.Via = c13Vias[(n/7)%len(c13Vias)]
				}
				n++
				if !newC13Joint().run(sp) {
					panic("harness: generated pair history outside its own domain: " + string(mustJSON(sp)))
				}
				emit(sp)
			}
		}
	}
	m := 150
	if tier == "thorough" {
		m = 2000
	}
	for i := 0; i < m; i++ {
		emit(c13RandShared(r))
	}
}

// c13RandShared: a random pair history, generated against the joint simulator
func c13RandShared(r *RNG) C13Spec {
	for {
		sp := c13RandShared1(r)
		if newC13Joint().run(sp) {
			return sp
		}
	}
}

func c13RandShared1(r *RNG) C13Spec {
	j := newC13Joint()
	var aOps, bOps []C13Op
	combos := c13Combos()
	nregs := [2]int{}
	n := 4 + r.Intn(14)
	taken := 0
	for i := 0; i < n; i++ {
		side := 0
		if r.Pct(45) {
			side = 1
		}
		sim := j.a
		if side == 1 {
			sim = j.b
		}
		var o C13Op
		switch k := r.Intn(12); {
		case k < 2:
			o = opN("items", r.Intn(4))
		case k == 2:
			o = opK("newrow")
		case k == 3:
			if len(sim.rows) == 0 {
				continue
			}
			o = opR("rowadd", r.Intn(len(sim.rows)))
			if sim.rows[o.R].header || sim.rows[o.R].sep {
				continue
			}
		case k == 4 || k == 5:
			if len(sim.rows) == 0 {
				continue
			}
			o = opR("addrow", r.Intn(len(sim.rows)))
		case k == 6:
			if side == 0 {
				o = opK("append")
			} else {
				if len(j.a.rows) == 0 {
					continue
				}
				o = opR("take", r.Intn(len(j.a.rows)))
			}
		case k == 7:
			if side == 1 && len(j.a.rows) > 0 {
				o = opR("take", r.Intn(len(j.a.rows)))
			} else if r.Pct(30) {
				o = opK("sep")
			} else if r.Pct(50) {
				o = opN("headers", r.Intn(3))
			} else {
				continue
			}
		default:
			if nregs[side] >= 5 {
				continue
			}
			c := pick(r, combos)
			in := c13Inst{}
			switch c.owner {
			case "column":
				in.n = r.Intn(sim.ncols + 1)
			case "row", "cell":
				if len(sim.rows) == 0 {
					continue
				}
				in.r = r.Intn(len(sim.rows))
				// shared rows are the interesting owners
				for try := 0; try < 3; try++ {
					_, shA := j.aToB[in.r]
					_, shB := j.bToA[in.r]
					if (side == 0 && shA) || (side == 1 && shB) {
						break
					}
					in.r = r.Intn(len(sim.rows))
				}
				if c.owner == "cell" {
					if sim.rows[in.r].cells == 0 {
						continue
					}
					in.n = 1 + r.Intn(sim.rows[in.r].cells)
				}
			}
			o = c13RegOp(c, in, 1+nregs[side]+100*side)
			o.Kind = pick(r, []string{"", "", "twin", "val"})
			o.Fail = r.Pct(15)
			if r.Pct(10) {
				o.Through = pick(r, []string{"other", "wrapper"})
			}
		}
		if !j.step(side, o) {
			continue
		}
		if o.K == "reg" {
			nregs[side]++
		}
		if o.K == "take" {
			taken++
		}
		if side == 0 {
			aOps = append(aOps, o)
		} else {
			bOps = append(bOps, o)
			aOps = append(aOps, opK("peer"))
			j.a.step(opK("peer"))
		}
	}
	// make sure something is shared and in both tables: a last row if nothing was taken
	if taken == 0 {
		id := len(j.a.rows)
		pre := []C13Op{opN("items", 1+r.Intn(2))}
		if r.Bool() {
			pre = []C13Op{opK("newrow"), opR("rowadd", id), opR("addrow", id)}
		}
		for _, o := range pre {
			if j.step(0, o) {
				aOps = append(aOps, o)
			}
		}
		bid := len(j.b.rows)
		for _, o := range []C13Op{opR("take", id), opR("addrow", bid)} {
			if j.step(1, o) {
				bOps = append(bOps, o)
			}
		}
	}
	// table-level cell callbacks on both, so that every cell is accounted for
	for side, o := range []C13Op{
		{K: "reg", Owner: "table", Time: pick(r, []string{"pre", "render", "post"}), Target: "cell", CB: 50},
		{K: "reg", Owner: "table", Time: pick(r, []string{"pre", "render", "post"}), Target: "cell", CB: 150},
	} {
		if j.step(side, o) {
			if side == 0 {
				aOps = append(aOps, o)
			} else {
				bOps = append(bOps, o)
			}
		}
	}
	sp := C13Spec{Ops: aOps, Passes: 1 + r.Intn(2), Peer: &C13Spec{Ops: bOps, Passes: r.Intn(3)}, Order: pick(r, []string{"", "peerfirst", "alt"})}
	if r.Pct(25) {
		sp.Via = pick(r, c13Vias)
	}
	if r.Pct(25) {
		sp.Peer.Via = pick(r, c13Vias)
	}
	return sp
}

// ---- shrinking of pair histories: one operation of either table less (what
// names a dropped row goes with it), one pass less, a plain render path, or
// the peer table gone altogether (then only if nothing of A depends on it)
func c13ShrinkPair(sp C13Spec) []json.RawMessage {
	var out []json.RawMessage
	emit := func(c C13Spec) {
		if c.Peer != nil && newC13Joint().run(c) {
			out = append(out, mustJSON(c))
		}
	}
	clone := func() C13Spec {
		c := sp
		c.Ops = append([]C13Op{}, sp.Ops...)
		p := *sp.Peer
		p.Ops = append([]C13Op{}, sp.Peer.Ops...)
		c.Peer = &p
		return c
	}
	// a "peer" marker of A corresponds to B's operation number k: dropping B's
	// operation k drops its marker too (if it has one)
	markerOf := func(k int) int {
		seen := 0
		for i, o := range sp.Ops {
			if o.K == "peer" {
				if seen == k {
					return i
				}
				seen++
			}
		}
		return -1
	}
	dropMarker := func(ops []C13Op, i int) []C13Op {
		if i < 0 {
			return ops
		}
		return append(append([]C13Op{}, ops[:i]...), ops[i+1:]...)
	}
	// A's operations
	for i, o := range sp.Ops {
		if o.K == "peer" {
			continue
		}
		c := clone()
		id := -1
		if o.allocates() {
			id = 0
			for _, q := range sp.Ops[:i] {
				if q.allocates() {
					id++
				}
			}
		}
		c.Ops = c13DropOp(sp.Ops, i)
		if id >= 0 {
			// B's takes name A's rows
			bops := c.Peer.Ops
			for k := len(bops) - 1; k >= 0; k-- {
				if bops[k].K != "take" {
					continue
				}
				if bops[k].R == id {
					c.Ops = dropMarker(c.Ops, func() int {
						// position of marker k in the reduced A history
						seen := 0
						for ai, q := range c.Ops {
							if q.K == "peer" {
								if seen == k {
									return ai
								}
								seen++
							}
						}
						return -1
					}())
					bops = c13DropOp(bops, k)
					// markers of B operations that went with the taken row are not tracked: the tail simply runs later
				} else if bops[k].R > id {
					bops[k].R--
				}
			}
			c.Peer.Ops = bops
		}
		emit(c)
	}
	// B's operations
	for k := range sp.Peer.Ops {
		c := clone()
		c.Peer.Ops = c13DropOp(sp.Peer.Ops, k)
		if len(c.Peer.Ops) == len(sp.Peer.Ops)-1 {
			c.Ops = dropMarker(c.Ops, markerOf(k))
		}
		emit(c)
	}
	// all of B's operations after A's
	{
		c := clone()
		var ops []C13Op
		for _, o := range c.Ops {
			if o.K != "peer" {
				ops = append(ops, o)
			}
		}
		if len(ops) != len(c.Ops) {
			c.Ops = ops
			emit(c)
		}
	}
	for i, o := range sp.Ops {
		if o.K == "reg" && (o.Fail || o.Kind != "" || o.Through != "") {
			c := clone()
			c.Ops[i].Fail, c.Ops[i].Kind, c.Ops[i].Through = false, "", ""
			emit(c)
		}
	}
	for i, o := range sp.Peer.Ops {
		if o.K == "reg" && (o.Fail || o.Kind != "" || o.Through != "") {
			c := clone()
			c.Peer.Ops[i].Fail, c.Peer.Ops[i].Kind, c.Peer.Ops[i].Through = false, "", ""
			emit(c)
		}
	}
	if sp.Passes > 0 {
		c := clone()
		c.Passes--
		emit(c)
	}
	if sp.Peer.Passes > 0 {
		c := clone()
		c.Peer.Passes--
		emit(c)
	}
	if sp.Via != "" {
		c := clone()
		c.Via = ""
		emit(c)
	}
	if sp.Peer.Via != "" {
		c := clone()
		c.Peer.Via = ""
		emit(c)
	}
	if sp.Order != "" {
		c := clone()
		c.Order = ""
		emit(c)
	}
	// table A alone
	{
		var ops []C13Op
		for _, o := range sp.Ops {
			if o.K != "peer" {
				ops = append(ops, o)
			}
		}
		if c13WF(ops) {
			out = append(out, mustJSON(C13Spec{Ops: ops, Passes: sp.Passes, Via: sp.Via}))
		}
	}
	return out
}
