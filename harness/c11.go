package main

// C11 - errors accumulate in the table: none lost, none duplicated, none nil.
//
// Two kinds of case:
//   cont : a history of AddError / AddErrorList / Errors on one container made
//          as a nil pointer, the zero value, or by NewErrorContainer();
//   table: a build history on one table (rows, separators, headers, direct
//          errors, failing callbacks registered through the public API at every
//          level and time, render passes), beside which a second table may
//          exist that takes rows - detached ones, or rows the first table
//          already holds (a row shared between two tables).  Nothing done to
//          the second table is an event of the first: its Errors() must not
//          move, and it goes on accumulating afterwards.
// Every error value the harness makes is distinct (*c11Err, id = order of
// creation); a callback makes a fresh one each time it fires and logs the
// firing as the event `CallbackFails site row id`, the site being derived from
// what was registered and which API call is running.  After every step
// Table.Errors(), every Row.Errors() and (*ErrorContainer).Errors() are read
// and mapped back to ids (nil entry = -1).  Library-made errors (the misuse
// error of Row.Add on a separator) are recognised by identity the first time
// they show up in any observation.

import (
	"encoding/json"
	"errors"
	"fmt"
	"sort"
	"strings"

	"go.pennock.tech/tabular"
)

type c11Spec struct {
	Kind string  `json:"kind"` // cont | table
	Mode string  `json:"mode,omitempty"`
	Ek   int     `json:"ek,omitempty"` // kind of the first error raised (the rest cycle through the kinds)
	Ops  []c11Op `json:"ops"`
}

type c11Op struct {
	Op     string  `json:"op"`
	R      int     `json:"r,omitempty"`
	C      int     `json:"c,omitempty"`
	E      int     `json:"e,omitempty"` // 1 = a non-nil error, 0 = a nil error
	L      *[]int  `json:"l,omitempty"` // absent = nil slice; entries 1 = error, 0 = nil
	N      int     `json:"n,omitempty"`
	Owner  string  `json:"owner,omitempty"` // table | col | row | cell
	When   int     `json:"when,omitempty"`  // 0 add, 1 render-precell, 2 render, 3 render-postcell
	Target int     `json:"target,omitempty"`
	Pat    int     `json:"pat,omitempty"` // 0 always fails, 1 fails on odd firings, 2 returns nil
	Ek     int     `json:"ek,omitempty"`  // reg: 0 = kinds cycle, k+1 = this callback's errors are all of kind k
	Do     int     `json:"do,omitempty"`  // reg: what the callback does besides returning: 0 nothing, 1 records an error on its target (row.AddError / t.AddError), 2 adds a cell to the row, 3 prepares a nested table for rendering
	How    int     `json:"how,omitempty"` // newrow: 0 NewRow(), 1 NewRowWithCapacity(n), 2 t.NewRowSizedFor()
	Sub    []c11Op `json:"sub,omitempty"` // block (c11_r6.go): the ops repeated N times as one step
}

type c11Err struct{ id int }

func (e *c11Err) Error() string { return c11Msg(e.id) }

const c11Sentinel = 999999

// a view of an Errors() result: nil slice vs list of ids
type c11View struct {
	Nil bool
	Ids []int
}

func (v c11View) String() string {
	if v.Nil {
		return "nil"
	}
	if len(v.Ids) > 40 {
		return v.Short()
	}
	return fmt.Sprint(v.Ids)
}

func (v c11View) Coq() string {
	if v.Nil {
		return "None"
	}
	xs := make([]string, len(v.Ids))
	for i, id := range v.Ids {
		if id < 0 {
			xs[i] = "None"
		} else {
			xs[i] = fmt.Sprintf("e %d", id)
		}
	}
	return "(Some " + cqList(xs) + ")"
}

func c11ViewOfLog(l []int) c11View {
	if len(l) == 0 {
		return c11View{Nil: true}
	}
	return c11View{Ids: append([]int{}, l...)}
}

func (v c11View) eq(w c11View) bool {
	if v.Nil != w.Nil || len(v.Ids) != len(w.Ids) {
		return false
	}
	for i := range v.Ids {
		if v.Ids[i] != w.Ids[i] {
			return false
		}
	}
	return true
}

// Error values are opaque to the library: whatever their dynamic type (plain,
// joined, wrapping, a multi-error with no causes, comparable or not) the value
// that was raised is the value that must come back from Errors(), once.  The
// harness therefore raises errors of several kinds; the parts a compound error
// is made of get ids of their own and must never show up in any list.  The
// message of error #n starts with a letter that DEscends as n grows, so the
// order of occurrence is never the alphabetical one.
const c11Kinds = 7

var c11KindName = []string{"plain", "errors.Join", "fmt.Errorf(%w,%w)", "multi(Unwrap []error)", "multi-without-causes", "wrap(Unwrap error)", "non-comparable multi"}

func c11Msg(id int) string {
	return fmt.Sprintf("%c%c harness error #%d", 'z'-byte(id%26), 'a'+byte(id*7%26), id)
}

type c11Multi struct {
	id    int
	parts []error
}

func (e *c11Multi) Error() string   { return c11Msg(e.id) }
func (e *c11Multi) Unwrap() []error { return e.parts }

type c11Empty struct{ id int } // a comparable value type

func (e c11Empty) Error() string   { return c11Msg(e.id) }
func (e c11Empty) Unwrap() []error { return nil }

type c11Wrap struct {
	id    int
	cause error
}

func (e c11Wrap) Error() string { return c11Msg(e.id) }
func (e c11Wrap) Unwrap() error { return e.cause }

type c11Slice struct { // not comparable: == on it panics
	id    int
	parts []error
}

func (e c11Slice) Error() string   { return c11Msg(e.id) }
func (e c11Slice) Unwrap() []error { return e.parts }

type c11Ids struct {
	next       int
	ek         int // kind of the first raised error; the following ones cycle
	nRaised    int
	known      map[error]int // stdlib-made compound errors (pointers)
	kinds      map[string]string
	parts      map[int]bool
	partOf     map[int]int
	making     int
	foreign    map[error]int
	curMisuse  int
	nForeign   int
	unexpected []string
	kindTags   []string
}

func newC11Ids() *c11Ids {
	return &c11Ids{known: map[error]int{}, kinds: map[string]string{}, parts: map[int]bool{}, partOf: map[int]int{}, foreign: map[error]int{}, curMisuse: -1}
}

func (x *c11Ids) part() error {
	id := x.next
	x.next++
	x.parts[id] = true
	x.partOf[id] = x.making
	return &c11Err{id}
}

// fresh makes the next distinct error, its kind taken from the cycle
func (x *c11Ids) fresh() (int, error) { return x.freshKind(-1) }

func (x *c11Ids) freshKind(k int) (int, error) {
	if k < 0 {
		k = (x.ek + x.nRaised) % c11Kinds
	}
	k %= c11Kinds
	x.nRaised++
	id := x.next
	x.next++
	x.making = id
	var e error
	switch k {
	case 1:
		e = errors.Join(x.part(), x.part())
		x.known[e] = id
	case 2:
		e = fmt.Errorf("%s: %w and %w", c11Msg(id), x.part(), x.part())
		x.known[e] = id
	case 3:
		e = &c11Multi{id, []error{x.part(), x.part(), x.part()}}
	case 4:
		e = c11Empty{id}
	case 5:
		e = c11Wrap{id, x.part()}
	case 6:
		e = c11Slice{id, []error{x.part(), x.part()}}
	default:
		e = &c11Err{id}
	}
	if k != 0 {
		x.kinds[fmt.Sprintf("e%d", id)] = c11KindName[k]
	}
	x.kindTags = append(x.kindTags, "error-kind="+c11KindName[k])
	return id, e
}

func (x *c11Ids) idOf(e error) int {
	switch he := e.(type) {
	case nil:
		return -1
	case *c11Err:
		return he.id
	case *c11Multi:
		return he.id
	case c11Empty:
		return he.id
	case c11Wrap:
		return he.id
	case c11Slice:
		return he.id
	}
	if id, ok := x.known[e]; ok {
		return id
	}
	if id, ok := x.foreign[e]; ok {
		return id
	}
	if x.curMisuse >= 0 {
		x.foreign[e] = x.curMisuse
		x.curMisuse = -1
		return x.foreign[e]
	}
	x.nForeign++
	x.foreign[e] = 900000 + x.nForeign
	x.unexpected = append(x.unexpected, e.Error())
	return x.foreign[e]
}

// errOf: E / list entry encoding: 0 nil, 1 a fresh error of the cycle's kind, k+2 a fresh error of kind k
func (x *c11Ids) errOf(code int) (int, error) {
	switch {
	case code == 0:
		return -1, nil
	case code == 1:
		return x.fresh()
	}
	return x.freshKind(code - 2)
}

func (x *c11Ids) view(es []error) c11View {
	if es == nil {
		return c11View{Nil: true}
	}
	v := c11View{Ids: make([]int, len(es))}
	for i, e := range es {
		v.Ids[i] = x.idOf(e)
	}
	return v
}

func c11Try(f func()) (msg string, panicked bool) {
	defer func() {
		if r := recover(); r != nil {
			msg, panicked = fmt.Sprint(r), true
		}
	}()
	f()
	return "", false
}

func c11ErrCoq(id int) string {
	if id < 0 {
		return "None"
	}
	return fmt.Sprintf("(e %d)", id)
}

type c11StepDesc struct {
	Op     string   `json:"op"`
	Events []string `json:"events,omitempty"`
	Table  string   `json:"table_errors,omitempty"`
	Other  string   `json:"other_table_errors,omitempty"`
	Rows   string   `json:"row_errors,omitempty"`
	Errors string   `json:"errors,omitempty"`
	After  string   `json:"errors_after_caller_overwrote_its_slice,omitempty"`
	Expect string   `json:"expected,omitempty"`
	Panic  string   `json:"panic,omitempty"`
	Wrong  string   `json:"wrong,omitempty"`
}

type c11Desc struct {
	Sig     string            `json:"sig"`
	Kind    string            `json:"kind"`
	Mode    string            `json:"mode,omitempty"`
	Steps   []c11StepDesc     `json:"steps"`
	Skipped int               `json:"ops_skipped_as_outside_the_domain,omitempty"`
	Foreign []string          `json:"unexpected_library_errors,omitempty"`
	Kinds   map[string]string `json:"kinds_of_the_non_plain_errors,omitempty"`
	Go      string            `json:"go_snippet,omitempty"`
}

// ------------------------------------------------------------ container cases

func c11RunCont(sp c11Spec) CaseOut {
	x := newC11Ids()
	x.ek = sp.Ek
	var ec *tabular.ErrorContainer
	mode := "MNew"
	goSnip := []string{}
	switch sp.Mode {
	case "nil":
		mode = "MNil"
		goSnip = append(goSnip, "var ec *tabular.ErrorContainer")
	case "zero":
		mode = "MZero"
		ec = &tabular.ErrorContainer{}
		goSnip = append(goSnip, "ec := &tabular.ErrorContainer{}")
	default:
		ec = tabular.NewErrorContainer()
		goSnip = append(goSnip, "ec := tabular.NewErrorContainer()")
	}
	desc := c11Desc{Kind: "cont", Mode: sp.Mode}
	var exp []int // Go-side copy of the expected log, only to name the failure class
	var steps []string
	tags := []string{"kind=cont", "mode=" + sp.Mode}
	raised := 0
	size := 0
	for _, op := range sp.Ops {
		var coqOp, name string
		var a, b c11View
		var el []error
		size++
		size += c11KindCost(op)
		var act func()
		switch op.Op {
		case "add":
			var e error
			id := -1
			if op.E != 0 {
				id, e = x.errOf(op.E)
				raised++
			}
			coqOp = "OpAdd " + c11ErrCoq(id)
			name = fmt.Sprintf("AddError(%s)", c11ErrName(id))
			if sp.Mode != "nil" && id >= 0 {
				exp = append(exp, id)
			}
			act = func() { ec.AddError(e) }
		case "addlist":
			if op.L == nil {
				coqOp = "OpAddList None"
				name = "AddErrorList(nil)"
			} else {
				el = make([]error, len(*op.L))
				var xs, ns []string
				for i, k := range *op.L {
					id := -1
					if k != 0 {
						id, el[i] = x.errOf(k)
						raised++
						if sp.Mode != "nil" {
							exp = append(exp, id)
						}
					}
					xs = append(xs, c11ErrCoq(id))
					ns = append(ns, c11ErrName(id))
				}
				size += len(el)
				coqOp = "OpAddList (Some " + cqList(xs) + ")"
				name = "AddErrorList([]error{" + strings.Join(ns, ", ") + "})"
			}
			act = func() { ec.AddErrorList(el) }
		case "addself":
			coqOp = "OpAddSelf"
			name = "AddErrorList(ec.Errors())"
			if sp.Mode != "nil" {
				exp = append(exp, exp...)
			}
			act = func() { ec.AddErrorList(ec.Errors()) }
		case "dump":
			coqOp = "OpErrors"
			name = `Errors(); fmt.Sprintf("%#v %v", ec, ec)`
			act = func() { _ = fmt.Sprintf("%#v %v %d", ec, ec, len(ec.Errors())) }
		default:
			coqOp = "OpErrors"
			name = "Errors()"
			act = func() { _ = ec.Errors() }
		}
		tags = append(tags, "op="+op.Op)
		goSnip = append(goSnip, "ec."+name)
		msg, panicked := c11Try(func() {
			act()
			a = x.view(ec.Errors())
			b = a
			if el != nil {
				// the caller reuses its slice: the container must not notice
				var s error = &c11Err{c11Sentinel}
				for i := range el {
					el[i] = s
				}
				b = x.view(ec.Errors())
			}
		})
		sd := c11StepDesc{Op: name, Expect: c11ViewOfLog(exp).String()}
		if panicked {
			sd.Panic = msg
			desc.Steps = append(desc.Steps, sd)
			steps = append(steps, cqPair(coqOp, "Panic"))
			if desc.Sig == "" {
				if sp.Mode == "nil" && (op.Op == "addlist" || op.Op == "addself") {
					desc.Sig = "D10-addlist-on-nil-container-panics"
				} else {
					desc.Sig = "container-panic:" + op.Op
				}
			}
			tags = append(tags, "outcome=panic")
			break
		}
		sd.Errors, sd.After = a.String(), b.String()
		want := c11ViewOfLog(exp)
		if !a.eq(want) || !b.eq(want) {
			switch {
			case !a.eq(want) && c11Has(a.Ids, -1):
				sd.Wrong = "nil entry in Errors()"
			case !a.eq(want) && !a.Nil && len(a.Ids) == 0:
				sd.Wrong = "Errors() is empty but not nil"
			case !a.eq(want):
				sd.Wrong = "Errors() is not the list of non-nil errors added"
			default:
				sd.Wrong = "Errors() changed when the caller overwrote the slice it had passed"
			}
			if desc.Sig == "" {
				switch {
				case !a.eq(want) && c11Has(a.Ids, -1) && op.Op == "addlist":
					desc.Sig = "D10-addlist-keeps-nil-entries"
				case a.eq(want) && op.Op == "addlist":
					desc.Sig = "D10-addlist-aliases-caller-slice"
				case c11HasPart(x, a.Ids):
					desc.Sig = "container-part-of-a-compound-error-in-log"
				default:
					desc.Sig = "container-wrong-log:" + op.Op
				}
			}
		}
		desc.Steps = append(desc.Steps, sd)
		if a.eq(b) {
			steps = append(steps, "s1 ("+coqOp+") "+a.Coq())
		} else {
			steps = append(steps, "s2 ("+coqOp+") "+a.Coq()+" "+b.Coq())
		}
	}
	desc.Go = strings.Join(goSnip, "; ")
	desc.Foreign = x.unexpected
	desc.Kinds = x.kinds
	term := fmt.Sprintf("(CCont %s %s)", mode, cqList(steps))
	if sp.Ek != 0 {
		size++
	}
	return CaseOut{Coq: term, Desc: desc, Size: size, Tags: c11Uniq(append(tags, x.kindTags...)), Key: term, Nontrivial: raised > 0}
}

func c11ErrName(id int) string {
	if id < 0 {
		return "nil"
	}
	return fmt.Sprintf("e%d", id)
}

func c11HasPart(x *c11Ids, ids []int) bool {
	for _, id := range ids {
		if x.parts[id] {
			return true
		}
	}
	return false
}

func c11Has(xs []int, v int) bool {
	for _, x := range xs {
		if x == v {
			return true
		}
	}
	return false
}

func c11KindCost(op c11Op) int {
	n := 0
	if op.Do != 0 {
		n++
	}
	if op.Ek != 0 {
		n++
	}
	if op.E > 1 {
		n++
	}
	if op.L != nil {
		for _, k := range *op.L {
			if k > 1 {
				n++
			}
		}
	}
	return n
}

func c11Min3(n int) int {
	if n > 3 {
		return 3
	}
	return n
}

func c11Uniq(xs []string) []string {
	seen := map[string]bool{}
	var out []string
	for _, x := range xs {
		if !seen[x] {
			seen[x] = true
			out = append(out, x)
		}
	}
	return out
}

// ------------------------------------------------------------ table cases

type c11Cb struct {
	h              *c11Table
	set            string // tableItself tableCell tableRow colItself colCell rowItself rowCell cell
	when, pat, cnt int
	ek, do         int
}

// the nested table a callback may prepare for rendering: an error sink of its
// own.  In the Coq history it is the never-attached row number c11InnerID: an
// error one of ITS callbacks returns is the event `RowAddError c11InnerID e`,
// its Errors() is reported as that row's, and must be exactly those errors.
const c11InnerID = 200

type c11InnerCb struct{ h *c11Table }

func (cb *c11InnerCb) UpdateProperties(o tabular.PropertyOwner) error {
	h := cb.h
	id, e := h.x.fresh()
	h.emit(fmt.Sprintf("RowAddError %d (e %d)", c11InnerID, id), fmt.Sprintf("a callback of the nested table returns e%d", id))
	h.raise(c11InnerID, id, "nested-table-callback")
	return e
}

func (h *c11Table) innerTable() *tabular.ATable {
	if h.inner == nil {
		in := tabular.New()
		in.AddRowItems("inner")
		cb := &c11InnerCb{h}
		in.RegisterPropertyCallback(in, tabular.CB_AT_RENDER_PRECELL, tabular.CB_ON_ITSELF, cb)
		in.RegisterPropertyCallback(in, tabular.CB_AT_RENDER, tabular.CB_ON_CELL, cb)
		in.RegisterPropertyCallback(in, tabular.CB_AT_RENDER, tabular.CB_ON_CELL, cb)
		h.inner = in
	}
	return h.inner
}

// what a callback does to the table from inside (only an outermost callback
// acts, so that a cell added from a cell callback does not recurse)
func (cb *c11Cb) act(o tabular.PropertyOwner, site string, r int) {
	h := cb.h
	if cb.do == 0 || h.depth > 1 {
		return
	}
	var row *tabular.Row
	rid := -1
	switch v := o.(type) {
	case *tabular.Row:
		row = v
		if id, ok := h.rowID[v]; ok {
			rid = id
		} else if c11SiteHasRow(site) { // a row the running API call is still making
			rid = r
			h.rows[rid], h.rowID[v] = v, rid
		}
	case *tabular.Cell:
		if c11SiteHasRow(site) && h.rows[r] != nil {
			row, rid = h.rows[r], r
		}
	}
	switch cb.do {
	case 1:
		id, e := h.x.fresh()
		if row != nil && rid >= 0 && h.taken[rid] {
			h.emit(fmt.Sprintf("OtherRowAddError %d (e %d)", rid, id), fmt.Sprintf("inside the callback: row %d (now the other table's) AddError e%d", rid, id))
			h.raise(rid, id, "rowerr-inside-callback")
			h.tags = append(h.tags, "callback-records-on-taken-row@"+site)
			row.AddError(e)
		} else if row != nil && rid >= 0 {
			h.emit(fmt.Sprintf("RowAddError %d (e %d)", rid, id), fmt.Sprintf("inside the callback: row %d AddError e%d", rid, id))
			h.raise(rid, id, "rowerr-inside-callback")
			h.tags = append(h.tags, "callback-records-on-row@"+site)
			row.AddError(e)
		} else {
			h.emit(fmt.Sprintf("TableAddError (e %d)", id), fmt.Sprintf("inside the callback: table AddError e%d", id))
			h.raise(-1, id, "tblerr-inside-callback")
			h.tags = append(h.tags, "callback-records-on-table@"+site)
			h.t.AddError(e)
		}
	case 2:
		if row == nil || rid < 0 || h.sep[rid] || row.Cells() == nil {
			return
		}
		k, kr := h.curKind, h.curRow
		h.curKind, h.curRow = "rowadd", rid
		h.tags = append(h.tags, "callback-adds-a-cell@"+site)
		h.evDesc = append(h.evDesc, fmt.Sprintf("inside the callback: row %d Add(cell)", rid))
		row.Add(tabular.NewCell("#computed"))
		h.curKind, h.curRow = k, kr
	case 3:
		in := h.innerTable()
		k, kr := h.curKind, h.curRow
		h.curKind = "render-nested"
		h.tags = append(h.tags, "callback-renders-nested-table@"+site)
		h.evDesc = append(h.evDesc, "inside the callback: nested.InvokeRenderCallbacks()")
		in.InvokeRenderCallbacks()
		h.curKind, h.curRow = k, kr
	}
}

type c11Table struct {
	x       *c11Ids
	t       *tabular.ATable
	rows    map[int]*tabular.Row
	rowID   map[*tabular.Row]int
	order   []int // ids of the table's rows, in table order
	joined  map[int]bool
	sep     map[int]bool
	hdrID   int
	nextHdr int
	curKind string
	curRow  int
	depth   int
	inner   *tabular.ATable
	events  []string
	evDesc  []string
	// Go-side copy of the expected logs, only to name the failure class
	expTable   []int
	pending    map[int][]int
	origin     map[int]string
	srcOf      map[int]int
	wasPending map[int]bool
	raised     int
	tags       []string
	// a second table beside the one under test (made on first use): rows of
	// either kind - still detached, or already rows of t - are added to it
	u        *tabular.ATable
	taken    map[int]bool // the row reports to u now
	cellSeen map[*tabular.Cell]int
	expOther []int // Go-side copy of u's expected log
}

func (h *c11Table) other() *tabular.ATable {
	if h.u == nil {
		h.u = tabular.New()
		h.tags = append(h.tags, "second-table")
	}
	return h.u
}

// the call sites that hand a callback's error to the row, not to the table
func c11SiteViaRow(s string) bool {
	switch s {
	case "SRowCellAdd", "SColCellRowAdd", "STblCellRowAdd", "SColCellAddRow", "STblCellAddRow", "SColCellPre", "SColCellPost":
		return true
	}
	return false
}

// rowOfCell finds the row a cell lives in by the cell's address (a row that
// another table has taken reports that table's row number in Location()).
func (h *c11Table) rowOfCell(c *tabular.Cell) (int, bool) {
	for id, r := range h.rows {
		cells := r.Cells()
		for i := range cells {
			if &cells[i] == c {
				h.cellSeen[c] = id
				return id, true
			}
		}
	}
	// a pointer into a backing array the row has since outgrown (a callback
	// added a cell during the pass): remembered from the snapshot
	id, ok := h.cellSeen[c]
	return id, ok
}

// snapshotCells remembers where every cell of every known row lives now
func (h *c11Table) snapshotCells() {
	for id, r := range h.rows {
		cells := r.Cells()
		for i := range cells {
			h.cellSeen[&cells[i]] = id
		}
	}
}

var c11DoName = []string{"nothing", "AddError-on-target", "row.Add(cell)", "nested.InvokeRenderCallbacks()"}
var c11WhenName = []string{"CB_AT_ADD", "CB_AT_RENDER_PRECELL", "CB_AT_RENDER", "CB_AT_RENDER_POSTCELL"}
var c11TargetName = []string{"CB_ON_ITSELF", "CB_ON_CELL", "CB_ON_ROW"}

func (h *c11Table) raise(src int, id int, origin string) {
	if id < 0 {
		return
	}
	h.raised++
	h.origin[id] = origin
	h.srcOf[id] = src
	if src >= 0 && h.taken[src] {
		h.expOther = append(h.expOther, id)
		return
	}
	if src < 0 || h.joined[src] {
		h.expTable = append(h.expTable, id)
	} else {
		h.pending[src] = append(h.pending[src], id)
		h.wasPending[id] = true
	}
}

// raiseHere: an error handed to the table under test directly, whatever the
// row it was raised for reports to
func (h *c11Table) raiseHere(src int, id int, origin string) {
	if id < 0 {
		return
	}
	h.raised++
	h.origin[id] = origin
	h.srcOf[id] = src
	h.expTable = append(h.expTable, id)
}

// callback origins grouped by time, so that a defect common to every site is
// one class and not twenty-four
func c11Coarse(origin string) string {
	if !strings.HasPrefix(origin, "cb:") {
		return origin
	}
	site := strings.Split(origin, ":")[1]
	switch {
	case strings.HasSuffix(site, "RowAdd") || site == "SRowCellAdd":
		return "callback-error-at-Row.Add"
	case strings.HasSuffix(site, "AddRow"):
		return "callback-error-at-AddRow"
	case strings.HasSuffix(site, "AddHeaders"):
		return "callback-error-at-AddHeaders"
	}
	return "callback-error-at-render"
}

func (h *c11Table) emit(coq, human string) {
	h.events = append(h.events, coq)
	h.evDesc = append(h.evDesc, human)
}

// which invokePropertyCallbacks call is this?  From what was registered and
// the API call in progress; "" = a firing the repaired source has no site for.
func (cb *c11Cb) site() string {
	k := cb.h.curKind
	switch cb.when {
	case 0:
		switch cb.set {
		case "rowCell":
			if k == "rowadd" {
				return "SRowCellAdd"
			}
		case "colCell":
			switch k {
			case "rowadd":
				return "SColCellRowAdd"
			case "addrow":
				return "SColCellAddRow"
			case "headers":
				return "SColCellAddHeaders"
			}
		case "tableCell":
			switch k {
			case "rowadd":
				return "STblCellRowAdd"
			case "addrow":
				return "STblCellAddRow"
			case "headers":
				return "STblCellAddHeaders"
			}
		case "rowItself":
			if k == "addrow" {
				return "SRowItselfAddRow"
			}
		case "tableRow":
			switch k {
			case "addrow":
				return "STblRowAddRow"
			case "headers":
				return "STblRowAddHeaders"
			}
		}
	case 1:
		if k == "render" {
			switch cb.set {
			case "tableItself":
				return "STblItselfPre"
			case "colItself":
				return "SColItselfPre"
			case "rowItself":
				return "SRowItselfPre"
			case "tableCell":
				return "STblCellPre"
			case "colCell":
				return "SColCellPre"
			case "rowCell":
				return "SRowCellPre"
			}
		}
	case 2:
		if k == "render" {
			switch cb.set {
			case "tableCell":
				return "STblCellRender"
			case "cell":
				return "SCellRender"
			}
		}
	case 3:
		if k == "render" {
			switch cb.set {
			case "tableItself":
				return "STblItselfPost"
			case "colItself":
				return "SColItselfPost"
			case "rowItself":
				return "SRowItselfPost"
			case "tableCell":
				return "STblCellPost"
			case "colCell":
				return "SColCellPost"
			case "rowCell":
				return "SRowCellPost"
			}
		}
	}
	return ""
}

func c11SiteHasRow(s string) bool {
	switch s {
	case "STblItselfPre", "SColItselfPre", "SColItselfPost", "STblItselfPost":
		return false
	}
	return true
}

func (cb *c11Cb) UpdateProperties(o tabular.PropertyOwner) error {
	h := cb.h
	cb.cnt++
	if h.curKind == "otheradd" || h.curKind == "otherrender" {
		return cb.firesInOther(o)
	}
	site := cb.site()
	if site == "" {
		h.tags = append(h.tags, "unexpected-firing")
		site = "STblItselfPre"
	}
	r := 0
	if c11SiteHasRow(site) {
		r = h.curRow
		if h.curKind == "render" {
			switch v := o.(type) {
			case *tabular.Cell:
				if id, ok := h.rowOfCell(v); ok && len(h.taken) > 0 {
					r = id
				} else if n := v.Location().Row; n >= 1 && n <= len(h.order) {
					r = h.order[n-1]
				} else {
					r = h.hdrID
				}
			case *tabular.Row:
				r = h.rowID[v]
			}
		}
	}
	fail := cb.pat == 0 || (cb.pat == 1 && cb.cnt%2 == 1)
	h.tags = append(h.tags, "fires="+site)
	h.depth++
	cb.act(o, site, r)
	h.depth--
	if h.depth > 0 {
		h.tags = append(h.tags, "nested-firing="+site)
	}
	// a row the other table has taken: what is handed to the row is that table's
	elsewhere := c11SiteHasRow(site) && h.taken[r] && c11SiteViaRow(site)
	if !fail {
		if elsewhere {
			h.emit(fmt.Sprintf("OtherRowAddError %d None", r), fmt.Sprintf("callback at %s for row %d (now the other table's) returns nil", site, r))
		} else {
			h.emit(fmt.Sprintf("CF %s %d None", site, r), fmt.Sprintf("callback at %s for row %d returns nil", site, r))
		}
		return nil
	}
	id, e := h.x.freshKind(cb.ek - 1)
	if elsewhere {
		h.emit(fmt.Sprintf("OtherRowAddError %d (e %d)", r, id), fmt.Sprintf("callback at %s for row %d (now the other table's) returns e%d", site, r, id))
		h.raise(r, id, "cb:"+site+":taken-row")
		h.tags = append(h.tags, "fails-on-taken-row="+site)
		return e
	}
	if c11SiteHasRow(site) && h.taken[r] {
		// handed to the table under test directly (its render pass still visits the row)
		h.emit(fmt.Sprintf("CF %s %d (e %d)", site, r, id), fmt.Sprintf("callback at %s for row %d (now the other table's) returns e%d to the table", site, r, id))
		h.raiseHere(r, id, "cb:"+site)
		h.tags = append(h.tags, "fails-for-taken-row="+site)
		return e
	}
	origin := "cb:" + site
	if site == "SRowCellAdd" && !h.joined[r] && h.rows[r] != nil && h.rows[r].ErrorContainer == nil {
		origin += ":row-without-container"
	}
	h.emit(fmt.Sprintf("CF %s %d (e %d)", site, r, id), fmt.Sprintf("callback at %s for row %d returns e%d", site, r, id))
	src := -1
	if c11SiteHasRow(site) {
		src = r
	}
	h.raise(src, id, origin)
	h.tags = append(h.tags, "fails="+site)
	return e
}

// a callback that fires while the OTHER table's AddRow or render pass runs (a
// row's own callbacks travel with the row): whatever it returns is handed to
// that table's container or to the row, which reports there by then
func (cb *c11Cb) firesInOther(o tabular.PropertyOwner) error {
	h := cb.h
	kind := h.curKind
	h.tags = append(h.tags, "fires-in-"+kind+"="+cb.set)
	r := h.curRow
	switch v := o.(type) {
	case *tabular.Row:
		if id, ok := h.rowID[v]; ok {
			r = id
		}
	case *tabular.Cell:
		if id, ok := h.rowOfCell(v); ok {
			r = id
		}
	}
	h.depth++
	cb.act(o, "SRowItselfAddRow", r)
	h.depth--
	h.curKind = kind
	fail := cb.pat == 0 || (cb.pat == 1 && cb.cnt%2 == 1)
	if !fail {
		h.emit("OtherAddError None", "a callback running inside the other table's "+kind[5:]+" returns nil")
		return nil
	}
	id, e := h.x.freshKind(cb.ek - 1)
	h.emit(fmt.Sprintf("OtherAddError (e %d)", id), fmt.Sprintf("a callback running inside the other table's %s returns e%d", kind[5:], id))
	h.raised++
	h.origin[id], h.srcOf[id] = "cb:"+kind, -2
	h.expOther = append(h.expOther, id)
	return e
}

func (h *c11Table) register(op c11Op) (string, bool) {
	var owner tabular.PropertyOwner
	var set, oname string
	switch op.Owner {
	case "table":
		owner, oname = h.t, "t"
		set = []string{"tableItself", "tableCell", "tableRow"}[op.Target%3]
	case "col":
		c := h.t.Column(op.C)
		if c == nil {
			return "", false
		}
		owner, oname = c, fmt.Sprintf("t.Column(%d)", op.C)
		set = []string{"colItself", "colCell", ""}[op.Target%3]
	case "row":
		r := h.rows[op.R]
		if r == nil {
			return "", false
		}
		owner, oname = r, fmt.Sprintf("row%d", op.R)
		set = []string{"rowItself", "rowCell", "rowItself"}[op.Target%3]
	case "cell":
		r := h.rows[op.R]
		if r == nil || op.C < 1 || op.C > len(r.Cells()) {
			return "", false
		}
		owner, oname = &r.Cells()[op.C-1], fmt.Sprintf("&row%d.Cells()[%d]", op.R, op.C-1)
		set = []string{"cell", "cell", ""}[op.Target%3]
	default:
		return "", false
	}
	cb := &c11Cb{h: h, set: set, when: op.When % 4, pat: op.Pat, ek: op.Ek, do: op.Do % 4}
	tg := tabular.CB_ON_ITSELF
	switch op.Target % 3 {
	case 1:
		tg = tabular.CB_ON_CELL
	case 2:
		tg = tabular.CB_ON_ROW
	}
	wh := tabular.CB_AT_ADD
	switch op.When % 4 {
	case 1:
		wh = tabular.CB_AT_RENDER_PRECELL
	case 2:
		wh = tabular.CB_AT_RENDER
	case 3:
		wh = tabular.CB_AT_RENDER_POSTCELL
	}
	err := h.t.RegisterPropertyCallback(owner, wh, tg, cb)
	name := fmt.Sprintf("t.RegisterPropertyCallback(%s, %s, %s, failing(pat=%d, kind=%d, does=%s))", oname, c11WhenName[op.When%4], c11TargetName[op.Target%3], op.Pat, op.Ek-1, c11DoName[op.Do%4])
	if err != nil {
		name += " // refused"
		h.tags = append(h.tags, "reg-refused")
	} else {
		h.tags = append(h.tags, "reg="+set+"@"+c11WhenName[op.When%4])
	}
	return name, true
}

func (h *c11Table) lastRow() *tabular.Row {
	rr := h.t.AllRows()
	return rr[len(rr)-1]
}

// do runs one op against the library; ok=false: the op is outside the domain
// here (unknown row, second attach ...) and was skipped.
func (h *c11Table) do(op c11Op) (name string, act func(), ok bool) {
	t := h.t
	h.curKind, h.curRow = op.Op, op.R
	switch op.Op {
	case "block", "tblbig":
		return h.doVolume(op)
	case "newrow":
		// three ways to make a row that is not in a table; for all of them the
		// model's row is fresh_row (no container, not in a table)
		if h.rows[op.R] != nil {
			return "", nil, false
		}
		mk := func() *tabular.Row { return tabular.NewRow() }
		name = fmt.Sprintf("row%d := tabular.NewRow()", op.R)
		switch op.How % 3 {
		case 1:
			mk = func() *tabular.Row { return tabular.NewRowWithCapacity(op.N) }
			name = fmt.Sprintf("row%d := tabular.NewRowWithCapacity(%d)", op.R, op.N)
			h.tags = append(h.tags, "row-from=NewRowWithCapacity")
		case 2:
			mk = func() *tabular.Row { return t.NewRowSizedFor() }
			name = fmt.Sprintf("row%d := t.NewRowSizedFor()", op.R)
			h.tags = append(h.tags, "row-from=NewRowSizedFor")
		default:
			h.tags = append(h.tags, "row-from=NewRow")
		}
		if len(h.expTable) > 0 {
			h.tags = append(h.tags, "row-made-while-table-holds-errors")
		}
		return name, func() {
			r := mk()
			h.rows[op.R], h.rowID[r] = r, op.R
		}, true
	case "rowadd":
		r := h.rows[op.R]
		if r == nil {
			return "", nil, false
		}
		name = fmt.Sprintf("row%d.Add(tabular.NewCell(\"x\"))", op.R)
		if h.sep[op.R] && h.taken[op.R] {
			id := h.x.next
			h.x.next++
			h.x.curMisuse = id
			h.emit(fmt.Sprintf("OtherRowAddError %d (e %d)", op.R, id), fmt.Sprintf("Add on separator row %d (now the other table's): library error e%d", op.R, id))
			h.raise(op.R, id, "misuse-on-separator")
			h.tags = append(h.tags, "misuse-on-taken-separator")
			name += " // a separator, now also a row of the other table"
		} else if h.sep[op.R] {
			id := h.x.next
			h.x.next++
			h.x.curMisuse = id
			h.emit(fmt.Sprintf("RowAddOnSeparator %d %d%%N", op.R, id), fmt.Sprintf("Add on separator row %d: library error e%d", op.R, id))
			h.raise(op.R, id, "misuse-on-separator")
			h.tags = append(h.tags, "misuse-on-separator")
			name += " // a separator"
		} else if h.taken[op.R] {
			h.tags = append(h.tags, "rowadd-taken")
		} else if h.joined[op.R] {
			h.tags = append(h.tags, "rowadd-attached")
		} else {
			h.tags = append(h.tags, "rowadd-detached")
		}
		return name, func() { r.Add(tabular.NewCell("x")) }, true
	case "rowerr":
		r := h.rows[op.R]
		if r == nil {
			return "", nil, false
		}
		id := -1
		var e error
		if op.E != 0 {
			id, e = h.x.errOf(op.E)
		}
		if h.taken[op.R] {
			h.emit(fmt.Sprintf("OtherRowAddError %d %s", op.R, c11ErrCoq(id)), fmt.Sprintf("row %d (now the other table's) AddError %s", op.R, c11ErrName(id)))
		} else {
			h.emit(fmt.Sprintf("RowAddError %d %s", op.R, c11ErrCoq(id)), fmt.Sprintf("row %d AddError %s", op.R, c11ErrName(id)))
		}
		h.raise(op.R, id, "rowerr")
		if h.taken[op.R] {
			h.tags = append(h.tags, "rowerr-taken")
		} else if h.joined[op.R] {
			h.tags = append(h.tags, "rowerr-attached")
		} else {
			h.tags = append(h.tags, "rowerr-detached")
		}
		return fmt.Sprintf("row%d.AddError(%s)", op.R, c11ErrName(id)), func() { r.AddError(e) }, true
	case "tblerr":
		id := -1
		var e error
		if op.E != 0 {
			id, e = h.x.errOf(op.E)
		}
		h.emit("TableAddError "+c11ErrCoq(id), "table AddError "+c11ErrName(id))
		h.raise(-1, id, "tblerr")
		return fmt.Sprintf("t.AddError(%s)", c11ErrName(id)), func() { t.AddError(e) }, true
	case "tbllist":
		if op.L == nil {
			h.emit("TableAddErrorList None", "table AddErrorList nil")
			return "t.AddErrorList(nil)", func() { t.AddErrorList(nil) }, true
		}
		el := make([]error, len(*op.L))
		var xs, ns []string
		for i, k := range *op.L {
			id := -1
			if k != 0 {
				id, el[i] = h.x.errOf(k)
			}
			xs = append(xs, c11ErrCoq(id))
			ns = append(ns, c11ErrName(id))
			h.raise(-1, id, "tbllist")
		}
		h.emit("TableAddErrorList (Some "+cqList(xs)+")", "table AddErrorList ["+strings.Join(ns, " ")+"]")
		return "t.AddErrorList([]error{" + strings.Join(ns, ", ") + "})", func() { t.AddErrorList(el) }, true
	case "addrow":
		r := h.rows[op.R]
		if r == nil || h.joined[op.R] || h.taken[op.R] {
			return "", nil, false
		}
		h.attach(op.R)
		return fmt.Sprintf("t.AddRow(row%d)", op.R), func() { t.AddRow(r) }, true
	case "otheradd":
		// the row is added to ANOTHER table: a row still outside t, or one of t's
		// own rows (body row or separator).  At most once per row; header rows
		// are not reachable through the public API and stay out.
		r := h.rows[op.R]
		if r == nil || h.taken[op.R] || op.R >= 100 {
			return "", nil, false
		}
		u := h.other()
		name = fmt.Sprintf("u.AddRow(row%d)", op.R)
		switch {
		case h.sep[op.R]:
			h.tags = append(h.tags, "other-table-takes=separator-of-t")
		case h.joined[op.R]:
			h.tags = append(h.tags, "other-table-takes=row-of-t")
		default:
			h.tags = append(h.tags, "other-table-takes=detached-row")
		}
		if h.joined[op.R] {
			h.tags = append(h.tags, fmt.Sprintf("row-of-t-taken-while-t-holds-%d-errors", c11Min3(len(h.expTable))))
			h.expOther = append(h.expOther, h.expTable...)
		} else {
			h.expOther = append(h.expOther, h.pending[op.R]...)
		}
		h.emit(fmt.Sprintf("OtherAttachRow %d", op.R), fmt.Sprintf("the other table's AddRow takes row %d", op.R))
		h.taken[op.R] = true
		return name, func() { u.AddRow(r) }, true
	case "othererr":
		u := h.other()
		id := -1
		var e error
		if op.E != 0 {
			id, e = h.x.errOf(op.E)
		}
		h.emit("OtherAddError "+c11ErrCoq(id), "the other table AddError "+c11ErrName(id))
		if id >= 0 {
			h.raised++
			h.origin[id], h.srcOf[id] = "other-table-error", -2
			h.expOther = append(h.expOther, id)
		}
		return fmt.Sprintf("u.AddError(%s)", c11ErrName(id)), func() { u.AddError(e) }, true
	case "otherrender":
		// the other table's render pass: the callbacks of the rows it took fire there
		if h.u == nil {
			return "", nil, false
		}
		u := h.u
		h.snapshotCells()
		return "u.InvokeRenderCallbacks()", func() { u.InvokeRenderCallbacks() }, true
	case "otheritems":
		// the other table gets a row of its own: nothing error-wise
		u := h.other()
		items := make([]interface{}, op.N)
		for i := range items {
			items[i] = "own"
		}
		return fmt.Sprintf("u.AddRowItems(%d items)", op.N), func() { u.AddRowItems(items...) }, true
	case "appendnew":
		if h.rows[op.R] != nil {
			return "", nil, false
		}
		h.curKind = "addrow"
		h.tags = append(h.tags, "row-from=AppendNewRow")
		if len(h.expTable) > 0 {
			h.tags = append(h.tags, "row-made-while-table-holds-errors")
		}
		h.attach(op.R)
		return fmt.Sprintf("row%d := t.AppendNewRow()", op.R), func() {
			r := t.AppendNewRow()
			h.rows[op.R], h.rowID[r] = r, op.R
		}, true
	case "addrowitems":
		if h.rows[op.R] != nil {
			return "", nil, false
		}
		h.curKind = "addrow"
		h.tags = append(h.tags, "row-from=AddRowItems")
		if len(h.expTable) > 0 {
			h.tags = append(h.tags, "row-made-while-table-holds-errors")
		}
		h.attach(op.R)
		items := make([]interface{}, op.N)
		for i := range items {
			items[i] = "x"
		}
		return fmt.Sprintf("t.AddRowItems(%d items); row%d := last(t.AllRows())", op.N, op.R), func() {
			t.AddRowItems(items...)
			r := h.lastRow()
			h.rows[op.R], h.rowID[r] = r, op.R
		}, true
	case "sep":
		if h.rows[op.R] != nil {
			return "", nil, false
		}
		h.emit(fmt.Sprintf("AddSeparator %d", op.R), fmt.Sprintf("AddSeparator makes row %d", op.R))
		h.joined[op.R], h.sep[op.R] = true, true
		h.order = append(h.order, op.R)
		return fmt.Sprintf("t.AddSeparator(); row%d := last(t.AllRows())", op.R), func() {
			t.AddSeparator()
			r := h.lastRow()
			h.rows[op.R], h.rowID[r] = r, op.R
		}, true
	case "headers":
		id := h.nextHdr
		h.nextHdr++
		h.hdrID, h.curRow = id, id
		if len(h.expTable) > 0 {
			h.tags = append(h.tags, "headers-made-while-table-holds-errors")
		}
		h.joined[id] = true
		h.emit(fmt.Sprintf("AddHeaders %d", id), fmt.Sprintf("AddHeaders makes header row %d", id))
		items := make([]interface{}, op.N)
		for i := range items {
			items[i] = "h"
		}
		return fmt.Sprintf("t.AddHeaders(%d items)", op.N), func() { t.AddHeaders(items...) }, true
	case "reg":
		nm, ok := h.register(op)
		return nm, func() {}, ok
	case "render":
		if len(h.taken) > 0 {
			h.snapshotCells()
		}
		return "t.InvokeRenderCallbacks()", func() { t.InvokeRenderCallbacks() }, true
	case "dump":
		// every read-only way of looking at the table: nothing may change
		h.tags = append(h.tags, fmt.Sprintf("dump-with-%d-errors-in-table", c11Min3(len(h.expTable))))
		return `fmt.Sprintf("%#v %v", t, t); t.GoString(); GoString() of every row and cell; Errors(), AllRows(), Headers(), NRows(), NColumns(), CellAt, Location`, func() {
			_ = fmt.Sprintf("%#v %v %+v", t, t, t)
			_ = t.GoString()
			_, _, _, _ = t.Errors(), t.Headers(), t.NRows(), t.NColumns()
			for i, r := range t.AllRows() {
				_ = r.GoString()
				_ = fmt.Sprintf("%#v", r)
				_, _, _ = r.Errors(), r.Location(), r.IsSeparator()
				for j := range r.Cells() {
					c, _ := t.CellAt(tabular.CellLocation{Row: i + 1, Column: j + 1})
					if c != nil {
						_ = c.GoString()
						_ = fmt.Sprintf("%#v %v", c, c)
						_ = c.Location()
					}
				}
			}
			for _, r := range h.rows {
				_ = r.GoString()
				_ = r.Errors()
			}
			for i := range t.Headers() {
				c := t.Headers()[i]
				_ = (&c).GoString()
			}
		}, true
	}
	return "", nil, false
}

func (h *c11Table) attach(r int) {
	h.emit(fmt.Sprintf("AttachRow %d", r), fmt.Sprintf("AddRow attaches row %d", r))
	h.expTable = append(h.expTable, h.pending[r]...)
	h.joined[r] = true
	h.order = append(h.order, r)
}

func (h *c11Table) expectedRow(r int) c11View {
	if h.taken[r] {
		return c11ViewOfLog(h.expOther)
	}
	if h.joined[r] {
		return c11ViewOfLog(h.expTable)
	}
	return c11ViewOfLog(h.pending[r])
}

// name the class of the first wrong observation
func (h *c11Table) classify(got, want c11View, onRow bool, row int) string {
	count := func(xs []int) map[int]int {
		m := map[int]int{}
		for _, x := range xs {
			m[x]++
		}
		return m
	}
	g, w := count(got.Ids), count(want.Ids)
	for _, id := range want.Ids {
		if g[id] < w[id] {
			o := h.origin[id]
			src := h.srcOf[id]
			for _, g := range got.Ids {
				if h.x.parts[g] && h.x.partOf[g] == id {
					return "compound-error-replaced-by-its-parts"
				}
			}
			switch {
			case o == "misuse-on-separator":
				return "D11-separator-misuse-error-not-in-table"
			case o == "cb:SRowCellAdd:row-without-container" && onRow:
				return "D12-row-cell-callback-error-on-row-without-container-dropped"
			case src >= 0 && h.sep[src]:
				return "D11-separator-row-error-not-in-table"
			case !onRow && h.wasPending[id]:
				return "lost-at-attach:" + c11Coarse(o)
			default:
				return "lost:" + c11Coarse(o)
			}
		}
	}
	for _, id := range got.Ids {
		if g[id] > w[id] {
			if id < 0 {
				return "nil-entry-in-log"
			}
			if h.x.parts[id] {
				return "part-of-a-compound-error-in-log"
			}
			if o, ok := h.origin[id]; ok {
				if onRow && h.srcOf[id] != row {
					return "row-outside-table-shows-errors-not-its-own"
				}
				if !onRow && h.wasPending[id] {
					return "row-error-in-table-log-before-attach-or-twice:" + c11Coarse(o)
				}
				return "extra-or-duplicate:" + c11Coarse(o)
			}
			return "foreign-error-in-log"
		}
	}
	if !got.Nil && len(got.Ids) == 0 {
		return "empty-non-nil-log"
	}
	return "order"
}

func c11RunTable(sp c11Spec) CaseOut {
	h := &c11Table{x: newC11Ids(), t: tabular.New(), rows: map[int]*tabular.Row{}, rowID: map[*tabular.Row]int{},
		joined: map[int]bool{}, sep: map[int]bool{}, taken: map[int]bool{}, cellSeen: map[*tabular.Cell]int{}, hdrID: 0, nextHdr: 100, pending: map[int][]int{}, origin: map[int]string{}, srcOf: map[int]int{}, wasPending: map[int]bool{}}
	h.x.ek = sp.Ek
	desc := c11Desc{Kind: "table"}
	var steps []string
	var others []string // the other table's Errors() after each step ("None" while it does not exist)
	goSnip := []string{"t := tabular.New()"}
	size := 0
	h.tags = []string{"kind=table"}
	sigCorr := "" // a difference only the model comparison looks at
	for _, op := range sp.Ops {
		h.events, h.evDesc = nil, nil
		hadOther := h.u != nil
		name, act, ok := h.do(op)
		if !ok {
			desc.Skipped++
			continue
		}
		size++
		if op.L != nil {
			size += len(*op.L)
		}
		if op.Op != "newrow" {
			size += op.N
		}
		size += op.How // the plain constructor is the smaller replay
		size += c11KindCost(op)
		goSnip = append(goSnip, name)
		h.tags = append(h.tags, "op="+op.Op)
		var tv c11View
		ov := c11View{Nil: true}
		var ids []int
		var rvs []c11View
		msg, panicked := c11Try(func() {
			act()
			tv = h.x.view(h.t.Errors())
			if h.u != nil {
				ov = h.x.view(h.u.Errors())
			}
			for id := range h.rows {
				ids = append(ids, id)
			}
			sort.Ints(ids)
			for _, id := range ids {
				rvs = append(rvs, h.x.view(h.rows[id].ErrorContainer.Errors()))
			}
			if h.inner != nil {
				ids = append(ids, c11InnerID)
				rvs = append(rvs, h.x.view(h.inner.Errors()))
			}
		})
		h.x.curMisuse = -1
		h.depth = 0
		sd := c11StepDesc{Op: name, Events: h.evDesc, Expect: c11ViewOfLog(h.expTable).String()}
		if panicked {
			sd.Panic = msg
			desc.Steps = append(desc.Steps, sd)
			if sp.Kind == "vtable" {
				steps = append(steps, cqPair(c11CompressEvents(h.events), "Panic"))
			} else {
				steps = append(steps, cqPair(cqList(h.events), "Panic"))
			}
			others = append(others, "None")
			if desc.Sig == "" {
				desc.Sig = "panic:" + op.Op
			}
			h.tags = append(h.tags, "outcome=panic")
			break
		}
		sd.Table = tv.String()
		if h.u != nil {
			sd.Other = ov.String()
			if !hadOther {
				goSnip = append(goSnip[:len(goSnip)-1], "u := tabular.New()", goSnip[len(goSnip)-1])
			}
		}
		var rs, rc []string
		for i, id := range ids {
			if id == c11InnerID {
				rs = append(rs, fmt.Sprintf("nested-table(as row%d)=%s", id, rvs[i]))
			} else {
				rs = append(rs, fmt.Sprintf("row%d=%s", id, rvs[i]))
			}
			if rvs[i].eq(tv) && !tv.Nil {
				rc = append(rc, cqPair(fmt.Sprint(id), "t")) // the same list as the table's: shared, to keep cases.v small
			} else {
				rc = append(rc, cqPair(fmt.Sprint(id), rvs[i].Coq()))
			}
		}
		sd.Rows = strings.Join(rs, " ")
		if want := c11ViewOfLog(h.expTable); !tv.eq(want) {
			sd.Wrong = "Table.Errors() is not the expected log"
			if desc.Sig == "" {
				desc.Sig = h.classify(tv, want, false, -1)
				if strings.HasPrefix(op.Op, "other") {
					// nothing that is done to the other table is an event of this one
					desc.Sig = "log-changed-by-" + op.Op + "-on-another-table"
				}
			}
		} else {
			// rows outside the table first (the property's oracle looks at those),
			// then rows inside it (only the model comparison does)
			for pass := 0; pass < 2 && sd.Wrong == ""; pass++ {
				for i, id := range ids {
					if (h.joined[id] || h.taken[id]) != (pass == 1) {
						continue
					}
					if want := h.expectedRow(id); !rvs[i].eq(want) {
						sd.Wrong = fmt.Sprintf("row%d.Errors() is %s, expected %s", id, rvs[i], want)
						if desc.Sig == "" {
							switch {
							case pass == 0:
								desc.Sig = h.classify(rvs[i], want, true, id)
							case sigCorr != "":
							case h.taken[id]:
								sigCorr = "row-of-the-other-table-does-not-show-that-table-log"
							case h.sep[id]:
								sigCorr = "D11-separator-row-does-not-show-the-table-log"
							default:
								sigCorr = "attached-row-does-not-show-the-table-log"
							}
						}
						break
					}
				}
			}
		}
		if h.u != nil && sd.Wrong == "" {
			if want := c11ViewOfLog(h.expOther); !ov.eq(want) {
				sd.Wrong = fmt.Sprintf("the other table's Errors() is %s, expected %s", ov, want)
				if sigCorr == "" {
					sigCorr = "other-table-log"
				}
			}
		}
		desc.Steps = append(desc.Steps, sd)
		if sp.Kind == "vtable" {
			for i, id := range ids {
				if !(rvs[i].eq(tv) && !tv.Nil) {
					rc[i] = cqPair(fmt.Sprint(id), rvs[i].CoqV())
				}
			}
			steps = append(steps, cqPair(c11CompressEvents(h.events), "(let t := "+tv.CoqV()+" in Ok "+cqPair("t", cqList(rc))+")"))
		} else {
			steps = append(steps, cqPair(cqList(h.events), "(let t := "+tv.Coq()+" in Ok "+cqPair("t", cqList(rc))+")"))
		}
		others = append(others, ov.Coq())
	}
	if desc.Sig == "" {
		desc.Sig = sigCorr
	}
	if desc.Skipped > 0 {
		h.tags = append(h.tags, "ops-outside-domain-skipped")
	}
	desc.Go = strings.Join(goSnip, "; ")
	desc.Foreign = h.x.unexpected
	desc.Kinds = h.x.kinds
	term := "(CTab " + cqList(steps) + ")"
	if sp.Kind == "vtable" {
		term = "(CTabV " + cqList(steps) + ")"
		desc.Kind = "vtable"
		h.tags = append(h.tags, "kind=vtable", fmt.Sprintf("table-holds>=2^%d", c11Log2(len(h.expTable))))
	} else if h.u != nil {
		for i := range steps {
			steps[i] = cqPair(steps[i], others[i])
		}
		term = "(CTab2 " + cqList(steps) + ")"
	}
	if sp.Ek != 0 {
		size++
	}
	return CaseOut{Coq: term, Desc: desc, Size: size, Tags: c11Uniq(append(h.tags, h.x.kindTags...)), Key: term, Nontrivial: h.raised > 0}
}

// ------------------------------------------------------------ generators

func c11L(xs ...int) *[]int { return &xs }

var c11ContAlphabet = []c11Op{
	{Op: "add", E: 0},
	{Op: "add", E: 1},
	{Op: "addlist"},
	{Op: "addlist", L: c11L()},
	{Op: "addlist", L: c11L(1)},
	{Op: "addlist", L: c11L(0)},
	{Op: "addlist", L: c11L(1, 0, 1)},
	{Op: "errors"},
}

func c11Seqs(alpha []c11Op, n int, f func([]c11Op)) {
	var rec func(pre []c11Op, k int)
	rec = func(pre []c11Op, k int) {
		if k == 0 {
			f(append([]c11Op{}, pre...))
			return
		}
		for _, a := range alpha {
			rec(append(pre, a), k-1)
		}
	}
	rec(nil, n)
}

// every registration the matrix of RegisterPropertyCallback accepts, on the
// owners a scenario offers
func c11Registrations() []c11Op {
	var out []c11Op
	for when := 0; when < 4; when++ {
		for target := 0; target < 3; target++ {
			out = append(out, c11Op{Op: "reg", Owner: "table", When: when, Target: target})
		}
		for target := 0; target < 2; target++ {
			out = append(out, c11Op{Op: "reg", Owner: "col", C: 1, When: when, Target: target})
			out = append(out, c11Op{Op: "reg", Owner: "row", R: 1, When: when, Target: target})
		}
		out = append(out, c11Op{Op: "reg", Owner: "col", C: 0, When: when, Target: 0})
		out = append(out, c11Op{Op: "reg", Owner: "cell", R: 1, C: 1, When: when, Target: 0})
	}
	return out
}

// one build that passes through every situation; a registration is inserted at
// every position
var c11Scenario = []c11Op{
	{Op: "headers", N: 2},
	{Op: "newrow", R: 1},
	{Op: "rowadd", R: 1},
	{Op: "rowerr", R: 1, E: 1},
	{Op: "rowadd", R: 1},
	{Op: "addrow", R: 1},
	{Op: "rowadd", R: 1},
	{Op: "sep", R: 2},
	{Op: "rowadd", R: 2},
	{Op: "addrowitems", R: 3, N: 2},
	{Op: "dump"},
	{Op: "headers", N: 1},
	{Op: "render"},
	{Op: "render"},
	{Op: "dump"},
}

// a second build, where the row is in the table before it gets its cells
var c11ScenarioB = []c11Op{
	{Op: "headers", N: 2},
	{Op: "appendnew", R: 1},
	{Op: "rowadd", R: 1},
	{Op: "rowadd", R: 1},
	{Op: "sep", R: 2},
	{Op: "rowadd", R: 2},
	{Op: "render"},
	{Op: "dump"},
}

var c11TableAlphabet = []c11Op{
	{Op: "rowadd", R: 1},
	{Op: "rowerr", R: 1, E: 1},
	{Op: "rowerr", R: 1, E: 0},
	{Op: "addrow", R: 1},
	{Op: "sep", R: 2},
	{Op: "rowadd", R: 2},
	{Op: "tblerr", E: 1},
	{Op: "tbllist", L: c11L(1, 0, 1)},
	{Op: "headers", N: 1},
	{Op: "render"},
	// the other ways a row comes to exist, each usable once per history
	{Op: "newrow", R: 3, How: 2},
	{Op: "addrow", R: 3},
	{Op: "appendnew", R: 4},
	{Op: "addrowitems", R: 5, N: 1},
	// looking at everything (%#v, GoString, the read-only accessors)
	{Op: "dump"},
}

// who already holds errors when the row under study comes to exist
func c11Situations() (map[string][]c11Op, []string) {
	situations := map[string][]c11Op{
		"no-errors":       {},
		"table-error":     {{Op: "tblerr", E: 1}},
		"table-list":      {{Op: "tbllist", L: c11L(1, 0, 1)}, {Op: "tblerr", E: 1}},
		"detached-other":  {{Op: "newrow", R: 1}, {Op: "rowerr", R: 1, E: 1}},
		"attached-other":  {{Op: "newrow", R: 1}, {Op: "rowerr", R: 1, E: 1}, {Op: "addrow", R: 1}, {Op: "rowerr", R: 1, E: 1}},
		"separator-error": {{Op: "sep", R: 2}, {Op: "rowadd", R: 2}},
		"callback-errors": {{Op: "reg", Owner: "table", When: 0, Target: 2}, {Op: "reg", Owner: "table", When: 0, Target: 1}, {Op: "headers", N: 1}, {Op: "addrowitems", R: 1, N: 1}},
		"render-errors":   {{Op: "reg", Owner: "table", When: 1, Target: 0}, {Op: "render"}},
		"all":             {{Op: "tblerr", E: 1}, {Op: "newrow", R: 1}, {Op: "rowerr", R: 1, E: 1}, {Op: "sep", R: 2}, {Op: "rowadd", R: 2}, {Op: "appendnew", R: 3}, {Op: "rowerr", R: 3, E: 1}},
	}
	names := []string{"no-errors", "table-error", "table-list", "detached-other", "attached-other", "separator-error", "callback-errors", "render-errors", "all"}
	return situations, names
}

// c11CreationCases: situation (who already holds errors) x creation path x
// what happens to the new row, twice over so that a second row made the same
// way meets the errors of the first.
func c11CreationCases() []c11Spec {
	situations, names := c11Situations()
	// a creation path makes row r; detached paths are followed by the uses given
	type path struct {
		name     string
		make     func(r int) []c11Op
		detached bool
	}
	paths := []path{
		{"NewRow", func(r int) []c11Op { return []c11Op{{Op: "newrow", R: r}} }, true},
		{"NewRowWithCapacity", func(r int) []c11Op { return []c11Op{{Op: "newrow", R: r, How: 1, N: 2}} }, true},
		{"NewRowSizedFor", func(r int) []c11Op { return []c11Op{{Op: "newrow", R: r, How: 2}} }, true},
		{"AppendNewRow", func(r int) []c11Op { return []c11Op{{Op: "appendnew", R: r}} }, false},
		{"AddRowItems0", func(r int) []c11Op { return []c11Op{{Op: "addrowitems", R: r}} }, false},
		{"AddRowItems2", func(r int) []c11Op { return []c11Op{{Op: "addrowitems", R: r, N: 2}} }, false},
		{"AddHeaders", func(r int) []c11Op { return []c11Op{{Op: "headers", N: 2}} }, false},
		{"AddSeparator", func(r int) []c11Op { return []c11Op{{Op: "sep", R: r}} }, false},
	}
	uses := [][]string{{}, {"rowerr"}, {"rowadd"}, {"rowerr", "rowadd", "rowerr"}}
	var out []c11Spec
	for _, sn := range names {
		for _, p := range paths {
			for _, u := range uses {
				if !p.detached && len(u) > 1 {
					continue
				}
				ops := append([]c11Op{}, situations[sn]...)
				for _, r := range []int{5, 6} {
					ops = append(ops, p.make(r)...)
					for _, x := range u {
						ops = append(ops, c11Op{Op: x, R: r, E: 1})
					}
					if p.detached {
						ops = append(ops, c11Op{Op: "addrow", R: r})
					}
					for _, x := range u {
						ops = append(ops, c11Op{Op: x, R: r, E: 1})
					}
					ops = append(ops, c11Op{Op: "tblerr", E: 1})
				}
				ops = append(ops, c11Op{Op: "dump"}, c11Op{Op: "render"})
				out = append(out, c11Spec{Kind: "table", Ops: ops})
			}
		}
	}
	return out
}

// c11SharingCases: a row is added to ANOTHER table - while it is still outside
// the table under test, or when it already is one of its rows (made in every
// way a row is made) - in every situation of errors already held; afterwards
// both the shared row and the table under test go on collecting errors.
func c11SharingCases() []c11Spec {
	situations, names := c11Situations()
	const r, r2 = 7, 8
	origins := [][]c11Op{
		{{Op: "newrow", R: r}, {Op: "rowadd", R: r}},
		{{Op: "newrow", R: r}, {Op: "rowadd", R: r}, {Op: "rowerr", R: r, E: 1}},
		{{Op: "newrow", R: r}, {Op: "rowadd", R: r}, {Op: "addrow", R: r}},
		{{Op: "newrow", R: r, How: 2}, {Op: "rowerr", R: r, E: 1}, {Op: "addrow", R: r}, {Op: "rowerr", R: r, E: 1}},
		{{Op: "appendnew", R: r}},
		{{Op: "addrowitems", R: r, N: 2}},
		{{Op: "sep", R: r}},
	}
	others := [][]c11Op{
		{},
		{{Op: "otheritems", N: 1}, {Op: "othererr", E: 1}},
	}
	afters := [][]c11Op{
		{{Op: "tblerr", E: 1}},
		{{Op: "rowerr", R: r, E: 1}, {Op: "rowadd", R: r}, {Op: "tblerr", E: 1}},
		{{Op: "sep", R: r2}, {Op: "rowadd", R: r2}, {Op: "rowerr", R: r, E: 1}, {Op: "otheradd", R: r2}, {Op: "rowadd", R: r2}},
		{{Op: "render"}, {Op: "appendnew", R: r2}, {Op: "rowerr", R: r2, E: 1}, {Op: "othererr", E: 1}, {Op: "otherrender"}, {Op: "dump"}},
	}
	var out []c11Spec
	for _, sn := range names {
		for _, o := range origins {
			for _, u := range others {
				for _, a := range afters {
					ops := append([]c11Op{}, situations[sn]...)
					ops = append(ops, o...)
					ops = append(ops, u...)
					ops = append(ops, c11Op{Op: "otheradd", R: r}, c11Op{Op: "dump"})
					ops = append(ops, a...)
					ops = append(ops, c11Op{Op: "render"})
					out = append(out, c11Spec{Kind: "table", Ops: ops})
				}
			}
		}
	}
	return out
}

// a build in which rows are shared with a second table; a registration is
// inserted at two positions (before the first row gets its cell, and just
// before the other table takes it)
var c11ScenarioS = []c11Op{
	{Op: "headers", N: 2},
	{Op: "newrow", R: 1},
	{Op: "rowadd", R: 1},
	{Op: "rowerr", R: 1, E: 1},
	{Op: "addrow", R: 1},
	{Op: "sep", R: 2},
	{Op: "rowadd", R: 2},
	{Op: "addrowitems", R: 3, N: 2},
	{Op: "otheritems", N: 1},
	{Op: "otheradd", R: 1},
	{Op: "rowadd", R: 1},
	{Op: "rowerr", R: 1, E: 1},
	{Op: "tblerr", E: 1},
	{Op: "otheradd", R: 2},
	{Op: "rowadd", R: 2},
	{Op: "render"},
	{Op: "newrow", R: 4},
	{Op: "rowadd", R: 4},
	{Op: "rowerr", R: 4, E: 1},
	{Op: "otheradd", R: 4},
	{Op: "rowadd", R: 4},
	{Op: "rowadd", R: 3},
	{Op: "otherrender"},
	{Op: "render"},
	{Op: "dump"},
}

// the routing alphabet with the second table in it
var c11ShareAlphabet = []c11Op{
	{Op: "rowadd", R: 1},
	{Op: "rowerr", R: 1, E: 1},
	{Op: "addrow", R: 1},
	{Op: "sep", R: 2},
	{Op: "rowadd", R: 2},
	{Op: "tblerr", E: 1},
	{Op: "render"},
	{Op: "appendnew", R: 4},
	{Op: "otheradd", R: 1},
	{Op: "otheradd", R: 2},
	{Op: "otheradd", R: 4},
	{Op: "othererr", E: 1},
}

func c11HasOp(ops []c11Op, name string) bool {
	for _, o := range ops {
		if o.Op == name {
			return true
		}
	}
	return false
}

func c11RandOp2(r *RNG, nRows int) c11Op {
	row := 1 + r.Intn(nRows)
	switch r.Intn(10) {
	case 0, 1:
		return c11Op{Op: "otheradd", R: row}
	case 2:
		return pick(r, []c11Op{{Op: "othererr", E: 1}, {Op: "othererr", E: 0}, {Op: "otheritems", N: r.Intn(3)}, {Op: "otherrender"}})
	}
	return c11RandOp(r, nRows)
}

func c11RandOp(r *RNG, nRows int) c11Op {
	row := 1 + r.Intn(nRows)
	switch r.Intn(20) {
	case 0, 1:
		return c11Op{Op: "newrow", R: row, How: r.Intn(3), N: r.Intn(4)}
	case 2, 3, 4:
		return c11Op{Op: "rowadd", R: row}
	case 5, 6:
		e := 1
		if r.Pct(25) {
			e = 0
		}
		return c11Op{Op: "rowerr", R: row, E: e}
	case 7:
		return c11Op{Op: "tblerr", E: r.Intn(2)}
	case 8:
		if r.Pct(15) {
			return c11Op{Op: "tbllist"}
		}
		n := r.Intn(4)
		l := make([]int, n)
		for i := range l {
			l[i] = r.Intn(2)
		}
		return c11Op{Op: "tbllist", L: &l}
	case 9, 10:
		return c11Op{Op: "addrow", R: row}
	case 11:
		return pick(r, []c11Op{{Op: "appendnew", R: row}, {Op: "addrowitems", R: row, N: r.Intn(3)}})
	case 12:
		return c11Op{Op: "sep", R: row}
	case 13:
		return c11Op{Op: "headers", N: r.Intn(3)}
	case 14:
		return c11Op{Op: "render"}
	case 15:
		return pick(r, []c11Op{{Op: "render"}, {Op: "dump"}, {Op: "dump"}})
	default:
		owner := pick(r, []string{"table", "table", "col", "row", "row", "cell"})
		return c11Op{Op: "reg", Owner: owner, R: row, C: r.Intn(3), When: r.Intn(4), Target: r.Intn(3), Pat: pick(r, []int{0, 0, 0, 1, 2}), Ek: pick(r, []int{0, 0, 0, 1 + r.Intn(c11Kinds)}), Do: pick(r, []int{0, 0, 0, 1, 2, 3})}
	}
}

func c11Gen(r *RNG, tier string) []json.RawMessage {
	var out []json.RawMessage
	add := func(s c11Spec) { out = append(out, mustJSON(s)) }
	// containers: every sequence (each case also observes all its prefixes)
	n := 4
	alpha := c11ContAlphabet
	if tier == "thorough" {
		alpha = append(append([]c11Op{}, alpha...), c11Op{Op: "addself"})
	}
	for _, mode := range []string{"nil", "zero", "new"} {
		c11Seqs(alpha, n, func(ops []c11Op) { add(c11Spec{Kind: "cont", Mode: mode, Ops: ops}) })
		if tier != "thorough" {
			// AddErrorList(Errors()) in every position of every shorter sequence
			for k := 0; k <= 2; k++ {
				c11Seqs(c11ContAlphabet, k, func(ops []c11Op) {
					for p := 0; p <= len(ops); p++ {
						s := append(append(append([]c11Op{}, ops[:p]...), c11Op{Op: "addself"}), ops[p:]...)
						add(c11Spec{Kind: "cont", Mode: mode, Ops: append(s, c11Op{Op: "add", E: 1})})
					}
				})
			}
		}
	}
	// tables: every registration at every position of the scenario
	for _, reg := range c11Registrations() {
		for p := 0; p <= len(c11Scenario); p++ {
			for _, pat := range []int{0, 1} {
				if pat == 1 && tier != "thorough" {
					continue
				}
				g := reg
				g.Pat = pat
				ops := append(append(append([]c11Op{}, c11Scenario[:p]...), g), c11Scenario[p:]...)
				add(c11Spec{Kind: "table", Ops: ops})
			}
		}
		for p := 0; p <= len(c11ScenarioB); p++ {
			ops := append(append(append([]c11Op{}, c11ScenarioB[:p]...), reg), c11ScenarioB[p:]...)
			add(c11Spec{Kind: "table", Ops: ops})
		}
		// re-entrant: two (thorough: three) failing callbacks in this one list, the second one
		// acting on the table from inside (records an error on its target, adds
		// a cell that cell callbacks reject, prepares a nested table whose own
		// callbacks fail)
		for do := 1; do <= 3; do++ {
			g := reg
			g.Do = do
			tc := c11Op{Op: "reg", Owner: "table", When: 0, Target: 1}
			regs := []c11Op{tc, reg, g}
			add(c11Spec{Kind: "table", Ops: append(append(append([]c11Op{}, c11Scenario[:3]...), regs...), c11Scenario[3:]...)})
			add(c11Spec{Kind: "table", Ops: append(append(append([]c11Op{}, c11ScenarioB[:2]...), regs...), c11ScenarioB[2:]...)})
			if tier == "thorough" {
				regs = []c11Op{tc, reg, g, reg}
				add(c11Spec{Kind: "table", Ops: append(append(append([]c11Op{}, c11Scenario[:3]...), regs...), c11Scenario[3:]...)})
				add(c11Spec{Kind: "table", Ops: append(append(append([]c11Op{}, c11ScenarioB[:2]...), regs...), c11ScenarioB[2:]...)})
				add(c11Spec{Kind: "table", Ops: append(append(append([]c11Op{}, c11Scenario[:3]...), tc, g, reg), c11Scenario[3:]...)})
			}
		}
		// the callback returns a compound / wrapping / cause-less / non-comparable error
		for k := 1; k < c11Kinds; k++ {
			g := reg
			g.Ek = k + 1
			add(c11Spec{Kind: "table", Ops: append(append(append([]c11Op{}, c11Scenario[:3]...), g), c11Scenario[3:]...)})
			add(c11Spec{Kind: "table", Ops: append(append(append([]c11Op{}, c11ScenarioB[:2]...), g), c11ScenarioB[2:]...)})
		}
	}
	// tables: every short history over the routing alphabet, with failing
	// callbacks on the row's cells, the table's cells and the table's rows
	// already in place
	pre := []c11Op{
		{Op: "newrow", R: 1},
		{Op: "reg", Owner: "row", R: 1, When: 0, Target: 1},
		{Op: "reg", Owner: "table", When: 0, Target: 1},
		{Op: "reg", Owner: "table", When: 0, Target: 2},
		{Op: "reg", Owner: "row", R: 1, When: 1, Target: 0},
	}
	// the same with the row-level callbacks acting from inside (length <= 2)
	for do := 1; do <= 3; do++ {
		preDo := []c11Op{
			{Op: "newrow", R: 1},
			{Op: "reg", Owner: "row", R: 1, When: 0, Target: 1},
			{Op: "reg", Owner: "table", When: 0, Target: 1},
			{Op: "reg", Owner: "table", When: 0, Target: 2},
			{Op: "reg", Owner: "table", When: 0, Target: 2, Do: do},
			{Op: "reg", Owner: "row", R: 1, When: 0, Target: 0, Do: do},
			{Op: "reg", Owner: "row", R: 1, When: 1, Target: 0, Do: do},
		}
		for n := 1; n <= 2; n++ {
			c11Seqs(c11TableAlphabet, n, func(ops []c11Op) {
				add(c11Spec{Kind: "table", Ops: append(append([]c11Op{}, preDo...), ops...)})
			})
		}
	}
	routing := c11TableAlphabet[:10] // without the extra row-creation ops
	full := c11TableAlphabet
	short := append(append([]c11Op{}, routing...), c11Op{Op: "dump"})
	for n := 0; n <= 3; n++ {
		alpha := full
		if n == 3 && tier != "thorough" {
			alpha = short // the creation paths have their own systematic cases below
		}
		c11Seqs(alpha, n, func(ops []c11Op) {
			add(c11Spec{Kind: "table", Ops: append(append([]c11Op{}, pre...), ops...)})
		})
		if n >= 1 {
			c11Seqs(alpha, n-1, func(ops []c11Op) {
				add(c11Spec{Kind: "table", Ops: append([]c11Op{{Op: "newrow", R: 1}}, ops...)})
			})
		}
	}
	if tier == "thorough" {
		c11Seqs(routing, 4, func(ops []c11Op) {
			add(c11Spec{Kind: "table", Ops: append(append([]c11Op{}, pre...), ops...)})
		})
	}
	// every kind of error value through every direct entry point
	for k := 0; k < c11Kinds; k++ {
		e := k + 2
		for _, mode := range []string{"nil", "zero", "new"} {
			add(c11Spec{Kind: "cont", Mode: mode, Ops: []c11Op{{Op: "add", E: e}, {Op: "dump"}, {Op: "addlist", L: c11L(e, 0, e)}, {Op: "add", E: 1}, {Op: "addself"}, {Op: "dump"}}})
			add(c11Spec{Kind: "cont", Mode: mode, Ops: []c11Op{{Op: "addlist", L: c11L(e)}, {Op: "add", E: e}, {Op: "dump"}}})
		}
		add(c11Spec{Kind: "table", Ops: []c11Op{{Op: "tblerr", E: e}, {Op: "newrow", R: 1}, {Op: "rowerr", R: 1, E: e}, {Op: "rowerr", R: 1, E: e}, {Op: "dump"},
			{Op: "addrow", R: 1}, {Op: "rowerr", R: 1, E: e}, {Op: "tbllist", L: c11L(e, 0, e)}, {Op: "dump"}, {Op: "sep", R: 2}, {Op: "rowerr", R: 2, E: e}, {Op: "dump"}}})
	}
	// row-level add-time callbacks that report on the row instead of returning,
	// for every way a row is attached, with and without errors already pending
	for do := 1; do <= 3; do++ {
		for _, own := range []c11Op{{Op: "reg", Owner: "table", When: 0, Target: 2, Do: do}, {Op: "reg", Owner: "row", R: 1, When: 0, Target: 0, Do: do}} {
			for _, pat := range []int{0, 2} {
				g := own
				g.Pat = pat
				cellcb := c11Op{Op: "reg", Owner: "table", When: 0, Target: 1}
				add(c11Spec{Kind: "table", Ops: []c11Op{{Op: "newrow", R: 1}, g, cellcb, {Op: "rowadd", R: 1}, {Op: "addrow", R: 1}, {Op: "tblerr", E: 1}}})
				add(c11Spec{Kind: "table", Ops: []c11Op{{Op: "newrow", R: 1}, g, cellcb, {Op: "rowerr", R: 1, E: 1}, {Op: "addrow", R: 1}, {Op: "rowerr", R: 1, E: 1}}})
				add(c11Spec{Kind: "table", Ops: []c11Op{{Op: "newrow", R: 1, How: 2}, g, g, {Op: "addrow", R: 1}, {Op: "appendnew", R: 2}, {Op: "addrowitems", R: 3, N: 1}, {Op: "headers", N: 1}, {Op: "dump"}}})
			}
		}
	}
	// tables: every way a row (or the header row) comes to exist, in every
	// situation of errors already held by the table and by other rows
	for _, sp := range c11CreationCases() {
		add(sp)
	}
	// tables: a row shared with a second table
	for _, sp := range c11SharingCases() {
		add(sp)
	}
	for _, reg := range c11Registrations() {
		for _, p := range []int{3, 9} {
			add(c11Spec{Kind: "table", Ops: append(append(append([]c11Op{}, c11ScenarioS[:p]...), reg), c11ScenarioS[p:]...)})
		}
		for do := 1; do <= 3; do++ {
			g := reg
			g.Do = do
			add(c11Spec{Kind: "table", Ops: append(append(append([]c11Op{}, c11ScenarioS[:3]...), reg, g), c11ScenarioS[3:]...)})
		}
	}
	// every short history in which the other table takes a row, with and
	// without failing callbacks in place
	shareLen := 3
	if tier == "thorough" {
		shareLen = 4
	}
	for n := 1; n <= shareLen; n++ {
		c11Seqs(c11ShareAlphabet, n, func(ops []c11Op) {
			if !c11HasOp(ops, "otheradd") {
				return
			}
			add(c11Spec{Kind: "table", Ops: append(append([]c11Op{}, pre...), ops...)})
			if n < 3 || (n == 3 && tier == "thorough") {
				add(c11Spec{Kind: "table", Ops: append([]c11Op{{Op: "newrow", R: 1}, {Op: "tblerr", E: 1}}, ops...)})
			}
		})
	}
	// random longer histories
	m := 250
	if tier == "thorough" {
		m = 6000
	}
	for i := 0; i < m; i++ {
		nRows := 1 + r.Intn(4)
		ln := 4 + r.Intn(24)
		ops := make([]c11Op, 0, ln)
		for j := 0; j < ln; j++ {
			ops = append(ops, c11RandOp(r, nRows))
		}
		if r.Pct(50) {
			ops = append(ops, c11Op{Op: "render"})
		}
		add(c11Spec{Kind: "table", Ek: r.Intn(c11Kinds), Ops: ops})
	}
	// random longer histories with a second table
	for i := 0; i < m*3/5; i++ {
		nRows := 1 + r.Intn(4)
		ln := 6 + r.Intn(24)
		ops := make([]c11Op, 0, ln)
		for j := 0; j < ln; j++ {
			ops = append(ops, c11RandOp2(r, nRows))
		}
		if r.Pct(50) {
			ops = append(ops, c11Op{Op: "render"})
		}
		add(c11Spec{Kind: "table", Ek: r.Intn(c11Kinds), Ops: ops})
	}
	// random longer container histories
	for i := 0; i < m/2; i++ {
		ln := 5 + r.Intn(12)
		ops := make([]c11Op, 0, ln)
		al := append(append([]c11Op{}, c11ContAlphabet...), c11Op{Op: "addself"}, c11Op{Op: "dump"})
		for j := 0; j < ln; j++ {
			if r.Pct(30) {
				n := r.Intn(6)
				l := make([]int, n)
				for i := range l {
					l[i] = r.Intn(2)
				}
				ops = append(ops, c11Op{Op: "addlist", L: &l})
			} else {
				ops = append(ops, pick(r, al))
			}
		}
		add(c11Spec{Kind: "cont", Mode: pick(r, []string{"nil", "zero", "zero", "new", "new"}), Ek: r.Intn(c11Kinds), Ops: ops})
	}
	// the histories at volume (c11_r6.go), spread evenly over the run so that
	// the expensive evaluations land in different shards
	vol := c11GenVolume(tier)
	gap := len(out) / (len(vol) + 1)
	var all []json.RawMessage
	for i, c := range out {
		if gap > 0 && i%gap == 0 && i/gap < len(vol) {
			all = append(all, vol[i/gap])
		}
		all = append(all, c)
	}
	if gap == 0 {
		all = append(vol, out...)
	}
	return all
}

func c11Shrink(spec json.RawMessage) []json.RawMessage {
	var sp c11Spec
	if err := json.Unmarshal(spec, &sp); err != nil {
		return nil
	}
	var out []json.RawMessage
	with := func(ops []c11Op) {
		out = append(out, mustJSON(c11Spec{Kind: sp.Kind, Mode: sp.Mode, Ek: sp.Ek, Ops: ops}))
	}
	if sp.Ek != 0 {
		out = append(out, mustJSON(c11Spec{Kind: sp.Kind, Mode: sp.Mode, Ops: sp.Ops}))
	}
	for i := range sp.Ops {
		with(append(append([]c11Op{}, sp.Ops[:i]...), sp.Ops[i+1:]...))
	}
	if sp.Kind == "vcont" || sp.Kind == "vtable" {
		// at volume: shorter loops and lists
		for i, op := range sp.Ops {
			if (op.Op == "block" || op.Op == "addmany" || op.Op == "addbig" || op.Op == "tblbig") && op.N > 1 {
				for _, n := range []int{op.N / 2, op.N - 1} {
					ops := append([]c11Op{}, sp.Ops...)
					ops[i].N = n
					with(ops)
				}
			}
		}
		return out
	}
	for i, op := range sp.Ops {
		repl := func(o c11Op) {
			ops := append([]c11Op{}, sp.Ops...)
			ops[i] = o
			with(ops)
		}
		if op.L != nil {
			for j := range *op.L {
				o := op
				l := append(append([]int{}, (*op.L)[:j]...), (*op.L)[j+1:]...)
				o.L = &l
				repl(o)
			}
		}
		if op.N > 0 {
			o := op
			o.N--
			repl(o)
		}
		if op.Ek != 0 {
			o := op
			o.Ek = 0
			repl(o)
		}
		if op.Do != 0 {
			o := op
			o.Do = 0
			repl(o)
		}
		if op.E > 1 {
			o := op
			o.E = 1
			repl(o)
		}
		if op.L != nil {
			for j, k := range *op.L {
				if k > 1 {
					o := op
					l := append([]int{}, *op.L...)
					l[j] = 1
					o.L = &l
					repl(o)
				}
			}
		}
		if op.Op == "newrow" && op.How != 0 {
			o := op
			o.How, o.N = 0, 0
			repl(o)
		}
		if op.Op == "reg" && op.Pat != 0 {
			o := op
			o.Pat = 0
			repl(o)
		}
		if op.Op == "addrowitems" || op.Op == "appendnew" {
			// the same through NewRow + AddRow
			ops := append([]c11Op{}, sp.Ops[:i]...)
			ops = append(ops, c11Op{Op: "newrow", R: op.R}, c11Op{Op: "addrow", R: op.R})
			with(append(ops, sp.Ops[i+1:]...))
		}
	}
	return out
}

func init() {
	register(&Prop{
		ID:       "C11",
		Imports:  "From Tab Require Import Run.Glue Run.C11Run.",
		CaseType: "c11_case",
		CaseFn:   "C11_case",
		ModelFn:  "C11_model",
		Rule: "rows made by NewRow, NewRowWithCapacity, t.NewRowSizedFor, t.AppendNewRow, t.AddRowItems, AddHeaders and AddSeparator, before and after the table and other rows hold errors; container histories over {AddError nil/e, AddErrorList nil/[]/[e]/[nil]/[e;nil;e'], Errors, AddErrorList(Errors())} on a nil pointer, " +
			"&ErrorContainer{} and NewErrorContainer(), the caller overwriting its slice after every AddErrorList; table histories over NewRow, Row.Add " +
			"(detached, attached, on a separator), Row.AddError, Table.AddError, Table.AddErrorList, AddRow, AppendNewRow, AddRowItems, AddSeparator, AddHeaders, " +
			"InvokeRenderCallbacks, with failing callbacks (which may also act from inside: AddError on their target, Row.Add of a cell that cell callbacks reject, InvokeRenderCallbacks of a nested table whose own callbacks fail; >= 2 failing callbacks per list) registered through RegisterPropertyCallback on table / column / row / cell owners for every target and time, " +
			"before and after attach; all error values distinct, of 7 dynamic kinds (plain, errors.Join, fmt.Errorf with two %w, custom Unwrap() []error with and without causes, Unwrap() error, non-comparable), with messages never in alphabetical order of occurrence; a dump op (%#v, %v, GoString of table/rows/cells and every read-only accessor) between steps; Errors() of the table, of every row and of the container read after every step; " +
			"a SECOND TABLE u beside the table under test: u.AddRow of a row still outside t and of a row that already is one of t's rows (made by AddRow, AppendNewRow, AddRowItems, AddSeparator) in every situation of errors already held by t, u with and without rows and errors of its own, followed by Row.AddError / Row.Add / separator misuse on the shared row, further errors on t, t.InvokeRenderCallbacks (which still visits the shared row) and u.InvokeRenderCallbacks, the row's own callbacks firing inside u.AddRow; Errors() of u read after every step too (compared with the model only; the property's oracle judges t and the rows outside both tables); " +
			"non-trivial = at least one non-nil error is raised; distinct = distinct (history, observations)",
		Exhaustive: "all 4096 container op sequences of length 4 (hence all shorter ones, as prefixes) over 8 ops x 3 creation modes; every accepted registration " +
			"(owner x target x time) at every position of a 15-step and of an 8-step build scenario, and with the callback returning each of the 7 kinds of error value; all table histories of length <= 2 over a 15-op alphabet (10 routing ops, NewRowSizedFor/AddRow, AppendNewRow, AddRowItems, dump) and of length 3 over the routing ops plus dump (thorough: length 3 over all 15, length 4 over the 10 routing ops), and of length <= 2 with callbacks acting from inside; every row-creation path (NewRow, NewRowWithCapacity, NewRowSizedFor, AppendNewRow, AddRowItems, AddHeaders, AddSeparator) x 9 situations of errors already held x 4 uses, each path taken twice; a row shared with a second table: 9 situations x 7 origins of the row (detached clean / with an error, AddRow, AddRow with errors before and after, AppendNewRow, AddRowItems, AddSeparator) x 2 states of the second table x 4 continuations; all histories of length <= 3 (thorough: 4) over a 12-op alphabet with the second table in it (AddRow by the other table of a pre-built row, a separator and an AppendNewRow row; its own AddError) that contain at least one such AddRow, with failing callbacks in place; every registration at 2 positions of a 25-step build that shares three rows",
		Gen: c11Gen,
		Run: func(spec json.RawMessage) CaseOut {
			var sp c11Spec
			if err := json.Unmarshal(spec, &sp); err != nil {
				panic(err)
			}
			if sp.Kind == "cont" {
				return c11RunCont(sp)
			}
			if sp.Kind == "vcont" {
				return c11RunContV(sp)
			}
			return c11RunTable(sp)
		},
		Shrink: c11Shrink,
	})
}
