package main

// C12, round 6 - the table under any of its names.
//
// The library hands the table out under more names than tabular.New(): every
// rendering package has a wrapper type that embeds tabular.Table and IS a
// tabular.Table (texttable.TextTable, csv.CSVTable, json.JSONTable,
// html.HTMLTable, markdown.MarkdownTable), made by <pkg>.Wrap(t) / <pkg>.New(),
// and auto.Wrap(t, style) / auto.New(style) return one of them for every
// style.  Programs set and read properties through those (the texttable
// examples do).  The property speaks of "tables, columns (including the
// defaults column 0), rows and cells": an owner reached through a wrapper is
// that owner.  So every op of the history language can call its Table methods
// on any facade, wrappers come into being at any moment, and every watched
// owner is read back through a facade as well.

import (
	"encoding/json"
	"strings"

	"go.pennock.tech/tabular"
	"go.pennock.tech/tabular/auto"
	"go.pennock.tech/tabular/csv"
	"go.pennock.tech/tabular/html"
	tjson "go.pennock.tech/tabular/json"
	"go.pennock.tech/tabular/markdown"
	"go.pennock.tech/tabular/texttable"
)

// the exported constructors of things that are a tabular.Table; "auto.Wrap" and
// "auto.New" carry the style after a colon
var c12EntryPoints = []string{
	"texttable.Wrap", "csv.Wrap", "json.Wrap", "html.Wrap", "markdown.Wrap",
	"texttable.New", "csv.New", "json.New", "html.New", "markdown.New",
	"auto.Wrap", "auto.New",
}

func c12EntryKind(how string) int {
	if i := strings.IndexByte(how, ':'); i >= 0 {
		how = how[:i]
	}
	for i, e := range c12EntryPoints {
		if e == how {
			return i
		}
	}
	return 99
}

// wrappers that keep nothing on the table: csv, json, html (also through auto)
func c12PlainWrapper(how string) bool {
	for _, p := range []string{"csv.", "json.", "html.", "auto.Wrap:csv", "auto.Wrap:json", "auto.Wrap:html", "auto.New:csv", "auto.New:json", "auto.New:html"} {
		if how == p || (strings.HasSuffix(p, ".") && strings.HasPrefix(how, p)) {
			return true
		}
	}
	return false
}

func c12IsNewEntry(how string) bool {
	return strings.Contains(how, ".New")
}

// c12Inner digs the core table out of a wrapper that made it itself
func c12Inner(t tabular.Table) *tabular.ATable {
	for i := 0; i < 8 && t != nil; i++ {
		switch x := t.(type) {
		case *tabular.ATable:
			return x
		case *texttable.TextTable:
			t = x.Table
		case *csv.CSVTable:
			t = x.Table
		case *tjson.JSONTable:
			t = x.Table
		case *html.HTMLTable:
			t = x.Table
		case *markdown.MarkdownTable:
			t = x.Table
		default:
			return nil
		}
	}
	return nil
}

// c12MakeWrapper calls the entry point; core is non-nil when the entry point
// made a table of its own (the New family)
func c12MakeWrapper(how string, base tabular.Table) (wr tabular.Table, core *tabular.ATable) {
	style := ""
	name := how
	if i := strings.IndexByte(how, ':'); i >= 0 {
		name, style = how[:i], how[i+1:]
	}
	switch name {
	case "texttable.Wrap":
		wr = texttable.Wrap(base)
	case "csv.Wrap":
		wr = csv.Wrap(base)
	case "json.Wrap":
		wr = tjson.Wrap(base)
	case "html.Wrap":
		wr = html.Wrap(base)
	case "markdown.Wrap":
		wr = markdown.Wrap(base)
	case "auto.Wrap":
		wr = auto.Wrap(base, style)
	case "texttable.New":
		wr = texttable.New()
	case "csv.New":
		wr = csv.New()
	case "json.New":
		wr = tjson.New()
	case "html.New":
		wr = html.New()
	case "markdown.New":
		wr = markdown.New()
	case "auto.New":
		wr = auto.New(style)
	default:
		return nil, nil
	}
	if c12IsNewEntry(name) {
		core = c12Inner(wr)
		if core == nil {
			return nil, nil
		}
	}
	return wr, core
}

// every entry point, the auto ones once per style the library lists
func c12AllEntries() []string {
	var out []string
	for _, e := range c12EntryPoints {
		if strings.HasPrefix(e, "auto.") {
			for _, st := range auto.ListStyles() {
				out = append(out, e+":"+st)
			}
			continue
		}
		out = append(out, e)
	}
	return out
}

func ownVia(w int, k string, ab ...int) *C12Owner {
	o := own(k, ab...)
	o.W = w
	return o
}

// the table and its defaults column 0 (and column 1) behind entry point e:
// both set through the wrapper (mixed = false), or the table through the
// wrapper and column 0 through the core table (mixed = true)
func c12ViaScenario(e string, mixed bool) c12Scenario {
	bw := 1
	if mixed {
		bw = 0
	}
	return c12Scenario{name: "via-" + e,
		prefix: []C12Op{{Op: "wrap", How: e}, {Op: "additems", N: 2, W: 1}},
		a:      ownVia(1, "table"), b: ownVia(bw, "col", 0), bNeeds: -1,
		watch: []C12Owner{*own("table"), *own("col", 0), *own("col", 1), *ownVia(1, "table"), *ownVia(1, "col", 0),
			*ownVia(1, "col", 1), *own("row", 0), *ownVia(1, "cell", 0, 0)},
		minor: true}
}

// c12Facadeise moves every op and every read of a history to a random facade;
// wrappers are made at the front (a New entry point only as the very first op)
// and one possibly in the middle, some around other wrappers
func c12Facadeise(r *RNG, sp C12Spec, entries []string) C12Spec {
	var wrapsOnly []string
	for _, e := range entries {
		if !c12IsNewEntry(e) {
			wrapsOnly = append(wrapsOnly, e)
		}
	}
	var ops []C12Op
	nw := 0
	// texttable.Wrap and markdown.Wrap register a render-time callback on the
	// table that stores the wrapper's own per-cell property (dimensions / width,
	// under a private key) on every cell whenever ANY render runs: once such a
	// wrapper exists a render IS a set (by the library), not one of the things
	// "that are not sets"; such histories keep their other non-set operations
	storing := false
	addWrap := func(first bool) {
		e := pick(r, wrapsOnly)
		if first && r.Pct(35) {
			e = pick(r, entries)
		}
		if !c12PlainWrapper(e) {
			storing = true
		}
		op := C12Op{Op: "wrap", How: e}
		if nw > 0 && r.Pct(30) {
			op.W = 1 + r.Intn(nw)
		}
		ops = append(ops, op)
		nw++
	}
	addWrap(true)
	if r.Pct(50) {
		addWrap(false)
	}
	mid := -1
	if r.Pct(40) && len(sp.Ops) > 2 {
		mid = 1 + r.Intn(len(sp.Ops)-1)
	}
	fac := func() int {
		if r.Pct(25) {
			return 0
		}
		return 1 + r.Intn(nw)
	}
	for i, op := range sp.Ops {
		if i == mid {
			addWrap(false)
		}
		f := fac()
		if storing && op.Op == "touch" && strings.HasPrefix(op.How, "render-") {
			op.How = "gostring"
		}
		if op.O != nil {
			o := *op.O
			o.W = f
			op.O = &o
		} else {
			op.W = f
		}
		ops = append(ops, op)
	}
	a := &c12Abs{maps: map[string]map[int]int{}}
	for _, op := range ops {
		a.step(op)
	}
	out := C12Spec{Ops: ops, Keys: sp.Keys, VK: sp.VK}
	seen := map[string]bool{}
	add := func(o C12Owner) {
		if s := o.String(); !seen[s] {
			seen[s] = true
			out.Watch = append(out.Watch, o)
		}
	}
	for _, o := range sp.Watch {
		add(o) // through the core table
	}
	for _, o := range c12WatchFor(ops, a) {
		add(o)
	}
	for w := 1; w <= nw; w++ {
		add(*ownVia(w, "table"))
		add(*ownVia(w, "col", 0))
	}
	return out
}

func c12ViaGen(r *RNG, tier string) []json.RawMessage {
	var out []json.RawMessage
	triples := append(append([][3]int{}, c12Triples...), c12PtrTriples()...)
	ctr := 0
	stride, phase := 1, 0
	emitScenario := func(sc c12Scenario, n int) {
		c12Enumerate(sc, n, func(ops []C12Op, used int) {
			triple := triples[ctr%len(triples)]
			ctr++
			if ctr%stride != phase%stride {
				return
			}
			all := append(append([]C12Op{}, sc.prefix...), c12RemapKeys(ops, triple)...)
			out = append(out, mustJSON(C12Spec{Ops: all, Keys: c12SortedKeys(all, triple[0], triple[1], triple[2]), Watch: sc.watch, VK: (ctr / len(triples)) % 5}))
		})
	}
	n := 2
	if tier == "thorough" {
		n = 3
	}
	entries := c12AllEntries()
	for i, e := range entries {
		// quick tier: auto.New(style) = auto.Wrap(tabular.New(), style) gets every
		// fourth history per style (the phase moves with the style), everything
		// else all of them
		stride, phase = 1, 0
		if tier != "thorough" && strings.HasPrefix(e, "auto.New") {
			stride, phase = 4, i
		}
		emitScenario(c12ViaScenario(e, false), n)
	}
	stride, phase = 1, 0
	for _, e := range c12EntryPoints {
		if !c12IsNewEntry(e) && !strings.HasPrefix(e, "auto.") {
			emitScenario(c12ViaScenario(e, true), n)
		}
	}
	// deep chains on the table and on column 0 through each wrapper package,
	// with the structural ops called on the wrapper too
	plans := [][][2]int{
		{{-1, 0}, {-1, 1}, {17, 0}, {16, 1}, {0, 0}, {-1, 2}, {18, 1}},
		{{17, 1}, {-1, 1}, {-1, 0}, {16, 0}, {10, 2}, {0, 1}},
	}
	rot := 0
	for _, e := range c12EntryPoints {
		if strings.HasPrefix(e, "auto.") {
			e += ":" + entries[len(entries)-1][strings.IndexByte(entries[len(entries)-1], ':')+1:]
		}
		prefix := []C12Op{{Op: "wrap", How: e}, {Op: "additems", N: 2, W: 1}}
		for _, d := range []c12DeepOwner{
			{"table-via", prefix, ownVia(1, "table"), false},
			{"col0-via", prefix, ownVia(1, "col", 0), false},
		} {
			sp := c12Deep(d, 20+rot%5, rot, plans[rot%2], false)
			// the other of the two owners, and the same owner through the core, are read as well
			sp.Watch = append(sp.Watch, *own("table"), *own("col", 0), *ownVia(1, "table"), *ownVia(1, "col", 0), *own("col", 1))
			sp.Watch = c12DedupWatch(sp.Watch)
			out = append(out, mustJSON(sp))
			rot++
		}
	}
	// random and deep-chain histories moved to random facades
	nr, nd := 100, 15
	if tier == "thorough" {
		nr, nd = 3000, 500
	}
	for i := 0; i < nr; i++ {
		out = append(out, mustJSON(c12Facadeise(r, c12Random(r, i%5 == 4), entries)))
	}
	for i := 0; i < nd; i++ {
		out = append(out, mustJSON(c12Facadeise(r, c12DeepRandom(r), entries)))
	}
	return out
}

func c12DedupWatch(ws []C12Owner) []C12Owner {
	seen := map[string]bool{}
	var out []C12Owner
	for _, o := range ws {
		if s := o.String(); !seen[s] {
			seen[s] = true
			out = append(out, o)
		}
	}
	return out
}

func c12DedupTags(tags []string) []string {
	var out []string
	for i, t := range tags {
		if i == 0 || t != tags[i-1] {
			out = append(out, t)
		}
	}
	return out
}
