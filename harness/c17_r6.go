package main

// C17, round 6: two families the worlds of c17.go never produced.
//
//  1. NAMES OF EVERY LENGTH AND CONTENT.  A decoration name is an arbitrary Go
//     string; until now every name in every world was 0-18 bytes long.  The name
//     worlds below register, look up (Named, SetDecorationNamed, auto.New /
//     auto.Wrap), overwrite and list names of every length 0..130 (thorough:
//     0..300) and around every power of two up to 2^12 (thorough 2^14), over four
//     alphabets (one repeated letter - so that the names of a world are prefixes
//     of each other -, arbitrary bytes incl. 0x00 and 0xFF, ASCII words, UTF-8
//     cut anywhere), together with the names that merely resemble them at the
//     same length (first / middle / last byte changed), one byte longer, one
//     byte shorter.  The concurrent worlds and the passes "under fire" take names
//     of many lengths as well.
//
//  2. TABLES OF ONE'S OWN.  Until now all tables of a world had one and the same
//     content (and the palette had drawn exactly that content before the first
//     operation), so whatever a render shares with other renders inside the
//     library was never asked for anything new while two goroutines were at it.
//     In a `vary` world every table has a content of its own - number of columns
//     and rows and the cell widths are a function of (pass, goroutine, table
//     number) - so concurrent renders by name draw shapes nobody has drawn
//     before.  An output is still named by the palette decoration whose DIRECT
//     rendering (SetDecoration, no registry) of the same content gives exactly
//     these bytes; that naming is done after the join, sequentially.  A pass
//     "renders by name under fire" has goroutines that do nothing but make
//     tables of their own, select by name and render (nobody registers), every
//     output judged after the join.

import (
	"bytes"
	"fmt"
	"runtime"
	"strings"
	"sync"

	"go.pennock.tech/tabular"
	"go.pennock.tech/tabular/auto"
	"go.pennock.tech/tabular/texttable"
	"go.pennock.tech/tabular/texttable/decoration"
)

var c17Vary bool

// what one goroutine (in one pass) owns
type c17ctx struct {
	g, pass int
	tabs    []*texttable.TextTable
	seeds   []int // the content of each table: 0 = the world's fixed shape
}

// the content of the next table this goroutine makes
func (cx *c17ctx) newSeed() int {
	if !c17Vary {
		return 0
	}
	return 1 + cx.pass*1000003 + cx.g*10007 + len(cx.tabs)
}

// a table like the good one (headers, >= 2 columns, >= 1 row: every glyph the good
// table draws is drawn, so distinct palette decorations stay distinct), but with its own
// numbers of columns and rows and its own widths
func variedFill(t tabular.Table, seed int) {
	ncols := 2 + seed%3
	nrows := 1 + (seed/3)%3
	width := func(c int) int { return 1 + (seed*31+c*17)%251 }
	var hs []interface{}
	for c := 0; c < ncols; c++ {
		hs = append(hs, strings.Repeat("h", width(c)))
	}
	t.AddHeaders(hs...)
	for r := 0; r < nrows; r++ {
		var row []interface{}
		for c := 0; c < ncols; c++ {
			w := width(c)
			if r > 0 {
				w = 1 + (w+r*7)%w
			}
			row = append(row, strings.Repeat(string(rune('a'+r)), w))
		}
		t.AddRowItems(row...)
	}
}

func c17Fill(t tabular.Table, seed int) {
	if seed == 0 {
		fillShape(t, c17Shape)
	} else {
		variedFill(t, seed)
	}
}

func c17Table(seed int) tabular.Table {
	t := tabular.New()
	c17Fill(t, seed)
	return t
}

// Render of a table with its own content: the raw output (named later), cross-checked
// with RenderTo
func c17RenderVaried(tt *texttable.TextTable) (r RRes, raw string) {
	defer func() {
		if p := recover(); p != nil {
			r, raw = RRes{K: "panic", Msg: fmt.Sprint(p)}, ""
		}
	}()
	out, err := tt.Render()
	var b bytes.Buffer
	err2 := tt.RenderTo(&b)
	if (err == nil) != (err2 == nil) || (err == nil && b.String() != out) {
		return RRes{K: "panic", Msg: fmt.Sprintf("Render (%q, %v) and RenderTo (%q, %v) disagree", out, err, b.String(), err2)}, ""
	}
	if err != nil {
		return RRes{K: "err", Empty: out == "", Msg: err.Error()}, ""
	}
	return RRes{K: "ok", ID: decUnknown}, out
}

// direct rendering of a content with a decoration value (no registry involved)
func directRender(seed int, d decoration.Decoration) (string, error) {
	return texttable.Wrap(c17Table(seed)).SetDecoration(d).Render()
}

// name the raw outputs: the smallest palette decoration whose direct rendering of the
// same content is exactly these bytes (sequential; after the join)
func c17Resolve(evs []C17Ev) {
	for i := range evs {
		ev := &evs[i]
		if ev.Tab == 0 || ev.R == nil || ev.R.K != "ok" {
			continue
		}
		ev.R.ID = decUnknown
		for id := 1; id < len(regPalette); id++ {
			if out, err := directRender(ev.Tab, regPalette[id]); err == nil && out == ev.raw {
				ev.R.ID = id
				break
			}
		}
		if ev.R.ID == decUnknown {
			ev.R.Out = trunc(fmt.Sprintf("%q", ev.raw), 2000)
		}
		ev.raw = ""
	}
}

// c17RendersByName: renders by name under fire.  Nobody registers anything
// during the pass; every goroutine makes `tables` tables of its own (contents
// no other goroutine and no earlier pass has), selects a decoration for each by
// name (every registered name in turn and one that is not registered; through
// SetDecorationNamed, auto.New or auto.Wrap) and renders it twice.  The
// goroutines share nothing with each other but the library; there is no
// synchronisation in here between the start and the join.  After the join
// every output is compared with the direct rendering of the same content with
// the decoration the name held when the pass began (an unknown name or one
// holding EmptyDecoration: error from the selection, ("", error) from Render).
func c17RendersByName(goroutines, tables int) string {
	if runtime.GOMAXPROCS(0) < 4 {
		defer runtime.GOMAXPROCS(runtime.GOMAXPROCS(4))
	}
	names := decoration.RegisteredDecorationNames()
	held := map[string]decoration.Decoration{}
	for _, n := range names {
		held[n] = decoration.Named(n)
	}
	unknown := "not-registered"
	for {
		if _, there := held[unknown]; !there {
			break
		}
		unknown += "-"
	}
	names = append(names, unknown)
	held[unknown] = decoration.EmptyDecoration
	type rec struct {
		seed           int
		name, route    string
		setErr, hasSet bool
		out1, out2     string
		err1, err2     bool
		panicked       string
	}
	recs := make([][]rec, goroutines)
	start := make(chan struct{})
	var wg sync.WaitGroup
	for g := 0; g < goroutines; g++ {
		wg.Add(1)
		go func(g int) {
			defer wg.Done()
			mine := make([]rec, 0, tables)
			<-start
			for t := 0; t < tables; t++ {
				rc := rec{seed: 1 + 9*1000003 + g*10007 + t, name: names[(g*5+t)%len(names)]}
				func() {
					defer func() {
						if p := recover(); p != nil {
							rc.panicked = fmt.Sprint(p)
						}
					}()
					var tt auto.RenderTable
					switch route := (g + t) % 3; {
					case route == 1 && autoOK(rc.name):
						rc.route = "auto.New"
						tt = auto.New(rc.name)
						variedFill(tt, rc.seed)
					case route == 2 && autoOK(rc.name):
						rc.route = "auto.Wrap"
						tt = auto.Wrap(c17VariedTable(rc.seed), rc.name)
					default:
						rc.route = "SetDecorationNamed"
						x := texttable.Wrap(c17VariedTable(rc.seed))
						_, err := x.SetDecorationNamed(rc.name)
						rc.setErr, rc.hasSet = err != nil, true
						tt = x
					}
					var e error
					rc.out1, e = tt.Render()
					rc.err1 = e != nil
					rc.out2, e = tt.Render()
					rc.err2 = e != nil
				}()
				mine = append(mine, rc)
			}
			recs[g] = mine
		}(g)
	}
	close(start)
	wg.Wait()
	for g, mine := range recs {
		for t, rc := range mine {
			where := fmt.Sprintf("renders by name under fire: goroutine %d table %d (%s, name %q)", g, t, rc.route, rc.name)
			if rc.panicked != "" {
				return where + ": panic: " + rc.panicked
			}
			d := held[rc.name]
			if d == decoration.EmptyDecoration {
				if rc.hasSet && !rc.setErr {
					return where + ": no error from the selection although the name holds no decoration"
				}
				if !rc.err1 || !rc.err2 || rc.out1 != "" || rc.out2 != "" {
					return where + fmt.Sprintf(": rendered (%q, error=%v) although the name holds no decoration", trunc(rc.out1, 200), rc.err1)
				}
				continue
			}
			want, err := texttable.Wrap(c17VariedTable(rc.seed)).SetDecoration(d).Render()
			if err != nil {
				continue // not this property's business (and the palette has no such decoration)
			}
			if rc.hasSet && rc.setErr {
				return where + ": the selection reports an error although the name is registered"
			}
			if rc.err1 || rc.err2 || rc.out1 != want || rc.out2 != want {
				return where + fmt.Sprintf(": rendered (%q, error=%v), the decoration registered under the name gives %q", trunc(rc.out1, 300), rc.err1, trunc(want, 300))
			}
		}
	}
	return ""
}

func c17VariedTable(seed int) tabular.Table {
	t := tabular.New()
	variedFill(t, seed)
	return t
}

// ---------------------------------------------------------------- names of every length

// a name of exactly l bytes over alphabet a
func c17NameOfLen(r *RNG, a, l int) string {
	b := make([]byte, l)
	switch a % 4 {
	case 0: // one letter: the names of a world are prefixes of each other
		for i := range b {
			b[i] = 'a'
		}
	case 1: // arbitrary bytes
		for i := range b {
			b[i] = byte(r.Intn(256))
		}
	case 2: // ASCII words (fit for auto.New as well)
		const alpha = "abcdefghijklmnopqrstuvwxyz0123456789-_ABCXYZ"
		for i := range b {
			b[i] = alpha[r.Intn(len(alpha))]
		}
	default: // UTF-8 text cut at any byte
		s := strings.Repeat("dé漢-𝄞z", l/10+1)
		copy(b, s)
	}
	return string(b)
}

// names that merely resemble n: the same length with one byte changed (first, middle,
// last), one byte longer, one byte shorter
func c17NearNames(n string) []string {
	var out []string
	flip := func(i int) string {
		b := []byte(n)
		if b[i] == 'b' {
			b[i] = 'c'
		} else {
			b[i] = 'b'
		}
		return string(b)
	}
	if l := len(n); l > 0 {
		out = append(out, flip(l-1), flip(0), flip(l/2), n[:l-1])
	}
	return append(out, n+"a")
}

func c17SelectOp(r *RNG, n string) C17Op {
	if r.Pct(30) && autoQualOK(n) {
		return C17Op{K: "auto", P: pick(r, c17Qualifiers), N: qname(n)}
	}
	if r.Bool() && autoOK(n) {
		return C17Op{K: "auto", N: qname(n)}
	}
	return C17Op{K: "set", N: qname(n)}
}

// one world about the names of the given lengths (alphabet a): before its registration a
// name is unknown (lookup: Empty; selection: error and refusal); after it every route
// gives the registered decoration, and still nothing for what merely resembles it;
// overwritten, the new decoration; at the end everything is read back and listed
func c17NameWorld(r *RNG, a int, lengths []int) C17Spec {
	var p []C17Op
	var have []string
	for i, l := range lengths {
		n := c17NameOfLen(r, a, l)
		d := 1 + (i+a)%13
		p = append(p, C17Op{K: "named", N: qname(n)}, c17SelectOp(r, n))
		p = append(p, C17Op{K: "reg", N: qname(n), D: d})
		have = append(have, n)
		p = append(p, C17Op{K: "named", N: qname(n)}, c17SelectOp(r, n), C17Op{K: "set", N: qname(n)})
		near := c17NearNames(n)
		for k, m := range near {
			if k%2 == i%2 {
				p = append(p, C17Op{K: "named", N: qname(m)})
			} else {
				p = append(p, c17SelectOp(r, m))
			}
		}
		switch i % 3 {
		case 0:
			p = append(p, C17Op{K: "names"})
		case 1:
			p = append(p, C17Op{K: "styles"})
		default:
			// overwrite an earlier name and look both up
			o := pick(r, have)
			p = append(p, C17Op{K: "reg", N: qname(o), D: 1 + (d+3)%13}, C17Op{K: "named", N: qname(o)}, C17Op{K: "named", N: qname(n)})
		}
	}
	for i := len(have) - 1; i >= 0; i-- {
		p = append(p, C17Op{K: "named", N: qname(have[i])})
		if i%2 == 0 {
			p = append(p, C17Op{K: "reset", I: i, N: qname(have[i])})
		}
	}
	p = append(p, C17Op{K: "names"}, C17Op{K: "styles"})
	return C17Spec{Mode: "seq", Progs: [][]C17Op{p}}
}

// the lengths asked for: every length up to `all`, and around every power of two up to 2^maxPow
func c17NameLengths(all, maxPow int) []int {
	seen := map[int]bool{}
	var out []int
	put := func(l int) {
		if l >= 0 && !seen[l] {
			seen[l] = true
			out = append(out, l)
		}
	}
	for l := 0; l <= all; l++ {
		put(l)
	}
	for k := 0; k <= maxPow; k++ {
		put(1<<uint(k) - 1)
		put(1 << uint(k))
		put(1<<uint(k) + 1)
	}
	return out
}

func c17NameWorlds(r *RNG, tier string, add func(C17Spec)) {
	all, maxPow, per := 130, 12, 10
	if tier == "thorough" {
		all, maxPow, per = 300, 14, 10
	}
	lengths := c17NameLengths(all, maxPow)
	// neighbouring lengths go to different worlds; a world mixes short and long names
	nw := (len(lengths) + per - 1) / per
	worlds := make([][]int, nw)
	for i, l := range lengths {
		worlds[i%nw] = append(worlds[i%nw], l)
	}
	for w, ls := range worlds {
		s := c17NameWorld(r, w, ls)
		s.Vary = w%3 == 0
		add(s)
	}
}

// a pool of names for a concurrent world: the usual ones and some long ones
func c17LongPool(r *RNG, base []string) []string {
	out := append([]string{}, base...)
	for i := 0; i < 3; i++ {
		out = append(out, c17NameOfLen(r, 2, 20+r.Intn(300)))
	}
	return out
}

func c17LenTag(l int) string {
	switch {
	case l <= 20:
		return "name-length<=20"
	case l <= 130:
		return "name-length 21-130"
	case l <= 1100:
		return "name-length 131-1100"
	}
	return "name-length>1100"
}
