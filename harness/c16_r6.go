package main

// C16, round 6: two families of behaviour the runs did not exercise.
//
// (1) Items of every Go kind, of types that SEVERAL goroutines' tables have in
//     common, with values that differ from table to table (c16KindTables).
//     Until now every non-string item was a number, a bool, nil or one of the
//     harness's text objects: nothing a renderer learns about one table's item
//     (per type, per kind, per shape) could be wrong for another table's item.
//     The family: for every reflect.Kind that can be a cell item without its
//     text form holding an address - bool, the integer and float kinds, complex,
//     string, array, slice, map, struct, pointer to struct, interface holding
//     any of them, nil - several types (plain; with encoding/json field options
//     omitempty / renamed / "-"; with unexported fields only; with a String
//     method; with a MarshalJSON / MarshalText method; an error value) and for
//     every type both its zero value and non-zero values: what an encoder
//     makes of such an item depends on the VALUE (the zero value of an
//     all-omitempty struct, a nil or empty map, an empty slice are "{}" /
//     "null" / "[]"), not on the type.  Every goroutine draws types and values
//     of its own from this one family, so goroutines hold equal types with
//     different values, zero and non-zero.  These cases take their reference
//     from a process of the goroutine's own (Pristine): a same-process solo run
//     comes after other tables have been rendered in the process.
//
// (2) Schedules dense in ONE renderer (c16Hammer): every goroutine renders a
//     small table of its own some hundred times in one format class, all
//     goroutines in the same class at the same time (the case's Formats is that
//     one class; the cases rotate over the classes), the programme around it
//     reduced to a minimum.  The cells are drawn from the pool of texts that
//     need the formats' escaping (c16Atoms) and of the shared short texts; each
//     goroutine uses a few of them, repeated down its columns, a different few
//     per goroutine.  In the mixed runs a goroutine spends a few per cent of
//     its time in any one renderer, so two goroutines are rarely inside the
//     same few lines of one renderer at the same moment; here they are there
//     all the time.  Per goroutine and class the DISTINCT outputs are recorded
//     with their counts: alone there is exactly one.

import (
	"encoding/json"
	"errors"
	"fmt"
	"sort"
	"strings"
	"time"

	"go.pennock.tech/tabular"
	"go.pennock.tech/tabular/csv"
	"go.pennock.tech/tabular/html"
	tjson "go.pennock.tech/tabular/json"
	"go.pennock.tech/tabular/markdown"
	"go.pennock.tech/tabular/texttable"
)

// ---------------------------------------------------------------- (1) items of every kind

type c16KAllOmit struct {
	A int    `json:"a,omitempty"`
	B int    `json:"b,omitempty"`
	C string `json:"c,omitempty"`
}

type c16KNilable struct {
	M map[string]int `json:"m,omitempty"`
	S []string       `json:"s,omitempty"`
	I interface{}    `json:"i,omitempty"`
}

type c16KPlain struct {
	X int
	Y string
}

type c16KHidden struct{ x, y int }

type c16KMixed struct {
	Shown  string `json:"shown,omitempty"`
	Dashed int    `json:"-"`
	hidden int
}

type c16KStringer struct {
	N int `json:"n,omitempty"`
}

func (s c16KStringer) String() string { return fmt.Sprintf("stringer#%d", s.N) }

type c16KMarshaler struct{ n int }

func (m c16KMarshaler) MarshalJSON() ([]byte, error) {
	if m.n == 0 {
		return []byte("{}"), nil
	}
	return []byte(fmt.Sprintf(`{"n":%d}`, m.n)), nil
}

type c16KText struct{ n int }

func (m c16KText) MarshalText() ([]byte, error) { return []byte(fmt.Sprintf("text<%d>", m.n)), nil }

type c16KNested struct {
	In  c16KAllOmit  `json:"in"`
	Ptr *c16KAllOmit `json:"ptr,omitempty"`
}

type c16KMapNamed map[string]int
type c16KSliceNamed []int
type c16KIntNamed int
type c16KStrNamed string

const c16KindFamily = 30

// c16KindItem: member i of the family, with value number v (0 = the type's
// zero value).  No item's text form holds an address.
func c16KindItem(i, v int) (name string, item interface{}) {
	s := ""
	if v > 0 {
		s = strings.Repeat("v", v)
	}
	switch i % c16KindFamily {
	case 0:
		return "struct-all-omitempty", c16KAllOmit{A: v, B: v / 2, C: s}
	case 1:
		it := c16KNilable{}
		if v > 0 {
			it.M = map[string]int{"k": v}
		}
		if v > 1 {
			it.S = []string{s}
			it.I = v
		}
		return "struct-nilable-fields", it
	case 2:
		return "struct-plain", c16KPlain{X: v, Y: s}
	case 3:
		return "struct-unexported-only", c16KHidden{x: v, y: -v}
	case 4:
		it := c16KMixed{Dashed: v, hidden: v}
		if v > 1 {
			it.Shown = s
		}
		return "struct-mixed", it
	case 5:
		return "struct-stringer", c16KStringer{N: v}
	case 6:
		return "struct-json-marshaler", c16KMarshaler{n: v}
	case 7:
		return "struct-text-marshaler", c16KText{n: v}
	case 8:
		// Ptr stays nil: the text form of a non-nil pointer field is an address
		return "struct-nested", c16KNested{In: c16KAllOmit{A: v}}
	case 9:
		if v == 0 {
			return "pointer-to-struct", (*c16KAllOmit)(nil)
		}
		return "pointer-to-struct", &c16KAllOmit{A: v - 1, C: s[1:]}
	case 10:
		if v == 0 {
			return "map", map[string]int(nil)
		}
		m := map[string]int{}
		for k := 1; k < v; k++ {
			m[fmt.Sprintf("k%d", k)] = k
		}
		return "map", m
	case 11:
		m := c16KMapNamed{}
		for k := 0; k < v; k++ {
			m[fmt.Sprintf("k%d", k)] = k
		}
		return "map-named", m
	case 12:
		m := map[string]interface{}{}
		if v > 0 {
			m["a"] = c16KAllOmit{A: v - 1}
		}
		return "map-of-interface", m
	case 13:
		if v == 0 {
			return "slice", []int(nil)
		}
		return "slice", make([]int, v-1)
	case 14:
		return "slice-named", c16KSliceNamed(make([]int, v))
	case 15:
		sl := []c16KAllOmit{}
		for k := 0; k < v; k++ {
			sl = append(sl, c16KAllOmit{A: k})
		}
		return "slice-of-struct", sl
	case 16:
		return "array", [2]int{v, 0}
	case 17:
		return "array-of-struct", [1]c16KAllOmit{{B: v}}
	case 18:
		return "bytes", []byte(s)
	case 19:
		if v == 0 {
			return "error", error(nil)
		}
		return "error", errors.New("failed: " + s)
	case 20:
		return "complex", complex(float64(v), float64(-v)) // encoding/json refuses the kind
	case 21:
		return "duration", time.Duration(v) * time.Second
	case 22:
		return "int-named", c16KIntNamed(v)
	case 23:
		return "string-named", c16KStrNamed(s)
	case 24:
		return "uint8", uint8(v)
	case 25:
		return "int64", int64(v) << 33
	case 26:
		return "float32", float32(v) / 4
	case 27:
		return "rune", rune('a' + v)
	case 28:
		return "struct-anonymous", struct {
			P int `json:"p,omitempty"`
		}{v}
	default:
		var e interface{}
		if v > 0 {
			e = []interface{}{v, s, nil, c16KAllOmit{}}
		}
		return "interface-list", e
	}
}

// c16KindTables: the kind tables of goroutine g - spec.Kinds tables of 2-5 rows,
// each row the member's name and two values of the member (often the zero
// value), the members drawn by the goroutine's own generator from the one
// family all goroutines share.
func c16KindTables(spec C16Spec, g int) (out, labels []string) {
	r := NewRNG(spec.Seed*2654435761 + uint64(g)*40503 + 91)
	val := func() int {
		if r.Pct(40) {
			return 0
		}
		return 1 + r.Intn(3)
	}
	for k := 0; k < spec.Kinds; k++ {
		t := tabular.New()
		t.AddHeaders("kind", "one", "other")
		rows := 2 + r.Intn(4)
		for i := 0; i < rows; i++ {
			m := r.Intn(c16KindFamily)
			name, a := c16KindItem(m, val())
			_, b := c16KindItem(m, val())
			t.AddRowItems(name, a, b)
		}
		for _, f := range []string{"json", "csv", "markdown", "html", "texttable"} {
			out = append(out, c16Render(t, f))
			labels = append(labels, fmt.Sprintf("kind table %d format %s", k, f))
		}
	}
	return out, labels
}

// ---------------------------------------------------------------- (2) dense in one renderer

var c16CoreClasses = []string{"csv", "json", "markdown", "html", "texttable"}

func c16HammerClasses(spec C16Spec) []string {
	var out []string
	for _, f := range spec.Formats {
		for _, c := range c16CoreClasses {
			if f == c {
				out = append(out, c)
			}
		}
	}
	if len(out) == 0 {
		return c16CoreClasses
	}
	return out
}

// c16HammerTable: goroutine g's table - 2 columns, 4-8 rows; each column holds a
// few texts of the pool (its own few), each repeated down the column.
func c16HammerTable(spec C16Spec, g int) tabular.Table {
	r := NewRNG(spec.Seed*69069 + uint64(g)*362437 + 5)
	pool := append(append([]string{}, c16Atoms...), c16Shared...)
	few := func() []string {
		n := 2 + r.Intn(3)
		out := make([]string, n)
		for i := range out {
			out[i] = pool[r.Intn(len(pool))]
		}
		return out
	}
	a, b := few(), few()
	rows := 4 + r.Intn(5)
	t := tabular.New()
	t.AddHeaders(a[0], "n")
	for i := 0; i < rows; i++ {
		t.AddRowItems(a[(i/2)%len(a)], b[(i/3)%len(b)])
	}
	return t
}

// c16RenderLean: like c16Render for the five core classes, without the
// bookkeeping of capture (quoted and hex copies of every output).
func c16RenderLean(t tabular.Table, class string) (res string) {
	defer c16Tick()
	defer func() {
		if r := recover(); r != nil {
			res = "panic\x00"
		}
	}()
	var s string
	var err error
	switch class {
	case "csv":
		s, err = csv.Wrap(t).Render()
	case "json":
		s, err = tjson.Wrap(t).Render()
	case "markdown":
		s, err = markdown.Wrap(t).Render()
	case "html":
		s, err = html.Wrap(t).Render()
	case "texttable":
		s, err = texttable.Wrap(t).Render()
	default:
		panic("unknown class " + class)
	}
	if err != nil {
		return "err\x00" + s
	}
	return "ok\x00" + s
}

// c16Hammer: per class, `turns` renders of the goroutine's table (built anew
// every fourth turn); one record per class: the DISTINCT outputs, sorted (no
// counts: alone a few turns show the one output there is, concurrently all
// spec.Hammer turns must show that one and no other).
func c16Hammer(spec C16Spec, g int, concurrent bool) (out, labels []string) {
	turns := spec.Hammer
	if !concurrent && turns > 8 {
		turns = 8
	}
	for _, class := range c16HammerClasses(spec) {
		seen := map[string]int{}
		var t tabular.Table
		for turn := 0; turn < turns; turn++ {
			if turn%4 == 0 {
				t = c16HammerTable(spec, g)
			}
			seen[c16RenderLean(t, class)]++
		}
		keys := make([]string, 0, len(seen))
		for k := range seen {
			keys = append(keys, k)
		}
		sort.Strings(keys)
		out = append(out, fmt.Sprintf("dense: %d distinct\x00", len(keys))+strings.Join(keys, "\x00"))
		labels = append(labels, fmt.Sprintf("the distinct outputs of up to %d renders of one small table, format %s", spec.Hammer, class))
	}
	return out, labels
}

// ---------------------------------------------------------------- the cases of these two families

func c16R6Cases(r *RNG, tier string) []json.RawMessage {
	var out []json.RawMessage
	procs := []int{4, 8, 2, 16, 3}
	// (1) items of every kind; the reference of every goroutine from a process of its own
	nk := 2
	if tier == "thorough" {
		nk = 8
	}
	for i := 0; i < nk; i++ {
		s := C16Spec{Kind: "run", Seed: r.U64() % 1000000007, G: 8 + 2*(i%3), Readers: 1, Procs: procs[i%len(procs)],
			Tables: 1, Iters: 1 + i%2, MaxRows: 2, MaxCells: 3, Pristine: true, ColdFirst: i%2 == 0, Kinds: 2 + i%3}
		out = append(out, mustJSON(s))
	}
	// (2) dense in one renderer: one case per format class
	rounds := 1
	if tier == "thorough" {
		rounds = 4
	}
	for k := 0; k < rounds; k++ {
		for i, class := range c16CoreClasses {
			s := C16Spec{Kind: "run", Seed: r.U64() % 1000000007, G: 8 + 4*((i+k)%3), Readers: 1, Procs: procs[(i+k)%len(procs)],
				Tables: 1, Iters: 1, MaxRows: 2, MaxCells: 2, Formats: []string{class}, ColdFirst: (i+k)%2 == 0, Hammer: 400}
			if tier == "thorough" {
				s.Hammer = 1500
			}
			if s.Procs < 2 {
				s.Procs = 2
			}
			out = append(out, mustJSON(s))
		}
	}
	return out
}
