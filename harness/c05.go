package main

import (
	"encoding/json"
	"fmt"
	"strings"

	"go.pennock.tech/tabular"
	"go.pennock.tech/tabular/csv"
)

// hostile alphabet for CSV fields
var csvAtoms = []string{"", `"`, `,`, "\n", "\r\n", `a"`, `""`, "\x00", "\xff", "a", "é", `","`, "\"\n\"", "x,y", " "}

func randBytes(r *RNG, max int) string {
	n := r.Intn(max + 1)
	b := make([]byte, n)
	for i := range b {
		switch r.Intn(4) {
		case 0:
			b[i] = []byte{'"', ',', '\n', '\r', 0, 0xff, 'a'}[r.Intn(7)]
		default:
			b[i] = byte(r.Intn(256))
		}
	}
	return string(b)
}

func csvText(r *RNG) ItemSpec {
	if r.Pct(60) {
		return Str(pick(r, csvAtoms))
	}
	return Str(randBytes(r, 12))
}

// all shapes: header in {none, 0, 1, 2 cells} x every sequence of up to
// maxRows rows over {separator, 0, 1, 2 cells}
func enumShapes(maxRows int, maxCells int, f func(h int, rows []int)) {
	var rec func(rows []int)
	rec = func(rows []int) {
		for h := -1; h <= maxCells; h++ {
			f(h, rows)
		}
		if len(rows) == maxRows {
			return
		}
		for k := -1; k <= maxCells; k++ { // -1 = separator
			rec(append(append([]int{}, rows...), k))
		}
	}
	rec(nil)
}

func shapeSpec(r *RNG, h int, rows []int, text func(*RNG) ItemSpec, hows []int) TableSpec {
	ts := TableSpec{}
	if h >= 0 {
		hs := make([]ItemSpec, h)
		for i := range hs {
			hs[i] = text(r)
		}
		ts.Header = &hs
	}
	ts.HeaderAt = 0
	if len(rows) > 0 && r.Pct(25) {
		ts.HeaderAt = r.Intn(len(rows) + 1)
	}
	for _, k := range rows {
		if k < 0 {
			ts.Rows = append(ts.Rows, RowSpec{Sep: true})
			continue
		}
		cs := make([]ItemSpec, k)
		for i := range cs {
			cs[i] = text(r)
		}
		rs := RowSpec{How: pick(r, hows), Cells: cs}
		if r.Pct(8) {
			// cells appended to the row long after it joined the table
			rs.Late = []ItemSpec{text(r)}
			if r.Bool() {
				rs.Late = append(rs.Late, text(r))
			}
			rs.LateAfter = r.Intn(3)
		}
		ts.Rows = append(ts.Rows, rs)
	}
	if len(ts.Rows) > 0 && r.Pct(15) {
		ts.Stages = []int{r.Intn(len(ts.Rows))}
		if r.Bool() {
			ts.Stages = append(ts.Stages, r.Intn(len(ts.Rows)))
		}
	}
	return ts
}

func randTable(r *RNG, maxRows, maxCells int, text func(*RNG) ItemSpec, hows []int) TableSpec {
	h := -1
	if r.Pct(80) {
		h = r.Intn(maxCells + 1)
	}
	n := r.Intn(maxRows + 1)
	rows := make([]int, n)
	for i := range rows {
		if r.Pct(12) {
			rows[i] = -1
		} else {
			rows[i] = r.Intn(maxCells + 1)
		}
	}
	return shapeSpec(r, h, rows, text, hows)
}

// wideSpec: a table that reaches k columns: 0 = by its header, 1 = by one
// AddRowItems, 2 = step by step (a row attached empty and extended cell by cell,
// under a shorter header)
func wideSpec(k, how int, text func(*RNG) ItemSpec, r *RNG) TableSpec {
	cells := func(n int) []ItemSpec {
		cs := make([]ItemSpec, n)
		for i := range cs {
			cs[i] = text(r)
		}
		return cs
	}
	switch how {
	case 0:
		h := cells(k)
		return TableSpec{Header: &h, Rows: []RowSpec{{Cells: cells(k)}, {Cells: cells(2)}}}
	case 1:
		h := cells(2)
		return TableSpec{Header: &h, Rows: []RowSpec{{Cells: cells(1)}, {Cells: cells(k)}, {Sep: true}, {Cells: cells(k - 1)}}}
	}
	h := cells(3)
	return TableSpec{Header: &h, Rows: []RowSpec{{Cells: cells(2)}, {How: 2, Cells: cells(k)}, {Cells: cells(1)}}}
}

func shapeTags(v View) []string {
	tags := []string{fmt.Sprintf("ncols=%d", min(v.NCols, 6))}
	if v.Header == nil {
		tags = append(tags, "no-header")
	} else if len(*v.Header) == 0 {
		tags = append(tags, "empty-header")
	}
	zero, sep, ragged, over := false, false, false, false
	for _, r := range v.Rows {
		if r == nil {
			sep = true
			continue
		}
		if len(*r) == 0 {
			zero = true
		}
		if len(*r) < v.NCols {
			ragged = true
		}
		if len(*r) > v.NCols {
			over = true
		}
	}
	if zero {
		tags = append(tags, "zero-cell-row")
	}
	if sep {
		tags = append(tags, "separator")
	}
	if ragged {
		tags = append(tags, "ragged")
	}
	if over {
		tags = append(tags, "row-longer-than-ncols")
	}
	if len(v.Rows) == 0 {
		tags = append(tags, "no-rows")
	}
	return tags
}

// one-step reductions of a table spec
func shrinkTable(ts TableSpec) []TableSpec {
	var out []TableSpec
	clone := func() TableSpec {
		b, _ := json.Marshal(ts)
		var c TableSpec
		json.Unmarshal(b, &c)
		return c
	}
	if ts.Header != nil {
		c := clone()
		c.Header = nil
		out = append(out, c)
		for i := range *ts.Header {
			c := clone()
			h := append(append([]ItemSpec{}, (*ts.Header)[:i]...), (*ts.Header)[i+1:]...)
			c.Header = &h
			out = append(out, c)
		}
	}
	for i := range ts.Rows {
		c := clone()
		c.Rows = append(append([]RowSpec{}, ts.Rows[:i]...), ts.Rows[i+1:]...)
		out = append(out, c)
		for j := range ts.Rows[i].Cells {
			c := clone()
			cs := ts.Rows[i].Cells
			c.Rows[i].Cells = append(append([]ItemSpec{}, cs[:j]...), cs[j+1:]...)
			out = append(out, c)
			if len(cs[j].B) > 0 {
				c := clone()
				half := cs[j].B[:len(cs[j].B)/2]
				c.Rows[i].Cells[j] = Str(string(half))
				out = append(out, c)
				c2 := clone()
				c2.Rows[i].Cells[j] = Str(string(cs[j].B[1:]))
				out = append(out, c2)
			}
		}
		if ts.Rows[i].How != 0 {
			c := clone()
			c.Rows[i].How = 0
			out = append(out, c)
		}
		if len(ts.Rows[i].Late) > 0 {
			c := clone()
			c.Rows[i].Late = c.Rows[i].Late[:len(c.Rows[i].Late)-1]
			out = append(out, c)
			if ts.Rows[i].LateAfter > 0 {
				c := clone()
				c.Rows[i].LateAfter--
				out = append(out, c)
			}
		}
	}
	for i := range ts.Stages {
		c := clone()
		c.Stages = append(append([]int{}, ts.Stages[:i]...), ts.Stages[i+1:]...)
		out = append(out, c)
	}
	for i := range ts.Mutations {
		c := clone()
		c.Mutations = append(append([]Mutation{}, ts.Mutations[:i]...), ts.Mutations[i+1:]...)
		out = append(out, c)
	}
	if ts.Scribble {
		c := clone()
		c.Scribble = false
		out = append(out, c)
	}
	if ts.StageFaults {
		c := clone()
		c.StageFaults = false
		out = append(out, c)
	}
	if ts.FinalVia != 0 {
		c := clone()
		c.FinalVia = 0
		out = append(out, c)
	}
	if ts.FaultAt != 0 {
		c := clone()
		c.FaultAt = 0
		out = append(out, c)
		if ts.FaultAt > 1 {
			c := clone()
			c.FaultAt = ts.FaultAt - 1
			out = append(out, c)
		}
	}
	if ts.Header2 != nil {
		c := clone()
		c.Header2 = nil
		out = append(out, c)
	}
	if ts.Reenter != 0 {
		c := clone()
		c.Reenter = 0
		out = append(out, c)
	}
	for i := range ts.PropOps {
		c := clone()
		c.PropOps = append(append([]PropOp{}, ts.PropOps[:i]...), ts.PropOps[i+1:]...)
		out = append(out, c)
	}
	for k := range ts.AlignEarly {
		c := clone()
		delete(c.AlignEarly, k)
		out = append(out, c)
	}
	for k := range ts.SkipEarly {
		c := clone()
		delete(c.SkipEarly, k)
		out = append(out, c)
	}
	if ts.Header != nil {
		for j, h := range *ts.Header {
			if len(h.B) > 0 {
				c := clone()
				(*c.Header)[j] = Str(string(h.B[:len(h.B)/2]))
				out = append(out, c)
			}
		}
	}
	if ts.HeaderAt != 0 {
		c := clone()
		c.HeaderAt = 0
		out = append(out, c)
	}
	for k := range ts.Align {
		c := clone()
		delete(c.Align, k)
		out = append(out, c)
	}
	for k := range ts.Skip {
		c := clone()
		delete(c.Skip, k)
		out = append(out, c)
	}
	return out
}

func shrinkTableJSON(spec json.RawMessage) []json.RawMessage {
	var ts TableSpec
	if err := json.Unmarshal(spec, &ts); err != nil {
		return nil
	}
	var out []json.RawMessage
	for _, c := range shrinkTable(ts) {
		out = append(out, mustJSON(c))
	}
	return out
}

func init() {
	register(&Prop{
		ID:       "C05",
		Imports:  "From Tab Require Import Run.Glue Run.C05Run Run.C05R6Run.",
		CaseType: "c05x",
		CaseFn:   "C05x_case",
		ModelFn:  "C05x_model",
		Rule: "tables built through the public API (AddHeaders / AddRowItems / NewRow+Add+AddRow / AppendNewRow+Add / AddSeparator); " +
			"every shape with header in {none,0,1,2 cells} and up to 3 rows over {separator,0,1,2 cells} (texts from a quote/comma/CR/LF/NUL/0xFF alphabet), " +
			"every single field over all strings of length <= 2 of a 7-byte alphabet in first/last/padded position, and random tables to 6x6 over all 256 byte values; " +
			"records of 509 B .. 8 KiB (thorough: to 70 KB) before, between and after small ones, fields of 15..257 quote characters (alone and after a longer plain field), 700 small records, tables of 9..47 columns; a render-time callback that renders the same wrapper again (enrichSpec: Reenter); " +
			"SESSIONS (one render after another, every render judged against the table as the spec says it stood then): histories over 2..4 tables (tabular.New / csv.New / a Table stating its own column count) of AddHeaders, AddRowItems, AddSeparator, a row taken by a second table and extended afterwards (one table then holds a row longer than its column count: its render is refused PART-WAY, after the records before it), tables widened until they render again, a failing writer in between, with renders through csv.Render, Wrap(t).Render, one kept wrapper's Render, csv.RenderTo into a fresh buffer, RenderTo into a plain writer and into one buffer the caller reuses; exhaustively: refusal before any record / after the header / after 1, 2, 3 records x 6 entry points for the refused render x 6 for the next render (of an unrelated table - every other time after a render into a failing writer - then of the same table once it is wide enough), and the same with a table stating a column count smaller than one of its rows over the 3 x 3 string-returning entry points; refused renders that have written 40 B .. 5 KB (thorough: 70 KB) before small and large successful ones; " +
			"ROUND 6 (c05_r6.go): ITEMS OF EVERY GO KIND - rune, int, bool, float, nil, Stringers, errors, nested cells and 28 further dynamic types (every sized integer and float type, complex, named types, slices, arrays, maps, structs, pointers), exhaustively every integer-like type at every ASCII code point and 27 edge values as header and body cells, every other kind over the hostile alphabet, random sessions and tables over all kinds, the expected text computed on the spec side by the documented rule; STATE THAT IS NOT CONTENT - Column(n).Name, application properties on table / column / row / cell, AddError on table / row, on every object 0..ncols+1, before and after the rows, x header {none, 0..3 cells} x 6 entry points, and in random sessions; DESTINATIONS - RenderTo into an io.Writer with room for b more bytes whose failing Write takes part of the payload (n < len(p)) and returns an error of 17 classifications (plain, Temporary, Timeout, wrapped, errno, io / os / context / net errors) and which takes everything afterwards, also offering WriteString: every room 0..len(output)+1 x every classification, rooms inside fields of 600 B / 4 KB (thorough 70 KB), every render that reports success judged on what the destination holds; " +
			"a case is non-trivial when the table has at least one column (rendering is attempted); distinct = distinct (views, outcomes)",
		Exhaustive: "shapes (header x row-sequence up to length 3) and all 57 strings of length<=2 over 7 hostile bytes in 3 field positions; sessions: {no header, header} x {0,1,2 fitting rows before the over-long one} x 6 entry points of the refused render x 6 entry points of the following renders (row shared with a second table and extended), x 3 x 3 string-returning entry points (table stating its own column count)",
		Gen: func(r *RNG, tier string) []json.RawMessage {
			var out []json.RawMessage
			add := func(ts TableSpec) { out = append(out, mustJSON(ts)) }
			hows := []int{0, 0, 1, 2, 3}
			maxRows := 3
			if tier == "thorough" {
				maxRows = 4
			}
			enumShapes(maxRows, 2, func(h int, rows []int) { add(shapeSpec(r, h, rows, csvText, hows)) })
			// every short string over the hostile bytes, in each field position
			alpha := []byte{'"', ',', '\n', '\r', 'a', 0, 0xff}
			var strs []string
			strs = append(strs, "")
			for _, a := range alpha {
				strs = append(strs, string([]byte{a}))
				for _, b := range alpha {
					strs = append(strs, string([]byte{a, b}))
				}
			}
			for _, s := range strs {
				h := []ItemSpec{Str("h1"), Str("h2"), Str("h3")}
				add(TableSpec{Header: &h, Rows: []RowSpec{
					{Cells: []ItemSpec{Str(s), Str("m"), Str("z")}},
					{Cells: []ItemSpec{Str("a"), Str(s)}},
					{Cells: []ItemSpec{Str("a"), Str("m"), Str(s)}}}})
			}
			// records at the sizes where buffering layers change behaviour (512 B,
			// 4 KiB, 8 KiB, 64 KiB), before, between and after small records; half
			// of them made of quote characters (which double)
			bigSizes := []int{509, 2045, 4089, 4090, 4096, 8190}
			if tier == "thorough" {
				bigSizes = append(bigSizes, 70000, 510, 511, 512, 1023, 2046, 2047, 2048, 4091, 4092, 4093, 4094, 4095, 4097, 8191, 8192, 16384, 32768, 65536)
			}
			for i, n := range bigSizes {
				body := strings.Repeat("x", n)
				if i%2 == 1 {
					body = strings.Repeat(`"`, n/2) + strings.Repeat("y", n-n/2)
				}
				h := []ItemSpec{Str("h1"), Str("h2")}
				small := RowSpec{Cells: []ItemSpec{Str("a"), Str("b")}}
				bigRow := RowSpec{Cells: []ItemSpec{Str("k"), Str(body)}}
				switch i % 4 {
				case 0:
					add(TableSpec{Header: &h, Rows: []RowSpec{small, bigRow, small}})
				case 1:
					add(TableSpec{Header: &h, Rows: []RowSpec{small, small, bigRow}, FinalVia: 1})
				case 2:
					hb := []ItemSpec{Str("h1"), Str(body)}
					add(TableSpec{Header: &hb, Rows: []RowSpec{small, bigRow, bigRow, small}})
				default:
					add(TableSpec{Rows: []RowSpec{bigRow, small, {Sep: true}, bigRow, small}, FinalVia: 1})
				}
			}
			// fields made of quote characters at the sizes of small scratch buffers,
			// first in a fresh wrapper's life and after a longer plain field
			for _, n := range []int{15, 16, 17, 31, 32, 33, 63, 64, 65, 127, 128, 129, 255, 256, 257} {
				q := strings.Repeat(`"`, n)
				h := []ItemSpec{Str("h1"), Str("h2")}
				add(TableSpec{Header: &h, Rows: []RowSpec{{Cells: []ItemSpec{Str(q), Str("y")}}}})
				add(TableSpec{Rows: []RowSpec{{Cells: []ItemSpec{Str(strings.Repeat("p", n)), Str(q + `"`)}}, {Cells: []ItemSpec{Str("x" + q[1:]), Str(q[:n-1] + ",")}}}, FinalVia: n % 2})
			}
			// many small records (a batch fills up), and many columns
			{
				h := []ItemSpec{Str("h1"), Str("h2")}
				long := TableSpec{Header: &h}
				for i := 0; i < 700; i++ {
					long.Rows = append(long.Rows, RowSpec{Cells: []ItemSpec{Str(fmt.Sprintf("r%d", i)), Str("v\"w")}})
				}
				add(long)
				for _, k := range []int{9, 10, 11, 22, 23, 47} {
					add(wideSpec(k, k%3, csvText, r))
				}
			}
			n := 300
			if tier == "thorough" {
				n = 8000
			}
			for i := 0; i < n; i++ {
				ts := randTable(r, 6, 6, csvText, hows)
				enrichSpec(r, &ts, csvText)
				add(ts)
			}
			// sessions come last: one render after another, over several tables
			out = append(out, genC05Sessions(r, tier, csvText)...)
			// round 6: items of every Go kind, state that is not content, destinations (c05_r6.go)
			out = append(out, genC05R6Sessions(r, tier)...)
			nk := 120
			if tier == "thorough" {
				nk = 3000
			}
			for i := 0; i < nk; i++ {
				ts := randTable(r, 5, 5, tableItems, hows)
				enrichSpec(r, &ts, tableItems)
				add(ts)
			}
			for i := 0; i < nk; i++ {
				add0 := randSession(r, csvAnyItem)
				out = append(out, mustJSON(add0))
			}
			return out
		},
		Run: func(spec json.RawMessage) CaseOut {
			ss, tsp := parseC05Spec(spec)
			if ss != nil {
				return runC05Session(*ss)
			}
			ts := *tsp
			t := tabular.New()
			o := ts.BuildRenderW(t, func(t tabular.Table) RenderW { return csv.Wrap(t) })
			v := ts.SpecView() // what was put in; extractView(t) would be what the table now holds
			vc := v.Coq(true)
			return CaseOut{
				Coq:        cqPair(cqList([]string{vc}), cqList([]string{"(S0 " + cqPair(cqNat(0), o.Coq()) + ")"})), // a session of one render
				Desc:       o,
				Size:       ts.Size(),
				Tags:       append(shapeTags(v), "outcome="+o.Kind),
				Key:        vc + o.Kind,
				Nontrivial: v.NCols > 0,
			}
		},
		Shrink: func(spec json.RawMessage) []json.RawMessage {
			if ss, _ := parseC05Spec(spec); ss != nil {
				var out []json.RawMessage
				for _, c := range shrinkC05Session(*ss) {
					out = append(out, mustJSON(c))
				}
				return out
			}
			return shrinkTableJSON(spec)
		},
	})
}
