package main

// C19: every advertised style works; style strings resolve as documented.
//
// A spec is a registry world: a sequence of registrations (name, palette
// decoration) plus optional extra style strings.  The world runs in its own
// child process (`vharness C19worker`): before the first and after every
// registration it records auto.ListStyles() and, for a batch of style strings
// derived from the listing (every listed name, case variants, "texttable."
// prefixes, trailing sections, sub-package names in every case with trailing
// sections, unknown and hostile strings), the dynamic type of auto.New(style)
// and how a good table renders through it.
//
// Round 5: the stock names are registered over like any other name (every
// built-in, alone, rotated, overwritten and put back); plain 'texttable' and
// the world's own names are asked at every step, also before they are
// registered; styles are also put to auto.Render / auto.RenderTo; renderers
// made at one step are kept and rendered again after later registrations.

import (
	"encoding/json"
	"fmt"
	"os"
	"runtime"
	"strings"
	"sync"
	"unicode"

	"go.pennock.tech/tabular/auto"
	"go.pennock.tech/tabular/csv"
	"go.pennock.tech/tabular/html"
	tjson "go.pennock.tech/tabular/json"
	"go.pennock.tech/tabular/markdown"
	"go.pennock.tech/tabular/texttable"
	"go.pennock.tech/tabular/texttable/decoration"
)

type C19Reg struct {
	N string `json:"n"` // Go-quoted
	D int    `json:"d"`
}

type C19Spec struct {
	Regs  []C19Reg `json:"regs"`
	Extra []string `json:"extra,omitempty"` // Go-quoted style strings, asked after every step
	Full  bool     `json:"full,omitempty"`  // the large query set after the last registration
	// Cold: the first registration is the very first thing this process asks of the registry
	// (no listing, no lookup, no auto call before it); the initial content is then not dumped
	// but taken to be the six documented built-ins.
	Cold bool `json:"cold,omitempty"`
	// Burst: all registrations (distinct names) are made at once from that many goroutines
	// released together; only the state after the join is observed.
	Burst int `json:"burst,omitempty"`
}

type C19Q struct {
	S     string `json:"s"`     // style, Go-quoted
	First string `json:"first"` // strings.Split(style, ".")[0]
	Lower string `json:"lower"` // strings.ToLower(first)
	Kind  string `json:"kind"`  // csv html markdown json text other
	Type  string `json:"type"`
	R     RRes   `json:"r"`
	Class string `json:"class"`
	// how the style was put to the package: "" = auto.New(style) (or auto.Wrap on a held wrapper, class
	// rewrap:...), "render" = auto.Render(t, style), "renderto" = auto.RenderTo(t, w, style); the last two
	// return no renderer, so no dynamic type is observed
	Via string `json:"via,omitempty"`
}

// A renderer the application kept: made by auto.New(style) at step Since, filled and rendered then
// (Was), rendered again at the step that carries this record.
type C19HeldQ struct {
	Since int  `json:"since"`
	Q     C19Q `json:"q"`
	Was   RRes `json:"was"`
}

type C19Step struct {
	Listing []string   `json:"listing"`
	Qs      []C19Q     `json:"qs"`
	Skipped bool       `json:"skipped,omitempty"` // a registration of a burst: nothing observed
	Held    []C19HeldQ `json:"held,omitempty"`
}

type C19Out struct {
	Init     []InitEnt `json:"init"`
	Steps    []C19Step `json:"steps"`
	BurstBad string    `json:"burstbad,omitempty"` // judged on the spot, after everything above was recorded
}

// After the observed part of a burst world: `rounds` more bursts of throw-away
// names, `goroutines` released together each registering `each` names of its
// own; after every join all names registered so far must be listed by
// auto.ListStyles, resolve through the registry, and a few of them are
// selected through auto.New and must render with the decoration they were
// registered with.  Returns what went wrong first, or "".
func c19BurstRounds(rounds, goroutines, each int, ids map[string]int) string {
	if runtime.GOMAXPROCS(0) < 4 {
		defer runtime.GOMAXPROCS(runtime.GOMAXPROCS(4))
	}
	type ent struct {
		name string
		dec  int
	}
	var all []ent
	for r := 0; r < rounds; r++ {
		start := make(chan struct{})
		var wg sync.WaitGroup
		batch := make([][]ent, goroutines)
		for g := 0; g < goroutines; g++ {
			for k := 0; k < each; k++ {
				batch[g] = append(batch[g], ent{fmt.Sprintf("%c-burst.%d.%d.%d", "azm0"[(g+k)%4], r, g, k), 1 + (r+g+k)%(len(regPalette)-1)})
			}
			wg.Add(1)
			go func(g int) {
				defer wg.Done()
				<-start
				for _, e := range batch[g] {
					decoration.RegisterDecorationName(e.name, regPalette[e.dec])
				}
			}(g)
		}
		close(start)
		wg.Wait()
		for g := range batch {
			all = append(all, batch[g]...)
		}
		listed := map[string]bool{}
		prev := ""
		for i, n := range auto.ListStyles() {
			if i > 0 && n < prev {
				return fmt.Sprintf("burst round %d: ListStyles not sorted at %q", r, n)
			}
			listed[n] = true
			prev = n
		}
		for _, e := range all {
			if !listed[e.name] {
				return fmt.Sprintf("burst round %d: %q was registered (all registrations have returned) but is not listed", r, e.name)
			}
			if d := decID(decoration.Named(e.name)); d != e.dec {
				return fmt.Sprintf("burst round %d: Named(%q) is decoration %d, registered was %d", r, e.name, d, e.dec)
			}
		}
		for _, e := range []ent{all[len(all)-1], all[(r*7)%len(all)], all[len(all)-goroutines*each]} {
			for _, style := range []string{e.name, "texttable." + e.name} {
				q := c19Ask(c19ask{style, "burst"}, ids)
				if q.Kind != "text" || q.R.K != "ok" || q.R.ID != e.dec {
					return fmt.Sprintf("burst round %d: auto.New(%q) is a %s rendering %s id=%d, registered was decoration %d", r, style, q.Type, q.R.K, q.R.ID, e.dec)
				}
			}
		}
	}
	return ""
}

var subPkgs = []string{"csv", "html", "json", "markdown", "texttable"}

func caseVariants(s string) []string {
	alt := []rune(s)
	for i, r := range alt {
		if i%2 == 0 {
			alt[i] = unicode.ToUpper(r)
		} else {
			alt[i] = unicode.ToLower(r)
		}
	}
	title := s
	if len(s) > 0 && s[0] < 128 {
		title = strings.ToUpper(s[:1]) + s[1:]
	}
	return []string{strings.ToUpper(s), strings.ToLower(s), title, string(alt)}
}

// ASCII-only case variants (the property's clause is about these)
func asciiVariants(s string) []string {
	up := []byte(s)
	alt := []byte(s)
	last := []byte(s)
	for i, c := range up {
		if c >= 'a' && c <= 'z' {
			up[i] = c - 32
			if i%2 == 1 {
				alt[i] = c - 32
			}
			if i == len(up)-1 {
				last[i] = c - 32
			}
		}
	}
	title := []byte(s)
	if len(title) > 0 && title[0] >= 'a' && title[0] <= 'z' {
		title[0] -= 32
	}
	return []string{string(up), string(title), string(alt), string(last)}
}

type c19ask struct{ s, class string }

var c19HeldStyles = []string{"ascii-simple", "csv", "none", "markdown", "utf8-double", "html", "json"}

// level 0: the listed names only; 1: plus prefixes/variants/trailing sections of
// the names registered in this world, a small sub-package block and the hostile
// strings; 2: variants of every listed name and the whole sub-package block
func c19Queries(listing []string, extra []string, level int, mine map[string]bool) []c19ask {
	var qs []c19ask
	seen := map[string]bool{}
	add := func(s, class string) {
		if !seen[s] {
			seen[s] = true
			qs = append(qs, c19ask{s, class})
		}
	}
	for _, l := range listing {
		add(l, "listed")
	}
	for _, e := range extra {
		add(unq(e), "extra")
	}
	if level == 0 {
		return qs
	}
	for li, l := range listing {
		add("texttable."+l, "texttable-prefix")
		// names that merely resemble a listed one: they name nothing (unless registered themselves);
		// for the names of this world, and for a third of the others in turn
		if level < 2 && !mine[l] && (li+len(listing))%3 != 0 {
			continue
		}
		add(l+"x", "near-miss-of-listed")
		add(l+"such", "near-miss-of-listed")
		if len(l) > 0 {
			add(l[:len(l)-1], "near-miss-of-listed")
		}
		add("texttable."+l+"d", "near-miss-of-listed")
		if level < 2 && !mine[l] {
			continue
		}
		add(l+"-v2.x", "near-miss-of-listed")
		if len(l) > 1 {
			add(l[1:], "near-miss-of-listed")
		}
		for _, v := range caseVariants(l) {
			add(v, "case-variant-of-listed")
		}
		add("TextTable."+l, "texttable-prefix")
		add("TEXTTABLE."+l+".x", "texttable-prefix")
		add(l+".x", "trailing")
		add(l+".", "trailing")
		add(l+".x.y", "trailing")
	}
	for i, p := range subPkgs {
		vs := []string{p}
		if level == 2 {
			vs = append(vs, asciiVariants(p)...)
		} else {
			vs = append(vs, asciiVariants(p)[(i+len(listing))%4])
		}
		for _, v := range vs {
			add(v, "subpackage-case")
			if level == 2 || v != p {
				add(v+".x", "subpackage-trailing")
			}
			if level == 2 {
				add(v+".", "subpackage-trailing")
				add(v+".none", "subpackage-trailing")
				add(v+".utf8-light.x", "subpackage-trailing")
				add(v+"..", "subpackage-trailing")
			}
		}
	}
	// a sub-package keyword as the section after "texttable" is a decoration name (an
	// unknown one, unless registered); sections with = and quotes after a keyword are
	// unknown trailing sections like any other
	for i, p := range subPkgs {
		vs := []string{p}
		if level == 2 {
			vs = append(vs, asciiVariants(p)...)
		} else {
			vs = append(vs, asciiVariants(p)[(i+1+len(listing))%4])
			if p != "html" && (i+len(listing))%5 >= 2 {
				add("texttable."+p, "keyword-after-texttable")
				continue
			}
		}
		for j, v := range vs {
			if level == 2 || j == 0 {
				add("texttable."+v, "keyword-after-texttable")
				add("texttable."+v+".utf8-light", "keyword-after-texttable")
			}
			if level == 2 || j == 1 {
				add([]string{"TextTable.", "TEXTTABLE.", "tExTtAbLe."}[(i+j)%3]+v, "keyword-after-texttable")
			}
			if level == 2 {
				add("texttable."+v+".x", "keyword-after-texttable")
			}
			opts := []string{`note="draft`, `x="`, `a=b.v="1.2`, `id="x"`, `class=a b`, `caption="c.d"`, `k=`, `"`, `=`, `caption=`, `id=x.class="y z".caption="t`, `""`, `="`}
			if level < 2 {
				opts = []string{opts[(i+2*j+len(listing))%len(opts)], []string{`x="`, `note="draft`, `a=b.v="1.2`}[(i+j)%3]}
			}
			for _, o := range opts {
				add(v+"."+o, "option-like-trailing-section")
			}
		}
	}
	hostile := []string{"", ".", "..", "nosuch", "nosuch.x", "NONE", "texttable.nosuch", "texttable.", "texttable..",
		"texttable.texttable", "texttable.csv", "csv.texttable", "texttable.NONE", "none.utf8-light", "utf8-light-curved.x",
		"mar\u212Adown", "mar\u212Adown.x", "ｃｓｖ", "\xff", "CSV\xff", "İ", "csſ", "csv ", " csv", "csvx", "cs", "text", "texttablex"}
	if level < 2 {
		hostile = []string{"", "nosuch", "nosuch.x", "texttable.nosuch", "texttable.", "mar\u212Adown"}
	}
	for _, s := range hostile {
		add(s, "fixed-hostile")
	}
	return qs
}

func c19Kind(r auto.RenderTable) string {
	switch r.(type) {
	case *csv.CSVTable:
		return "csv"
	case *html.HTMLTable:
		return "html"
	case *markdown.MarkdownTable:
		return "markdown"
	case *tjson.JSONTable:
		return "json"
	case *texttable.TextTable:
		return "text"
	}
	return "other"
}

func c19Ask(a c19ask, ids map[string]int) C19Q {
	q, _ := c19AskKeep(a, ids)
	return q
}

// The same style put to the two entrances that return only the rendering:
// auto.Render(t, style) and auto.RenderTo(t, w, style) on a table of the
// application's own.
func c19AskVia(a c19ask, via string, ids map[string]int) (q C19Q) {
	q.S, q.Class, q.Via = qname(a.s), map[string]string{"render": "via-auto.Render", "renderto": "via-auto.RenderTo"}[via], via
	first := strings.Split(a.s, ".")[0]
	q.First, q.Lower = qname(first), qname(strings.ToLower(first))
	q.Kind = "other"
	t := goodTable()
	if via == "render" {
		q.R = renderRes(func() (string, error) { return auto.Render(t, a.s) }, ids)
	} else {
		q.R = renderRes(func() (string, error) {
			var b strings.Builder
			err := auto.RenderTo(t, &b, a.s)
			return b.String(), err
		}, ids)
	}
	return q
}

func c19AskKeep(a c19ask, ids map[string]int) (q C19Q, kept auto.RenderTable) {
	q.S, q.Class = qname(a.s), a.class
	first := strings.Split(a.s, ".")[0]
	q.First, q.Lower = qname(first), qname(strings.ToLower(first))
	defer func() {
		if p := recover(); p != nil {
			q.Kind = "other"
			q.R = RRes{K: "panic", Msg: fmt.Sprint(p)}
		}
	}()
	r := auto.New(a.s)
	q.Kind = c19Kind(r)
	q.Type = fmt.Sprintf("%T", r)
	r.AddHeaders("h1", "h2")
	r.AddRowItems("a", "b")
	q.R = renderRes(r.Render, ids)
	return q, r
}

// The same question asked of a table the application already holds wrapped:
// held := auto.New(heldStyle), filled and rendered; then auto.Wrap(held, style)
// must resolve exactly as for a fresh table (first answer), and held itself
// must afterwards still render as heldStyle does (second answer, recorded as a
// question about heldStyle).
func c19AskHeld(a c19ask, heldStyle string, ids map[string]int) (qs []C19Q) {
	var q, h C19Q
	q.S, q.Class = qname(a.s), "rewrap:"+a.class
	first := strings.Split(a.s, ".")[0]
	q.First, q.Lower = qname(first), qname(strings.ToLower(first))
	h.S, h.Class = qname(heldStyle), "held-wrapper-after-rewrap"
	hfirst := strings.Split(heldStyle, ".")[0]
	h.First, h.Lower = qname(hfirst), qname(strings.ToLower(hfirst))
	stage := 0
	defer func() {
		if p := recover(); p != nil {
			bad := C19Q{Kind: "other", R: RRes{K: "panic", Msg: fmt.Sprint(p)}}
			if stage < 2 {
				q.Kind, q.R = bad.Kind, bad.R
				qs = []C19Q{q}
			} else {
				h.Kind, h.R = bad.Kind, bad.R
				qs = []C19Q{q, h}
			}
		}
	}()
	held := auto.New(heldStyle)
	held.AddHeaders("h1", "h2")
	held.AddRowItems("a", "b")
	held.Render()
	stage = 1
	r := auto.Wrap(held, a.s)
	q.Kind = c19Kind(r)
	q.Type = fmt.Sprintf("%T over %T", r, held)
	q.R = renderRes(r.Render, ids)
	stage = 2
	h.Kind = c19Kind(held)
	h.Type = fmt.Sprintf("%T", held)
	h.R = renderRes(held.Render, ids)
	return []C19Q{q, h}
}

func c19Worker() {
	c19Init()
	var spec C19Spec
	if err := json.NewDecoder(os.Stdin).Decode(&spec); err != nil {
		panic(err)
	}
	// outputs of the good table by every direct route
	ids := map[string]int{}
	for k, v := range outToID {
		ids[k] = v
	}
	direct := func(id int, f func() (string, error)) {
		out, err := f()
		if err != nil {
			panic(fmt.Sprintf("direct renderer %d refuses the good table: %v", id, err))
		}
		if _, dup := ids[out]; dup {
			panic("two direct renderers agree")
		}
		ids[out] = id
	}
	direct(101, csv.Wrap(goodTable()).Render)
	direct(102, html.Wrap(goodTable()).Render)
	direct(103, markdown.Wrap(goodTable()).Render)
	direct(104, tjson.Wrap(goodTable()).Render)

	for _, r := range spec.Regs {
		if r.D <= 0 || r.D >= len(regPalette) {
			panic("decoration index out of range (C19 registers non-empty decorations only)")
		}
	}
	var out C19Out
	first := 0
	if spec.Cold && len(spec.Regs) > 0 && spec.Burst == 0 {
		// nothing above consulted the registry: constructors, SetDecoration and the other
		// packages' renderers do not look names up
		decoration.RegisterDecorationName(unq(spec.Regs[0].N), regPalette[spec.Regs[0].D])
		first = 1
		out.Init = assumedInit()
	} else if spec.Cold {
		out.Init = assumedInit()
	} else {
		out.Init = dumpRegistry()
	}
	mine := map[string]bool{}
	// Asked at EVERY step, whatever the level: plain 'texttable' in two spellings, and every name this
	// world registers - the ones not registered yet included: they name nothing until they are, the
	// registered ones select their latest decoration - bare and under 'texttable.'.
	every := append([]string{}, spec.Extra...)
	every = append(every, "texttable", "TextTable")
	for _, r := range spec.Regs {
		every = append(every, r.N, "texttable."+r.N)
	}
	// renderers the application keeps across registrations
	type keptEnt struct {
		since int
		q     C19Q
		r     auto.RenderTable
	}
	var kept []keptEnt
	observe := func(level int, final bool) {
		var st C19Step
		stepNo := len(out.Steps)
		l := auto.ListStyles()
		for _, n := range l {
			st.Listing = append(st.Listing, qname(n))
		}
		asks := c19Queries(l, every, level, mine)
		for _, a := range asks {
			st.Qs = append(st.Qs, c19Ask(a, ids))
		}
		// the other entrances, auto.Render(t, style) and auto.RenderTo(t, w, style): the listed names,
		// the every-step styles and a rotating fifth (of the large query set: tenth) of the rest,
		// alternating between the two
		nth := 5
		if level == 2 {
			nth = 10
		}
		for i, a := range asks {
			if a.class == "listed" || a.class == "extra" || (i+stepNo+len(l))%nth == 0 {
				st.Qs = append(st.Qs, c19AskVia(a, []string{"render", "renderto"}[(i+stepNo)%2], ids))
			}
		}
		// a renderer made at an earlier step is rendered again at the step after it and at the last one
		for _, k := range kept {
			if k.since == stepNo-1 || final {
				q := k.q
				q.Class = "kept-renderer-rendered-again"
				q.Kind = c19Kind(k.r)
				q.R = renderRes(k.r.Render, ids)
				st.Held = append(st.Held, C19HeldQ{Since: k.since, Q: q, Was: k.q.R})
			}
		}
		if !final {
			for _, e := range every {
				q, r := c19AskKeep(c19ask{unq(e), "kept"}, ids)
				if r != nil {
					kept = append(kept, keptEnt{stepNo, q, r})
				}
			}
		}
		if level >= 1 && final {
			// after the last registration: re-wrapping a held wrapper - the styles that matter
			// for three (level 2: all) held kinds in turn, the names of this world and a
			// rotating choice of the rest for one held kind each
			n := 0
			for _, a := range asks {
				always := a.s == "texttable" || a.s == "nosuch" || a.s == "texttable.nosuch"
				if always {
					for hi, hs := range c19HeldStyles {
						if level == 2 || (hi+len(l))%7 < 3 {
							st.Qs = append(st.Qs, c19AskHeld(a, hs, ids)...)
						}
					}
					continue
				}
				n++
				if mine[a.s] || (level == 2 && n%4 == 0) || n%24 == 0 {
					st.Qs = append(st.Qs, c19AskHeld(a, c19HeldStyles[(n+len(l))%len(c19HeldStyles)], ids)...)
				}
			}
		}
		out.Steps = append(out.Steps, st)
	}
	last := 1
	if spec.Full {
		last = 2
	}
	if spec.Burst > 0 {
		// distinct names, registered at once
		start := make(chan struct{})
		var wg sync.WaitGroup
		for g := 0; g < spec.Burst; g++ {
			wg.Add(1)
			go func(g int) {
				defer wg.Done()
				<-start
				for i := g; i < len(spec.Regs); i += spec.Burst {
					decoration.RegisterDecorationName(unq(spec.Regs[i].N), regPalette[spec.Regs[i].D])
				}
			}(g)
		}
		close(start)
		wg.Wait()
		for i := range spec.Regs {
			mine[unq(spec.Regs[i].N)] = true
			if i < len(spec.Regs)-1 {
				out.Steps = append(out.Steps, C19Step{Skipped: true})
			}
		}
		observe(0, true)
		out.BurstBad = c19BurstRounds(40, 16, 3, ids)
		json.NewEncoder(os.Stdout).Encode(out)
		return
	}
	if first == 1 {
		mine[unq(spec.Regs[0].N)] = true
		if len(spec.Regs) == 1 {
			observe(last, true)
		} else {
			observe(0, false)
		}
	} else if len(spec.Regs) == 0 {
		observe(last, true)
	} else if !spec.Cold {
		observe(0, false)
	}
	for i := first; i < len(spec.Regs); i++ {
		r := spec.Regs[i]
		decoration.RegisterDecorationName(unq(r.N), regPalette[r.D])
		mine[unq(r.N)] = true
		if i == len(spec.Regs)-1 {
			observe(last, true)
		} else {
			observe(0, false)
		}
	}
	json.NewEncoder(os.Stdout).Encode(out)
}

func init() {
	if len(os.Args) > 1 && os.Args[1] == "C19worker" {
		c19Worker()
		os.Exit(0)
	}
}

// ---------------------------------------------------------------- Coq term, verdict hints

var c19KindCoq = map[string]string{"csv": "KCsv", "html": "KHtml", "markdown": "KMarkdown", "json": "KJson", "text": "KText", "other": "KOther"}

type c19Desc struct {
	Sig     string      `json:"sig"`
	Crash   bool        `json:"crash,omitempty"`
	Report  string      `json:"report,omitempty"`
	Failing []string    `json:"failing,omitempty"` // human-readable: what looks wrong, Go side
	Init    []InitEnt   `json:"init,omitempty"`
	Steps   interface{} `json:"steps,omitempty"`
}

func c19Run(spec json.RawMessage) CaseOut {
	c19Init()
	var sp C19Spec
	if err := json.Unmarshal(spec, &sp); err != nil {
		panic(err)
	}
	cr := childFor("C19worker", spec)
	var out C19Out
	desc := c19Desc{}
	bad := cr.Race || cr.Crash
	if !bad {
		if err := json.Unmarshal(cr.Stdout, &out); err != nil {
			bad = true
			cr.Stderr += "\nunparsable worker output: " + err.Error()
		}
	}
	if bad {
		desc.Crash = true
		desc.Sig = "worker-crash"
		desc.Report = trunc(cr.Stderr, 6000)
	} else if out.BurstBad != "" {
		bad = true
		desc.Sig = "concurrent-registration-lost"
		desc.Report = out.BurstBad
	}
	// Go-side reading of the observations, for the failure signature and the
	// human-readable part of a replay only (the verdict is Coq's)
	cur := map[string]int{}
	for _, e := range out.Init {
		cur[unq(e.N)] = e.D
	}
	nq := 0
	knownClass := false
	classes := map[string]bool{}
	// step i follows registration i-off (off = 1 when the state before any registration was observed)
	off := 1
	if len(sp.Regs) > 0 && (sp.Cold || sp.Burst > 0) {
		off = 0
	}
	for i, st := range out.Steps {
		if i-off >= 0 {
			cur[unq(sp.Regs[i-off].N)] = sp.Regs[i-off].D
		}
		byStyle := map[string]C19Q{}
		for _, q := range st.Qs {
			nq++
			classes[q.Class] = true
			if q.Via != "" {
				continue
			}
			byStyle[unq(q.S)] = q
			// plain 'texttable' is the package's default decoration (palette entry 5, Model/Registry.v
			// default_decoration), whatever the registry holds
			if unq(q.Lower) == "texttable" && !strings.Contains(unq(q.S), ".") && (q.R.K != "ok" || q.R.ID != 5) {
				desc.Failing = append(desc.Failing, fmt.Sprintf("step %d: plain %q (%s) does not render with the default decoration: %s, render %s id=%d %s", i, unq(q.S), q.Class, q.Type, q.R.K, q.R.ID, q.R.Msg))
				if desc.Sig == "" {
					desc.Sig = "plain-texttable-not-default"
				}
			}
		}
		for _, q := range st.Qs {
			// the other entrances against auto.New of the same style at the same step
			if n, ok := byStyle[unq(q.S)]; ok && q.Via != "" && !strings.HasPrefix(n.Class, "rewrap:") && n.Class != "held-wrapper-after-rewrap" &&
				(q.R.K != n.R.K || q.R.ID != n.R.ID) {
				desc.Failing = append(desc.Failing, fmt.Sprintf("step %d: style %q: auto.%s gives %s id=%d %s where auto.New(style).Render() gives %s id=%d", i, unq(q.S), q.Via, q.R.K, q.R.ID, q.R.Msg, n.R.K, n.R.ID))
				if desc.Sig == "" {
					desc.Sig = "entrances-disagree"
				}
			}
		}
		for _, h := range st.Held {
			nq++
			classes[h.Q.Class] = true
			if h.Q.R.K != h.Was.K || h.Q.R.ID != h.Was.ID {
				desc.Failing = append(desc.Failing, fmt.Sprintf("step %d: the renderer auto.New(%q) returned at step %d rendered %s id=%d then and renders %s id=%d %s now", i, unq(h.Q.S), h.Since, h.Was.K, h.Was.ID, h.Q.R.K, h.Q.R.ID, h.Q.R.Msg))
				if desc.Sig == "" {
					desc.Sig = "kept-renderer-changed"
				}
			}
		}
		for _, lq := range st.Listing {
			l := unq(lq)
			q, ok := byStyle[l]
			if !ok {
				continue
			}
			low := unq(q.Lower)
			isPkg := low == "csv" || low == "html" || low == "json" || low == "markdown" || low == "texttable"
			wrong := q.R.K != "ok"
			if !wrong && !isPkg {
				if want, reg := cur[l]; reg && q.R.ID != want {
					wrong = true
				}
			}
			if low == "texttable" && strings.Contains(l, ".") {
				// a registered name "texttable.<more>" is listed but resolves to <more>
				// (the documented guard of c19_listed_work): a known finding with its own signature,
				// which never masks another failure of the same world
				if q.R.K != "ok" {
					desc.Failing = append(desc.Failing, fmt.Sprintf("step %d: listed name %q resolves to the decoration named by the sections after \"texttable.\": render %s %s", i, l, q.R.K, q.R.Msg))
					knownClass = true
				}
				wrong = false
			}
			if q2, ok2 := byStyle["texttable."+l]; ok2 && !wrong && strings.Contains(l, ".") {
				if want, reg := cur[l]; reg && (q2.R.K != "ok" || q2.R.ID != want) {
					wrong = true
					q = q2
					l = "texttable." + l
				}
			}
			if wrong {
				what := fmt.Sprintf("step %d: listed name (or texttable.+listed name) %q: auto.New gives %s, render %s id=%d %s", i, l, q.Type, q.R.K, q.R.ID, q.R.Msg)
				desc.Failing = append(desc.Failing, what)
				if desc.Sig == "" {
					if strings.Contains(l, ".") {
						desc.Sig = "style-name-contains-dot"
					} else {
						desc.Sig = "listed-name-fails"
					}
				}
			}
		}
	}
	if desc.Sig == "" && knownClass {
		desc.Sig = "listed-name-under-texttable-prefix"
	}
	desc.Init = out.Init
	if nq <= 40 {
		desc.Steps = out.Steps
	} else {
		// keep the listings and the queries about listed names
		type slim struct {
			Listing []string `json:"listing"`
			Listed  []C19Q   `json:"listed_queries"`
			N       int      `json:"queries"`
		}
		var ss []slim
		for _, st := range out.Steps {
			s := slim{Listing: st.Listing, N: len(st.Qs)}
			for _, q := range st.Qs {
				if q.Class == "listed" && (q.R.K != "ok" || strings.Contains(q.S, ".")) {
					s.Listed = append(s.Listed, q)
				}
			}
			ss = append(ss, s)
		}
		desc.Steps = ss
	}

	nt := newNameTable()
	var steps []string
	for i, st := range out.Steps {
		reg := "None"
		if i-off >= 0 {
			dc := cqDec(sp.Regs[i-off].D)
			if sp.Burst == 0 {
				// the value as written (its string fields); Coq decides from them whether it is the zero value
				dc = c19DecCoq(nt, sp.Regs[i-off].D)
			}
			reg = cqSome(cqPair(nt.ref(unq(sp.Regs[i-off].N)), dc))
		}
		var l []string
		for _, n := range st.Listing {
			l = append(l, nt.ref(unq(n)))
		}
		qcoq := func(q C19Q) string {
			// first section by length when it is a prefix of the style (it always is);
			// the ToLower answer only when it is not the ASCII lowering
			style, first, lower := unq(q.S), unq(q.First), unq(q.Lower)
			fs := "(inr " + nt.ref(first) + ")"
			if strings.HasPrefix(style, first) {
				fs = "(inl " + cqNat(len(first)) + ")"
			}
			ls := "None"
			if lower != asciiLower(first) {
				ls = cqSome(nt.ref(lower))
			}
			if q.Via != "" {
				return fmt.Sprintf("QR %s %s %s %s", nt.ref(style), fs, ls, q.R.CoqC())
			}
			return fmt.Sprintf("QQ %s %s %s %s %s", nt.ref(style), fs, ls, c19KindCoq[q.Kind], q.R.CoqC())
		}
		var qs []string
		for _, q := range st.Qs {
			qs = append(qs, qcoq(q))
		}
		if len(st.Held) == 0 {
			steps = append(steps, fmt.Sprintf("St %s %s %s [\n    %s]", reg, cqBool(!st.Skipped), cqList(l), strings.Join(qs, ";\n    ")))
		} else {
			var hs []string
			for _, h := range st.Held {
				hs = append(hs, fmt.Sprintf("(%s, %s)", cqNat(h.Since), qcoq(h.Q)))
			}
			steps = append(steps, fmt.Sprintf("StH %s %s %s [\n    %s] [\n    %s]", reg, cqBool(!st.Skipped), cqList(l), strings.Join(qs, ";\n    "), strings.Join(hs, ";\n    ")))
		}
	}
	body := fmt.Sprintf("mkC19 %s %s [\n   %s]", cqBool(bad), c17InitCoq(nt, out.Init), strings.Join(steps, ";\n   "))
	tags := []string{fmt.Sprintf("registrations=%d", len(sp.Regs))}
	if sp.Cold {
		tags = append(tags, "cold-start(first registry operation is a registration)")
	}
	if sp.Burst > 0 {
		tags = append(tags, "concurrent-registration-burst")
	}
	for _, r := range sp.Regs {
		tags = append(tags, "name:"+c19NameClass(unq(r.N)))
		if r.D >= 10 && !c19IsMulti(r.D) {
			tags = append(tags, "decoration-written-field-by-field")
		}
		if c19IsMulti(r.D) {
			tags = append(tags, "decoration-with-several-runes-per-cell")
		}
	}
	for c := range classes {
		tags = append(tags, "query:"+c)
	}
	return CaseOut{
		Coq:        nt.wrap(body),
		Desc:       desc,
		Size:       len(sp.Regs)*1000 + len(sp.Extra),
		Tags:       uniq(tags),
		Key:        string(spec),
		Nontrivial: len(sp.Regs) > 0,
	}
}

func asciiLower(s string) string {
	b := []byte(s)
	for i, c := range b {
		if c >= 'A' && c <= 'Z' {
			b[i] = c + 32
		}
	}
	return string(b)
}

func c19NameClass(n string) string {
	low := strings.ToLower(n)
	first := strings.ToLower(strings.Split(n, ".")[0])
	switch {
	case n == "":
		return "empty"
	case c19IsCaseRelative(n):
		if low2 := strings.ToLower(strings.Split(n, ".")[0]); low2 == "csv" || low2 == "html" || low2 == "json" || low2 == "markdown" || low2 == "texttable" {
			return "unicode-case-relative-of-keyword(ToLower maps it there)"
		}
		return "unicode-case-relative-of-keyword(not by ToLower: an ordinary name)"
	case low == "csv" || low == "html" || low == "json" || low == "markdown" || low == "texttable":
		if n == low {
			return "sub-package-name"
		}
		return "case-variant-of-sub-package-name"
	case first == "texttable":
		return "texttable-dotted(guard)"
	case first == "csv" || first == "html" || first == "json" || first == "markdown":
		return "sub-package-dotted"
	case strings.HasSuffix(n, "."):
		return "trailing-dot"
	case strings.Contains(n, "."):
		return "dotted"
	case n != low:
		return "upper-case"
	}
	for i := 0; i < len(n); i++ {
		if n[i] >= 128 {
			return "non-ascii"
		}
	}
	if _, ok := map[string]bool{"none": true, "ascii-simple": true, "utf8-light": true, "utf8-light-curved": true, "utf8-heavy": true, "utf8-double": true}[n]; ok {
		return "built-in-overwritten"
	}
	return "plain"
}

// ---------------------------------------------------------------- generator

var c19Pool = []string{
	"myplain", "MYUP", "my.dotted", "pre", "pre.fix", "a.b", "a.b.c", "csv", "html", "json", "markdown", "texttable",
	"CSV", "Html", "TextTable", "jSoN", "", "trail.", ".lead", "..", ".", "\xff\xfe", "my name", "none", "utf8-light",
	"csv.foo", "marKdown", "x", "texttable.x", "Texttable.my.dotted", "utf8-light.x", "none.none",
}

var c19AppDecs = []int{7, 10, 8, 11, 9, 12, 13}

func c19Gen(r *RNG, tier string) []json.RawMessage {
	c19Init()
	var out []json.RawMessage
	add := func(names ...string) {
		var sp C19Spec
		for i, n := range names {
			// application decorations: Populate()d ones and ones written field by field
			sp.Regs = append(sp.Regs, C19Reg{N: qname(n), D: c19AppDecs[(i+len(n))%len(c19AppDecs)]})
		}
		sp.Full = tier == "thorough" || len(out)%10 == 0
		sp.Cold = len(out)%2 == 1
		out = append(out, mustJSON(sp))
	}
	add() // the initial registry
	for _, n := range c19Pool {
		add(n)
	}
	// orders that matter: a dotted name and its prefixes
	add("pre", "pre.fix")
	add("pre.fix", "pre")
	add("a.b", "a.b.c")
	add("a.b.c", "a.b", "a")
	add("x", "texttable.x")
	add("texttable.x", "x")
	add("my.dotted", "my.dotted") // overwrite
	add("csv", "csv.foo", "CSV")
	add("", ".", "..")
	for _, d := range []int{10, 11, 12, 13} {
		for _, n := range []string{"acme-explicit", "acme.explicit"} {
			out = append(out, mustJSON(C19Spec{Regs: []C19Reg{{N: qname(n), D: d}}}))
		}
	}
	add("w1", "w2", "w3", "w4", "w5", "w6", "w7")
	// The application re-purposes the stock names (RegisterDecorationName documents that an existing
	// entry may be overwritten).  Every documented built-in in turn, (a) with an application decoration
	// and (b) with the decoration of the NEXT built-in (so each stock name then means another stock
	// look), once as the very first registry operation of the process and once after a listing; all of
	// them in one world (a rotation of the stock decorations), and one name overwritten and then put
	// back.  Nothing but the overwritten name itself may resolve differently afterwards: the
	// sub-packages, plain 'texttable' (the default decoration is a constant of the package, not a
	// registry entry), the other names.
	stock := assumedInit()
	for i, e := range stock {
		next := stock[(i+1)%len(stock)]
		out = append(out, mustJSON(C19Spec{Regs: []C19Reg{{N: e.N, D: c19AppDecs[i%len(c19AppDecs)]}}, Cold: i%2 == 0, Full: i == 0}))
		out = append(out, mustJSON(C19Spec{Regs: []C19Reg{{N: e.N, D: next.D}}, Cold: i%2 == 1}))
	}
	for _, cold := range []bool{false, true} {
		var rot, back C19Spec
		for i, e := range stock {
			rot.Regs = append(rot.Regs, C19Reg{N: e.N, D: stock[(i+1)%len(stock)].D})
			back.Regs = append(back.Regs, C19Reg{N: e.N, D: c19AppDecs[(i+3)%len(c19AppDecs)]})
		}
		for _, e := range stock {
			back.Regs = append(back.Regs, C19Reg{N: e.N, D: e.D}) // ... and every one put back
		}
		rot.Cold, back.Cold = cold, !cold
		out = append(out, mustJSON(rot))
		if cold || tier == "thorough" {
			out = append(out, mustJSON(back))
		}
	}
	// the same name registered first thing in the process and after a listing
	for _, n := range []string{"myplain", "my.dotted"} {
		out = append(out, mustJSON(C19Spec{Regs: []C19Reg{{N: qname(n), D: 8}}, Cold: true}))
		out = append(out, mustJSON(C19Spec{Regs: []C19Reg{{N: qname(n), D: 8}}}))
	}
	// several goroutines registering distinct names at once; after the join every name is listed and resolves
	nb := 4
	if tier == "thorough" {
		nb = 16
	}
	for b := 0; b < nb; b++ {
		var sp C19Spec
		for k := 0; k < 48; k++ {
			sp.Regs = append(sp.Regs, C19Reg{N: qname(fmt.Sprintf("b%d.%c%d", b, 'a'+k%7, k)), D: 1 + (k+b)%13})
		}
		sp.Burst = 8 + 4*(b%3)
		sp.Cold = b%2 == 1
		out = append(out, mustJSON(sp))
	}
	n := 10
	if tier == "thorough" {
		n = 360
	}
	// the random worlds draw from the pool and from every stock name
	randPool := append([]string{}, c19Pool...)
	for _, e := range stock {
		dup := false
		for _, p := range c19Pool {
			dup = dup || p == unq(e.N)
		}
		if !dup {
			randPool = append(randPool, unq(e.N))
		}
	}
	for i := 0; i < n; i++ {
		k := 2 + r.Intn(3)
		var names []string
		for j := 0; j < k; j++ {
			if r.Pct(15) {
				// a random dotted combination of short sections
				secs := []string{"p", "q", "", "csv", "P", "texttable", "none"}
				m := 1 + r.Intn(3)
				var parts []string
				for x := 0; x < m; x++ {
					parts = append(parts, pick(r, secs))
				}
				nm := strings.Join(parts, ".")
				names = append(names, nm)
			} else {
				names = append(names, pick(r, randPool))
			}
		}
		var sp C19Spec
		for _, nm := range names {
			sp.Regs = append(sp.Regs, C19Reg{N: qname(nm), D: 1 + r.Intn(len(regPalette)-1)})
		}
		sp.Full = tier == "thorough" || i%5 == 0
		sp.Cold = i%2 == 0
		out = append(out, mustJSON(sp))
	}
	// round 6: decorations with several runes per cell; Unicode case-mapping relatives of the keywords
	for _, sp := range c19GenR6(r, tier) {
		out = append(out, mustJSON(sp))
	}
	prefetchChildren("C19worker", out, 12)
	return out
}

func c19Shrink(spec json.RawMessage) []json.RawMessage {
	var sp C19Spec
	if err := json.Unmarshal(spec, &sp); err != nil {
		return nil
	}
	var out []json.RawMessage
	for i := range sp.Regs {
		c := C19Spec{Extra: sp.Extra, Full: sp.Full, Cold: sp.Cold, Burst: sp.Burst}
		c.Regs = append(append([]C19Reg{}, sp.Regs[:i]...), sp.Regs[i+1:]...)
		out = append(out, mustJSON(c))
	}
	for i := range sp.Extra {
		c := C19Spec{Regs: sp.Regs, Full: sp.Full, Cold: sp.Cold, Burst: sp.Burst}
		c.Extra = append(append([]string{}, sp.Extra[:i]...), sp.Extra[i+1:]...)
		out = append(out, mustJSON(c))
	}
	prefetchChildren("C19worker", out, 12)
	return out
}

func init() {
	register(&Prop{
		ID:       "C19",
		Imports:  "From Tab Require Import Run.Glue Run.C19Run.",
		CaseType: "c19_case",
		CaseFn:   "C19_case",
		ModelFn:  "C19_model",
		Rule: "registry worlds, one child process each: the initial registry; every single name of a pool (plain, upper-case, dotted, dotted with registered prefix, three sections, " +
			"equal to a sub-package name, case variant of one, empty string, trailing dot, leading dot, dots only, non-UTF-8 bytes, a built-in overwritten, 'csv.foo', a name that only lower-cases " +
			"to 'markdown' through U+212A, and the class 'texttable.x'); chosen orders of a dotted name and its prefixes; a world of 7 names; random worlds of 2-4 names; " +
			"decorations: the built-ins, Populate()d ones and four written field by field without Populate (render fields only; only Horizontal/Vertical; a single field; verticals only) - anything but the zero value. " +
			"Every other world is cold: its first registration is the first thing the process asks of the registry (no listing or lookup before it). " +
			"4 (thorough 16) worlds register 48 distinct names at once from 8-16 goroutines and look only at the state after the join. " +
			"After the last registration: every sub-package keyword (in ASCII case variants) as the section after 'texttable'; trailing sections with = and quotes (closed, unclosed, empty) after the keywords; " +
			"and styles resolved not on a fresh table but on one the application already holds wrapped (auto.New of ascii-simple, csv, none, markdown, utf8-double, html, json), the held wrapper re-rendered afterwards. " +
			"Near misses of listed names (n+x, n+such, n minus its last byte, texttable.n+d) are asked and must name nothing. " +
			"Before the first and after each registration: ListStyles and, per listed name, the name itself and 'texttable.'+name; after the last registration also case variants, " +
			"'TextTable.' prefixes and trailing sections of every listed name, all five sub-package names in 5 ASCII case variants x 6 trailing forms, and 28 unknown/hostile strings. " +
			"The application re-purposes the stock names: each of the six documented built-ins overwritten with an application decoration and with the next built-in's decoration (cold and after a listing), " +
			"all six rotated in one world, all six overwritten and then put back; the random worlds draw from the stock names too. " +
			"At EVERY step (not only the last): plain 'texttable' in two spellings and every name the world registers, bare and under 'texttable.' - the ones not yet registered included. " +
			"The listed names, those every-step styles and a rotating fifth (large query set: tenth) of the other styles are also put to auto.Render(t, style) and auto.RenderTo(t, w, style) (no renderer value, only the rendering). " +
			"Renderers the application keeps: auto.New of the every-step styles at each step but the last, rendered again at the following step and at the last one; they must answer from the registry of the step that made them. " +
			"Round 6: the palette also holds decorations whose cells are one cell but several runes (base + nonspacing mark, + enclosing mark, + variation selector, + two and three marks; marks taken from the unicode tables and kept if go-runewidth measures base+mark as one cell): " +
			"the tail in one Populate() template alone, in all three, on every cell of a stock decoration, and on every field / the corners / the horizontals / the verticals / the junctions / a single field of a decoration written field by field; " +
			"all of them registered in one world under plain names, in one under dotted names, over the stock names, some alone; the pool worlds and the random worlds draw them too. " +
			"Names that a Unicode case mapping other than ToLower relates to a keyword (every code point related to a letter of a keyword by ToLower, ToUpper, ToTitle, simple case folding or the Turkish special casing, found by scanning all code points; one letter of the keyword replaced, the rest as is or upper-cased): " +
			"registered all in one world, all with a trailing section, some alone, together with the keyword itself in both orders, and asked unregistered bare, under 'texttable.' and with trailing sections. " +
			"A case is non-trivial when it registers something; distinct = distinct worlds",
		Exhaustive: "",
		Gen:        c19Gen,
		Run:        c19Run,
		Shrink:     c19Shrink,
	})
}
