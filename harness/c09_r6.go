package main

// C09, round 6: the BYTE CONTENT of a cell's text.
//
// The property quantifies over "text-like items"; the text of an item is any
// Go string, i.e. any byte string.  The streams of c09.go draw texts from a
// pool of two dozen strings (every one of them a complete piece of text), so
// the renderers' per-line and per-character code - measuring, escaping,
// padding - was only ever run on those.  The streams here cover the content
// dimension by families that come from the input domain alone:
//
//   (1) every byte value 0x00..0xFF: alone, ending a line, starting a line;
//   (2) every ordered pair (control byte, any byte) ending a line - the control
//       bytes being C0 (0x00-0x1F), DEL, and the bytes that can never be part
//       of well-formed UTF-8 (0xC0 0xC1 0xF5-0xFF): a control function's
//       introducer followed by one more byte and then the end of the line;
//   (3) the truncation closure of structured text: one representative of every
//       kind of multi-byte structure that terminal text and Unicode text know
//       (ECMA-48 control functions of every class with parameters and
//       intermediates, 7-bit and 8-bit and UTF-8-encoded C1 forms; UTF-8
//       sequences of every length, ill-formed ones, combining / joiner /
//       variation / regional-indicator / bidi sequences; CR LF, tabs, NUL) -
//       and of each EVERY proper prefix (text that stops inside the structure)
//       and EVERY proper suffix (text that starts inside it), as the only line
//       of a cell, as the last line and as the first line of a multi-line cell;
//
// as plain strings, and as Stringers with and without declared sizes, in the
// header as well as in the body.  Rendering goes through the same targets and
// the same oracle as every other C09 case (c09.go Run).

import "fmt"

// c09StructuredSeeds: complete, well-formed (or deliberately ill-formed)
// structured texts.  Nothing here is truncated: truncation is done by the
// closure below, at every byte offset.
func c09StructuredSeeds() []string {
	return []string{
		// ECMA-48 control functions, one per class
		"\x1b[1;38;5;200mbold\x1b[0m",               // CSI with parameters, SGR
		"\x1b[?25l\x1b[2 q",                         // CSI with private parameter; with an intermediate byte
		"\x1b]0;title\x07",                          // OSC ended by BEL
		"\x1b]8;;http://x/\x1b\\k\x1b]8;;\x1b\\",    // OSC ended by ST (hyperlink)
		"\x1bP1$r0m\x1b\\",                          // DCS ... ST
		"\x1b_apc\x1b\\\x1b^pm\x1b\\\x1bXsos\x1b\\", // APC, PM, SOS
		"\x1bOA\x1b(B\x1b#8\x1bc\x1b7",              // SS3, charset designation, two-byte and one-byte ESC functions
		"\x9b1;3m8bit\x9b0m",                        // 8-bit CSI
		"\u009b1mC1\u009b0m\u0090q\u009c",           // C1 controls encoded in UTF-8
		"a\x08\x08b\x7f\x00c\x0b\x0c",               // BS, DEL, NUL, VT, FF
		"a\r\nb\rc\n\rd",                            // CR LF in every order
		"t\tb\t\t",                                  // tabs
		// UTF-8 of every length, and what surrounds a character
		"\u00e9\u65e5\U0001F600",                     // 2-, 3-, 4-byte sequences
		"e\u0323\u0301o\u0308",                       // base + several combining marks
		"\U0001F468\u200d\U0001F469\u200d\U0001F467", // ZWJ sequence
		"\U0001F1E9\U0001F1EA\U0001F1EB",             // regional indicators, an odd number of them
		"\u2764\ufe0f\u2764\ufe0e#\ufe0f\u20e3",      // variation selectors, keycap
		"\ufeffbom\u200b\u2060",                      // BOM, zero-width space, word joiner
		"\u202eabc\u202c\u2067x\u2069",               // bidi override and isolate with their terminators
		"\u1100\u1161\u11a8\uac01",                   // Hangul jamo (L V T) and a precomposed syllable
		"\u0e01\u0e34\u0e48\u0e33",                   // Thai consonant + vowel + tone + sara am
		"\uff21\uff71\u3000",                         // full-width, half-width, ideographic space
		// ill-formed UTF-8
		"\xed\xa0\x80\xed\xb0\x80",             // encoded surrogates
		"\xc0\x80\xe0\x80\x80\xf0\x80\x80\x80", // overlong forms
		"\xf4\x90\x80\x80\xf8\x88\x80\x80\x80", // beyond U+10FFFF, a 5-byte form
		"\x80\xbf\xe6\x97",                     // lone continuation bytes, a cut-off sequence
	}
}

// c09ControlBytes: bytes that introduce or are control functions, or that can
// never appear in well-formed UTF-8.
func c09ControlBytes() []byte {
	var cs []byte
	for b := 0; b < 0x20; b++ {
		cs = append(cs, byte(b))
	}
	cs = append(cs, 0x7f, 0xc0, 0xc1)
	for b := 0xf5; b <= 0xff; b++ {
		cs = append(cs, byte(b))
	}
	return cs
}

// c09TextItem: text number k as an item - a plain string mostly; every 5th a
// Stringer, every 7th a Stringer declaring a height, every 11th one declaring
// a width (the sizes disagree with the text or not, as k falls).
func c09TextItem(k int, s string) ItemSpec {
	obj := func(mask, h, w int) ItemSpec {
		return ItemSpec{K: "obj", Mask: mask, S: []byte(s), G: []byte("g:" + s), E: []byte(s + ":e"), H: h, W: w}
	}
	switch {
	case k%11 == 10:
		return obj(1+16, 0, []int{0, 1, 7, 40}[k/11%4])
	case k%7 == 6:
		return obj(1+8, []int{0, 1, 2, 3}[k/7%4], 0)
	case k%5 == 4:
		return obj(1, 0, 0)
	}
	return Str(s)
}

// c09TextTables packs texts into tables of the given width, rowsPer body rows
// each; the first row of every second table is its header.
func c09TextTables(texts []string, cols, rowsPer int) []TableSpec {
	var out []TableSpec
	k := 0
	for len(texts) > 0 {
		var ts TableSpec
		for r := 0; r <= rowsPer && len(texts) > 0; r++ {
			n := cols
			if n > len(texts) {
				n = len(texts)
			}
			cells := make([]ItemSpec, n)
			for i := range cells {
				cells[i] = c09TextItem(k, texts[i])
				k++
			}
			texts = texts[n:]
			if r == 0 && len(out)%2 == 0 {
				h := cells
				ts.Header = &h
				continue
			}
			ts.Rows = append(ts.Rows, RowSpec{How: (len(out) + r) % 4, Cells: cells})
		}
		out = append(out, ts)
	}
	return out
}

// c09TruncationClosure: every proper prefix and every proper suffix of s (the
// whole of s included once), at every BYTE offset.
func c09TruncationClosure(s string) []string {
	out := []string{s}
	for i := 1; i < len(s); i++ {
		out = append(out, s[:i], s[i:])
	}
	return out
}

// c09GenTexts: the content streams.  The quick tier takes all of (1) and (3)
// and, of (2), a slice of the pairs that moves with the seed (every pair
// (c, x) with x a multiple-of-8 offset from a seeded start, plus every pair
// whose second byte is printable ASCII punctuation or in 0x40-0x5F - the bytes
// that, after a control byte, open the sub-structures of control functions); the thorough tier takes every pair.
func c09GenTexts(r *RNG, tier string) []C09Spec {
	var specs []C09Spec
	n := 0
	add := func(tables []TableSpec) {
		for _, ts := range tables {
			n++
			specs = append(specs, C09Spec{Table: ts, Shared: n%3 == 0, Perm: r.U64() % 1000003, Staged: n%8 == 1 && len(ts.Rows) <= 8, ContentOnly: len(ts.Rows) > 2})
		}
	}
	// (1) every byte value
	var single []string
	for b := 0; b < 256; b++ {
		c := string([]byte{byte(b)})
		single = append(single, c, "l1\nab"+c, c+"ab")
	}
	add(c09TextTables(single, 8, 16))
	// (2) control byte + any byte, ending a line
	start := r.Intn(8)
	var pairs []string
	for _, c := range c09ControlBytes() {
		for x := 0; x < 256; x++ {
			punct := (x >= 0x20 && x < 0x30) || (x >= 0x3a && x < 0x41) || (x >= 0x5b && x < 0x61) || (x >= 0x7b && x < 0x7f)
			c1 := x >= 0x40 && x < 0x60 // ESC + these are the 7-bit forms of the C1 controls
			if tier == "thorough" || punct || c1 || x%8 == start {
				pairs = append(pairs, "p"+string([]byte{c, byte(x)}))
			}
		}
	}
	add(c09TextTables(pairs, 8, 24))
	// (3) the truncation closure of structured text
	var cut []string
	for _, s := range c09StructuredSeeds() {
		for i, t := range c09TruncationClosure(s) {
			switch i % 3 {
			case 0:
				cut = append(cut, t)
			case 1:
				cut = append(cut, "first\n"+t)
			default:
				cut = append(cut, t+"\nlast")
			}
			if tier == "thorough" {
				cut = append(cut, t, "first\n"+t, t+"\nlast", t+"\n", "\n"+t+"\n\n")
			}
		}
	}
	add(c09TextTables(cut, 6, 12))
	// small tables: one structured text cut at one offset, in an otherwise
	// ordinary table, so that a failure shrinks to a readable replay
	seeds := c09StructuredSeeds()
	few := 12
	if tier == "thorough" {
		few = 400
	}
	for i := 0; i < few; i++ {
		s := pick(r, seeds)
		at := 1 + r.Intn(len(s)-1)
		t := s[:at]
		if r.Pct(30) {
			t = s[at:]
		}
		h := []ItemSpec{Str("name"), Str(fmt.Sprintf("h%d", i))}
		add([]TableSpec{{Header: &h, Rows: []RowSpec{{Cells: []ItemSpec{Str("x"), c09TextItem(r.Intn(50), t)}}}}})
	}
	return specs
}

// c09ShrinkBig: a table of more than 12 cells is first cut in halves (rows,
// then columns, the header dropped, no long-lived wrappers) - the
// one-step reductions of shrinkTable are as many as the table has cells and
// each as large as the table, which for the tables of the content streams is
// quadratic; they take over once the table is small.
func c09ShrinkBig(sp C09Spec) []C09Spec {
	ts := sp.Table
	cells, width := 0, 0
	for _, rw := range ts.Rows {
		cells += len(rw.Cells)
		if len(rw.Cells) > width {
			width = len(rw.Cells)
		}
	}
	if ts.Header != nil {
		cells += len(*ts.Header)
	}
	if cells <= 12 || len(sp.Cbs) > 0 || ts.Header2 != nil || len(ts.Mutations) > 0 {
		return nil
	}
	var out []C09Spec
	with := func(f func(c *C09Spec)) {
		c := sp
		c.Staged, c.Grow, c.TwoTables = false, 0, false // Shared stays: a failure may need the earlier renders of the same table
		c.Table.Stages = nil
		f(&c)
		out = append(out, c)
	}
	if ts.Header != nil {
		with(func(c *C09Spec) { c.Table.Header = nil; c.Table.HeaderAt = 0 })
		hs := *ts.Header
		with(func(c *C09Spec) { c.Table.Rows = nil; c.Table.HeaderAt = 0; h := hs; c.Table.Header = &h })
	}
	if n := len(ts.Rows); n > 1 {
		with(func(c *C09Spec) { c.Table.Rows = append([]RowSpec{}, ts.Rows[:n/2]...); c.Table.HeaderAt = 0 })
		with(func(c *C09Spec) { c.Table.Rows = append([]RowSpec{}, ts.Rows[n/2:]...); c.Table.HeaderAt = 0 })
	}
	if width > 1 {
		for _, side := range []int{0, 1} {
			side := side
			with(func(c *C09Spec) {
				cut := func(cs []ItemSpec) []ItemSpec {
					k := len(cs) / 2
					if side == 0 {
						return append([]ItemSpec{}, cs[:k]...)
					}
					return append([]ItemSpec{}, cs[k:]...)
				}
				rows := make([]RowSpec, len(ts.Rows))
				for i, rw := range ts.Rows {
					rows[i] = rw
					rows[i].Cells = cut(rw.Cells)
					rows[i].Late = nil
				}
				c.Table.Rows = rows
				if ts.Header != nil {
					h := cut(*ts.Header)
					c.Table.Header = &h
				}
			})
		}
	}
	if len(out) == 0 {
		return nil
	}
	return out
}
