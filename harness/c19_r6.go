package main

// C19, round 6: two families of the property's input domain the worlds never held.
//
// (1) Decorations whose line-drawing strings are ONE CELL but SEVERAL RUNES.  The Decoration type
//     documents its strings as "must render as one terminal cell width; multiple runes are allowed
//     (combining chars, etc)"; every decoration the palette held (stock, Populate()d, field by field)
//     drew each cell with a single rune.  c19PaletteExt appends to the palette decorations whose
//     cells are base + nonspacing mark (Mn), base + enclosing mark (Me), base + variation selector,
//     base + two / three marks - in every template field alone, in all of them, and in the groups
//     of fields of a decoration written out field by field.  The marks are taken from the unicode
//     tables (first usable member of each table, one from the middle of Mn), kept only if
//     go-runewidth measures base+mark as one cell.
//
// (2) Names that are UNICODE case-mapping relatives of a sub-package keyword without being ASCII
//     case variants of it.  The property's dispatch is "case-insensitively" = strings.ToLower of
//     the first section; every other Unicode notion of case (ToUpper, ToTitle, simple case folding,
//     the Turkish special casing) relates more code points to an ASCII letter than ToLower does.
//     c19CaseRelatives scans ALL code points for those related to a letter of a keyword by any of
//     these mappings; each keyword with one letter replaced by such a relative is a name of the
//     domain: registered (alone, with a trailing section, with the other letters upper-cased) and
//     asked unregistered, bare and under "texttable.".  Whether such a name is the keyword (ToLower
//     maps it there) or an ordinary decoration name is decided by strings.ToLower of the harness's
//     own standard library, shipped as the q_lower oracle like for every other query.

import (
	"fmt"
	"reflect"
	"strings"
	"sync"
	"unicode"

	"github.com/mattn/go-runewidth"
	"go.pennock.tech/tabular/texttable"
	"go.pennock.tech/tabular/texttable/decoration"
)

var (
	c19ExtOnce    sync.Once
	c19MultiFirst int   // palette index of the first multi-rune decoration
	c19MultiDecs  []int // palette indices of all of them
)

func c19Init() {
	paletteInit()
	c19PaletteExt()
}

// first member of tab at or after from which, put after an ASCII base, still measures one cell
func c19MarkFrom(tab *unicode.RangeTable, from rune) string {
	c := runewidth.NewCondition()
	c.EastAsianWidth = false
	for _, r16 := range tab.R16 {
		for r := rune(r16.Lo); r <= rune(r16.Hi); r += rune(r16.Stride) {
			if r >= from && c.StringWidth("-"+string(r)) == 1 {
				return string(r)
			}
		}
	}
	return ""
}

// the combining tails: one per table, a second nonspacing one from further up the table, and
// sequences of two and three
func c19Marks() []string {
	var ms []string
	add := func(s string) {
		if s != "" {
			ms = append(ms, s)
		}
	}
	mn := c19MarkFrom(unicode.Mn, 0)
	mn2 := ""
	if mn != "" {
		mn2 = c19MarkFrom(unicode.Mn, []rune(mn)[0]+0x30)
	}
	me := c19MarkFrom(unicode.Me, 0x2000)
	vs := c19MarkFrom(unicode.Variation_Selector, 0xFE00)
	add(mn)
	add(vs)
	add(me)
	add(mn2)
	if mn != "" && mn2 != "" {
		add(mn + mn2)
		add(mn + mn2 + mn)
	}
	return ms
}

// every non-empty string field of d whose name sel accepts gets the tail appended
func c19WithTail(d decoration.Decoration, tail string, sel func(field string) bool) decoration.Decoration {
	v := reflect.ValueOf(&d).Elem()
	for i := 0; i < v.NumField(); i++ {
		f := v.Field(i)
		if f.Kind() == reflect.String && f.Len() > 0 && sel(v.Type().Field(i).Name) {
			f.SetString(f.String() + tail)
		}
	}
	return d
}

func c19PaletteExt() {
	c19ExtOnce.Do(func() {
		marks := c19Marks()
		if len(marks) == 0 {
			panic("no combining mark measures zero cells: the unicode tables or go-runewidth are not what they were")
		}
		mk := func(i int) string { return marks[i%len(marks)] }
		all := func(string) bool { return true }
		group := func(names ...string) func(string) bool {
			return func(f string) bool {
				for _, n := range names {
					if n == f {
						return true
					}
				}
				return false
			}
		}
		var ds []decoration.Decoration
		// Populate()d from the three templates, distinct base glyphs each: the tail in one template
		// alone, in all three, and a longer tail in all three
		ds = append(ds,
			customDecoration("a"+mk(0), "b", "c"),
			customDecoration("d", "e"+mk(1), "f"),
			customDecoration("g", "h", "j"+mk(2)),
			customDecoration("k"+mk(3), "l"+mk(0), "m"+mk(1)),
			customDecoration("n"+mk(4), "p"+mk(5), "q"+mk(4)),
		)
		// a stock decoration (multi-byte single runes) with a tail on every cell
		ds = append(ds, c19WithTail(decoration.UTF8BoxLight(), mk(1), all))
		// written field by field: every field; the corners; the horizontals; the verticals; the junctions
		ex := explicitDecoration()
		ds = append(ds,
			c19WithTail(ex, mk(0), all),
			c19WithTail(ex, mk(2), group("TopLeft", "TopRight", "BottomLeft", "BottomRight")),
			c19WithTail(ex, mk(3), group("HOuter", "HRule")),
			c19WithTail(ex, mk(1), group("VHeader", "VBodyBorder", "VBodyInner")),
			c19WithTail(ex, mk(5), group("CrossPiece", "LeftBodyRule", "RightBodyRule", "HTopDown", "BTopDown", "BBottomUp", "HBCross", "HBLeft", "HBRight")),
			decoration.Decoration{HOuter: "-" + mk(0)}, // one single field, several runes
		)
		c19MultiFirst = len(regPalette)
		for _, d := range ds {
			i := len(regPalette)
			regPalette = append(regPalette, d)
			regUsable = append(regUsable, true) // not the zero value (see paletteInit: never from a trial rendering)
			c19MultiDecs = append(c19MultiDecs, i)
			out, err := texttable.Wrap(goodTable()).SetDecoration(d).Render()
			if err != nil {
				continue
			}
			if _, dup := outToID[out]; !dup {
				outToID[out] = i
			}
		}
		// the application decorations the pool worlds rotate through
		c19AppDecs = append(c19AppDecs, c19MultiDecs...)
	})
}

func c19IsMulti(d int) bool { return c19MultiFirst > 0 && d >= c19MultiFirst }

// ---------------------------------------------------------------- case-mapping relatives

// every non-ASCII code point that some Unicode case mapping relates to the ASCII letter c
// (lower case): its ToLower, ToUpper, ToTitle, its simple-case-folding orbit, the Turkish/Azeri
// special casing
func c19CaseRelatives(c rune) []rune {
	var rel []rune
	up := unicode.ToUpper(c)
	for r := rune(0x80); r <= unicode.MaxRune; r++ {
		if r >= 0xD800 && r <= 0xDFFF {
			continue
		}
		hit := unicode.ToLower(r) == c || unicode.ToUpper(r) == up || unicode.ToTitle(r) == up ||
			unicode.TurkishCase.ToLower(r) == c || unicode.TurkishCase.ToUpper(r) == up
		if !hit {
			for f := unicode.SimpleFold(r); f != r; f = unicode.SimpleFold(f) {
				if f == c || f == up {
					hit = true
					break
				}
			}
		}
		if hit {
			rel = append(rel, r)
		}
	}
	return rel
}

var (
	c19RelOnce  sync.Once
	c19RelNames []string
)

// each keyword with one letter replaced by a case-mapping relative of that letter, as it stands
// and with the other letters upper-cased
func c19RelativeNames() []string {
	c19RelOnce.Do(func() {
		cache := map[rune][]rune{}
		seen := map[string]bool{}
		for _, p := range subPkgs {
			rs := []rune(p)
			for i, c := range rs {
				rel, ok := cache[c]
				if !ok {
					rel = c19CaseRelatives(c)
					cache[c] = rel
				}
				for _, r := range rel {
					n := string(rs[:i]) + string(r) + string(rs[i+1:])
					u := strings.ToUpper(string(rs[:i])) + string(r) + strings.ToUpper(string(rs[i+1:]))
					for _, s := range []string{n, u} {
						if !seen[s] {
							seen[s] = true
							c19RelNames = append(c19RelNames, s)
						}
					}
				}
			}
		}
	})
	return c19RelNames
}

// a name whose first section some Unicode case mapping (but not plain ASCII case) relates to a keyword
func c19IsCaseRelative(n string) bool {
	first := strings.Split(n, ".")[0]
	if first == asciiLower(first) && first == strings.ToLower(first) && isASCII(first) {
		return false
	}
	for _, p := range subPkgs {
		if asciiLower(first) != p && (strings.EqualFold(first, p) || strings.ToLower(first) == p || strings.ToUpper(first) == strings.ToUpper(p)) {
			return true
		}
	}
	return false
}

func isASCII(s string) bool {
	for i := 0; i < len(s); i++ {
		if s[i] >= 128 {
			return false
		}
	}
	return true
}

// ---------------------------------------------------------------- worlds

func c19GenR6(r *RNG, tier string) []C19Spec {
	var out []C19Spec
	// (1) every multi-rune decoration under a plain name, in two worlds (one cold), the second with
	// dotted names; then the stock names re-purposed with them
	var plain, dotted, stockw C19Spec
	stock := assumedInit()
	for k, d := range c19MultiDecs {
		plain.Regs = append(plain.Regs, C19Reg{N: qname("cell" + string(rune('a'+k%26))), D: d})
		dotted.Regs = append(dotted.Regs, C19Reg{N: qname("acme.cell" + string(rune('a'+k%26))), D: d})
		if k < len(stock) {
			stockw.Regs = append(stockw.Regs, C19Reg{N: stock[k].N, D: c19MultiDecs[len(c19MultiDecs)-1-k]})
		}
	}
	plain.Full = true
	dotted.Cold = true
	stockw.Cold = tier == "thorough"
	out = append(out, plain, dotted, stockw)
	// each of them alone, first thing in the process (thorough: also after a listing)
	for k, d := range c19MultiDecs {
		if tier == "thorough" || k%4 == 0 {
			out = append(out, C19Spec{Regs: []C19Reg{{N: qname("solo-cell"), D: d}}, Cold: true})
		}
		if tier == "thorough" {
			out = append(out, C19Spec{Regs: []C19Reg{{N: qname("solo.cell"), D: d}}, Full: true})
		}
	}
	// (2) the case-mapping relatives of the keywords: all registered in one world (bare), in one
	// with a trailing section, each alone (thorough: all, quick: every third), and one world that
	// registers nothing and asks for all of them
	rel := c19RelativeNames()
	var bare, trail, ask C19Spec
	for k, n := range rel {
		d := c19AppDecs[k%len(c19AppDecs)]
		bare.Regs = append(bare.Regs, C19Reg{N: qname(n), D: d})
		trail.Regs = append(trail.Regs, C19Reg{N: qname(n + ".wide"), D: c19AppDecs[(k+3)%len(c19AppDecs)]})
		ask.Extra = append(ask.Extra, qname(n), qname("texttable."+n), qname(n+".x"), qname(n+"."))
		if tier == "thorough" || k%3 == 0 {
			out = append(out, C19Spec{Regs: []C19Reg{{N: qname(n), D: d}}, Cold: k%2 == 0, Full: tier == "thorough"})
		}
	}
	if len(rel) > 0 {
		bare.Full = true
		trail.Cold = true
		ask.Full = tier == "thorough"
		out = append(out, bare, trail, ask)
		// a relative and the keyword it resembles, both registered, in both orders
		n0 := rel[int(r.Intn(len(rel)))]
		kw := ""
		for _, p := range subPkgs {
			if len([]rune(p)) == len([]rune(n0)) && (strings.EqualFold(n0, p) || strings.ToLower(n0) == p) {
				kw = p
			}
		}
		if kw != "" {
			out = append(out,
				C19Spec{Regs: []C19Reg{{N: qname(n0), D: 8}, {N: qname(kw), D: 9}}},
				C19Spec{Regs: []C19Reg{{N: qname(kw), D: 9}, {N: qname(n0), D: 8}}, Cold: true})
		}
	}
	return out
}

// A registered decoration as the Coq side gets it: the string (and bool) fields themselves; Model/DecorCells.v's
// [abstract] decides there - from the fields, not from a flag set here - whether it is the zero value.
func c19DecCoq(nt *nameTable, id int) string {
	if id <= 0 || id >= len(regPalette) {
		return cqDec(id)
	}
	v := reflect.ValueOf(regPalette[id])
	var fs, flags []string
	for i := 0; i < v.NumField(); i++ {
		if f := v.Field(i); f.Kind() == reflect.Bool {
			flags = append(flags, cqBool(f.Bool()))
		} else if f.Kind() == reflect.String {
			if f.Len() == 0 {
				fs = append(fs, "[]")
			} else {
				fs = append(fs, nt.ref(f.String()))
			}
		}
	}
	return fmt.Sprintf("(abstract %d%%N (mkCD %s %s))", id, cqList(flags), cqList(fs))
}
