package main

// C05, round 6: three families the check never exercised.
//
//  1. ITEMS OF EVERY GO KIND.  The property speaks of "the cell's text"; a cell
//     is made from an item of any dynamic type, and the generators only ever
//     stored strings.  Here cells hold runes, every sized integer and float
//     type, bools, complex numbers, named types over them, slices, arrays, maps,
//     structs, Stringers and errors - with values whose TEXT is made of the
//     bytes the property names (quote, comma, CR, LF, NUL, multi-byte, invalid).
//     The expected text is computed on the spec side by the documented rule
//     (string itself, rune = that character, String()/GoString()/Error(), else
//     fmt's %v) - never read back from the library.
//  2. TABLE STATE THAT IS NOT CONTENT.  Column(n).Name, properties kept by the
//     application on the table / a column / a row / a cell, errors parked on
//     the table or a row: calls of the public API that change what the table
//     object holds but not its header row, rows or column count.  They are
//     steps of a session ("meta"); the spec side ignores them.
//  3. DESTINATIONS.  RenderTo takes any io.Writer.  A destination with room for
//     b more bytes takes a payload that fits, takes the part that fits of one
//     that does not and fails that Write (n < len(p) with an error, as the
//     io.Writer contract demands) - with an error of every classification the
//     standard library knows (plain, Temporary(), Timeout(), wrapped, errno
//     EAGAIN/EINTR/EPIPE/ENOSPC, io.ErrShortWrite, deadline errors, *net.OpError,
//     *os.PathError) - and is willing to take whatever is offered afterwards.
//     Every render that REPORTS SUCCESS is judged on what the destination holds.
//     The budget is a byte count, not a call count, so the case means the same
//     however an implementation cuts its output into Write calls.

import (
	"context"
	"encoding/json"
	"errors"
	"fmt"
	"io"
	"net"
	"os"
	"strings"
	"syscall"

	"go.pennock.tech/tabular"
)

// ---------------------------------------------------------------- items of every kind

type namedInt32 int32
type namedString string
type namedBool bool
type namedFloat float64
type namedBytes []byte
type twoFields struct {
	A int32
	B string
}

// GoKinds: the dynamic types a "gokind" item can have (ItemSpec.Mask selects
// one; ItemSpec.I is the number, ItemSpec.B the text it carries).
var goKindNames = []string{
	"int8", "int16", "int32", "int64", "uint", "uint8", "uint16", "uint32", "uint64", "uintptr",
	"float32", "float64", "complex128", "int", "namedInt32", "namedString", "namedBool", "namedFloat",
	"[]byte", "namedBytes", "[2]int32", "[]string", "[]interface{}", "map[string]int32", "struct", "*struct",
	"error(%w)", "[]rune",
}

func goKindItem(k int, i int64, b []byte) interface{} {
	switch goKindNames[((k%len(goKindNames))+len(goKindNames))%len(goKindNames)] {
	case "int8":
		return int8(i)
	case "int16":
		return int16(i)
	case "int32":
		return int32(i)
	case "int64":
		return i
	case "uint":
		return uint(i)
	case "uint8":
		return uint8(i)
	case "uint16":
		return uint16(i)
	case "uint32":
		return uint32(i)
	case "uint64":
		return uint64(i)
	case "uintptr":
		return uintptr(i)
	case "float32":
		return float32(i) / 4
	case "float64":
		return float64(i) / 8
	case "complex128":
		return complex(float64(i), -float64(i)/2)
	case "int":
		return int(i)
	case "namedInt32":
		return namedInt32(i)
	case "namedString":
		return namedString(b)
	case "namedBool":
		return namedBool(i%2 != 0)
	case "namedFloat":
		return namedFloat(float64(i) / 2)
	case "[]byte":
		return append([]byte{byte(i)}, b...)
	case "namedBytes":
		return namedBytes(append([]byte{byte(i)}, b...))
	case "[2]int32":
		return [2]int32{int32(i), int32(len(b))}
	case "[]string":
		return []string{string(b), "z"}
	case "[]interface{}":
		return []interface{}{string(b), int32(i), nil}
	case "map[string]int32":
		return map[string]int32{string(b): int32(i)}
	case "struct":
		return twoFields{int32(i), string(b)}
	case "*struct":
		return &twoFields{int32(i), string(b)}
	case "error(%w)":
		return fmt.Errorf("%s: %w", b, io.ErrUnexpectedEOF)
	}
	return []rune{rune(i), rune(len(b))}
}

func GoKind(k int, i int64, b string) ItemSpec {
	k = ((k % len(goKindNames)) + len(goKindNames)) % len(goKindNames)
	return ItemSpec{K: "gokind", Mask: k, I: i, B: []byte(b), Q: fmt.Sprintf("%s(%d,%q)", goKindNames[k], i, b)}
}

// c05Make: ItemSpec.Make plus the "gokind" family.
func c05Make(it ItemSpec) interface{} {
	if it.K == "gokind" {
		return goKindItem(it.Mask, it.I, it.B)
	}
	if it.K == "cell" && it.Inner != nil {
		return tabular.NewCell(c05Make(*it.Inner))
	}
	v, _ := it.Make()
	return v
}

func c05MakeItems(specs []ItemSpec) []interface{} {
	out := make([]interface{}, len(specs))
	for i := range specs {
		out[i] = c05Make(specs[i])
	}
	return out
}

// documentedText: the text a cell holding v shows, by the documented rule (the
// statement of C01), evaluated by Go itself: the library is not asked.
func documentedText(v interface{}) string {
	switch o := v.(type) {
	case nil:
		return ""
	case tabular.Cell:
		return documentedText(o.Item())
	case string:
		return o
	case rune:
		return string(o)
	case fmt.Stringer:
		return o.String()
	case fmt.GoStringer:
		return o.GoString()
	case error:
		return o.Error()
	}
	return fmt.Sprintf("%v", v)
}

func c05ItemText(it ItemSpec) string {
	switch it.K {
	case "str":
		return string(it.B)
	case "cell":
		return c05ItemText(*it.Inner)
	case "obj", "pcell", "chan":
		// kinds with state or an address of their own: as the shared table
		// generator does, a fresh cell of the same item says what it shows
		v, _ := it.Make()
		return tabular.NewCell(v).String()
	}
	return documentedText(c05Make(it))
}

// the code points whose text is one of the bytes the property names, and the
// edges of the integer types (so that every sized type is seen at a value it
// can and cannot hold)
var hostileNumbers = []int64{34, 44, 10, 13, 0, 39, 92, 32, 9, 65, 127, 128, 233, 255, 256, 0x20AC, 0xD800, 0xFFFD, 0x1F600, 0x10FFFF, 0x110000, -1, -34, 1 << 31, 1<<31 - 1, -1 << 31, 1 << 40}

// csvAnyItem: an item of any kind; half of the time a string as before.
func csvAnyItem(r *RNG) ItemSpec {
	num := func() int64 {
		if r.Pct(70) {
			return pick(r, hostileNumbers)
		}
		return int64(r.Intn(300)) - 20
	}
	switch x := r.Intn(100); {
	case x < 35:
		return csvText(r)
	case x < 50:
		n := num()
		return ItemSpec{K: "rune", R: int32(n), Q: fmt.Sprintf("rune(%d)", int32(n))}
	case x < 55:
		return ItemSpec{K: "int", I: num()}
	case x < 58:
		return ItemSpec{K: "bool", I: int64(r.Intn(2))}
	case x < 61:
		return ItemSpec{K: "float", F: float64(num()) / 4}
	case x < 64:
		return ItemSpec{K: "nil"}
	case x < 68:
		return ItemSpec{K: "valstr", B: csvText(r).B}
	case x < 72:
		return ItemSpec{K: "strerr", B: csvText(r).B}
	case x < 76:
		inner := csvAnyItem(r)
		if inner.K == "cell" {
			inner = csvText(r)
		}
		return ItemSpec{K: "cell", Inner: &inner}
	}
	return GoKind(r.Intn(len(goKindNames)), num(), string(csvText(r).B))
}

// tableItems: csvAnyItem restricted to the kinds the shared TableSpec builder
// can make (no "gokind").
func tableItems(r *RNG) ItemSpec {
	for {
		it := csvAnyItem(r)
		if it.K != "gokind" && (it.Inner == nil || it.Inner.K != "gokind") {
			return it
		}
	}
}

// ---------------------------------------------------------------- destinations

type classErr struct {
	msg           string
	temp, timeout bool
}

func (e classErr) Error() string   { return e.msg }
func (e classErr) Temporary() bool { return e.temp }
func (e classErr) Timeout() bool   { return e.timeout }

var writeErrNames = []string{"plain", "temporary", "timeout", "temporary+timeout", "wrapped temporary", "EAGAIN", "EINTR",
	"io.ErrShortWrite", "os.ErrDeadlineExceeded", "context.DeadlineExceeded", "*net.OpError(EAGAIN)", "*os.PathError(ENOSPC)",
	"io.EOF", "io.ErrClosedPipe", "EPIPE", "declares itself not temporary", "joined"}

func writeErr(kind int) error {
	switch writeErrNames[((kind%len(writeErrNames))+len(writeErrNames))%len(writeErrNames)] {
	case "plain":
		return errors.New("destination: write failed")
	case "temporary":
		return classErr{"destination: try again", true, false}
	case "timeout":
		return classErr{"destination: timed out", false, true}
	case "temporary+timeout":
		return classErr{"destination: timed out, try again", true, true}
	case "wrapped temporary":
		return fmt.Errorf("destination: %w", classErr{"try again", true, false})
	case "EAGAIN":
		return syscall.EAGAIN
	case "EINTR":
		return syscall.EINTR
	case "io.ErrShortWrite":
		return io.ErrShortWrite
	case "os.ErrDeadlineExceeded":
		return os.ErrDeadlineExceeded
	case "context.DeadlineExceeded":
		return context.DeadlineExceeded
	case "*net.OpError(EAGAIN)":
		return &net.OpError{Op: "write", Net: "tcp", Err: syscall.EAGAIN}
	case "*os.PathError(ENOSPC)":
		return &os.PathError{Op: "write", Path: "out.csv", Err: syscall.ENOSPC}
	case "io.EOF":
		return io.EOF
	case "io.ErrClosedPipe":
		return io.ErrClosedPipe
	case "EPIPE":
		return syscall.EPIPE
	case "declares itself not temporary":
		return classErr{"destination: gone", false, false}
	}
	return errors.Join(errors.New("destination: write failed"), classErr{"try again", true, false})
}

// roomWriter has room for `room` more bytes.  A payload that fits is taken; of
// the first one that does not, the part that fits is taken and the call fails
// with n < len(p) and an error of the given classification.  From then on it
// takes whatever it is offered (the condition has passed).
type roomWriter struct {
	held    []byte
	room    int
	errKind int
	fired   bool
	calls   int
}

func (w *roomWriter) Write(p []byte) (int, error) {
	w.calls++
	if w.fired || len(p) <= w.room {
		w.held = append(w.held, p...)
		if !w.fired {
			w.room -= len(p)
		}
		return len(p), nil
	}
	n := w.room
	w.held = append(w.held, p[:n]...)
	w.room = 0
	w.fired = true
	return n, writeErr(w.errKind)
}

// roomStringWriter: the same destination, also offering WriteString (as files,
// buffers and builders do), for implementations that look for it.
type roomStringWriter struct{ roomWriter }

func (w *roomStringWriter) WriteString(s string) (int, error) { return w.Write([]byte(s)) }

// ---------------------------------------------------------------- state that is not content

var metaKindNames = []string{"Column(n).Name", "column property", "table property", "row property", "cell property", "table AddError", "row AddError"}

type appKey struct{ k int }

// applyMeta performs one "meta" step on the table: Kind selects the call, Row /
// Col the object (objects that do not exist are skipped), Cells[0] the text.
func applyMeta(t tabular.Table, op SessOp) (done bool) {
	defer func() {
		if recover() != nil {
			done = false
		}
	}()
	text := ""
	var val interface{}
	if len(op.Cells) > 0 {
		text = c05ItemText(op.Cells[0])
		val = c05Make(op.Cells[0])
	}
	switch metaKindNames[((op.Kind%len(metaKindNames))+len(metaKindNames))%len(metaKindNames)] {
	case "Column(n).Name":
		c := t.Column(op.Col)
		if c == nil {
			return false
		}
		c.Name = text
	case "column property":
		c := t.Column(op.Col)
		if c == nil {
			return false
		}
		c.SetProperty(appKey{op.Row}, val)
	case "table property":
		t.SetProperty(appKey{op.Row}, val)
	case "row property":
		rows := t.AllRows()
		if op.Row < 0 || op.Row >= len(rows) {
			return false
		}
		rows[op.Row].SetProperty(appKey{op.Col}, val)
	case "cell property":
		c, err := t.CellAt(tabular.CellLocation{Row: op.Row + 1, Column: op.Col + 1})
		if err != nil || c == nil {
			return false
		}
		c.SetProperty(appKey{0}, val)
	case "table AddError":
		t.AddError(errors.New(text))
	case "row AddError":
		rows := t.AllRows()
		if op.Row < 0 || op.Row >= len(rows) {
			return false
		}
		rows[op.Row].AddError(errors.New(text))
	}
	return true
}

// ---------------------------------------------------------------- generators

// what the property says the file is, from a view (used only to know how long
// the output of a generated table will be, to place the budgets)
func specCSVLen(v View) int {
	n := 0
	rec := func(cs []VCell) {
		for _, c := range cs {
			n += 2 + len(c.Text) + strings.Count(c.Text, `"`) + 1
		}
		if len(cs) < v.NCols {
			n += 3 * (v.NCols - len(cs))
		}
	}
	if v.Header != nil {
		rec(*v.Header)
	}
	for _, r := range v.Rows {
		if r != nil {
			rec(*r)
		}
	}
	return n
}

// budgetSessions: one table; for every room 0 .. length of its output (+1), a
// session that renders it into a destination with that much room, once per
// error classification (and once more through a destination that also offers
// WriteString), then once into a buffer.
func budgetSessions(build []SessOp, ntab int, step int) []C05Session {
	si := newSessInterp(ntab)
	for _, op := range build {
		if si.valid(op) && op.Op != "meta" {
			si.apply(op)
		}
	}
	L := specCSVLen(si.view(0, 0))
	var out []C05Session
	for room := 0; room <= L+1; room += step {
		ss := C05Session{Tables: make([]SessTable, ntab)}
		ss.Ops = append(ss.Ops, build...)
		for k := range writeErrNames {
			via := viaRoom
			if (k+room)%5 == 4 {
				via = viaRoomStringWriter
			}
			ss.Ops = append(ss.Ops, SessOp{Op: "render", T: 0, Via: via, Room: room, ErrKind: k})
		}
		ss.Ops = append(ss.Ops, SessOp{Op: "render", T: 0, Via: viaPkgRender})
		out = append(out, ss)
	}
	return out
}

func genC05R6Sessions(r *RNG, tier string) []json.RawMessage {
	var out []json.RawMessage
	add := func(ss C05Session) { out = append(out, mustJSON(ss)) }

	// (1) every integer type at every ASCII code point (and a few beyond), as
	// header and as body cells: 128 values per type, rows of 8
	intKinds := []ItemSpec{}
	for k, name := range goKindNames {
		switch name {
		case "int8", "int16", "int32", "int64", "uint", "uint8", "uint16", "uint32", "uint64", "uintptr", "int", "namedInt32", "float32", "float64":
			intKinds = append(intKinds, ItemSpec{K: "gokind", Mask: k})
		}
	}
	intKinds = append(intKinds, ItemSpec{K: "rune"}, ItemSpec{K: "int"})
	for _, proto := range intKinds {
		ss := C05Session{Tables: []SessTable{{}}}
		var row []ItemSpec
		for v := int64(0); v < 128+int64(len(hostileNumbers)); v++ {
			n := v
			if v >= 128 {
				n = hostileNumbers[v-128]
			}
			it := proto
			switch it.K {
			case "rune":
				it.R = int32(n)
			case "int":
				it.I = n
			default:
				it = GoKind(proto.Mask, n, "")
			}
			row = append(row, it)
			if len(row) == 8 {
				op := "row"
				if v == 39 {
					op = "header" // the row holding 32..39 (with the quote) is the header
				}
				ss.Ops = append(ss.Ops, SessOp{Op: op, T: 0, Cells: row})
				row = nil
			}
		}
		if len(row) > 0 {
			ss.Ops = append(ss.Ops, SessOp{Op: "row", T: 0, Cells: row})
		}
		ss.Ops = append(ss.Ops, SessOp{Op: "render", T: 0, Via: len(out) % nBufVias})
		add(ss)
	}
	// every other kind, carrying every text of the hostile alphabet
	for k := range goKindNames {
		ss := C05Session{Tables: []SessTable{{}}}
		for i, a := range csvAtoms {
			ss.Ops = append(ss.Ops, SessOp{Op: "row", T: 0, Cells: []ItemSpec{
				GoKind(k, hostileNumbers[i%len(hostileNumbers)], a), Str("m"), GoKind(k, int64(i), a+`"`)}})
		}
		ss.Ops = append(ss.Ops, SessOp{Op: "header", T: 0, Cells: []ItemSpec{GoKind(k, 34, `"`), GoKind(k, 44, ",")}})
		ss.Ops = append(ss.Ops, SessOp{Op: "render", T: 0, Via: k % nBufVias})
		add(ss)
	}
	for _, wrap := range []string{"valstr", "strerr"} {
		ss := C05Session{Tables: []SessTable{{}}}
		for _, a := range csvAtoms {
			in := ItemSpec{K: wrap, B: []byte(a)}
			ss.Ops = append(ss.Ops, SessOp{Op: "row", T: 0, Cells: []ItemSpec{in, {K: "cell", Inner: &in}, {K: "nil"}}})
		}
		ss.Ops = append(ss.Ops, SessOp{Op: "render", T: 0})
		add(ss)
	}

	// (2) state that is not content: every kind of call, on every column 0 ..
	// ncols+1 / row / cell, before and after the rows exist, header narrower
	// than, as wide as and absent from the table
	for hdr := -1; hdr <= 3; hdr++ {
		for _, early := range []bool{false, true} {
			ss := C05Session{Tables: []SessTable{{Kind: (hdr + 1) % 2}, {}}}
			metas := func() {
				for kind := range metaKindNames {
					for n := 0; n <= 4; n++ {
						ss.Ops = append(ss.Ops, SessOp{Op: "meta", T: 0, Kind: kind, Row: n % 3, Col: n, Cells: []ItemSpec{csvText(r)}})
					}
				}
			}
			if hdr >= 0 {
				ss.Ops = append(ss.Ops, SessOp{Op: "header", T: 0, Cells: sessCellsGen(r, hdr, csvText)})
			}
			if early {
				metas()
			}
			ss.Ops = append(ss.Ops, SessOp{Op: "row", T: 0, Cells: sessCellsGen(r, 3, csvText)})
			ss.Ops = append(ss.Ops, SessOp{Op: "row", T: 0, Cells: sessCellsGen(r, 1, csvText)})
			ss.Ops = append(ss.Ops, SessOp{Op: "sep", T: 0})
			ss.Ops = append(ss.Ops, SessOp{Op: "row", T: 0, Cells: nil})
			if !early {
				metas()
			}
			for via := 0; via < nBufVias; via++ {
				ss.Ops = append(ss.Ops, SessOp{Op: "render", T: 0, Via: via})
			}
			add(ss)
		}
	}

	// (3) destinations: every room 0 .. len(output)+1 x every error classification
	tabs := [][]SessOp{
		{
			{Op: "header", T: 0, Cells: []ItemSpec{Str("k"), Str(`v"w`)}},
			{Op: "row", T: 0, Cells: []ItemSpec{Str("a,b"), Str("c\nd"), Str("e")}},
			{Op: "sep", T: 0},
			{Op: "row", T: 0, Cells: []ItemSpec{Str(`"`)}},
			{Op: "row", T: 0},
		},
		{
			{Op: "row", T: 0, Cells: []ItemSpec{Str("alpha"), {K: "rune", R: 34}}},
			{Op: "row", T: 0, Cells: []ItemSpec{Str("")}},
		},
	}
	step := 1
	for i, build := range tabs {
		if tier != "thorough" && i > 0 {
			step = 2
		}
		for _, ss := range budgetSessions(build, 1, step) {
			add(ss)
		}
	}
	if tier == "thorough" {
		for i := 0; i < 12; i++ {
			var build []SessOp
			if r.Bool() {
				build = append(build, SessOp{Op: "header", T: 0, Cells: sessCellsGen(r, r.Intn(4), csvAnyItem)})
			}
			for k := 0; k < 1+r.Intn(3); k++ {
				build = append(build, SessOp{Op: "row", T: 0, Cells: sessCellsGen(r, r.Intn(4), csvAnyItem)})
			}
			for _, ss := range budgetSessions(build, 1, 1) {
				add(ss)
			}
		}
	}
	// large payloads: room ending inside a field of 600 B .. 70 KB
	sizes := []int{600, 4100}
	if tier == "thorough" {
		sizes = append(sizes, 9000, 70000)
	}
	for i, n := range sizes {
		ss := C05Session{Tables: []SessTable{{}}}
		ss.Ops = append(ss.Ops, SessOp{Op: "header", T: 0, Cells: []ItemSpec{Str("h1"), Str("h2")}})
		ss.Ops = append(ss.Ops, SessOp{Op: "row", T: 0, Cells: []ItemSpec{Str(strings.Repeat(`q"`, n/2)), Str("t")}})
		ss.Ops = append(ss.Ops, SessOp{Op: "row", T: 0, Cells: []ItemSpec{Str("u")}})
		for k, room := range []int{n / 3, n, n + n/2 + 14, n + n/2 + 20, 2 * n} {
			ss.Ops = append(ss.Ops, SessOp{Op: "render", T: 0, Via: viaRoom + (k+i)%2, Room: room, ErrKind: 1 + k + i})
		}
		add(ss)
	}
	return out
}
