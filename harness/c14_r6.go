package main

// C14, round 6: tables whose items are NOT in the state their cells last read.
//
// A cell caches its text and sizes when it is made or updated; the item stays
// with the application, which may change it at any time and need not call
// Update.  Until round 6 every C14 table held items that were exactly as their
// cells had read them (strings mostly), so "the table is left unchanged" was
// never asked of a table in which reading an item again gives something else.
// This family: items of every kind the generator knows (every method-set
// combination of the mutable object types among them), changed in place before
// and between renders - text, Go-syntax text, error text, declared height and
// width - with and without Update, in header and body cells; then the usual
// render sequences over every slot and route.  The judgement is the general
// one: the snapshot of everything observable before and after every run of
// renders, and every render against the same history replayed WITHOUT renders
// on a fresh table and rendered once.

import (
	"encoding/json"
	"fmt"

	"go.pennock.tech/tabular"
)

// C14Mut: the object held by cell (Row = index into the spec's Rows, -1 = the
// header; Col) gets this state; Update says whether the cell is then asked to
// read it again (CellAt(..).Update() / (&Headers()[c]).Update()).
type C14Mut struct {
	Row    int    `json:"row"`
	Col    int    `json:"col"`
	S      []byte `json:"s,omitempty"`
	G      []byte `json:"g,omitempty"`
	E      []byte `json:"e,omitempty"`
	H      int    `json:"h,omitempty"`
	W      int    `json:"w,omitempty"`
	Update bool   `json:"update,omitempty"`
}

// c14ApplyEvent applies a non-render step of a history to a table built from
// ts (objs: the mutable items it holds); it says whether the step is one that
// gives the table a new view (a building call or an Update).
func c14ApplyEvent(t tabular.Table, objs map[[2]int]*objData, ts TableSpec, rd C14Render) bool {
	switch {
	case rd.Slot == -1:
		if rows := t.AllRows(); rd.Add != nil && rd.AddRow < len(rows) {
			it, _ := rd.Add.Make()
			rows[rd.AddRow].Add(tabular.NewCell(it))
		}
		return true
	case rd.Slot == -2 && rd.Mut != nil:
		m := rd.Mut
		od := objs[[2]int{m.Row, m.Col}]
		if od == nil {
			return false
		}
		od.s, od.g, od.e, od.h, od.w = string(m.S), string(m.G), string(m.E), m.H, m.W
		if !m.Update {
			return false
		}
		if m.Row < 0 {
			if h := t.Headers(); m.Col < len(h) {
				h[m.Col].Update()
			}
		} else if m.Row < len(ts.Rows) {
			if c, err := t.CellAt(tabular.CellLocation{Row: ts.tableRow(m.Row) + 1, Column: m.Col + 1}); err == nil {
				c.Update()
			}
		}
		return true
	}
	return false
}

func c14MutTags(sp C14Spec, nMut, nUpd int) []string {
	var tags []string
	if nMut > 0 {
		tags = append(tags, "item-changed-in-place")
	}
	if nMut > nUpd {
		tags = append(tags, "cell-not-updated-after-change")
	}
	if nUpd > 0 {
		tags = append(tags, "cell-updated-after-change")
	}
	if len(sp.Renders) > 0 && sp.Renders[0].Slot == -2 {
		tags = append(tags, "item-changed-before-first-render")
	}
	return tags
}

var c14MutTexts = []string{"", "a", "bb", "changed", "rather longer than before", "two\nlines", "l1\nl2\n", "é", "日本", "q\"r", "<&>", "p|q", "1,2", "{}", "  padded  "}

// an item of any kind the table generator knows; about half are mutable objects
func c14AnyItem(r *RNG) ItemSpec {
	txt := pick(r, c14MutTexts)
	switch k := r.Intn(20); {
	case k < 9:
		return ItemSpec{K: "obj", Mask: r.Intn(32), S: []byte(txt), G: []byte("g:" + txt), E: []byte(txt + ":e"), H: r.Intn(4), W: r.Intn(12)}
	case k == 9:
		return ItemSpec{K: "nil"}
	case k == 10:
		return ItemSpec{K: "rune", R: pick(r, []int32{'x', 0x65e5, 0xe9})}
	case k == 11:
		return ItemSpec{K: "int", I: int64(r.Intn(100000)) - 7}
	case k == 12:
		return ItemSpec{K: "bool", I: int64(r.Intn(2))}
	case k == 13:
		return ItemSpec{K: "float", F: pick(r, []float64{0, 1.5, -2.25, 1e21})}
	case k == 14:
		in := Str(txt)
		return ItemSpec{K: pick(r, []string{"cell", "pcell"}), Inner: &in}
	case k == 15:
		return pick(r, []ItemSpec{{K: "slice", I: 3}, {K: "map", B: []byte("k"), I: 4}, {K: "structx", I: 5, B: []byte(txt)}})
	case k == 16:
		return ItemSpec{K: pick(r, []string{"valstr", "strerr"}), B: []byte(txt)}
	}
	return Str(txt)
}

// the cells of a spec that hold mutable objects
func c14ObjCells(ts TableSpec) [][2]int {
	var out [][2]int
	if ts.Header != nil {
		for j, it := range *ts.Header {
			if it.K == "obj" {
				out = append(out, [2]int{-1, j})
			}
		}
	}
	for i, rw := range ts.Rows {
		for j, it := range rw.Cells {
			if it.K == "obj" {
				out = append(out, [2]int{i, j})
			}
		}
		for j, it := range rw.Late {
			if it.K == "obj" {
				out = append(out, [2]int{i, len(rw.Cells) + j})
			}
		}
	}
	return out
}

func c14RandMut(r *RNG, at [2]int, update bool) C14Render {
	txt := pick(r, c14MutTexts)
	return C14Render{Slot: -2, Mut: &C14Mut{Row: at[0], Col: at[1], S: []byte(txt), G: []byte("G:" + txt), E: []byte(txt + ":E"), H: r.Intn(4), W: r.Intn(12), Update: update}}
}

func c14MutGen(r *RNG, tier string) []json.RawMessage {
	var out []json.RawMessage
	obj := func(mask int, s string) ItemSpec {
		return ItemSpec{K: "obj", Mask: mask, S: []byte(s), G: []byte("g:" + s), E: []byte(s + ":e"), H: 1 + mask%3, W: 2 + mask%5}
	}
	mut := func(row, col int, s string, k int, upd bool) C14Render {
		return C14Render{Slot: -2, Mut: &C14Mut{Row: row, Col: col, S: []byte(s), G: []byte("G:" + s), E: []byte(s + ":E"), H: 1 + k%4, W: k % 9, Update: upd}}
	}
	// every pair (slot a, slot m) of the main slots, the object's method set running through all 32 combinations:
	// the item is changed and the cell NOT updated; a, m, a, m (each slot is then seen before and after every other)
	for a := 0; a < c14MainSlots; a++ {
		for m := 0; m < c14MainSlots; m++ {
			mask := (a*c14MainSlots + m) % 32
			h := []ItemSpec{Str("id"), Str("what")}
			ts := TableSpec{Header: &h, Rows: []RowSpec{{Cells: []ItemSpec{{K: "int", I: 1}, obj(mask, "first")}}, {Cells: []ItemSpec{{K: "int", I: 2}, Str("plain")}}}}
			out = append(out, mustJSON(C14Spec{Table: ts, Props: (a+m)%2 == 0, Renders: []C14Render{
				mut(0, 1, "second, longer", a+m, false), {Slot: a, Fresh: m % 3}, {Slot: m, Fresh: a % 3}, {Slot: a, Fresh: (m + 1) % 3}, {Slot: m}}}))
			if (a+m)%2 == 1 && tier != "thorough" {
				continue
			}
			// the same in a header cell and a second body cell, changed between renders, later updated
			h2 := []ItemSpec{obj(mask, "hd"), Str("v")}
			ts2 := TableSpec{Header: &h2, Rows: []RowSpec{{Cells: []ItemSpec{Str("k"), obj((mask+7)%32, "one\ntwo")}}, {Sep: true}, {How: 1, Cells: []ItemSpec{obj((mask+13)%32, ""), Str("w")}}}}
			out = append(out, mustJSON(C14Spec{Table: ts2, Misuse: m%4 == 0, Renders: []C14Render{
				{Slot: a}, mut(-1, 0, "HD now", a, false), mut(2, 0, "was empty", m, false), {Slot: a, Fresh: 1}, {Slot: m, Fresh: a % 3}, {Slot: a},
				mut(0, 1, "x", a+m, (a+m)%2 == 0), {Slot: m}, {Slot: a, Fresh: 2}, mut(-1, 0, "HD again", m, true), {Slot: a}, {Slot: m, Fresh: 1}, {Slot: a}}}))
		}
	}
	n := 60
	if tier == "thorough" {
		n = 3000
	}
	for i := 0; i < n; i++ {
		ts := randTable(r, 4, 3, c14AnyItem, []int{0, 0, 1, 2, 3})
		cands := c14ObjCells(ts)
		if len(cands) == 0 {
			// make sure there is something to change
			ts.Rows = append(ts.Rows, RowSpec{Cells: []ItemSpec{c14AnyItem(r), {K: "obj", Mask: r.Intn(32), S: []byte("o"), G: []byte("g"), E: []byte("e"), H: 1, W: 1}}})
			cands = c14ObjCells(ts)
		}
		if r.Pct(30) {
			ts.Align = map[int]int{r.Intn(3): 1 + r.Intn(3)}
		}
		if r.Pct(15) {
			ts.Skip = map[int]int{r.Intn(3): 1 + r.Intn(3)}
		}
		k := 3 + r.Intn(10)
		var rs []C14Render
		for j := 0; j < 1+r.Intn(3); j++ {
			rs = append(rs, c14RandMut(r, pick(r, cands), r.Pct(25)))
		}
		for j := 0; j < k; j++ {
			rd := C14Render{Slot: r.Intn(c14MainSlots), Fresh: r.Intn(3)}
			if r.Pct(15) {
				rd.Fresh = 4 + r.Intn(2)
				rd.Over = r.Intn(c14MainSlots)
			}
			if r.Pct(8) {
				rd.Fresh = 3
			}
			if r.Pct(20) {
				rd = c14RandMut(r, pick(r, cands), r.Pct(40))
			} else if len(ts.Rows) > 0 && r.Pct(5) {
				it := c14AnyItem(r)
				rd = C14Render{Slot: -1, AddRow: r.Intn(len(ts.Rows)), Add: &it}
			}
			rs = append(rs, rd)
		}
		out = append(out, mustJSON(C14Spec{Table: ts, Props: r.Bool(), Misuse: r.Pct(20), Renders: rs}))
	}
	return out
}

var _ = fmt.Sprintf
