package main

// C07: JSON output is valid JSON that mirrors the table, or an error and
// nothing.  Two kinds of case: render cases (a table spec, run through
// json.Render) and parser self-validation cases (bytes on which the Coq JSON
// parser must agree with encoding/json).

import (
	"bytes"
	"encoding/json"
	"fmt"
	"math"
	"sort"
	"strings"
	"unicode/utf8"

	"go.pennock.tech/tabular"
	tjson "go.pennock.tech/tabular/json"
	"go.pennock.tech/tabular/properties"
)

// hostile header texts: quotes, backslashes, control bytes, HTML-sensitive
// bytes (encoding/json escapes them), U+2028/2029, valid multibyte
var jsonKeyAtoms = []string{
	"a", "b", "c", "key", "A", "a b", " ", `"`, `\`, `\"`, `"\`, `\\`, `\u0041`, `\n`, "\n", "\r", "\t", "\x00", "\x01", "\x1f", "\x7f",
	"<", ">", "&", "<script>", "\u2028", "\u2029", "\u00e9", "\u65e5\u672c", "\U0001F600", "\ufffd", "\ufeff", "a\u0300", "/", "\b", "\f", "{", "}", "[", "]", ":", ",", "{}", "null", "0",
}

// byte strings that are not valid UTF-8 (counted side stream, DESIGN 13.9)
var jsonBadUTF8 = []string{"\xff", "\xc3", "a\x80", "\xed\xa0\x80", "\xc0\xaf", "\xf4\x90\x80\x80", "\xe2\x28\xa1", "\xfe\"", "\\\xff"}

func jsonKeyText(r *RNG) string {
	switch {
	case r.Pct(55):
		return pick(r, jsonKeyAtoms)
	case r.Pct(60):
		n := 1 + r.Intn(3)
		var sb strings.Builder
		for i := 0; i < n; i++ {
			sb.WriteString(pick(r, jsonKeyAtoms))
		}
		return sb.String()
	default:
		// random valid runes
		n := 1 + r.Intn(4)
		var sb strings.Builder
		for i := 0; i < n; i++ {
			switch r.Intn(4) {
			case 0:
				sb.WriteRune(rune(r.Intn(0x80)))
			case 1:
				sb.WriteRune(rune(0x80 + r.Intn(0x780)))
			case 2:
				c := rune(0x800 + r.Intn(0xF800))
				if c >= 0xD800 && c <= 0xDFFF {
					c = 0x2028
				}
				sb.WriteRune(c)
			default:
				sb.WriteRune(rune(0x10000 + r.Intn(0x100000)))
			}
		}
		return sb.String()
	}
}

// items of every JSON-relevant kind
func jsonItem(r *RNG) ItemSpec {
	switch r.Intn(20) {
	case 0:
		return ItemSpec{K: "nil"}
	case 1, 2:
		return Str(jsonKeyText(r))
	case 3:
		// empty, and non-empty texts of zero display width (an empty cell is one whose TEXT is empty)
		return Str(pick(r, []string{"", "", "\u200b", "\n", "\u0301", "\u200d"}))
	case 4:
		return ItemSpec{K: "int", I: int64(r.Intn(2001) - 1000)}
	case 5:
		return ItemSpec{K: "int", I: []int64{0, -1, 1 << 40, -(1 << 52)}[r.Intn(4)]}
	case 6:
		return ItemSpec{K: "bool", I: int64(r.Intn(2))}
	case 7:
		return ItemSpec{K: "float", F: []float64{0, -0.5, 1.5, 1e21, 1e-7, 3.0e100, -2.5e-300, 123456.789}[r.Intn(8)]}
	case 8:
		return ItemSpec{K: "rune", R: []int32{'x', 0, '"', 0x2028, 0x1F600, -1, 0xD800}[r.Intn(7)]}
	case 9:
		// Stringer / GoStringer / error combinations with unexported fields: {} and the text fallback
		return ItemSpec{K: "obj", Mask: r.Intn(32), S: []byte(pick(r, []string{"", "s", `q"`, "l1\nl2", "é<"})), G: []byte("g"), E: []byte(pick(r, []string{"", "e"})), H: 1 + r.Intn(2), W: r.Intn(4)}
	case 10:
		in := jsonItem(r)
		if in.K == "cell" || in.K == "pcell" {
			in = Str("in")
		}
		return ItemSpec{K: "cell", Inner: &in}
	case 11:
		in := Str(jsonKeyText(r))
		return ItemSpec{K: "pcell", Inner: &in}
	case 12:
		return ItemSpec{K: "slice", I: int64(r.Intn(10))}
	case 13:
		return ItemSpec{K: "map", B: []byte(jsonKeyText(r)), I: int64(r.Intn(10))}
	case 14:
		return ItemSpec{K: "structx", B: []byte(jsonKeyText(r)), I: int64(r.Intn(10))}
	case 15:
		return ItemSpec{K: "valstr", B: []byte(pick(r, []string{"", "v", `"`, "\xff", "<&>"}))}
	case 16:
		return ItemSpec{K: "strerr", B: []byte(pick(r, []string{"", "err", "\xc3("}))}
	case 17:
		if r.Pct(40) {
			return ItemSpec{K: "chan"}
		}
		return Str("x")
	default:
		return Str(pick(r, []string{"x", "y", "", "0", "{}", "null", "[1]"}))
	}
}

func strItems(ss ...string) []ItemSpec {
	out := make([]ItemSpec, len(ss))
	for i, s := range ss {
		out[i] = Str(s)
	}
	return out
}

// a header of n distinct non-empty texts
func jsonHeader(r *RNG, n int, bad bool) []ItemSpec {
	seen := map[string]bool{}
	hs := make([]ItemSpec, 0, n)
	for len(hs) < n {
		var s string
		if bad && r.Pct(50) {
			s = pick(r, jsonBadUTF8)
			if r.Pct(50) {
				s = jsonKeyText(r) + s
			}
		} else {
			s = jsonKeyText(r)
		}
		if s == "" || seen[s] {
			s = fmt.Sprintf("%s%d", s, len(hs))
			if seen[s] {
				continue
			}
		}
		seen[s] = true
		hs = append(hs, Str(s))
	}
	return hs
}

func jsonRandTable(r *RNG, badUTF8 bool) TableSpec {
	ts := randTable(r, 6, 4, jsonItem, []int{0, 0, 1, 2, 3})
	maxc := 0
	for _, row := range ts.Rows {
		if len(row.Cells) > maxc {
			maxc = len(row.Cells)
		}
	}
	if maxc == 0 && r.Pct(70) {
		maxc = 1 + r.Intn(2)
	}
	switch k := r.Intn(100); {
	case k < 70: // a usable header
		n := maxc
		if r.Pct(15) {
			n += 1 + r.Intn(2)
		}
		hs := jsonHeader(r, n, badUTF8)
		ts.Header = &hs
	case k < 76:
		ts.Header = nil
	case k < 82: // too few
		n := 0
		if maxc > 0 {
			n = r.Intn(maxc)
		}
		hs := jsonHeader(r, n, badUTF8)
		ts.Header = &hs
	case k < 88: // an empty header text
		hs := jsonHeader(r, maxc, badUTF8)
		if len(hs) > 0 {
			hs[r.Intn(len(hs))] = pick(r, []ItemSpec{Str(""), {K: "nil"}})
		}
		ts.Header = &hs
	case k < 94: // a duplicate
		hs := jsonHeader(r, maxc, badUTF8)
		if len(hs) > 1 {
			i := r.Intn(len(hs))
			j := r.Intn(len(hs))
			if i == j {
				j = (i + 1) % len(hs)
			}
			hs[j] = hs[i]
		}
		ts.Header = &hs
	default: // header cells of any kind
		hs := make([]ItemSpec, maxc)
		for i := range hs {
			hs[i] = jsonItem(r)
		}
		ts.Header = &hs
	}
	// skipable settings
	if r.Pct(60) {
		ts.Skip = map[int]int{}
		ncols := maxc
		if ts.Header != nil && len(*ts.Header) > ncols {
			ncols = len(*ts.Header)
		}
		for c := 0; c <= ncols; c++ {
			if r.Pct(35) {
				if r.Pct(8) {
					ts.Skip[c] = 3
				} else {
					ts.Skip[c] = 1 + r.Intn(2)
				}
			}
		}
	}
	// a second AddHeaders (same number of headers: a reused wrapper must not keep the old keys),
	// settings made before the rows, zero-width but non-empty texts in skipable columns
	if ts.Header != nil && len(*ts.Header) > 0 && r.Pct(10) {
		h2 := jsonHeader(r, len(*ts.Header), badUTF8)
		ts.Header2 = &h2
		if len(ts.Rows) > 0 {
			ts.Stages = []int{len(ts.Rows) - 1}
		}
	}
	if r.Pct(8) {
		ts.SkipEarly = map[int]int{0: 1 + r.Intn(2)}
	}
	h2 := ts.Header2
	enrichSpec(r, &ts, func(r *RNG) ItemSpec { return Str(jsonKeyText(r)) })
	if h2 != nil {
		ts.Header2 = h2
	}
	return ts
}

// ---- parser self-validation

type parseSpec struct {
	Parse []byte `json:"parse"`
	Q     string `json:"q,omitempty"`
}

var jsonSnippets = []string{
	`0`, `-0`, `-`, `01`, `1.`, `.5`, `1.5`, `1e5`, `1E+5`, `1e-`, `1e`, `1e+`, `-1.25e-10`, `12a`, `1 2`, `+1`, `0x10`, `1.e3`, `0.0e0`, `00`, `-01`, `0e`, `9e99999`,
	`true`, `false`, `null`, `tru`, `nul`, `nulll`, `True`, `truefalse`,
	`""`, `"a"`, `"\""`, `"\\"`, `"\/"`, `"\b\f\n\r\t"`, `"\a"`, `"\u0041"`, `"\u00e9"`, `"\u2028"`, `"\ud83d\ude00"`, `"\ud83d"`, `"\ude00"`, `"\ud83dx"`, `"\ud83d\n"`, `"\ud83d\u0041"`, `"\ud83d\ud83d\ude00"`, `"\uD83D\uDE00"`,
	`"\ude00\ud83d"`, `"\udbff\udfff"`, `"\ud800\udc00"`, `"\uffff"`, `"\ud7ff\ue000"`, `"\ud83d\\"`, `"\ud83d\ud83d"`,
	`"\u12"`, `"\u12g4"`, `"\u"`, `"abc`, "\"a\nb\"", "\"a\tb\"", "\"\x7f\"", "\"\xff\"", "\"\u00e9\U0001F600\"", `"\u0000"`, `"\`, `"\"`, `'a'`,
	`[]`, `[ ]`, `[1]`, `[1,2]`, `[1,]`, `[,1]`, `[1 2]`, `[`, `]`, `[[]]`, `[[],[]]`, `[[[[[[1]]]]]]`, `[1,[2,[3,{"a":[4]}]]]`, `[1]]`, `[}`,
	`{}`, `{ }`, `{"a":1}`, `{"a" : 1 , "b" : [ ] }`, `{"a":1,}`, `{,}`, `{"a"}`, `{"a":}`, `{"a" 1}`, `{a:1}`, `{1:1}`, `{"a":1 "b":2}`, `{"a":1,"a":2}`, `{"a":{"b":{"c":null}}}`, `{"a":1}}`, `{]`, `{"a":1]`, `{"":""}`,
	` 1 `, "\t\n\r 1", "1\x0c", "\xef\xbb\xbf1", ``, ` `, `1,`, `,`, `:`, `{"a"::1}`, `[1,,2]`, `nullnull`, `[null,true,false,-1.5e+3,"x",{},[]]`,
}

func mutate(r *RNG, b []byte) []byte {
	out := append([]byte{}, b...)
	n := 1 + r.Intn(2)
	for k := 0; k < n; k++ {
		structural := []byte(`[]{},:"\ 0-.e+tnfu` + "\n")
		switch r.Intn(8) {
		case 0: // flip to a structural byte
			if len(out) > 0 {
				out[r.Intn(len(out))] = pick(r, structural)
			}
		case 1: // drop a byte
			if len(out) > 0 {
				i := r.Intn(len(out))
				out = append(out[:i], out[i+1:]...)
			}
		case 2: // insert a structural byte
			i := r.Intn(len(out) + 1)
			out = append(out[:i], append([]byte{pick(r, structural)}, out[i:]...)...)
		case 3: // truncate
			if len(out) > 0 {
				out = out[:r.Intn(len(out))]
			}
		case 4: // random byte
			if len(out) > 0 {
				out[r.Intn(len(out))] = byte(r.Intn(256))
			}
		case 5: // duplicate a byte
			if len(out) > 0 {
				i := r.Intn(len(out))
				out = append(out[:i+1], out[i:]...)
			}
		case 6: // swap neighbours
			if len(out) > 1 {
				i := r.Intn(len(out) - 1)
				out[i], out[i+1] = out[i+1], out[i]
			}
		default: // drop a trailing piece and re-close
			if len(out) > 2 {
				out = append(out[:len(out)-2], pick(r, []string{"]", "}", "]\n", "\n]\n", ",\n]\n"})...)
			}
		}
	}
	return out
}

// goDump: encoding/json's reading of a valid document as a token stream in the
// format of Spec/JsonParse.v's jdump
func goDump(b []byte) (string, bool) {
	dec := json.NewDecoder(bytes.NewReader(b))
	dec.UseNumber()
	var sb strings.Builder
	for {
		tok, err := dec.Token()
		if err != nil {
			break
		}
		switch t := tok.(type) {
		case json.Delim:
			sb.WriteString(t.String())
		case string:
			sb.WriteString("s")
			fmt.Fprintf(&sb, "%x", t)
			sb.WriteString(";")
		case json.Number:
			sb.WriteString("#" + string(t) + ";")
		case bool:
			if t {
				sb.WriteString("t")
			} else {
				sb.WriteString("f")
			}
		case nil:
			sb.WriteString("n")
		default:
			return "", false
		}
	}
	return sb.String(), true
}

func runParseCase(ps parseSpec) CaseOut {
	b := ps.Parse
	valid := json.Valid(b)
	u := utf8.Valid(b)
	dump := "None"
	dumpS := ""
	if valid && u {
		if d, ok := goDump(b); ok {
			dump = cqSome(cqStr(d))
			dumpS = d
		}
	}
	tag := "parser-selfcheck:rejected"
	if valid {
		tag = "parser-selfcheck:accepted"
	}
	return CaseOut{
		Coq:  fmt.Sprintf("(CParse %s %s %s %s)", cqBytes(b), cqBool(valid), dump, cqBool(u)),
		Desc: map[string]interface{}{"kind": "parse", "input": fmt.Sprintf("%q", b), "go_valid": valid, "go_utf8": u, "go_dump": dumpS, "sig": "parser-selfcheck"},
		Size: len(b),
		Tags: []string{tag},
		Key:  "P" + string(b),
	}
}

// ---- render cases

type c07Desc struct {
	Outcome
	Sig       string `json:"sig"`
	JSONValid *bool  `json:"go_json_valid,omitempty"`
}

func runRenderCase(ts TableSpec) CaseOut {
	t := tabular.New()
	// the table is built and rendered (through a wrapper reused across staged
	// renders when the spec has stages); the view it is judged against is
	// computed from the spec, not read back from the table
	o := ts.BuildRenderW(t, func(t tabular.Table) RenderW { return tjson.Wrap(t) })
	return renderCaseOut(ts.SpecView(), o, ts.Size())
}

// renderCaseOut: the Coq term, tags and description of one render case
func renderCaseOut(v View, o Outcome, size int) CaseOut {
	enc := func(s string) string {
		b, err := json.Marshal(s)
		if err != nil {
			panic("json.Marshal of a string failed: " + err.Error())
		}
		return cqBytes(b)
	}
	var keys []string
	badUTF8 := false
	if v.Header != nil {
		for _, h := range *v.Header {
			keys = append(keys, enc(h.Text))
			if !utf8.ValidString(h.Text) {
				badUTF8 = true
			}
		}
	}
	fbs := make([]string, len(v.Rows))
	marshalFail, fallback := false, false
	for i, row := range v.Rows {
		if row == nil {
			fbs[i] = "[]"
			continue
		}
		var es []string
		for _, c := range *row {
			es = append(es, enc(c.Text))
			if c.JSON == nil {
				marshalFail = true
			} else if *c.JSON == "{}" && c.Text != "" {
				fallback = true
			}
		}
		fbs[i] = cqList(es)
	}
	d := c07Desc{Outcome: o}
	switch o.Kind {
	case "ok":
		ok := json.Valid(o.Out)
		d.JSONValid = &ok
		if !ok {
			d.Sig = "invalid-json"
		}
	case "panic":
		d.Sig = "panic"
	case "err":
		if len(o.Out) != 0 {
			d.Sig = "text-with-error"
		}
	}
	tags := append(shapeTags(v), "outcome="+o.Kind)
	lead, trail, consec, anySkip, nonBool := false, false, false, false, false
	nObj := 0
	for i, row := range v.Rows {
		if row == nil {
			if i == 0 {
				lead = true
			}
			if i == len(v.Rows)-1 {
				trail = true
			}
			if i > 0 && v.Rows[i-1] == nil {
				consec = true
			}
		} else {
			nObj++
		}
	}
	for _, s := range v.Skip {
		if s == 1 {
			anySkip = true
		}
		if s == 3 {
			nonBool = true
		}
	}
	for name, on := range map[string]bool{"leading-separator": lead, "trailing-separator": trail, "consecutive-separators": consec,
		"only-separators": nObj == 0 && len(v.Rows) > 0, "skipable-true": anySkip, "skipable-non-bool": nonBool,
		"invalid-utf8-header": badUTF8, "marshal-failure-item": marshalFail, "empty-object-text-fallback": fallback} {
		if on {
			tags = append(tags, name)
		}
	}
	vc := v.Coq(false)
	term := fmt.Sprintf("(CRender %s %s %s %s)", vc, cqList(keys), cqList(fbs), o.Coq())
	return CaseOut{
		Coq:        term,
		Desc:       d,
		Size:       size,
		Tags:       tags,
		Key:        vc + o.Kind,
		Nontrivial: o.Kind == "ok" && nObj > 0,
	}
}

// ---- build histories on wide tables

// histOp: one step of a build history.  hdr: AddHeaders with N texts; row: a
// body row of N cells (How 0 AddRowItems, 1 NewRow+Add+AddRow, 2 AppendNewRow
// then Add cell by cell), the cells listed in Empty being empty ("" or nil);
// sep: AddSeparator; skip: Column(Col).SetProperty(Skipable, Val) when that
// column exists at this point (Val 0 nil, 1 true, 2 false, 3 non-bool).
type histOp struct {
	Op    string `json:"op"`
	N     int    `json:"n,omitempty"`
	How   int    `json:"how,omitempty"`
	Empty []int  `json:"empty,omitempty"`
	Col   int    `json:"col,omitempty"`
	Val   int    `json:"val,omitempty"`
	// hdr: Alt selects the texts: 0 h1..hN, 1 g1..gN, 2 the last repeats the first, 3 the last is empty
	Alt int `json:"alt,omitempty"`
	// row: Kinds overrides the item of some cells (index -> kind): 1, 2 = THE pointer to shared
	// Stringer object 1 / 2 (no exported fields: encodes as {}, the text stands in); 3 float64 0;
	// 4 float64 -0; 5 float32 0; 6 float32 -0; 7 a Stringer value returning ""; 8 a fresh pointer
	// to a Stringer returning ""; 9 int 0; 10 false
	Kinds map[int]int `json:"kinds,omitempty"`
	// mut: shared object Obj gets the text Text (cells keep the text they cached until updated)
	Obj  int    `json:"obj,omitempty"`
	Text string `json:"text,omitempty"`
	// upd: Cell.Update() on every body cell through CellAt, Times times (0 = once)
	Times int `json:"times,omitempty"`
	// cb: a render-time callback doing Act (a skip or hdr step) is registered: Where 0 on the
	// table itself before the cells, 1 on the table itself after the cells, 2 on column Col
	// itself before the cells, 3 on the table for every cell (before the cell's own)
	Where int     `json:"where,omitempty"`
	Act   *histOp `json:"act,omitempty"`
}

type histSpec struct {
	Hist []histOp `json:"hist"`
	Via  int      `json:"via,omitempty"` // 0 json.Render(t), 1 Wrap(t).Render(), 2 a wrapper made before the build
}

// histCell: what the history says a cell holds: its item and the text the
// cell cached when it was made or last updated
type histCell struct {
	item interface{}
	text string
}

type histCB struct {
	t   *tabular.ATable
	act histOp
}

func (cb histCB) UpdateProperties(tabular.PropertyOwner) error {
	histApply(cb.t, cb.act)
	return nil
}

func histHeaderText(alt, i, n int) string {
	switch {
	case alt == 1:
		return fmt.Sprintf("g%d", i+1)
	case alt == 2 && i == n-1 && n > 1:
		return "h1"
	case alt == 3 && i == n-1:
		return ""
	}
	return fmt.Sprintf("h%d", i+1)
}

// histApply performs a skip or hdr step on the table
func histApply(t *tabular.ATable, op histOp) {
	switch op.Op {
	case "skip":
		if col := t.Column(op.Col); col != nil {
			col.SetProperty(properties.Skipable, map[int]interface{}{1: true, 2: false, 3: "yes"}[op.Val])
		}
	case "hdr":
		items := make([]interface{}, op.N)
		for i := range items {
			items[i] = histHeaderText(op.Alt, i, op.N)
		}
		t.AddHeaders(items...)
	}
}

// histText: the text form of the items histories use (C01's documented text)
func histText(item interface{}, objs map[interface{}]*objData) string {
	switch x := item.(type) {
	case nil:
		return ""
	case string:
		return x
	case valStringer:
		return x.s
	case int, bool, float64, float32:
		return fmt.Sprintf("%v", x)
	}
	if od := objs[item]; od != nil {
		return od.s
	}
	panic(fmt.Sprintf("histText: unknown item %T", item))
}

func histItem(empty bool, i int) (interface{}, VCell) {
	mk := func(item interface{}, text string) (interface{}, VCell) {
		b, err := json.Marshal(item)
		if err != nil {
			panic(err)
		}
		js := string(b)
		return item, VCell{Text: text, Empty: text == "", JSON: &js, TW: len(text), H: 1}
	}
	if empty {
		if i%3 == 1 {
			return mk(nil, "")
		}
		return mk("", "")
	}
	if i%5 == 4 {
		return mk(i, fmt.Sprint(i))
	}
	return mk("v", "v")
}

func inInts(xs []int, x int) bool {
	for _, y := range xs {
		if x == y {
			return true
		}
	}
	return false
}

// run replays the history on a fresh table through the public API and
// computes, from the history alone, the view the table must present when it is
// rendered (after the render-time callbacks have run).
func (hs histSpec) run() (View, Outcome) {
	t := tabular.New()
	var early *tjson.JSONTable
	if hs.Via == 2 {
		early = tjson.Wrap(t)
	}
	ncols := 0
	var header *[]string
	var rows []*[]histCell
	skip := map[int]int{}
	objs := map[interface{}]*objData{} // pointer item -> its state
	shared := map[int]interface{}{}
	sharedObj := func(id int) interface{} {
		if shared[id] == nil {
			it, od := newObj(1, objData{s: fmt.Sprintf("o%d", id), h: 1})
			shared[id] = it
			objs[it] = od
		}
		return shared[id]
	}
	type regCB struct {
		phase, col int
		act        histOp
	}
	var cbs []regCB
	// the effect of a skip / hdr step on the expected state
	effect := func(op histOp) {
		switch op.Op {
		case "hdr":
			h := make([]string, op.N)
			for i := range h {
				h[i] = histHeaderText(op.Alt, i, op.N)
			}
			header = &h
			if op.N > ncols {
				ncols = op.N
			}
		case "skip":
			if op.Col >= 0 && op.Col <= ncols { // else no such column yet: Column() is nil, nothing is set
				skip[op.Col] = op.Val
			}
		}
	}
	for _, op := range hs.Hist {
		switch op.Op {
		case "hdr", "skip":
			histApply(t, op)
			effect(op)
		case "row":
			items := make([]interface{}, op.N)
			cells := make([]histCell, op.N)
			for i := range items {
				switch op.Kinds[i] {
				case 1, 2:
					items[i] = sharedObj(op.Kinds[i])
				case 3:
					items[i] = float64(0)
				case 4:
					items[i] = math.Copysign(0, -1)
				case 5:
					items[i] = float32(0)
				case 6:
					items[i] = float32(math.Copysign(0, -1))
				case 7:
					items[i] = valStringer{""}
				case 8:
					it, od := newObj(1, objData{h: 1})
					objs[it] = od
					items[i] = it
				case 9:
					items[i] = 0
				case 10:
					items[i] = false
				default:
					items[i], _ = histItem(inInts(op.Empty, i), i)
				}
				cells[i] = histCell{items[i], histText(items[i], objs)}
			}
			switch op.How {
			case 1:
				row := tabular.NewRow()
				for _, it := range items {
					row.Add(tabular.NewCell(it))
				}
				t.AddRow(row)
			case 2:
				row := t.AppendNewRow()
				for _, it := range items {
					row.Add(tabular.NewCell(it))
				}
			default:
				t.AddRowItems(items...)
			}
			rows = append(rows, &cells)
			if op.N > ncols {
				ncols = op.N
			}
		case "sep":
			t.AddSeparator()
			rows = append(rows, nil)
		case "mut":
			sharedObj(op.Obj)
			objs[shared[op.Obj]].s = op.Text
		case "upd":
			for k := 0; k <= op.Times; k++ {
				for r := 1; r <= t.NRows(); r++ {
					for c := 1; c <= t.NColumns(); c++ {
						if cell, err := t.CellAt(tabular.CellLocation{Row: r, Column: c}); err == nil && cell != nil {
							cell.Update()
						}
					}
				}
			}
			for _, row := range rows {
				if row != nil {
					for i := range *row {
						(*row)[i].text = histText((*row)[i].item, objs)
					}
				}
			}
		case "cb":
			if op.Act == nil {
				continue
			}
			cb := histCB{t, *op.Act}
			switch op.Where {
			case 0:
				t.RegisterPropertyCallback(t, tabular.CB_AT_RENDER_PRECELL, tabular.CB_ON_ITSELF, cb)
				cbs = append(cbs, regCB{0, 0, *op.Act})
			case 1:
				t.RegisterPropertyCallback(t, tabular.CB_AT_RENDER_POSTCELL, tabular.CB_ON_ITSELF, cb)
				cbs = append(cbs, regCB{3, 0, *op.Act})
			case 2:
				if op.Col >= 0 && op.Col <= ncols {
					if col := t.Column(op.Col); col != nil {
						t.RegisterPropertyCallback(col, tabular.CB_AT_RENDER_PRECELL, tabular.CB_ON_ITSELF, cb)
					}
					cbs = append(cbs, regCB{1, op.Col, *op.Act})
				}
			case 3:
				if op.Act.Op == "skip" { // invoked once per cell: only an idempotent action
					t.RegisterPropertyCallback(t, tabular.CB_AT_RENDER_PRECELL, tabular.CB_ON_CELL, cb)
					cbs = append(cbs, regCB{2, 0, *op.Act})
				}
			}
		}
	}
	o := capture(func() (string, error) {
		switch hs.Via {
		case 1:
			return tjson.Wrap(t).Render()
		case 2:
			return early.Render()
		}
		return tjson.Render(t)
	})
	// the render-time callbacks, in the documented order: the table's own before the
	// cells, each column's own by column number, the per-cell ones, the table's own after
	sort.SliceStable(cbs, func(i, j int) bool {
		if cbs[i].phase != cbs[j].phase {
			return cbs[i].phase < cbs[j].phase
		}
		return cbs[i].phase == 1 && cbs[i].col < cbs[j].col
	})
	for _, cb := range cbs {
		if cb.phase == 2 {
			any := header != nil && len(*header) > 0
			for _, row := range rows {
				if row != nil && len(*row) > 0 {
					any = true
				}
			}
			if !any {
				continue // no cell, the per-cell callback is never invoked
			}
		}
		effect(cb.act)
	}
	v := View{NCols: ncols}
	if header != nil {
		cells := make([]VCell, len(*header))
		for i, text := range *header {
			b, _ := json.Marshal(text)
			js := string(b)
			cells[i] = VCell{Text: text, Empty: text == "", JSON: &js, TW: len(text), H: 1}
		}
		v.Header = &cells
	}
	for _, row := range rows {
		if row == nil {
			v.Rows = append(v.Rows, nil)
			continue
		}
		cells := make([]VCell, len(*row))
		for i, c := range *row {
			vc := VCell{Text: c.text, Empty: c.text == "", TW: len(c.text), H: 1}
			if b, err := json.Marshal(c.item); err == nil {
				js := string(b)
				vc.JSON = &js
			}
			cells[i] = vc
		}
		v.Rows = append(v.Rows, &cells)
	}
	for i := 0; i <= v.NCols; i++ {
		v.Align = append(v.Align, 0)
		v.Skip = append(v.Skip, skip[i])
	}
	return v, o
}

func (hs histSpec) size() int {
	n := len(hs.Hist) + hs.Via
	for _, op := range hs.Hist {
		n += op.N + len(op.Empty) + 2*len(op.Kinds) + 2*op.Times + len(op.Text)
		if op.Op == "skip" {
			n += 1
		}
		if op.Act != nil {
			n += 3 + op.Act.N + op.Where
		}
	}
	return n
}

func (hs histSpec) shrinks() []histSpec {
	var out []histSpec
	clone := func() histSpec {
		b, _ := json.Marshal(hs)
		var c histSpec
		json.Unmarshal(b, &c)
		return c
	}
	trim := func(op *histOp, n int) {
		op.N = n
		var e []int
		for _, x := range op.Empty {
			if x < n {
				e = append(e, x)
			}
		}
		op.Empty = e
	}
	for i, op := range hs.Hist {
		c := clone()
		c.Hist = append(append([]histOp{}, c.Hist[:i]...), c.Hist[i+1:]...)
		out = append(out, c)
		if op.N > 0 {
			for _, n := range []int{op.N - 1, op.N / 2, 10, 11, 65} {
				if n >= 0 && n < op.N {
					c := clone()
					trim(&c.Hist[i], n)
					out = append(out, c)
				}
			}
		}
		for j := range op.Empty {
			c := clone()
			c.Hist[i].Empty = append(append([]int{}, op.Empty[:j]...), op.Empty[j+1:]...)
			out = append(out, c)
		}
		if op.Op == "row" && op.How != 0 {
			c := clone()
			c.Hist[i].How = 0
			out = append(out, c)
		}
		for k := range op.Kinds {
			c := clone()
			delete(c.Hist[i].Kinds, k)
			out = append(out, c)
		}
		if op.Times > 0 {
			c := clone()
			c.Hist[i].Times = 0
			out = append(out, c)
		}
		if op.Alt != 0 {
			c := clone()
			c.Hist[i].Alt = 0
			out = append(out, c)
		}
		if op.Op == "cb" && op.Where != 0 {
			c := clone()
			c.Hist[i].Where = 0
			out = append(out, c)
		}
	}
	// all widths scaled down together (keeps the relative order of the steps)
	for _, d := range []int{1, 8, 32} {
		c := clone()
		okc := false
		for i := range c.Hist {
			if c.Hist[i].N > d {
				trim(&c.Hist[i], c.Hist[i].N-d)
				okc = true
			}
		}
		if okc {
			out = append(out, c)
		}
	}
	if hs.Via != 0 {
		c := clone()
		c.Via = 0
		out = append(out, c)
	}
	return out
}

func hSkip(col, val int) histOp { return histOp{Op: "skip", Col: col, Val: val} }
func hHdr(n int) histOp         { return histOp{Op: "hdr", N: n} }
func hRow(n, how int, empty ...int) histOp {
	return histOp{Op: "row", N: n, How: how, Empty: empty}
}

// widen the table to w columns by method m (0 AddHeaders, 1..3 a row by How m-1)
func hWiden(w, m int) histOp {
	if m == 0 {
		return hHdr(w)
	}
	return hRow(w, m-1)
}

// the histories that are enumerated (small ones) and the wide ones (big Coq terms)
func histFamilies(tier string) (small, wide []histSpec) {
	add := func(h histSpec) {
		w := 0
		for _, op := range h.Hist {
			if op.N > w {
				w = op.N
			}
		}
		if w > 40 {
			wide = append(wide, h)
		} else {
			small = append(small, h)
		}
	}
	// (a) every assignment of {unset,true,false,non-bool} to column 0 and to ALL of the
	// columns 1..N, N = 1..3 (4 in thorough): a row of empty cells, a row of non-empty ones
	maxN := 3
	if tier == "thorough" {
		maxN = 4
	}
	for n := 1; n <= maxN; n++ {
		total := 1
		for i := 0; i <= n; i++ {
			total *= 4
		}
		for code := 0; code < total; code++ {
			h := histSpec{Hist: []histOp{hHdr(n)}, Via: code % 3}
			x := code
			for c := 0; c <= n; c++ {
				if x%4 != 0 {
					h.Hist = append(h.Hist, hSkip(c, x%4))
				}
				x /= 4
			}
			all := make([]int, n)
			for i := range all {
				all[i] = i
			}
			h.Hist = append(h.Hist, hRow(n, 0, all...), hRow(n, 0))
			add(h)
		}
	}
	// (b) a setting made on the last column (or on column 0, or on all columns) of a table of
	// k columns, which is then widened past a capacity step to w columns in one step
	type kw struct{ k, w int }
	var kws []kw
	ks := []int{0, 3, 9, 15, 24}
	if tier == "thorough" {
		ks = []int{0, 1, 2, 3, 8, 9, 10, 15, 16, 24, 25}
	}
	for _, w := range []int{9, 10, 11, 16, 17, 25, 26} {
		for _, k := range ks {
			if k < w {
				kws = append(kws, kw{k, w})
			}
		}
	}
	for _, x := range []kw{{0, 70}, {3, 70}, {25, 70}, {0, 130}, {3, 130}, {69, 130}} {
		kws = append(kws, x)
	}
	if tier == "thorough" {
		for _, w := range []int{12, 38, 39, 40, 57, 58, 64, 65, 91, 92, 129} {
			for _, k := range []int{0, 2, 10, 37} {
				if k < w {
					kws = append(kws, kw{k, w})
				}
			}
		}
	}
	for _, x := range kws {
		for m := 0; m < 4; m++ {
			if tier != "thorough" && m != 0 && m != 3 && (x.w > 40 || x.w == 9 || x.w == 16 || x.w == 25) {
				continue
			}
			for _, sv := range [][2]int{{x.k, 1}, {0, 1}, {x.k, 3}, {0, 3}, {-1, 1}} {
				if tier != "thorough" && sv[0] == 0 && x.k != 0 && (x.w > 40 || sv[1] == 3) {
					continue
				}
				h := histSpec{Via: (x.k + x.w + m) % 3}
				if x.k > 0 {
					h.Hist = append(h.Hist, hWiden(x.k, (m+x.k)%4))
				}
				if sv[0] == -1 { // every existing column gets its own setting
					for c := 0; c <= x.k; c++ {
						h.Hist = append(h.Hist, hSkip(c, 1+(c%2)))
					}
				} else {
					h.Hist = append(h.Hist, hSkip(sv[0], sv[1]))
				}
				h.Hist = append(h.Hist, hWiden(x.w, m))
				if m != 0 || x.k > 0 {
					h.Hist = append(h.Hist, hHdr(x.w))
				}
				// a short row whose cells are all empty: what is omitted is decided by the settings alone
				n := x.k + 1
				all := make([]int, n)
				for i := range all {
					all[i] = i
				}
				h.Hist = append(h.Hist, hRow(n, 0, all...))
				add(h)
			}
		}
	}
	// (c) widened in several steps, the then-last column marked before each step
	chains := [][]int{{3, 10, 16, 25}, {0, 9, 10, 11, 17, 26}, {1, 2, 3, 4, 5, 6, 7, 8, 9, 10, 11, 12}, {9, 15, 16, 24, 25, 26}, {5, 12, 30, 70}, {2, 64, 65, 130}, {10, 16, 25, 38, 58, 88, 130}}
	for ci, ch := range chains {
		for m := 0; m < 4; m++ {
			if ch[len(ch)-1] > 40 && m != ci%4 && tier != "thorough" {
				continue
			}
			for _, val := range []int{1, 3} {
				h := histSpec{Via: (ci + m) % 3}
				var marked []int
				for si, w := range ch {
					if w > 0 {
						h.Hist = append(h.Hist, hWiden(w, (m+si)%4))
					}
					if si < len(ch)-1 {
						if val == 3 && si != len(ch)/2 {
							continue // one non-boolean setting, in the middle of the chain
						}
						h.Hist = append(h.Hist, hSkip(w, val))
						marked = append(marked, w)
					}
				}
				last := ch[len(ch)-1]
				h.Hist = append(h.Hist, hHdr(last))
				var empty []int
				for _, c := range marked {
					if c > 0 {
						empty = append(empty, c-1)
					}
				}
				n := marked[len(marked)-1] + 1
				if n > last {
					n = last
				}
				h.Hist = append(h.Hist, hRow(n, 0, empty...))
				add(h)
			}
		}
	}
	// (d) wide tables with skipable columns at and beyond 64
	for _, w := range []int{63, 64, 65, 66, 70, 100, 128, 129, 130} {
		var cols []int
		for _, c := range []int{1, 32, 63, 64, 65, 66, 67, w - 1, w} {
			if c >= 1 && c <= w && !inInts(cols, c) {
				cols = append(cols, c)
			}
		}
		var empty []int
		for _, c := range cols {
			empty = append(empty, c-1)
		}
		// own settings
		h := histSpec{Hist: []histOp{hHdr(w)}, Via: w % 3}
		for _, c := range cols {
			h.Hist = append(h.Hist, hSkip(c, 1))
		}
		h.Hist = append(h.Hist, hRow(w, w%3, empty...))
		add(h)
		// the column-0 default, with own "false" on two columns
		h2 := histSpec{Hist: []histOp{hHdr(w), hSkip(0, 1), hSkip(1, 2), hSkip(w, 2)}, Via: (w + 1) % 3}
		h2.Hist = append(h2.Hist, hRow(w, 0, empty...))
		add(h2)
	}
	return small, wide
}

func hCB(where, col int, act histOp) histOp {
	return histOp{Op: "cb", Where: where, Col: col, Act: &act}
}
func hHdrAlt(n, alt int) histOp { return histOp{Op: "hdr", N: n, Alt: alt} }
func hUpd(times int) histOp     { return histOp{Op: "upd", Times: times} }
func hMut(obj int, text string) histOp {
	return histOp{Op: "mut", Obj: obj, Text: text}
}
func hRowK(n int, kinds map[int]int, empty ...int) histOp {
	return histOp{Op: "row", N: n, Kinds: kinds, Empty: empty}
}

// histories whose rendering depends on something that happens late: settings and
// headers changed by render-time callbacks, items that compare equal but encode
// differently (a shared pointer mutated between rows, signed zeros), cells
// updated again after the build
func histFamiliesLate(tier string) []histSpec {
	var out []histSpec
	// (e) a render-time callback changes a Skipable setting or the headers
	type prior struct {
		name string
		ops  []histOp
	}
	priors := [][]histOp{
		{hHdr(2)},
		{hHdr(2), hSkip(2, 2)},
		{hHdr(2), hSkip(0, 1)},
		{hHdr(2), hSkip(2, 3)},
		{}, // no header yet
	}
	acts := []histOp{hSkip(2, 1), hSkip(0, 1), hSkip(2, 3), hSkip(0, 3), hSkip(2, 2), hSkip(2, 0), hSkip(0, 0),
		hHdrAlt(2, 1), hHdrAlt(2, 2), hHdrAlt(2, 3), hHdrAlt(3, 0), hHdrAlt(1, 0)}
	n := 0
	for _, pr := range priors {
		for _, act := range acts {
			for where := 0; where < 4; where++ {
				if act.Op == "hdr" && where >= 2 && tier != "thorough" {
					continue
				}
				if act.Op == "hdr" && where == 3 {
					continue
				}
				h := histSpec{Via: n % 3}
				n++
				h.Hist = append(h.Hist, pr...)
				h.Hist = append(h.Hist, hRow(2, n%3, 1), histOp{Op: "sep"}, hRow(2, 0, 0, 1), hRow(1, 0))
				h.Hist = append(h.Hist, hCB(where, where%3, act))
				out = append(out, h)
			}
		}
	}
	// two callbacks: the later one (in invocation order) decides
	for _, a := range []int{1, 2, 3} {
		for _, b := range []int{1, 2, 3} {
			for _, w := range [][2]int{{0, 1}, {1, 0}, {0, 0}, {2, 0}, {3, 2}, {1, 3}} {
				out = append(out, histSpec{Via: (a + b) % 3, Hist: []histOp{hHdr(2), hRow(2, 0, 0, 1), hRow(2, 0),
					hCB(w[0], 1, hSkip(2, a)), hCB(w[1], 2, hSkip(2, b))}})
			}
		}
	}
	// (f) the same pointer in several rows, mutated in between; updated or not
	alphabet := []histOp{hRowK(1, map[int]int{0: 1}), hRowK(2, map[int]int{0: 2, 1: 1}), hMut(1, "x"), hMut(1, ""), hMut(2, "y"), hUpd(0)}
	depth := 3
	if tier == "thorough" {
		depth = 4
	}
	var rec func(ops []histOp, d int)
	rec = func(ops []histOp, d int) {
		if len(ops) > 0 {
			h := histSpec{Via: len(out) % 3, Hist: []histOp{hHdr(2), hSkip(1+len(ops)%2, 1+len(out)%2), hRowK(2, map[int]int{0: 1, 1: 2})}}
			h.Hist = append(h.Hist, ops...)
			out = append(out, h)
		}
		if d == 0 {
			return
		}
		for _, o := range alphabet {
			rec(append(append([]histOp{}, ops...), o), d-1)
		}
	}
	rec(nil, depth)
	// items that are == but encode differently: signed zeros of both float types, int 0, false
	zs := []int{3, 4, 5, 6, 9, 10}
	for _, a := range zs {
		for _, b := range zs {
			out = append(out, histSpec{Via: (a + b) % 3, Hist: []histOp{hHdr(1), hRowK(1, map[int]int{0: a}), hRowK(1, map[int]int{0: b}), hRowK(1, map[int]int{0: a})}})
			out = append(out, histSpec{Via: (a * b) % 3, Hist: []histOp{hHdr(3), hRowK(3, map[int]int{0: a, 1: b, 2: a}), histOp{Op: "sep"}, hRowK(2, map[int]int{0: b, 1: a})}})
		}
	}
	// (g) every cell updated again (once, twice, after mutating another item) under every
	// assignment of Skipable to columns 0..2; empty texts of every kind in the cells
	for code := 0; code < 64; code++ {
		for variant := 0; variant < 3; variant++ {
			h := histSpec{Via: (code + variant) % 3, Hist: []histOp{hHdr(2)}}
			x := code
			var sk []histOp
			for c := 0; c <= 2; c++ {
				if x%4 != 0 {
					sk = append(sk, hSkip(c, x%4))
				}
				x /= 4
			}
			if variant == 1 {
				h.Hist = append(h.Hist, sk...)
			}
			h.Hist = append(h.Hist, hRow(2, code%3, 0, 1), hRowK(2, map[int]int{0: 7, 1: 8}), hRowK(2, map[int]int{1: 1}, 0))
			switch variant {
			case 0:
				h.Hist = append(h.Hist, hUpd(0))
			case 1:
				h.Hist = append(h.Hist, hUpd(1))
			case 2:
				h.Hist = append(h.Hist, hMut(1, ""), hUpd(0))
			}
			if variant != 1 {
				h.Hist = append(h.Hist, sk...)
			}
			out = append(out, h)
		}
	}
	return out
}

// lateSteps: with small probabilities, the late features on a random history
func lateSteps(r *RNG, h *histSpec, width int) {
	if r.Pct(25) {
		kinds := map[int]int{}
		n := 1 + r.Intn(min(width, 4))
		for i := 0; i < n; i++ {
			if r.Pct(60) {
				kinds[i] = 1 + r.Intn(10)
			}
		}
		h.Hist = append(h.Hist, hRowK(n, kinds))
		if r.Pct(50) {
			h.Hist = append(h.Hist, hMut(1+r.Intn(2), pick(r, []string{"", "m", "o1"})))
		}
		if r.Pct(60) {
			k2 := map[int]int{}
			for i := 0; i < n; i++ {
				if r.Pct(60) {
					k2[i] = 1 + r.Intn(10)
				}
			}
			h.Hist = append(h.Hist, hRowK(n, k2))
		}
	}
	if r.Pct(25) {
		h.Hist = append(h.Hist, hUpd(r.Intn(2)))
	}
	if r.Pct(25) {
		act := hSkip(r.Intn(width+1), 1+r.Intn(3))
		if r.Pct(60) {
			act.Val = 1
		}
		where := r.Intn(4)
		if r.Pct(20) {
			act = hHdrAlt(width, r.Intn(4))
			where = r.Intn(2)
		}
		h.Hist = append(h.Hist, hCB(where, r.Intn(width+1), act))
	}
}

func randHist(r *RNG, maxW int) histSpec {
	widths := []int{1, 2, 3, 5, 8, 9, 10, 11, 12, 15, 16, 17, 18, 24, 25, 26, 27, 37, 38, 39, 40, 41, 57, 58, 59, 63, 64, 65, 66, 70, 86, 87, 88, 100, 128, 129, 130}
	h := histSpec{Via: r.Intn(3)}
	cur := 0
	if r.Pct(40) {
		h.Hist = append(h.Hist, hSkip(0, pick(r, []int{1, 1, 2, 3})))
	}
	var marked []int
	steps := 1 + r.Intn(4)
	for s := 0; s < steps; s++ {
		var cand []int
		for _, w := range widths {
			if w > cur && w <= maxW {
				cand = append(cand, w)
			}
		}
		if len(cand) == 0 {
			break
		}
		if len(cand) > 6 && r.Pct(70) {
			cand = cand[:6]
		}
		cur = pick(r, cand)
		h.Hist = append(h.Hist, hWiden(cur, r.Intn(4)))
		if r.Pct(75) {
			c := cur
			if r.Pct(30) {
				c = r.Intn(cur + 1)
			}
			val := 1
			if r.Pct(12) {
				val = pick(r, []int{0, 2, 3})
			}
			h.Hist = append(h.Hist, hSkip(c, val))
			if c > 0 {
				marked = append(marked, c)
			}
		}
	}
	if cur == 0 {
		cur = 1
		h.Hist = append(h.Hist, hHdr(1))
	}
	if r.Pct(10) {
		// every column gets its own boolean setting, then column 0 anything
		for c := 1; c <= cur; c++ {
			h.Hist = append(h.Hist, hSkip(c, 1+r.Intn(2)))
		}
		h.Hist = append(h.Hist, hSkip(0, r.Intn(4)))
	}
	if r.Pct(92) {
		h.Hist = append(h.Hist, hHdr(cur))
	}
	nrows := 1 + r.Intn(2)
	for k := 0; k < nrows; k++ {
		n := cur
		if len(marked) > 0 && r.Pct(60) {
			n = marked[len(marked)-1]
			for _, c := range marked {
				if c > n {
					n = c
				}
			}
		} else if r.Pct(50) {
			n = 1 + r.Intn(cur)
		}
		var empty []int
		for _, c := range marked {
			if c <= n && !inInts(empty, c-1) {
				empty = append(empty, c-1)
			}
		}
		for i := 0; i < n; i++ {
			if r.Pct(15) && !inInts(empty, i) {
				empty = append(empty, i)
			}
		}
		if r.Pct(15) {
			h.Hist = append(h.Hist, histOp{Op: "sep"})
		}
		h.Hist = append(h.Hist, hRow(n, r.Intn(3), empty...))
	}
	lateSteps(r, &h, cur)
	return h
}

// compactTerm: the case as (CRenderT view table outcome) with the cell
// abbreviations of Run/C07Run.v wherever a cell's observed text, emptiness and
// encoding are exactly the abbreviation's, and the string-encoding oracle as a
// table of the distinct texts
func compactTerm(v View, o Outcome) string {
	vt, tbl := compactParts(v)
	return "(CRenderT " + vt + " " + tbl + " " + o.Coq() + ")"
}

// compactParts: the view (with the cell abbreviations) and the table of the
// distinct texts with their string encodings
func compactParts(v View) (string, string) {
	cell := func(c VCell) string {
		if c.JSON != nil {
			switch {
			case c.Text == "" && c.Empty && *c.JSON == `""`:
				return "cE"
			case c.Text == "" && c.Empty && *c.JSON == "null":
				return "cN"
			case c.Text == "v" && !c.Empty && *c.JSON == `"v"`:
				return "cV"
			case c.Text != "" && !c.Empty && *c.JSON == c.Text:
				return "(cJ " + cqStr(c.Text) + ")"
			}
		}
		return c.Coq(false)
	}
	var tbl []string
	seen := map[string]bool{}
	note := func(text string) {
		if seen[text] {
			return
		}
		seen[text] = true
		b, err := json.Marshal(text)
		if err != nil {
			panic(err)
		}
		if string(b) == `"`+text+`"` {
			tbl = append(tbl, "(Q "+cqStr(text)+")") // the encoding is the text between quotes
		} else {
			tbl = append(tbl, cqPair(cqStr(text), cqBytes(b)))
		}
	}
	var sb strings.Builder
	sb.WriteString("(mkView " + cqNat(v.NCols) + " ")
	if v.Header == nil {
		sb.WriteString("None ")
	} else {
		hs := make([]string, len(*v.Header))
		for i, h := range *v.Header {
			hs[i] = "(cH " + cqStr(h.Text) + ")"
			note(h.Text)
		}
		sb.WriteString(cqSome(cqList(hs)) + " ")
	}
	rows := make([]string, len(v.Rows))
	for i, r := range v.Rows {
		if r == nil {
			rows[i] = "None"
			continue
		}
		cs := make([]string, len(*r))
		for j, c := range *r {
			cs[j] = cell(c)
			note(c.Text)
		}
		rows[i] = cqSome(cqList(cs))
	}
	sb.WriteString(cqList(rows) + " (no_aligns " + cqNat(v.NCols) + ") (sparse_skips " + cqNat(v.NCols) + " ")
	var sk []string
	for c, x := range v.Skip {
		if x != 0 {
			sk = append(sk, cqPair(cqNat(c), []string{"", "SkBool true", "SkBool false", "SkOther"}[x]))
		}
	}
	sb.WriteString(cqList(sk) + "))")
	return sb.String(), cqList(tbl)
}

func runHistCase(hs histSpec) CaseOut {
	v, o := hs.run()
	co := renderCaseOut(v, o, hs.size())
	co.Coq = compactTerm(v, o)
	maxw, widenings := 0, 0
	for _, op := range hs.Hist {
		if op.N > maxw {
			maxw = op.N
			widenings++
		}
	}
	co.Tags = append(co.Tags, "history", fmt.Sprintf("history:widenings=%d", min(widenings, 5)))
	seen := map[string]bool{}
	for _, op := range hs.Hist {
		tag := ""
		switch {
		case op.Op == "cb":
			tag = "history:render-callback"
		case op.Op == "upd":
			tag = "history:update-sweep"
		case op.Op == "mut":
			tag = "history:shared-item-mutated"
		case len(op.Kinds) > 0:
			tag = "history:special-items"
		}
		if tag != "" && !seen[tag] {
			seen[tag] = true
			co.Tags = append(co.Tags, tag)
		}
	}
	switch {
	case maxw > 64:
		co.Tags = append(co.Tags, "history:wider-than-64")
	case maxw >= 10:
		co.Tags = append(co.Tags, "history:10-to-64-columns")
	}
	return co
}

func init() {
	register(&Prop{
		ID:       "C07",
		Imports:  "From Tab Require Import Run.Glue Run.C07Run.",
		CaseType: "c07case",
		CaseFn:   "C07_case",
		ModelFn:  "C07_model",
		Rule: "tables built through the public API; every row/separator sequence up to length 4 (thorough 5) over {separator, 0, 1, 2 cells} x every assignment of Skipable " +
			"{unset,true,false,non-bool} to column 0 and column 1 (16), and up to length 3 (thorough 5) x the 21 further assignments over columns 0..2 with at most two set (cells empty or not at random); header none/short/empty/duplicate/too long; " +
			"random tables to 6 rows x 4 cells with hostile header texts (quotes, backslashes, control bytes, <>&, U+2028, multibyte; invalid UTF-8 in a counted side stream) and items of every " +
			"JSON-relevant kind (nil, strings, runes, ints, bools, floats, 32 method-set combinations, nested Cell/*Cell, slices, maps, structs, Stringer values encoding as {}, channels that Marshal refuses); " +
			"build histories (SetProperty / AddHeaders / rows by three paths, interleaved): every assignment of {unset,true,false,non-bool} to column 0 and to ALL columns 1..N (N<=3, thorough 4); " +
			"a Skipable setting (true / non-bool, on the last column, on column 0, or on every column) made on a table of k columns that is then widened in one step to 9..11, 16, 17, 25, 26, 70, 130 columns by AddHeaders or a row, " +
			"and chains of such widenings with the then-last column marked before each; tables of 63..130 columns with skipable columns (own, or the column-0 default) at 63..67 and at the edge and empty cells there; random such histories; " +
			"late effects: a render-time callback (on the table before / after the cells, on a column, per cell) that sets a Skipable value or re-heads the table, under five prior states, and pairs of such callbacks (the view judged is the one after the callbacks ran); " +
			"the same pointer item (a Stringer without exported fields) in several rows, mutated in between, with and without an update sweep: all step sequences up to length 3 (thorough 4) over 6 steps; all ordered pairs of {0.0, -0.0 (float64, float32), int 0, false} in one table; " +
			"Cell.Update() on every body cell again (once, twice, after mutating another item) under all 64 Skipable assignments on columns 0..2 with empty texts of every kind (\"\", nil, Stringers returning \"\"); " +
			"render histories, each executed in a fresh child process of its own and judged render by render (1-3 tables rendered one after the other through json.Render / a fresh wrapper / a wrapper made before the build / RenderTo into a plain writer, or one table extended and rendered again; Render must return no text with an error): " +
			"every row sequence up to length 4 over {separator, zero-value tabular.Row handed to AddRow, row without cells, row of one cell} holding a zero-value row, and callers trying to add cells to zero-value rows and separators; " +
			"items without an encoding because of their VALUE (NaN, +Inf, -Inf as float64, float32, named float types, *float64, inside slices, maps, structs, interfaces, pointers to structs; MarshalJSON / MarshalText methods that refuse or return ill-formed bytes; ill-formed json.Number and json.RawMessage; a time beyond year 9999) or type (chan, func, complex, pointer cycle, maps keyed by float or bool) " +
			"in the only cell, in the first / last row, after a separator, in a skipable column (omitted when the text is empty, an error otherwise); every Go integer and float kind (named types, pointers, a nil pointer) at the edges of the number formatting (1e-6/1e-7, 1e21, shortest digits, float32, extremes); " +
			"items that encode as the empty object or not depending on the VALUE (omitempty structs with and without a String method, pointers to them, nil-able members, maps, value- and pointer-receiver MarshalJSON, json.RawMessage): an empty and populated ones of one type in one table, in consecutive tables, after a render that failed part-way, under value and pointer types, omitted or shown by their text; " +
			"has-an-encoding-or-not by value across renders (finite then non-finite and back, refusing encoders); 160 (thorough 4000) random such histories over the whole item language; " +
			"plus a parser self-validation stream (mutated renderer outputs and hand-written snippets: the Coq parser must agree with json.Valid, the token stream and utf8.Valid). " +
			"A case is non-trivial when rendering succeeded with at least one object; distinct = distinct (view, outcome)",
		Exhaustive: "row/separator sequences up to length 4 over {separator,0,1,2 cells} x 16 skipable assignments on columns 0,1; up to length 3 x 37 assignments on columns 0..2 with at most two set (thorough: length 5 x 37); all 4^(N+1) Skipable assignments on columns 0..N for N<=3 (thorough 4); the listed one-step and chained widenings; row sequences up to length 4 over {separator, zero-value row, row without cells, one-cell row} with a zero-value row (each in a fresh process)",
		Gen: func(r *RNG, tier string) []json.RawMessage {
			var out []json.RawMessage
			add := func(ts TableSpec) { out = append(out, mustJSON(ts)) }
			maxRows := 4
			if tier == "thorough" {
				maxRows = 5
			}
			// skip assignments on columns 0,1,2 with at most two set
			var assigns [][3]int
			for a := 0; a < 4; a++ {
				for b := 0; b < 4; b++ {
					for c := 0; c < 4; c++ {
						set := 0
						for _, x := range []int{a, b, c} {
							if x != 0 {
								set++
							}
						}
						if set <= 2 {
							assigns = append(assigns, [3]int{a, b, c})
						}
					}
				}
			}
			// every history of up to 4 SetProperty calls on column 1 (and the same on the
			// defaults column 0) over {skipable true, false, nil, some other key}, on a table
			// with empty cells in that column: the setting in force is the last one made
			{
				hdr := []ItemSpec{Str("k"), Str("v")}
				base := TableSpec{Header: &hdr, Rows: []RowSpec{{Cells: []ItemSpec{Str(""), Str("")}}, {Cells: []ItemSpec{Str("x"), Str("")}}, {Cells: []ItemSpec{Str(""), Str("y")}}}}
				alphabet := []PropOp{{Key: 1, Val: 1}, {Key: 1, Val: 2}, {Key: 1, Val: 0}, {Key: 2, Val: 7}}
				var rec func(ops []PropOp, depth int)
				rec = func(ops []PropOp, depth int) {
					if len(ops) > 0 {
						for _, col := range []int{1, 0} {
							ts := base
							for _, o := range ops {
								o.Col = col
								ts.PropOps = append(ts.PropOps, o)
							}
							add(ts)
						}
					}
					if depth == 0 {
						return
					}
					for _, o := range alphabet {
						rec(append(append([]PropOp{}, ops...), o), depth-1)
					}
				}
				rec(nil, 4)
			}
			cellText := func(r *RNG) ItemSpec {
				if r.Pct(50) {
					return Str("")
				}
				return Str(pick(r, []string{"x", "y", "1"}))
			}
			var shapes [][]int
			var rec func(rows []int)
			rec = func(rows []int) {
				shapes = append(shapes, rows)
				if len(rows) == maxRows {
					return
				}
				for k := -1; k <= 2; k++ {
					rec(append(append([]int{}, rows...), k))
				}
			}
			rec(nil)
			for _, rows := range shapes {
				for _, as := range assigns {
					// quick: column 2's setting only on sequences up to length 3
					if tier != "thorough" && as[2] != 0 && len(rows) > 3 {
						continue
					}
					ts := shapeSpec(r, 2, rows, cellText, []int{0, 0, 1, 2, 3})
					hs := strItems("a", "b")
					ts.Header = &hs
					ts.Skip = map[int]int{}
					for c, s := range as {
						if s != 0 {
							ts.Skip[c] = s
						}
					}
					add(ts)
				}
			}
			// header defects on every shape up to length 2
			enumShapes(2, 2, func(h int, rows []int) {
				add(shapeSpec(r, h, rows, cellText, []int{0, 1, 2}))
				if h == 2 {
					ts := shapeSpec(r, h, rows, cellText, []int{0, 1, 2})
					hs := strItems("k", "k")
					ts.Header = &hs
					add(ts)
					ts2 := shapeSpec(r, h, rows, cellText, []int{0, 1, 2})
					hs2 := strItems("k", "")
					ts2.Header = &hs2
					add(ts2)
				}
			})
			// build histories: settings made before widenings, wide tables (see histFamilies)
			smallH, wideH := histFamilies(tier)
			for _, h := range smallH {
				out = append(out, mustJSON(h))
			}
			for _, h := range histFamiliesLate(tier) {
				out = append(out, mustJSON(h))
			}
			nh, nhw := 120, 12
			if tier == "thorough" {
				nh, nhw = 4000, 400
			}
			for i := 0; i < nh; i++ {
				out = append(out, mustJSON(randHist(r, 40)))
			}
			for i := 0; i < nhw; i++ {
				wideH = append(wideH, randHist(r, 130))
			}
			// the wide ones make big Coq terms: spread them over the shards
			{
				step := len(out)/(len(wideH)+1) + 1
				var mixed []json.RawMessage
				wi := 0
				for i, c := range out {
					mixed = append(mixed, c)
					if i%step == step-1 && wi < len(wideH) {
						mixed = append(mixed, mustJSON(wideH[wi]))
						wi++
					}
				}
				for ; wi < len(wideH); wi++ {
					mixed = append(mixed, mustJSON(wideH[wi]))
				}
				out = mixed
			}
			n, nbad, nparse := 500, 120, 900
			if tier == "thorough" {
				n, nbad, nparse = 12000, 3000, 12000
			}
			var rendered [][]byte
			for i := 0; i < n; i++ {
				ts := jsonRandTable(r, false)
				add(ts)
				if len(rendered) < 200 {
					t := tabular.New()
					ts.Build(t)
					if o := capture(func() (string, error) { return tjson.Render(t) }); o.Kind == "ok" {
						rendered = append(rendered, o.Out)
					}
				}
			}
			for i := 0; i < nbad; i++ {
				add(jsonRandTable(r, true))
			}
			// render histories, each in a fresh process (c07_more.go): zero-value rows, items refused
			// by value, numbers of every kind, items encoding as {} or not by value across renders
			for _, js := range jxFamilies(r, tier) {
				out = append(out, mustJSON(js))
			}
			njx := 160
			if tier == "thorough" {
				njx = 4000
			}
			for i := 0; i < njx; i++ {
				out = append(out, mustJSON(jxRandSpec(r)))
			}
			// parser self-validation
			for _, s := range jsonSnippets {
				out = append(out, mustJSON(parseSpec{Parse: []byte(s), Q: fmt.Sprintf("%q", s)}))
			}
			for _, b := range rendered {
				if len(b) < 400 {
					out = append(out, mustJSON(parseSpec{Parse: b}))
				}
			}
			for i := 0; i < nparse; i++ {
				var base []byte
				if len(rendered) > 0 && r.Pct(60) {
					base = pick(r, rendered)
					if len(base) > 300 {
						base = []byte(pick(r, jsonSnippets))
					}
				} else {
					base = []byte(pick(r, jsonSnippets))
				}
				m := mutate(r, base)
				out = append(out, mustJSON(parseSpec{Parse: m, Q: fmt.Sprintf("%q", m)}))
			}
			return out
		},
		Run: func(spec json.RawMessage) CaseOut {
			var probe map[string]json.RawMessage
			if err := json.Unmarshal(spec, &probe); err != nil {
				panic(err)
			}
			if _, isParse := probe["parse"]; isParse {
				var ps parseSpec
				if err := json.Unmarshal(spec, &ps); err != nil {
					panic(err)
				}
				return runParseCase(ps)
			}
			if _, isHist := probe["hist"]; isHist {
				var hs histSpec
				if err := json.Unmarshal(spec, &hs); err != nil {
					panic(err)
				}
				return runHistCase(hs)
			}
			if _, isJx := probe["jx"]; isJx {
				var js jxSpec
				if err := json.Unmarshal(spec, &js); err != nil {
					panic(err)
				}
				return runJxCase(js)
			}
			var ts TableSpec
			if err := json.Unmarshal(spec, &ts); err != nil {
				panic(err)
			}
			return runRenderCase(ts)
		},
		Shrink: func(spec json.RawMessage) []json.RawMessage {
			var probe map[string]json.RawMessage
			if err := json.Unmarshal(spec, &probe); err != nil {
				return nil
			}
			if _, isParse := probe["parse"]; isParse {
				var ps parseSpec
				if json.Unmarshal(spec, &ps) != nil {
					return nil
				}
				var out []json.RawMessage
				for i := range ps.Parse {
					m := append(append([]byte{}, ps.Parse[:i]...), ps.Parse[i+1:]...)
					out = append(out, mustJSON(parseSpec{Parse: m, Q: fmt.Sprintf("%q", m)}))
				}
				return out
			}
			if _, isHist := probe["hist"]; isHist {
				var hs histSpec
				if json.Unmarshal(spec, &hs) != nil {
					return nil
				}
				var out []json.RawMessage
				for _, c := range hs.shrinks() {
					out = append(out, mustJSON(c))
				}
				return out
			}
			if _, isJx := probe["jx"]; isJx {
				var js jxSpec
				if json.Unmarshal(spec, &js) != nil {
					return nil
				}
				var out []json.RawMessage
				for _, c := range js.shrinks() {
					out = append(out, mustJSON(c))
				}
				return out
			}
			return shrinkTableJSON(spec)
		},
	})
}
