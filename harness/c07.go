package main

// C07: JSON output is valid JSON that mirrors the table, or an error and
// nothing.  Two kinds of case: render cases (a table spec, run through
// json.Render) and parser self-validation cases (bytes on which the Coq JSON
// parser must agree with encoding/json).

import (
	"bytes"
	"encoding/json"
	"fmt"
	"strings"
	"unicode/utf8"

	"go.pennock.tech/tabular"
	tjson "go.pennock.tech/tabular/json"
)

// hostile header texts: quotes, backslashes, control bytes, HTML-sensitive
// bytes (encoding/json escapes them), U+2028/2029, valid multibyte
var jsonKeyAtoms = []string{
	"a", "b", "c", "key", "A", "a b", " ", `"`, `\`, `\"`, `"\`, `\\`, `\u0041`, `\n`, "\n", "\r", "\t", "\x00", "\x01", "\x1f", "\x7f",
	"<", ">", "&", "<script>", "\u2028", "\u2029", "\u00e9", "\u65e5\u672c", "\U0001F600", "\ufffd", "\ufeff", "a\u0300", "/", "\b", "\f", "{", "}", "[", "]", ":", ",", "{}", "null", "0",
}

// byte strings that are not valid UTF-8 (counted side stream, DESIGN 13.9)
var jsonBadUTF8 = []string{"\xff", "\xc3", "a\x80", "\xed\xa0\x80", "\xc0\xaf", "\xf4\x90\x80\x80", "\xe2\x28\xa1", "\xfe\"", "\\\xff"}

func jsonKeyText(r *RNG) string {
	switch {
	case r.Pct(55):
		return pick(r, jsonKeyAtoms)
	case r.Pct(60):
		n := 1 + r.Intn(3)
		var sb strings.Builder
		for i := 0; i < n; i++ {
			sb.WriteString(pick(r, jsonKeyAtoms))
		}
		return sb.String()
	default:
		// random valid runes
		n := 1 + r.Intn(4)
		var sb strings.Builder
		for i := 0; i < n; i++ {
			switch r.Intn(4) {
			case 0:
				sb.WriteRune(rune(r.Intn(0x80)))
			case 1:
				sb.WriteRune(rune(0x80 + r.Intn(0x780)))
			case 2:
				c := rune(0x800 + r.Intn(0xF800))
				if c >= 0xD800 && c <= 0xDFFF {
					c = 0x2028
				}
				sb.WriteRune(c)
			default:
				sb.WriteRune(rune(0x10000 + r.Intn(0x100000)))
			}
		}
		return sb.String()
	}
}

// items of every JSON-relevant kind
func jsonItem(r *RNG) ItemSpec {
	switch r.Intn(20) {
	case 0:
		return ItemSpec{K: "nil"}
	case 1, 2:
		return Str(jsonKeyText(r))
	case 3:
		// empty, and non-empty texts of zero display width (an empty cell is one whose TEXT is empty)
		return Str(pick(r, []string{"", "", "\u200b", "\n", "\u0301", "\u200d"}))
	case 4:
		return ItemSpec{K: "int", I: int64(r.Intn(2001) - 1000)}
	case 5:
		return ItemSpec{K: "int", I: []int64{0, -1, 1 << 40, -(1 << 52)}[r.Intn(4)]}
	case 6:
		return ItemSpec{K: "bool", I: int64(r.Intn(2))}
	case 7:
		return ItemSpec{K: "float", F: []float64{0, -0.5, 1.5, 1e21, 1e-7, 3.0e100, -2.5e-300, 123456.789}[r.Intn(8)]}
	case 8:
		return ItemSpec{K: "rune", R: []int32{'x', 0, '"', 0x2028, 0x1F600, -1, 0xD800}[r.Intn(7)]}
	case 9:
		// Stringer / GoStringer / error combinations with unexported fields: {} and the text fallback
		return ItemSpec{K: "obj", Mask: r.Intn(32), S: []byte(pick(r, []string{"", "s", `q"`, "l1\nl2", "é<"})), G: []byte("g"), E: []byte(pick(r, []string{"", "e"})), H: 1 + r.Intn(2), W: r.Intn(4)}
	case 10:
		in := jsonItem(r)
		if in.K == "cell" || in.K == "pcell" {
			in = Str("in")
		}
		return ItemSpec{K: "cell", Inner: &in}
	case 11:
		in := Str(jsonKeyText(r))
		return ItemSpec{K: "pcell", Inner: &in}
	case 12:
		return ItemSpec{K: "slice", I: int64(r.Intn(10))}
	case 13:
		return ItemSpec{K: "map", B: []byte(jsonKeyText(r)), I: int64(r.Intn(10))}
	case 14:
		return ItemSpec{K: "structx", B: []byte(jsonKeyText(r)), I: int64(r.Intn(10))}
	case 15:
		return ItemSpec{K: "valstr", B: []byte(pick(r, []string{"", "v", `"`, "\xff", "<&>"}))}
	case 16:
		return ItemSpec{K: "strerr", B: []byte(pick(r, []string{"", "err", "\xc3("}))}
	case 17:
		if r.Pct(40) {
			return ItemSpec{K: "chan"}
		}
		return Str("x")
	default:
		return Str(pick(r, []string{"x", "y", "", "0", "{}", "null", "[1]"}))
	}
}

func strItems(ss ...string) []ItemSpec {
	out := make([]ItemSpec, len(ss))
	for i, s := range ss {
		out[i] = Str(s)
	}
	return out
}

// a header of n distinct non-empty texts
func jsonHeader(r *RNG, n int, bad bool) []ItemSpec {
	seen := map[string]bool{}
	hs := make([]ItemSpec, 0, n)
	for len(hs) < n {
		var s string
		if bad && r.Pct(50) {
			s = pick(r, jsonBadUTF8)
			if r.Pct(50) {
				s = jsonKeyText(r) + s
			}
		} else {
			s = jsonKeyText(r)
		}
		if s == "" || seen[s] {
			s = fmt.Sprintf("%s%d", s, len(hs))
			if seen[s] {
				continue
			}
		}
		seen[s] = true
		hs = append(hs, Str(s))
	}
	return hs
}

func jsonRandTable(r *RNG, badUTF8 bool) TableSpec {
	ts := randTable(r, 6, 4, jsonItem, []int{0, 0, 1, 2, 3})
	maxc := 0
	for _, row := range ts.Rows {
		if len(row.Cells) > maxc {
			maxc = len(row.Cells)
		}
	}
	if maxc == 0 && r.Pct(70) {
		maxc = 1 + r.Intn(2)
	}
	switch k := r.Intn(100); {
	case k < 70: // a usable header
		n := maxc
		if r.Pct(15) {
			n += 1 + r.Intn(2)
		}
		hs := jsonHeader(r, n, badUTF8)
		ts.Header = &hs
	case k < 76:
		ts.Header = nil
	case k < 82: // too few
		n := 0
		if maxc > 0 {
			n = r.Intn(maxc)
		}
		hs := jsonHeader(r, n, badUTF8)
		ts.Header = &hs
	case k < 88: // an empty header text
		hs := jsonHeader(r, maxc, badUTF8)
		if len(hs) > 0 {
			hs[r.Intn(len(hs))] = pick(r, []ItemSpec{Str(""), {K: "nil"}})
		}
		ts.Header = &hs
	case k < 94: // a duplicate
		hs := jsonHeader(r, maxc, badUTF8)
		if len(hs) > 1 {
			i := r.Intn(len(hs))
			j := r.Intn(len(hs))
			if i == j {
				j = (i + 1) % len(hs)
			}
			hs[j] = hs[i]
		}
		ts.Header = &hs
	default: // header cells of any kind
		hs := make([]ItemSpec, maxc)
		for i := range hs {
			hs[i] = jsonItem(r)
		}
		ts.Header = &hs
	}
	// skipable settings
	if r.Pct(60) {
		ts.Skip = map[int]int{}
		ncols := maxc
		if ts.Header != nil && len(*ts.Header) > ncols {
			ncols = len(*ts.Header)
		}
		for c := 0; c <= ncols; c++ {
			if r.Pct(35) {
				if r.Pct(8) {
					ts.Skip[c] = 3
				} else {
					ts.Skip[c] = 1 + r.Intn(2)
				}
			}
		}
	}
	// a second AddHeaders (same number of headers: a reused wrapper must not keep the old keys),
	// settings made before the rows, zero-width but non-empty texts in skipable columns
	if ts.Header != nil && len(*ts.Header) > 0 && r.Pct(10) {
		h2 := jsonHeader(r, len(*ts.Header), badUTF8)
		ts.Header2 = &h2
		if len(ts.Rows) > 0 {
			ts.Stages = []int{len(ts.Rows) - 1}
		}
	}
	if r.Pct(8) {
		ts.SkipEarly = map[int]int{0: 1 + r.Intn(2)}
	}
	h2 := ts.Header2
	enrichSpec(r, &ts, func(r *RNG) ItemSpec { return Str(jsonKeyText(r)) })
	if h2 != nil {
		ts.Header2 = h2
	}
	return ts
}

// ---- parser self-validation

type parseSpec struct {
	Parse []byte `json:"parse"`
	Q     string `json:"q,omitempty"`
}

var jsonSnippets = []string{
	`0`, `-0`, `-`, `01`, `1.`, `.5`, `1.5`, `1e5`, `1E+5`, `1e-`, `1e`, `1e+`, `-1.25e-10`, `12a`, `1 2`, `+1`, `0x10`, `1.e3`, `0.0e0`, `00`, `-01`, `0e`, `9e99999`,
	`true`, `false`, `null`, `tru`, `nul`, `nulll`, `True`, `truefalse`,
	`""`, `"a"`, `"\""`, `"\\"`, `"\/"`, `"\b\f\n\r\t"`, `"\a"`, `"\u0041"`, `"\u00e9"`, `"\u2028"`, `"\ud83d\ude00"`, `"\ud83d"`, `"\ude00"`, `"\ud83dx"`, `"\ud83d\n"`, `"\ud83d\u0041"`, `"\ud83d\ud83d\ude00"`, `"\uD83D\uDE00"`,
	`"\ude00\ud83d"`, `"\udbff\udfff"`, `"\ud800\udc00"`, `"\uffff"`, `"\ud7ff\ue000"`, `"\ud83d\\"`, `"\ud83d\ud83d"`,
	`"\u12"`, `"\u12g4"`, `"\u"`, `"abc`, "\"a\nb\"", "\"a\tb\"", "\"\x7f\"", "\"\xff\"", "\"\u00e9\U0001F600\"", `"\u0000"`, `"\`, `"\"`, `'a'`,
	`[]`, `[ ]`, `[1]`, `[1,2]`, `[1,]`, `[,1]`, `[1 2]`, `[`, `]`, `[[]]`, `[[],[]]`, `[[[[[[1]]]]]]`, `[1,[2,[3,{"a":[4]}]]]`, `[1]]`, `[}`,
	`{}`, `{ }`, `{"a":1}`, `{"a" : 1 , "b" : [ ] }`, `{"a":1,}`, `{,}`, `{"a"}`, `{"a":}`, `{"a" 1}`, `{a:1}`, `{1:1}`, `{"a":1 "b":2}`, `{"a":1,"a":2}`, `{"a":{"b":{"c":null}}}`, `{"a":1}}`, `{]`, `{"a":1]`, `{"":""}`,
	` 1 `, "\t\n\r 1", "1\x0c", "\xef\xbb\xbf1", ``, ` `, `1,`, `,`, `:`, `{"a"::1}`, `[1,,2]`, `nullnull`, `[null,true,false,-1.5e+3,"x",{},[]]`,
}

func mutate(r *RNG, b []byte) []byte {
	out := append([]byte{}, b...)
	n := 1 + r.Intn(2)
	for k := 0; k < n; k++ {
		structural := []byte(`[]{},:"\ 0-.e+tnfu` + "\n")
		switch r.Intn(8) {
		case 0: // flip to a structural byte
			if len(out) > 0 {
				out[r.Intn(len(out))] = pick(r, structural)
			}
		case 1: // drop a byte
			if len(out) > 0 {
				i := r.Intn(len(out))
				out = append(out[:i], out[i+1:]...)
			}
		case 2: // insert a structural byte
			i := r.Intn(len(out) + 1)
			out = append(out[:i], append([]byte{pick(r, structural)}, out[i:]...)...)
		case 3: // truncate
			if len(out) > 0 {
				out = out[:r.Intn(len(out))]
			}
		case 4: // random byte
			if len(out) > 0 {
				out[r.Intn(len(out))] = byte(r.Intn(256))
			}
		case 5: // duplicate a byte
			if len(out) > 0 {
				i := r.Intn(len(out))
				out = append(out[:i+1], out[i:]...)
			}
		case 6: // swap neighbours
			if len(out) > 1 {
				i := r.Intn(len(out) - 1)
				out[i], out[i+1] = out[i+1], out[i]
			}
		default: // drop a trailing piece and re-close
			if len(out) > 2 {
				out = append(out[:len(out)-2], pick(r, []string{"]", "}", "]\n", "\n]\n", ",\n]\n"})...)
			}
		}
	}
	return out
}

// goDump: encoding/json's reading of a valid document as a token stream in the
// format of Spec/JsonParse.v's jdump
func goDump(b []byte) (string, bool) {
	dec := json.NewDecoder(bytes.NewReader(b))
	dec.UseNumber()
	var sb strings.Builder
	for {
		tok, err := dec.Token()
		if err != nil {
			break
		}
		switch t := tok.(type) {
		case json.Delim:
			sb.WriteString(t.String())
		case string:
			sb.WriteString("s")
			fmt.Fprintf(&sb, "%x", t)
			sb.WriteString(";")
		case json.Number:
			sb.WriteString("#" + string(t) + ";")
		case bool:
			if t {
				sb.WriteString("t")
			} else {
				sb.WriteString("f")
			}
		case nil:
			sb.WriteString("n")
		default:
			return "", false
		}
	}
	return sb.String(), true
}

func runParseCase(ps parseSpec) CaseOut {
	b := ps.Parse
	valid := json.Valid(b)
	u := utf8.Valid(b)
	dump := "None"
	dumpS := ""
	if valid && u {
		if d, ok := goDump(b); ok {
			dump = cqSome(cqStr(d))
			dumpS = d
		}
	}
	tag := "parser-selfcheck:rejected"
	if valid {
		tag = "parser-selfcheck:accepted"
	}
	return CaseOut{
		Coq:  fmt.Sprintf("(CParse %s %s %s %s)", cqBytes(b), cqBool(valid), dump, cqBool(u)),
		Desc: map[string]interface{}{"kind": "parse", "input": fmt.Sprintf("%q", b), "go_valid": valid, "go_utf8": u, "go_dump": dumpS, "sig": "parser-selfcheck"},
		Size: len(b),
		Tags: []string{tag},
		Key:  "P" + string(b),
	}
}

// ---- render cases

type c07Desc struct {
	Outcome
	Sig       string `json:"sig"`
	JSONValid *bool  `json:"go_json_valid,omitempty"`
}

func runRenderCase(ts TableSpec) CaseOut {
	t := tabular.New()
	// the table is built and rendered (through a wrapper reused across staged
	// renders when the spec has stages); the view it is judged against is
	// computed from the spec, not read back from the table
	o := ts.BuildRenderW(t, func(t tabular.Table) RenderW { return tjson.Wrap(t) })
	v := ts.SpecView()
	enc := func(s string) string {
		b, err := json.Marshal(s)
		if err != nil {
			panic("json.Marshal of a string failed: " + err.Error())
		}
		return cqBytes(b)
	}
	var keys []string
	badUTF8 := false
	if v.Header != nil {
		for _, h := range *v.Header {
			keys = append(keys, enc(h.Text))
			if !utf8.ValidString(h.Text) {
				badUTF8 = true
			}
		}
	}
	fbs := make([]string, len(v.Rows))
	marshalFail, fallback := false, false
	for i, row := range v.Rows {
		if row == nil {
			fbs[i] = "[]"
			continue
		}
		var es []string
		for _, c := range *row {
			es = append(es, enc(c.Text))
			if c.JSON == nil {
				marshalFail = true
			} else if *c.JSON == "{}" && c.Text != "" {
				fallback = true
			}
		}
		fbs[i] = cqList(es)
	}
	d := c07Desc{Outcome: o}
	switch o.Kind {
	case "ok":
		ok := json.Valid(o.Out)
		d.JSONValid = &ok
		if !ok {
			d.Sig = "invalid-json"
		}
	case "panic":
		d.Sig = "panic"
	case "err":
		if len(o.Out) != 0 {
			d.Sig = "text-with-error"
		}
	}
	tags := append(shapeTags(v), "outcome="+o.Kind)
	lead, trail, consec, anySkip, nonBool := false, false, false, false, false
	nObj := 0
	for i, row := range v.Rows {
		if row == nil {
			if i == 0 {
				lead = true
			}
			if i == len(v.Rows)-1 {
				trail = true
			}
			if i > 0 && v.Rows[i-1] == nil {
				consec = true
			}
		} else {
			nObj++
		}
	}
	for _, s := range v.Skip {
		if s == 1 {
			anySkip = true
		}
		if s == 3 {
			nonBool = true
		}
	}
	for name, on := range map[string]bool{"leading-separator": lead, "trailing-separator": trail, "consecutive-separators": consec,
		"only-separators": nObj == 0 && len(v.Rows) > 0, "skipable-true": anySkip, "skipable-non-bool": nonBool,
		"invalid-utf8-header": badUTF8, "marshal-failure-item": marshalFail, "empty-object-text-fallback": fallback} {
		if on {
			tags = append(tags, name)
		}
	}
	vc := v.Coq(false)
	term := fmt.Sprintf("(CRender %s %s %s %s)", vc, cqList(keys), cqList(fbs), o.Coq())
	return CaseOut{
		Coq:        term,
		Desc:       d,
		Size:       ts.Size(),
		Tags:       tags,
		Key:        vc + o.Kind,
		Nontrivial: o.Kind == "ok" && nObj > 0,
	}
}

func init() {
	register(&Prop{
		ID:       "C07",
		Imports:  "From Tab Require Import Run.Glue Run.C07Run.",
		CaseType: "c07case",
		CaseFn:   "C07_case",
		ModelFn:  "C07_model",
		Rule: "tables built through the public API; every row/separator sequence up to length 4 (thorough 5) over {separator, 0, 1, 2 cells} x every assignment of Skipable " +
			"{unset,true,false,non-bool} to column 0 and column 1 (16), and up to length 3 (thorough 5) x the 21 further assignments over columns 0..2 with at most two set (cells empty or not at random); header none/short/empty/duplicate/too long; " +
			"random tables to 6 rows x 4 cells with hostile header texts (quotes, backslashes, control bytes, <>&, U+2028, multibyte; invalid UTF-8 in a counted side stream) and items of every " +
			"JSON-relevant kind (nil, strings, runes, ints, bools, floats, 32 method-set combinations, nested Cell/*Cell, slices, maps, structs, Stringer values encoding as {}, channels that Marshal refuses); " +
			"plus a parser self-validation stream (mutated renderer outputs and hand-written snippets: the Coq parser must agree with json.Valid, the token stream and utf8.Valid). " +
			"A case is non-trivial when rendering succeeded with at least one object; distinct = distinct (view, outcome)",
		Exhaustive: "row/separator sequences up to length 4 over {separator,0,1,2 cells} x 16 skipable assignments on columns 0,1; up to length 3 x 37 assignments on columns 0..2 with at most two set (thorough: length 5 x 37)",
		Gen: func(r *RNG, tier string) []json.RawMessage {
			var out []json.RawMessage
			add := func(ts TableSpec) { out = append(out, mustJSON(ts)) }
			maxRows := 4
			if tier == "thorough" {
				maxRows = 5
			}
			// skip assignments on columns 0,1,2 with at most two set
			var assigns [][3]int
			for a := 0; a < 4; a++ {
				for b := 0; b < 4; b++ {
					for c := 0; c < 4; c++ {
						set := 0
						for _, x := range []int{a, b, c} {
							if x != 0 {
								set++
							}
						}
						if set <= 2 {
							assigns = append(assigns, [3]int{a, b, c})
						}
					}
				}
			}
			// every history of up to 4 SetProperty calls on column 1 (and the same on the
			// defaults column 0) over {skipable true, false, nil, some other key}, on a table
			// with empty cells in that column: the setting in force is the last one made
			{
				hdr := []ItemSpec{Str("k"), Str("v")}
				base := TableSpec{Header: &hdr, Rows: []RowSpec{{Cells: []ItemSpec{Str(""), Str("")}}, {Cells: []ItemSpec{Str("x"), Str("")}}, {Cells: []ItemSpec{Str(""), Str("y")}}}}
				alphabet := []PropOp{{Key: 1, Val: 1}, {Key: 1, Val: 2}, {Key: 1, Val: 0}, {Key: 2, Val: 7}}
				var rec func(ops []PropOp, depth int)
				rec = func(ops []PropOp, depth int) {
					if len(ops) > 0 {
						for _, col := range []int{1, 0} {
							ts := base
							for _, o := range ops {
								o.Col = col
								ts.PropOps = append(ts.PropOps, o)
							}
							add(ts)
						}
					}
					if depth == 0 {
						return
					}
					for _, o := range alphabet {
						rec(append(append([]PropOp{}, ops...), o), depth-1)
					}
				}
				rec(nil, 4)
			}
			cellText := func(r *RNG) ItemSpec {
				if r.Pct(50) {
					return Str("")
				}
				return Str(pick(r, []string{"x", "y", "1"}))
			}
			var shapes [][]int
			var rec func(rows []int)
			rec = func(rows []int) {
				shapes = append(shapes, rows)
				if len(rows) == maxRows {
					return
				}
				for k := -1; k <= 2; k++ {
					rec(append(append([]int{}, rows...), k))
				}
			}
			rec(nil)
			for _, rows := range shapes {
				for _, as := range assigns {
					// quick: column 2's setting only on sequences up to length 3
					if tier != "thorough" && as[2] != 0 && len(rows) > 3 {
						continue
					}
					ts := shapeSpec(r, 2, rows, cellText, []int{0, 0, 1, 2, 3})
					hs := strItems("a", "b")
					ts.Header = &hs
					ts.Skip = map[int]int{}
					for c, s := range as {
						if s != 0 {
							ts.Skip[c] = s
						}
					}
					add(ts)
				}
			}
			// header defects on every shape up to length 2
			enumShapes(2, 2, func(h int, rows []int) {
				add(shapeSpec(r, h, rows, cellText, []int{0, 1, 2}))
				if h == 2 {
					ts := shapeSpec(r, h, rows, cellText, []int{0, 1, 2})
					hs := strItems("k", "k")
					ts.Header = &hs
					add(ts)
					ts2 := shapeSpec(r, h, rows, cellText, []int{0, 1, 2})
					hs2 := strItems("k", "")
					ts2.Header = &hs2
					add(ts2)
				}
			})
			n, nbad, nparse := 500, 120, 900
			if tier == "thorough" {
				n, nbad, nparse = 12000, 3000, 12000
			}
			var rendered [][]byte
			for i := 0; i < n; i++ {
				ts := jsonRandTable(r, false)
				add(ts)
				if len(rendered) < 200 {
					t := tabular.New()
					ts.Build(t)
					if o := capture(func() (string, error) { return tjson.Render(t) }); o.Kind == "ok" {
						rendered = append(rendered, o.Out)
					}
				}
			}
			for i := 0; i < nbad; i++ {
				add(jsonRandTable(r, true))
			}
			// parser self-validation
			for _, s := range jsonSnippets {
				out = append(out, mustJSON(parseSpec{Parse: []byte(s), Q: fmt.Sprintf("%q", s)}))
			}
			for _, b := range rendered {
				if len(b) < 400 {
					out = append(out, mustJSON(parseSpec{Parse: b}))
				}
			}
			for i := 0; i < nparse; i++ {
				var base []byte
				if len(rendered) > 0 && r.Pct(60) {
					base = pick(r, rendered)
					if len(base) > 300 {
						base = []byte(pick(r, jsonSnippets))
					}
				} else {
					base = []byte(pick(r, jsonSnippets))
				}
				m := mutate(r, base)
				out = append(out, mustJSON(parseSpec{Parse: m, Q: fmt.Sprintf("%q", m)}))
			}
			return out
		},
		Run: func(spec json.RawMessage) CaseOut {
			var probe map[string]json.RawMessage
			if err := json.Unmarshal(spec, &probe); err != nil {
				panic(err)
			}
			if _, isParse := probe["parse"]; isParse {
				var ps parseSpec
				if err := json.Unmarshal(spec, &ps); err != nil {
					panic(err)
				}
				return runParseCase(ps)
			}
			var ts TableSpec
			if err := json.Unmarshal(spec, &ts); err != nil {
				panic(err)
			}
			return runRenderCase(ts)
		},
		Shrink: func(spec json.RawMessage) []json.RawMessage {
			var probe map[string]json.RawMessage
			if err := json.Unmarshal(spec, &probe); err != nil {
				return nil
			}
			if _, isParse := probe["parse"]; isParse {
				var ps parseSpec
				if json.Unmarshal(spec, &ps) != nil {
					return nil
				}
				var out []json.RawMessage
				for i := range ps.Parse {
					m := append(append([]byte{}, ps.Parse[:i]...), ps.Parse[i+1:]...)
					out = append(out, mustJSON(parseSpec{Parse: m, Q: fmt.Sprintf("%q", m)}))
				}
				return out
			}
			return shrinkTableJSON(spec)
		},
	})
}
