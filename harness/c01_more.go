package main

// C01, item kinds and process histories added after the fifth round of seeded
// changes.
//
// (1) WHICH TEXT METHODS AN ITEM OFFERS is a matter of Go's method sets: a value
// of a named type offers the methods declared on the value receiver only, a
// pointer to it offers those of both receivers, an embedded field promotes its
// methods unless two of them collide.  The generated types of
// objtypes_gen.go are all pointers with pointer receivers; here every kind of
// named type that can carry methods (c01_zoo_gen.go: struct, array, int,
// string, slice, map, func, chan) x receiver x subset of {String, GoString,
// Error} is stored both by value and by pointer, the 32 generated types are
// stored BY VALUE as well ("objval"), and so are embedding structs, generic
// types and a selection of standard-library values (url.URL, big.Int,
// bytes.Buffer, time.Time, net.IP, wrapped errors ...).  What the item offers is
// asked of Go itself (describe: type assertions on the very value).
//
// (2) WHAT A PROCESS HAS SEEN BEFORE.  Distinct types can share everything a
// program can say about a type short of the reflect.Type itself: the name
// (function-local types; reflect's Type.String(), Name(), %T agree), the kind,
// the layout, the number of methods.  "twin" items are such namesakes - nine
// distinct types all called c01Same, one per method subset - and a case marked
// Fresh runs in a process of its own, so that the items of `also` and the item
// under test are the first items that process ever puts into cells: the
// case's verdict is a function of its spec alone, and every ordered pair of
// namesakes / look-alikes is tried.

import (
	"bytes"
	"context"
	"encoding/json"
	"errors"
	"fmt"
	"image"
	"io"
	"math/big"
	"net"
	"net/mail"
	"net/netip"
	"net/url"
	"os"
	"os/exec"
	"path/filepath"
	"reflect"
	"regexp"
	"strconv"
	"strings"
	"syscall"
	"time"

	"go.pennock.tech/tabular"
)

type c01ZooEntry struct {
	kind string // kind of the type, for tags
	decl string // the type in words / Go source, for replays
	mk   func(d *objData, i int) interface{}
}

// texts returned by the methods of int- and chan-kind types: method k of the
// value i returns text class (i + 3k), so the three methods of one value
// always differ and each of them meets every class (the empty text included)
func c01ZooTxt(k, i int) string {
	n := len(c01Texts)
	return c01Texts[(((i+3*k)%n)+n)%n]
}

// ... and of string-kind types: String() is the string itself, the others tag it
func c01ZooStr(k int, s string) string {
	switch k {
	case 0:
		return s
	case 1:
		if s == "" {
			return ""
		}
		return "G:" + s
	}
	return "E:" + s
}

// ---------------------------------------------------------------- embedding, generics

type c01EmbP struct{ *c01PS5 } // embedded pointer: String and Error promoted to the value
type c01EmbV struct{ c01PS3 }  // embedded value with pointer-receiver methods: promoted to the pointer only
type c01EmbAmb struct {        // String() twice at one depth: not promoted; Error() is
	*c01PS1
	*c01PS5
}
type c01EmbIface struct{ fmt.Stringer } // embedded interface
type c01EmbErr struct{ error }          // the usual error wrapper
type c01EmbDeep struct{ c01EmbP }       // promotion through two levels
type c01EmbShadow struct{ *c01PS7 }     // own String() shadows the promoted one; GoString, Error promoted
type c01EmbVal struct{ c01VS6 }         // embedded value type with value-receiver methods
type c01EmbSized struct{ *O31 }         // everything promoted, Height and TerminalCellWidth too
type c01EmbPtrOnlySize struct{ O24 }    // Height / TerminalCellWidth on the pointer receiver of an embedded value

func (z c01EmbShadow) String() string { return "shadow:" + z.c01PS7.d.s }

type c01Gen[T any] struct {
	v T
	d *objData
}

func (z c01Gen[T]) String() string { return z.d.s }

type c01GenP[T any] struct {
	v T
	d *objData
}

func (z *c01GenP[T]) GoString() string { return z.d.g }

type c01Int32 int32 // not rune: the type switch's rune arm is for int32 itself

var c01ZooHand = []c01ZooEntry{
	{"embed", "struct{ *T } /* T has String+Error on the pointer receiver: promoted to the value */", func(d *objData, i int) interface{} { return c01EmbP{&c01PS5{d}} }},
	{"embed", "struct{ T } /* T has String+GoString on the pointer receiver: NOT in the value's method set */", func(d *objData, i int) interface{} { return c01EmbV{c01PS3{d}} }},
	{"embed", "struct{ *A; *B } /* both have String (ambiguous, not promoted), only B has Error */", func(d *objData, i int) interface{} { return c01EmbAmb{&c01PS1{d}, &c01PS5{d}} }},
	{"embed", "struct{ fmt.Stringer } holding a Stringer", func(d *objData, i int) interface{} { return c01EmbIface{&c01PS1{d}} }},
	{"embed", "struct{ error } holding an error", func(d *objData, i int) interface{} { return c01EmbErr{&c01PS4{d}} }},
	{"embed", "struct{ struct{ *T } } /* String+Error promoted through two levels */", func(d *objData, i int) interface{} { return c01EmbDeep{c01EmbP{&c01PS5{d}}} }},
	{"embed", "struct{ *T } with its own String() shadowing T's; GoString and Error promoted", func(d *objData, i int) interface{} { return c01EmbShadow{&c01PS7{d}} }},
	{"embed", "struct{ V } /* V has GoString+Error on the value receiver */", func(d *objData, i int) interface{} { return c01EmbVal{c01VS6{d}} }},
	{"embed", "struct{ *T } /* T has all five methods */", func(d *objData, i int) interface{} { return c01EmbSized{&O31{*d}} }},
	{"embed", "struct{ T } /* T has Height and TerminalCellWidth on the pointer receiver */", func(d *objData, i int) interface{} { return c01EmbPtrOnlySize{O24{*d}} }},
	{"embed", "unnamed struct{ *T } /* T has String+GoString */", func(d *objData, i int) interface{} { return struct{ *c01PS3 }{&c01PS3{d}} }},
	{"embed", "unnamed struct{ T } /* pointer-receiver methods */", func(d *objData, i int) interface{} { return struct{ c01PS3 }{c01PS3{d}} }},
	{"generic", "G[int] /* type G[T any] struct with String on the value receiver */", func(d *objData, i int) interface{} { return c01Gen[int]{i, d} }},
	{"generic", "G[string]", func(d *objData, i int) interface{} { return c01Gen[string]{"v", d} }},
	{"generic", "G[int] /* GoString on the pointer receiver */", func(d *objData, i int) interface{} { return c01GenP[int]{i, d} }},
	{"generic", "G[[]byte] /* GoString on the pointer receiver */", func(d *objData, i int) interface{} { return c01GenP[[]byte]{nil, d} }},
	{"int32", "type T int32 (not rune)", func(d *objData, i int) interface{} { return c01Int32(120 + i) }},
	{"ptrptr", "**T /* T has String on the pointer receiver */", func(d *objData, i int) interface{} { p := &c01PS1{d}; return &p }},
	{"iface-slice", "[]fmt.Stringer", func(d *objData, i int) interface{} { return []fmt.Stringer{&c01PS1{d}, time.March} }},
	{"iface-slice", "[]error", func(d *objData, i int) interface{} { return []error{io.EOF, &c01PS4{d}} }},
	{"iface-slice", "[]interface{}", func(d *objData, i int) interface{} { return []interface{}{i, d.s, nil, &c01PS3{d}} }},
	{"iface-map", "map[string]interface{}", func(d *objData, i int) interface{} { return map[string]interface{}{"a": i, "b": d.s} }},
	{"unnamed", "struct{ A int; B string }", func(d *objData, i int) interface{} {
		return struct {
			A int
			B string
		}{i, d.s}
	}},
	{"unnamed", "[2]string", func(d *objData, i int) interface{} { return [2]string{d.s, d.g} }},
	{"unnamed", "[]byte", func(d *objData, i int) interface{} { return []byte(d.s) }},
	{"unnamed", "[]rune", func(d *objData, i int) interface{} { return []rune(d.s) }},
	{"unnamed", "*string", func(d *objData, i int) interface{} { s := d.s; return &s }},
	{"unnamed", "*[]int", func(d *objData, i int) interface{} { return &[]int{i, 2} }},
	{"unnamed", "byte", func(d *objData, i int) interface{} { return byte('a' + i%26) }},
}

// ---------------------------------------------------------------- standard library values

func c01URL() *url.URL {
	u, err := url.Parse("https://user@example.org/path?q=1#frag")
	if err != nil {
		panic(err)
	}
	return u
}

var c01Epoch = time.Date(2020, time.March, 4, 5, 6, 7, 0, time.UTC)

var c01ZooStd = []c01ZooEntry{
	{"std", "*u /* url.URL by value: String is on *URL */", func(*objData, int) interface{} { return *c01URL() }},
	{"std", "u /* *url.URL */", func(*objData, int) interface{} { return c01URL() }},
	{"std", "*big.NewInt(1234) /* big.Int by value */", func(*objData, int) interface{} { return *big.NewInt(1234) }},
	{"std", "big.NewInt(1234)", func(*objData, int) interface{} { return big.NewInt(1234) }},
	{"std", "*big.NewFloat(1.5)", func(*objData, int) interface{} { return *big.NewFloat(1.5) }},
	{"std", "big.NewFloat(1.5)", func(*objData, int) interface{} { return big.NewFloat(1.5) }},
	{"std", "*big.NewRat(1, 3)", func(*objData, int) interface{} { return *big.NewRat(1, 3) }},
	{"std", "big.NewRat(1, 3)", func(*objData, int) interface{} { return big.NewRat(1, 3) }},
	{"std", "*bytes.NewBufferString(\"buffered\") /* bytes.Buffer by value */", func(*objData, int) interface{} { return *bytes.NewBufferString("buffered") }},
	{"std", "bytes.NewBufferString(\"buffered\")", func(*objData, int) interface{} { return bytes.NewBufferString("buffered") }},
	{"std", "strings.Builder by value", func(*objData, int) interface{} { var b strings.Builder; return b }},
	{"std", "*strings.Builder", func(*objData, int) interface{} { b := &strings.Builder{}; b.WriteString("built"); return b }},
	{"std", "time.Date(2020, 3, 4, 5, 6, 7, 0, time.UTC)", func(*objData, int) interface{} { return c01Epoch }},
	{"std", "*time.Time", func(*objData, int) interface{} { t := c01Epoch; return &t }},
	{"std", "90 * time.Second", func(*objData, int) interface{} { return 90 * time.Second }},
	{"std", "time.March", func(*objData, int) interface{} { return time.March }},
	{"std", "time.UTC /* *time.Location */", func(*objData, int) interface{} { return time.UTC }},
	{"std", "net.IPv4(10, 0, 0, 1)", func(*objData, int) interface{} { return net.IPv4(10, 0, 0, 1) }},
	{"std", "net.IPNet by value", func(*objData, int) interface{} {
		return net.IPNet{IP: net.IPv4(10, 0, 0, 0), Mask: net.CIDRMask(8, 32)}
	}},
	{"std", "*net.IPNet", func(*objData, int) interface{} {
		return &net.IPNet{IP: net.IPv4(10, 0, 0, 0), Mask: net.CIDRMask(8, 32)}
	}},
	{"std", "net.HardwareAddr", func(*objData, int) interface{} { return net.HardwareAddr{0, 1, 2, 3, 4, 5} }},
	{"std", "netip.MustParseAddr(\"10.1.2.3\")", func(*objData, int) interface{} { return netip.MustParseAddr("10.1.2.3") }},
	{"std", "errors.New(\"boom\")", func(*objData, int) interface{} { return errors.New("boom") }},
	{"std", "fmt.Errorf(\"wrapped: %w\", io.EOF)", func(*objData, int) interface{} { return fmt.Errorf("wrapped: %w", io.EOF) }},
	{"std", "io.EOF", func(*objData, int) interface{} { return io.EOF }},
	{"std", "errors.Join(io.EOF, io.ErrUnexpectedEOF)", func(*objData, int) interface{} { return errors.Join(io.EOF, io.ErrUnexpectedEOF) }},
	{"std", "os.PathError by value /* Error is on *PathError */", func(*objData, int) interface{} { return os.PathError{Op: "open", Path: "/x", Err: syscall.ENOENT} }},
	{"std", "*os.PathError", func(*objData, int) interface{} { return &os.PathError{Op: "open", Path: "/x", Err: syscall.ENOENT} }},
	{"std", "strconv.NumError by value", func(*objData, int) interface{} {
		return strconv.NumError{Func: "Atoi", Num: "x", Err: strconv.ErrSyntax}
	}},
	{"std", "*strconv.NumError", func(*objData, int) interface{} { _, err := strconv.Atoi("x"); return err }},
	{"std", "json.SyntaxError by value", func(*objData, int) interface{} { return json.SyntaxError{Offset: 3} }},
	{"std", "syscall.Errno(2)", func(*objData, int) interface{} { return syscall.Errno(2) }},
	{"std", "os.FileMode(0o755)", func(*objData, int) interface{} { return os.FileMode(0o755) }},
	{"std", "json.Number(\"12\")", func(*objData, int) interface{} { return json.Number("12") }},
	{"std", "json.RawMessage(`{\"a\":1}`)", func(*objData, int) interface{} { return json.RawMessage(`{"a":1}`) }},
	{"std", "reflect.ValueOf(3)", func(*objData, int) interface{} { return reflect.ValueOf(3) }},
	{"std", "reflect.TypeOf(3)", func(*objData, int) interface{} { return reflect.TypeOf(3) }},
	{"std", "reflect.Int /* reflect.Kind */", func(*objData, int) interface{} { return reflect.Int }},
	{"std", "*regexp.MustCompile(\"a+\") /* regexp.Regexp by value */", func(*objData, int) interface{} { return *regexp.MustCompile("a+") }},
	{"std", "regexp.MustCompile(\"a+\")", func(*objData, int) interface{} { return regexp.MustCompile("a+") }},
	{"std", "image.Pt(1, 2)", func(*objData, int) interface{} { return image.Pt(1, 2) }},
	{"std", "image.Rect(0, 0, 2, 3)", func(*objData, int) interface{} { return image.Rect(0, 0, 2, 3) }},
	{"std", "context.Background()", func(*objData, int) interface{} { return context.Background() }},
	{"std", "mail.Address by value", func(*objData, int) interface{} { return mail.Address{Name: "Ann", Address: "ann@example.org"} }},
	{"std", "*mail.Address", func(*objData, int) interface{} { return &mail.Address{Name: "Ann", Address: "ann@example.org"} }},
	{"std", "url.Values", func(*objData, int) interface{} { return url.Values{"k": {"v"}} }},
	{"std", "url.UserPassword(\"u\", \"p\") /* *url.Userinfo */", func(*objData, int) interface{} { return url.UserPassword("u", "p") }},
	{"std", "*url.UserPassword(\"u\", \"p\") /* url.Userinfo by value */", func(*objData, int) interface{} { return *url.UserPassword("u", "p") }},
}

var c01Zoo = func() []c01ZooEntry {
	var z []c01ZooEntry
	z = append(z, c01ZooGen...)
	z = append(z, c01ZooHand...)
	z = append(z, c01ZooStd...)
	return z
}()

// c01ZooRange: the indices of the three parts of the zoo
func c01ZooParts() (gen, hand, std [2]int) {
	a, b := len(c01ZooGen), len(c01ZooGen)+len(c01ZooHand)
	return [2]int{0, a}, [2]int{a, b}, [2]int{b, len(c01Zoo)}
}

// ptrTo: &v for a v of any type (a fresh variable of v's type holding v)
func ptrTo(v interface{}) interface{} {
	p := reflect.New(reflect.TypeOf(v))
	p.Elem().Set(reflect.ValueOf(v))
	return p.Interface()
}

func zooItem(idx int, ptr bool, s, g, e string, h, w, i int) ItemSpec {
	m := 0
	if ptr {
		m = 1
	}
	return ItemSpec{K: "zoo", I: int64(idx), Mask: m, S: []byte(s), G: []byte(g), E: []byte(e), H: h, W: w, R: int32(i)}
}

// c01MakeZoo: the item and what a mutation round does to it.  Whatever the
// item reaches through a reference (d) changes; an int or string held through
// a pointer is assigned to; a plain value cannot change at all.
func c01MakeZoo(base ItemSpec) (interface{}, func(C01Round)) {
	ent := c01Zoo[int(base.I)%len(c01Zoo)]
	d := &objData{s: string(base.S), g: string(base.G), e: string(base.E), h: base.H, w: base.W}
	v := ent.mk(d, int(base.R))
	if base.Mask&1 == 0 {
		return v, func(rd C01Round) {
			*d = objData{s: string(rd.S), g: string(rd.G), e: string(rd.E), h: rd.H, w: rd.W}
		}
	}
	p := ptrTo(v)
	return p, func(rd C01Round) {
		*d = objData{s: string(rd.S), g: string(rd.G), e: string(rd.E), h: rd.H, w: rd.W}
		el := reflect.ValueOf(p).Elem()
		switch el.Kind() {
		case reflect.Int, reflect.Int32:
			el.SetInt(int64(rd.H))
		case reflect.String:
			el.SetString(string(rd.S))
		}
	}
}

// ---------------------------------------------------------------- namesakes
//
// Nine distinct types called c01Same (reflect: "main.c01Same" each): eight
// declared inside functions, one per subset of {String, GoString, Error} (a
// function-local type gets methods by embedding), and the package-level one.
// c01SameI likewise over kind int: a local method-less `type c01SameI int`, local
// structs embedding an int with methods, and a package-level int with GoString.

type c01Same struct{ d *objData } // package level: String and Error

func (z c01Same) String() string { return z.d.s }
func (z c01Same) Error() string  { return z.d.e }

type c01SameI int // package level: GoString only

func (z c01SameI) GoString() string { return c01ZooTxt(1, int(z)) }

const c01SamePkg = 8 // Mask value naming the package-level type

func c01SameLocal(m int, d *objData) interface{} {
	switch m {
	case 0:
		type c01Same struct{ c01VS0 }
		return c01Same{c01VS0{d}}
	case 1:
		type c01Same struct{ c01VS1 }
		return c01Same{c01VS1{d}}
	case 2:
		type c01Same struct{ c01VS2 }
		return c01Same{c01VS2{d}}
	case 3:
		type c01Same struct{ c01VS3 }
		return c01Same{c01VS3{d}}
	case 4:
		type c01Same struct{ c01VS4 }
		return c01Same{c01VS4{d}}
	case 5:
		type c01Same struct{ c01VS5 }
		return c01Same{c01VS5{d}}
	case 6:
		type c01Same struct{ c01VS6 }
		return c01Same{c01VS6{d}}
	case 7:
		type c01Same struct{ c01VS7 }
		return c01Same{c01VS7{d}}
	}
	return c01Same{d}
}

func c01SameILocal(m int, i int) interface{} {
	switch m {
	case 0:
		type c01SameI int
		return c01SameI(i)
	case 1:
		type c01SameI struct{ c01VI1 }
		return c01SameI{c01VI1(i)}
	case 2:
		type c01SameI struct{ c01VI2 }
		return c01SameI{c01VI2(i)}
	case 3:
		type c01SameI struct{ c01VI3 }
		return c01SameI{c01VI3(i)}
	case 4:
		type c01SameI struct{ c01VI4 }
		return c01SameI{c01VI4(i)}
	case 5:
		type c01SameI struct{ c01VI5 }
		return c01SameI{c01VI5(i)}
	case 6:
		type c01SameI struct{ c01VI6 }
		return c01SameI{c01VI6(i)}
	case 7:
		type c01SameI struct{ c01VI7 }
		return c01SameI{c01VI7(i)}
	}
	return c01SameI(i)
}

// twinItem: family 0 = c01Same (struct kind, texts from s/g/e), 1 = c01SameI;
// m = method subset of the local type, or c01SamePkg
func twinItem(family, m int, ptr bool, s, g, e string, i int) ItemSpec {
	h := 0
	if ptr {
		h = 1
	}
	return ItemSpec{K: "twin", R: int32(family), Mask: m, I: int64(i), H: h, S: []byte(s), G: []byte(g), E: []byte(e)}
}

func c01MakeTwin(base ItemSpec) (interface{}, func(C01Round)) {
	d := &objData{s: string(base.S), g: string(base.G), e: string(base.E)}
	var v interface{}
	if base.R == 0 {
		v = c01SameLocal(base.Mask, d)
	} else {
		v = c01SameILocal(base.Mask, int(base.I))
	}
	if base.H&1 != 0 {
		v = ptrTo(v)
	}
	return v, func(rd C01Round) { *d = objData{s: string(rd.S), g: string(rd.G), e: string(rd.E)} }
}

func c01SameDecl(base ItemSpec) string {
	name, under := "c01Same", "struct"
	if base.R != 0 {
		name, under = "c01SameI", "int"
	}
	var ms []string
	for k, n := range []string{"String", "GoString", "Error"} {
		if base.Mask&(1<<uint(k)) != 0 {
			ms = append(ms, n)
		}
	}
	what := ""
	switch {
	case base.Mask == c01SamePkg && base.R == 0:
		what = "the package-level type " + name + " (struct, String+Error)"
	case base.Mask == c01SamePkg:
		what = "the package-level type " + name + " (int, GoString)"
	case len(ms) == 0:
		what = "a function-local type " + name + " (" + under + ") without methods"
	default:
		what = "a function-local type " + name + " (a struct embedding a type with " + strings.Join(ms, "+") + ", promoted)"
	}
	if base.H&1 != 0 {
		what = "pointer to " + what
	}
	return what
}

func c01MethodNames(v interface{}) string {
	var ms []string
	if _, ok := v.(interface{ String() string }); ok {
		ms = append(ms, "String")
	}
	if _, ok := v.(interface{ GoString() string }); ok {
		ms = append(ms, "GoString")
	}
	if _, ok := v.(interface{ Error() string }); ok {
		ms = append(ms, "Error")
	}
	if len(ms) == 0 {
		return "none"
	}
	return strings.Join(ms, "+")
}

func c01IsMoreKind(k string) bool { return k == "objval" || k == "zoo" || k == "twin" }

// c01ZooGroup: declared in the harness / standard library / unnamed and composite
func c01ZooGroup(idx int) string {
	switch k := c01Zoo[idx].kind; k {
	case "std":
		return "standard-library"
	case "unnamed", "iface-slice", "iface-map", "ptrptr":
		return "unnamed"
	}
	return "declared"
}

// c01TextHint: how Go itself says the item reads (type assertions in the
// documented precedence, else %v).  It only names the class of a failure.
func c01TextHint(v interface{}) (text string) {
	defer func() {
		if recover() != nil {
			text = ""
		}
	}()
	switch x := v.(type) {
	case nil:
		return ""
	case string:
		return x
	case rune:
		return string(x)
	case tabular.Cell:
		return x.String()
	}
	d := describe(v)
	switch {
	case d.S != nil:
		return *d.S
	case d.G != nil:
		return *d.G
	case d.E != nil:
		return *d.E
	}
	return d.V
}

// c01MakeMore: the kinds of this file
func c01MakeMore(base ItemSpec) (interface{}, func(C01Round), bool) {
	switch base.K {
	case "objval":
		// one of the 32 generated types, dereferenced: every method is on the
		// pointer receiver, so the value offers none of them
		p, d := newObj(base.Mask, objData{s: string(base.S), g: string(base.G), e: string(base.E), h: base.H, w: base.W})
		v := reflect.ValueOf(p).Elem().Interface()
		return v, func(rd C01Round) {
			// the variable the value was copied from changes; the item is a copy
			*d = objData{s: string(rd.S), g: string(rd.G), e: string(rd.E), h: rd.H, w: rd.W}
		}, true
	case "zoo":
		v, m := c01MakeZoo(base)
		return v, m, true
	case "twin":
		v, m := c01MakeTwin(base)
		return v, m, true
	}
	return nil, nil, false
}

// c01DeclOf: the item in words, for replays
func c01DeclOf(base ItemSpec) string {
	switch base.K {
	case "objval":
		return fmt.Sprintf("*p /* a struct VALUE; its type has %s on the POINTER receiver only */", c01MaskNames(base.Mask))
	case "zoo":
		ent := c01Zoo[int(base.I)%len(c01Zoo)]
		decl := strings.NewReplacer("/*", "(", "*/", ")").Replace(ent.decl)
		if base.Mask&1 != 0 {
			return "&v /* v: " + decl + " */"
		}
		return "v /* " + decl + " */"
	case "twin":
		return "v /* " + c01SameDecl(base) + " */"
	}
	return ""
}

func c01MaskNames(mask int) string {
	var ms []string
	for k, n := range []string{"String", "GoString", "Error", "Height", "TerminalCellWidth"} {
		if mask&(1<<uint(k)) != 0 {
			ms = append(ms, n)
		}
	}
	if len(ms) == 0 {
		return "no methods"
	}
	return strings.Join(ms, "+")
}

// ---------------------------------------------------------------- a process of its own

func c01HasTwin(sp C01Spec) bool {
	_, base := sp.Item.chain()
	if base.K == "twin" {
		return true
	}
	for _, a := range sp.Also {
		if _, ab := a.chain(); ab.K == "twin" {
			return true
		}
	}
	return false
}

// c01WantsChild: cases marked Fresh, and every case with namesake types (what a
// process remembers about "main.c01Same" must not leak from one case into the
// next: the verdict of a case is a function of its spec)
func c01WantsChild(sp C01Spec) bool {
	return (sp.Fresh || c01HasTwin(sp)) && os.Getenv("C01_CHILD") == ""
}

// c01InChild runs one case in a child process (this binary, -specs mode).
// ran = false: no child process could be started at all (the machine, not the
// library); the caller then runs the case in its own process.
func c01InChild(spec json.RawMessage) (coq string, desc interface{}, ran bool) {
	exe, err := os.Executable()
	if err != nil {
		return "", nil, false
	}
	dir, err := os.MkdirTemp("", "c01child")
	if err != nil {
		return "", nil, false
	}
	defer os.RemoveAll(dir)
	sf := filepath.Join(dir, "specs.json")
	if err := os.WriteFile(sf, mustJSON([]json.RawMessage{spec}), 0o644); err != nil {
		return "", nil, false
	}
	why := ""
	started := false
	for attempt := 0; attempt < 3; attempt++ {
		if attempt > 0 {
			time.Sleep(time.Duration(attempt) * 200 * time.Millisecond)
		}
		cmd := exec.Command(exe, "C01", "-specs", sf, "-out", dir, "-keep-coq")
		cmd.Env = append(os.Environ(), "C01_CHILD=1")
		out, err := cmd.CombinedOutput()
		if err != nil {
			if _, exited := err.(*exec.ExitError); !exited {
				continue // fork/exec failed
			}
			// the library took the process down
			started = true
			msg := string(out)
			if len(msg) > 800 {
				msg = msg[:800]
			}
			why = "the process running this case alone died: " + err.Error() + ": " + msg
			continue
		}
		started = true
		b, err := os.ReadFile(filepath.Join(dir, "cases.json"))
		if err != nil {
			why = "the process running this case alone left no result: " + err.Error()
			continue
		}
		var recs []struct {
			Observed json.RawMessage `json:"observed"`
			Coq      string          `json:"coq"`
		}
		if err := json.Unmarshal(b, &recs); err != nil || len(recs) != 1 {
			cb, _ := os.ReadFile(filepath.Join(dir, "crashes.json"))
			if len(cb) > 800 {
				cb = cb[:800]
			}
			why = "the process running this case alone gave no observation: " + string(cb)
			continue
		}
		return recs[0].Coq, recs[0].Observed, true
	}
	if !started {
		return "", nil, false
	}
	// main.go sets the case aside as a crash outside the observed steps
	panic(why)
}

// ---------------------------------------------------------------- generation

func c01RandZoo(r *RNG) ItemSpec {
	t := r.Intn(len(c01Texts))
	return zooItem(r.Intn(len(c01Zoo)), r.Pct(40), c01Texts[t], c01Texts[(t+3)%len(c01Texts)], c01Texts[(t+6)%len(c01Texts)], r.Intn(5)-1, r.Intn(7)-1, r.Intn(16))
}

func c01RandTwin(r *RNG) ItemSpec {
	t := r.Intn(len(c01Texts))
	return twinItem(r.Intn(2), r.Intn(9), r.Pct(25), c01Texts[t], c01Texts[(t+3)%len(c01Texts)], c01Texts[(t+6)%len(c01Texts)], r.Intn(16))
}

func c01RandObjVal(r *RNG) ItemSpec {
	it := c01Obj(r.Intn(32), r.Intn(len(c01Texts)), r.Intn(9))
	it.K = "objval"
	return it
}

// c01RandMore: a base item of one of this file's kinds
func c01RandMore(r *RNG) ItemSpec {
	switch r.Intn(6) {
	case 0:
		return c01RandObjVal(r)
	case 1:
		return c01RandTwin(r)
	default:
		return c01RandZoo(r)
	}
}

// c01GenMore: the enumerated part
func c01GenMore(r *RNG, tier string, add func(C01Spec)) {
	nT := len(c01Texts)
	chg := func(k int) C01Round {
		return C01Round{S: []byte(c01Texts[(k+1)%nT]), G: []byte("G2:" + c01Texts[(k+2)%nT]), E: []byte("E2"), H: k%5 - 1, W: k % 4, TopDown: k%2 == 0}
	}
	// the 32 generated types BY VALUE x text classes
	k := 0
	for mask := 0; mask < 32; mask++ {
		for t := 0; t < nT; t += 3 {
			it := c01Obj(mask, t+mask, k)
			it.K = "objval"
			add(C01Spec{Item: it, Rounds: []C01Round{chg(k)}, Via: k % c01ViaN})
			k++
		}
		it := c01Obj(mask, mask+1, k)
		it.K = "objval"
		add(C01Spec{Item: wrapItem([]string{[]string{"cell", "pcell"}[mask%2]}, it), Rounds: []C01Round{chg(k)}, Via: (k / 3) % c01ViaN})
	}
	// every zoo type by value and by pointer; the selected method's text walks
	// through the text classes
	for idx := range c01Zoo {
		for hold := 0; hold < 2; hold++ {
			t := (idx + 5*hold) % nT
			it := zooItem(idx, hold == 1, c01Texts[t], c01Texts[(t+3)%nT], c01Texts[(t+6)%nT], idx%4-1, idx%5-1, idx+hold)
			add(C01Spec{Item: it, Rounds: []C01Round{chg(idx + hold)}, Via: (idx + 3*hold) % c01ViaN})
			if idx%5 == hold {
				add(C01Spec{Item: wrapItem([]string{[]string{"cell", "pcell"}[hold]}, it), Rounds: []C01Round{chg(idx), chg(idx + 1)}})
			}
		}
	}
	// namesakes: every ordered pair of the nine types called c01Same, each pair in
	// a process of its own (the first is the first item that process ever sees)
	tw := func(f, m int, ptr bool, j int) ItemSpec {
		return twinItem(f, m, ptr, c01Texts[(1+j)%nT], "G:"+c01Texts[(2+j)%nT], "E:"+c01Texts[(3+j)%nT], 1+j)
	}
	for a := 0; a <= c01SamePkg; a++ {
		for b := 0; b <= c01SamePkg; b++ {
			if a == b {
				continue
			}
			sp := C01Spec{Item: tw(0, b, false, a+b), Also: []ItemSpec{tw(0, a, false, a)}, Fresh: true}
			if (a+b)%3 == 0 {
				sp.Rounds = []C01Round{chg(a + b)}
				sp.Via = (a + b) % c01ViaN
			}
			add(sp)
			if (a+2*b)%4 == 0 {
				// the same through pointers ("*main.c01Same"), and value after pointer
				add(C01Spec{Item: tw(0, b, true, b), Also: []ItemSpec{tw(0, a, true, a)}, Fresh: true})
				add(C01Spec{Item: tw(0, b, false, b), Also: []ItemSpec{tw(0, a, true, a)}, Fresh: true, Rounds: []C01Round{chg(a)}})
			}
			if (a+b)%2 == 1 {
				add(C01Spec{Item: tw(1, b, false, a+b), Also: []ItemSpec{tw(1, a, false, b)}, Fresh: true})
			}
		}
	}
	// three namesakes in a row
	for j := 0; j < 12; j++ {
		a, b, c := (j*5)%9, (j*7+1)%9, (j*2+3)%9
		add(C01Spec{Item: tw(0, c, false, j), Also: []ItemSpec{tw(0, a, false, j+1), tw(0, b, j%2 == 0, j+2)}, Fresh: true})
	}
	// look-alikes: in a process of its own, a type and then another of the same
	// kind, layout and number of methods that offers other methods - the eight
	// struct types with value receivers, the generated pointer types, named ints
	vs := func(m int, ptr bool, j int) ItemSpec {
		return zooItem(m, ptr, c01Texts[(1+j)%nT], "G:"+c01Texts[(2+j)%nT], "E:"+c01Texts[(3+j)%nT], 0, 0, j)
	}
	for a := 0; a < 8; a++ {
		for b := 0; b < 8; b++ {
			if a == b || (a+b)%2 == 0 {
				continue
			}
			add(C01Spec{Item: vs(b, false, b), Also: []ItemSpec{vs(a, false, a)}, Fresh: true})
			oa, ob := c01Obj(a, a, 0), c01Obj(b, b, 0)
			add(C01Spec{Item: ob, Also: []ItemSpec{oa}, Fresh: true, Rounds: []C01Round{chg(b)}})
		}
	}
	// a value and a pointer of one type, in both orders, alone in a process
	for j := 0; j < 16; j++ {
		idx := (j * 13) % len(c01ZooGen)
		add(C01Spec{Item: zooItem(idx, j%2 == 0, "abc", "G:abc", "E:abc", 0, 0, j), Also: []ItemSpec{zooItem(idx, j%2 == 1, "xyz", "G:xyz", "E:xyz", 0, 0, j+1)}, Fresh: true})
		ov := c01Obj(j%8, j, 0)
		ov.K = "objval"
		if j%2 == 0 {
			add(C01Spec{Item: ov, Also: []ItemSpec{c01Obj(j%8, j+1, 0)}, Fresh: true})
		} else {
			add(C01Spec{Item: c01Obj(j%8, j+1, 0), Also: []ItemSpec{ov}, Fresh: true})
		}
	}
	// the random part: items of this file's kinds, nested, through tables, after other items
	n := 150
	if tier == "thorough" {
		n = 6000
	}
	for k := 0; k < n; k++ {
		b := c01RandMore(r)
		var w []string
		for d := r.Intn(3); d > 0 && r.Pct(50); d-- {
			w = append(w, pick(r, []string{"cell", "pcell"}))
		}
		var rounds []C01Round
		for d := r.Intn(3); d > 0; d-- {
			rounds = append(rounds, c01RandRound(r))
		}
		via := 0
		if r.Pct(50) {
			via = 1 + r.Intn(c01ViaN-1)
		}
		var also []ItemSpec
		if r.Pct(40) {
			for d := 1 + r.Intn(3); d > 0; d-- {
				switch {
				case b.K == "twin" && r.Pct(70):
					t := c01RandTwin(r)
					t.R = b.R
					also = append(also, t)
				case r.Pct(60):
					also = append(also, c01RandMore(r))
				default:
					also = append(also, c01RandBase(r))
				}
			}
		}
		cb, idle := 0, 0
		if via != 0 && r.Pct(40) {
			idle = 1 << uint(r.Intn(9))
			if r.Pct(50) {
				cb = 1 << uint(r.Intn(5))
			}
		}
		add(withTwins(C01Spec{Item: wrapItem(w, b), Rounds: rounds, Via: via, Also: also, Cb: cb, Idle: idle, Fresh: r.Pct(15)}))
	}
}
