package main

// splitmix64: every random choice of a run derives from one state seeded by
// VERIF_SEED, so a disagreement replays exactly.
type RNG struct{ s uint64 }

// The seed is hashed (one splitmix64 step over a differently-keyed state):
// seeding with a multiple of the step constant would make seed k's stream a
// mere shift of seed 1's, and generators with a variable number of draws per
// case re-synchronise after a few cases.
func NewRNG(seed uint64) *RNG {
	r := &RNG{s: seed ^ 0xD1B54A32D192ED03}
	r.s = r.U64() ^ (seed * 0xA24BAED4963EE407)
	return r
}

func (r *RNG) U64() uint64 {
	r.s += 0x9E3779B97F4A7C15
	z := r.s
	z = (z ^ (z >> 30)) * 0xBF58476D1CE4E5B9
	z = (z ^ (z >> 27)) * 0x94D049BB133111EB
	return z ^ (z >> 31)
}

func (r *RNG) Intn(n int) int {
	if n <= 0 {
		return 0
	}
	return int(r.U64() % uint64(n))
}

func (r *RNG) Bool() bool { return r.U64()&1 == 1 }

// Chance p/100
func (r *RNG) Pct(p int) bool { return r.Intn(100) < p }

func pick[T any](r *RNG, xs []T) T { return xs[r.Intn(len(xs))] }
