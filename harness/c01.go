package main

// C01 - a cell's text is the documented text form of the item stored in it.
//
// A case is an item (possibly nested in cells by value or by pointer) and a
// number of mutation rounds.  Every nesting level is a real tabular.Cell; it
// is observed after NewCell and, per round, after the base item was mutated
// (before Update) and after Update.  Objects are described to the Coq side by
// what Go's own type assertions, fmt and encoding/json say about the value.

import (
	"encoding/json"
	"fmt"
	"math"
	"reflect"
	"strings"

	"github.com/mattn/go-runewidth"
	"go.pennock.tech/tabular"
	"go.pennock.tech/tabular/csv"
	"go.pennock.tech/tabular/html"
	tjson "go.pennock.tech/tabular/json"
	"go.pennock.tech/tabular/markdown"
	"go.pennock.tech/tabular/texttable"
)

type C01Round struct {
	S       []byte `json:"s,omitempty"`
	G       []byte `json:"g,omitempty"`
	E       []byte `json:"e,omitempty"`
	H       int    `json:"h,omitempty"`
	W       int    `json:"w,omitempty"`
	TopDown bool   `json:"top_down,omitempty"` // Update the outermost cell first
}

type C01Spec struct {
	Item   ItemSpec   `json:"item"`
	Rounds []C01Round `json:"rounds,omitempty"`
	// how the outermost cell comes to be: 0 NewCell(item); the others store the
	// item THROUGH a table and take the cell the table hands out:
	// 1 AddRowItems("f", item) + CellAt(1,2); 2 AddHeaders(item) + &Headers()[0];
	// 3 NewRow().Add(NewCell(item)), AddRow + CellAt(1,1); 4 AppendNewRow().Add(NewCell(item)) + &row.Cells()[0];
	// 5 AddHeaders("h", item), AddRowItems(item, "x") + &AllRows()[0].Cells()[0]
	Via int `json:"via,omitempty"`
	// items put into cells of their own (NewCell, observed once) BEFORE the item
	// under test, in the same process: whatever the library remembers between
	// cells is exercised, and a replay of the one case reproduces it
	Also []ItemSpec `json:"also,omitempty"`
	// for a cell that lives in a table (via != 0):
	// Cb: callbacks registered (for all four times, every target the owner
	// takes) before the rounds: 1 on the cell itself, 2 on its row, 4 on its
	// column, 8 on column 0, 16 on the table;
	// Idle: what is done to the table after every mutation and BEFORE the cell
	// is observed - none of it may refresh the cell: 1 csv render, 2 html,
	// 4 json, 8 markdown, 16 texttable, 32 InvokeRenderCallbacks, 64 read
	// everything back (Headers, AllRows, Cells, CellAt, Column, counts),
	// 128 fmt %v / %+v / %#v of the table, 256 add a row, a separator and
	// (unless the cell is a header) new headers
	Cb   int `json:"cb,omitempty"`
	Idle int `json:"idle,omitempty"`
	// Fresh: the case runs in a process of its own, so the items of Also and
	// the item under test are the first items that process ever puts into cells
	// (c01_more.go)
	Fresh bool `json:"fresh,omitempty"`
}

const (
	c01CbAll   = 31
	c01IdleAll = 511
)

var c01IdleNames = []string{"csv", "html", "json", "markdown", "texttable", "InvokeRenderCallbacks", "read-back", "fmt", "add-rows"}
var c01CbNames = []string{"cell", "row", "column", "column0", "table"}

// where a table-held cell lives
type c01Home struct {
	t      tabular.Table
	row    *tabular.Row // nil for a header cell
	col    int
	header bool
	old    *objData // via 6, 7: the replaced header's item, when that is an object
}

type c01Marker struct{ n int }
type c01MarkKey struct{}

func (m *c01Marker) UpdateProperties(po tabular.PropertyOwner) error {
	m.n++
	return po.SetProperty(c01MarkKey{}, m.n)
}

// registerCallbacks: harmless callbacks on and above the cell, for every time
// and every target the owner accepts (refusals are not this property's business)
func (h *c01Home) registerCallbacks(cell *tabular.Cell, cb int) {
	var owners []tabular.PropertyOwner
	if cb&1 != 0 {
		owners = append(owners, cell)
	}
	if cb&2 != 0 && h.row != nil {
		owners = append(owners, h.row)
	}
	if cb&4 != 0 {
		if c := h.t.Column(h.col); c != nil {
			owners = append(owners, c)
		}
	}
	if cb&8 != 0 {
		if c := h.t.Column(0); c != nil {
			owners = append(owners, c)
		}
	}
	if cb&16 != 0 {
		owners = append(owners, h.t)
	}
	for _, o := range owners {
		registerAllTimes(h.t, o)
	}
}

func registerAllTimes(t tabular.Table, o tabular.PropertyOwner) {
	m := &c01Marker{}
	_ = t.RegisterPropertyCallback(o, tabular.CB_AT_ADD, tabular.CB_ON_ITSELF, m)
	_ = t.RegisterPropertyCallback(o, tabular.CB_AT_ADD, tabular.CB_ON_CELL, m)
	_ = t.RegisterPropertyCallback(o, tabular.CB_AT_ADD, tabular.CB_ON_ROW, m)
	_ = t.RegisterPropertyCallback(o, tabular.CB_AT_RENDER_PRECELL, tabular.CB_ON_ITSELF, m)
	_ = t.RegisterPropertyCallback(o, tabular.CB_AT_RENDER_PRECELL, tabular.CB_ON_CELL, m)
	_ = t.RegisterPropertyCallback(o, tabular.CB_AT_RENDER_PRECELL, tabular.CB_ON_ROW, m)
	_ = t.RegisterPropertyCallback(o, tabular.CB_AT_RENDER, tabular.CB_ON_ITSELF, m)
	_ = t.RegisterPropertyCallback(o, tabular.CB_AT_RENDER, tabular.CB_ON_CELL, m)
	_ = t.RegisterPropertyCallback(o, tabular.CB_AT_RENDER, tabular.CB_ON_ROW, m)
	_ = t.RegisterPropertyCallback(o, tabular.CB_AT_RENDER_POSTCELL, tabular.CB_ON_ITSELF, m)
	_ = t.RegisterPropertyCallback(o, tabular.CB_AT_RENDER_POSTCELL, tabular.CB_ON_CELL, m)
	_ = t.RegisterPropertyCallback(o, tabular.CB_AT_RENDER_POSTCELL, tabular.CB_ON_ROW, m)
}

// idle: operations on the table that are not a request to update any cell
func (h *c01Home) idle(ops int) {
	do := func(f func()) {
		defer func() { recover() }() // a renderer's own failure is other properties' business
		f()
	}
	t := h.t
	if ops&1 != 0 {
		do(func() { csv.Render(t) })
	}
	if ops&2 != 0 {
		do(func() { html.Wrap(t).Render() })
	}
	if ops&4 != 0 {
		do(func() { tjson.Render(t) })
	}
	if ops&8 != 0 {
		do(func() { markdown.Render(t) })
	}
	if ops&16 != 0 {
		do(func() { texttable.Render(t) })
	}
	if ops&32 != 0 {
		do(func() { t.InvokeRenderCallbacks() })
	}
	if ops&64 != 0 {
		do(func() {
			for i := range t.Headers() {
				c := &t.Headers()[i]
				_, _, _ = c.String(), c.Lines(), c.Item()
			}
			for ri, r := range t.AllRows() {
				for ci, c := range r.Cells() {
					_, _, _, _ = c.String(), c.Lines(), c.Height(), c.TerminalCellWidth()
					p, _ := t.CellAt(tabular.CellLocation{Row: ri + 1, Column: ci + 1})
					if p != nil {
						_, _ = p.String(), p.Empty()
					}
				}
			}
			for i := 0; i <= t.NColumns(); i++ {
				_ = t.Column(i)
			}
			_, _ = t.NRows(), t.Errors()
		})
	}
	if ops&128 != 0 {
		do(func() { _ = fmt.Sprintf("%v %+v %#v", t, t, t) })
	}
	if ops&256 != 0 {
		do(func() {
			t.AddRowItems("later", 1)
			t.AddSeparator()
			t.AppendNewRow().Add(tabular.NewCell("appended"))
			if !h.header {
				t.AddHeaders("H1", "H2", "H3")
			}
		})
	}
}

// ---------------------------------------------------------------- item kinds of this file
//
// "num": scalars that compare equal (==) to another value of the same type and
// yet format differently (signed zeros), or are not equal to themselves (NaN).
var c01Nums = []interface{}{
	float64(0), math.Copysign(0, -1), math.NaN(),
	float32(0), float32(math.Copysign(0, -1)), float32(math.NaN()),
	complex(0, 0), complex(math.Copysign(0, -1), 0), complex(0, math.Copysign(0, -1)), complex(math.Copysign(0, -1), math.Copysign(0, -1)),
	complex64(complex(0, 0)), complex64(complex(math.Copysign(0, -1), 0)), complex64(complex(0, math.Copysign(0, -1))), complex64(complex(math.Copysign(0, -1), math.Copysign(0, -1))),
	int(0), uint8(0), int64(0), uint(0), float64(1), float32(1), float64(-1), int8(-1), uint16(1), false, true, uintptr(0),
	complex(math.NaN(), 0), math.Inf(1), math.Inf(-1),
}

var c01NumGo = []string{
	"float64(0)", "math.Copysign(0, -1)", "math.NaN()",
	"float32(0)", "float32(math.Copysign(0, -1))", "float32(math.NaN())",
	"complex(0, 0)", "complex(math.Copysign(0, -1), 0)", "complex(0, math.Copysign(0, -1))", "complex(math.Copysign(0, -1), math.Copysign(0, -1))",
	"complex64(complex(0, 0))", "complex64(complex(math.Copysign(0, -1), 0))", "complex64(complex(0, math.Copysign(0, -1)))", "complex64(complex(math.Copysign(0, -1), math.Copysign(0, -1)))",
	"int(0)", "uint8(0)", "int64(0)", "uint(0)", "float64(1)", "float32(1)", "float64(-1)", "int8(-1)", "uint16(1)", "false", "true", "uintptr(0)",
	"complex(math.NaN(), 0)", "math.Inf(1)", "math.Inf(-1)",
}

// boundary values of every predeclared integer type (int32 is rune: the rune
// arm, covered by the rune items), and named integer types
type c01U64 uint64
type c01Uint uint
type c01Int int
type c01I8 int8
type c01Uptr uintptr
type c01U64S uint64

func (u c01U64S) String() string { return fmt.Sprintf("u64s<%d>", uint64(u)) }

func init() {
	add := func(v interface{}, g string) {
		c01Nums = append(c01Nums, v)
		c01NumGo = append(c01NumGo, g)
	}
	add(int8(math.MinInt8), "int8(math.MinInt8)")
	add(int8(math.MaxInt8), "int8(math.MaxInt8)")
	add(int16(math.MinInt16), "int16(math.MinInt16)")
	add(int16(math.MaxInt16), "int16(math.MaxInt16)")
	add(int64(math.MinInt64), "int64(math.MinInt64)")
	add(int64(math.MaxInt64), "int64(math.MaxInt64)")
	add(int(math.MinInt64), "int(math.MinInt64)")
	add(int(math.MaxInt64), "int(math.MaxInt64)")
	add(int(-1), "int(-1)")
	add(uint8(math.MaxUint8), "uint8(math.MaxUint8)")
	add(uint16(math.MaxUint16), "uint16(math.MaxUint16)")
	add(uint32(math.MaxUint32), "uint32(math.MaxUint32)")
	add(uint32(1<<31), "uint32(1<<31)")
	add(uint64(1<<63), "uint64(1<<63)")
	add(uint64(1<<63-1), "uint64(1<<63-1)")
	add(uint64(math.MaxUint64), "uint64(math.MaxUint64)")
	add(uint64(0), "uint64(0)")
	add(uint(1<<63), "uint(1<<63)")
	add(uint(1<<63-1), "uint(1<<63-1)")
	add(uint(math.MaxUint64), "uint(math.MaxUint64)")
	add(uintptr(1<<63), "uintptr(1<<63)")
	add(uintptr(math.MaxUint64), "uintptr(math.MaxUint64)")
	add(uintptr(1<<63-1), "uintptr(1<<63-1)")
	add(c01U64(math.MaxUint64), "c01U64(math.MaxUint64) /* type c01U64 uint64 */")
	add(c01U64(1<<63), "c01U64(1<<63)")
	add(c01Uint(1<<63), "c01Uint(1<<63) /* type c01Uint uint */")
	add(c01Int(math.MinInt64), "c01Int(math.MinInt64) /* type c01Int int */")
	add(c01I8(-128), "c01I8(-128) /* type c01I8 int8 */")
	add(c01Uptr(math.MaxUint64), "c01Uptr(math.MaxUint64) /* type c01Uptr uintptr */")
	add(c01U64S(math.MaxUint64), "c01U64S(math.MaxUint64) /* uint64 with a String method */")
	add(uint64(12345678901234567890), "uint64(12345678901234567890)")
	add(int64(-1), "int64(-1)")
}

// typed nil pointers (and other nil values that are not the untyped nil): the
// methods of these types are safe to call on a nil receiver
type c01NilStr struct{ s string }

func (n *c01NilStr) String() string {
	if n == nil {
		return "nil-node"
	}
	return n.s
}

type c01NilEmpty struct{ s string }

func (n *c01NilEmpty) String() string {
	if n == nil {
		return ""
	}
	return n.s
}

type c01NilGo struct{ s string }

func (n *c01NilGo) GoString() string {
	if n == nil {
		return "(*c01NilGo)(nil)"
	}
	return n.s
}

type c01NilErr struct{ s string }

func (n *c01NilErr) Error() string {
	if n == nil {
		return "nil error value"
	}
	return n.s
}

type c01NilAll struct{ s string }

func (n *c01NilAll) String() string   { return "S-of-nil" }
func (n *c01NilAll) GoString() string { return "G-of-nil" }
func (n *c01NilAll) Error() string    { return "E-of-nil" }
func (n *c01NilAll) Height() int      { return 2 }
func (n *c01NilAll) TerminalCellWidth() int {
	return 11
}

type c01Plain struct{ A int }

var c01Nils = []interface{}{
	(*c01NilStr)(nil), (*c01NilEmpty)(nil), (*c01NilGo)(nil), (*c01NilErr)(nil), (*c01NilAll)(nil),
	(*c01Plain)(nil), (*int)(nil), map[string]int(nil), []int(nil), (func())(nil), (chan int)(nil), (*string)(nil), []string(nil), (**int)(nil),
}
var c01NilGoSrc = []string{
	"(*T)(nil) /* func (n *T) String() string is nil-safe and returns \"nil-node\" */", "(*T)(nil) /* nil-safe String() returning \"\" */",
	"(*T)(nil) /* nil-safe GoString() */", "(*T)(nil) /* nil-safe Error() */", "(*T)(nil) /* nil-safe String, GoString, Error, Height, TerminalCellWidth */",
	"(*struct{ A int })(nil)", "(*int)(nil)", "map[string]int(nil)", "[]int(nil)", "(func())(nil)", "(chan int)(nil)", "(*string)(nil)", "[]string(nil)", "(**int)(nil)",
}

func c01Num(i int64) ItemSpec { return ItemSpec{K: "num", I: i} }

// the value that is == to c01Nums[i] (or plays that role) and formats differently
var c01Twin = map[int64]int64{0: 1, 1: 0, 2: 2, 3: 4, 4: 3, 5: 5, 6: 9, 7: 6, 8: 6, 9: 6, 10: 13, 11: 10, 12: 10, 13: 10, 26: 26}

// withTwins puts, before every such scalar of the case, its twin: whatever the
// library remembered from earlier cases of the process, the case then fails
// or passes on its own, so a replay of the one case reproduces
func withTwins(sp C01Spec) C01Spec {
	_, base := sp.Item.chain()
	var also []ItemSpec
	for _, a := range append(append([]ItemSpec{}, sp.Also...), base) {
		if a.K == "num" {
			if t, ok := c01Twin[a.I%int64(len(c01Nums))]; ok {
				also = append(also, c01Num(t))
			}
		}
	}
	sp.Also = append(also, sp.Also...)
	return sp
}

func hasNum(sp C01Spec) bool {
	_, base := sp.Item.chain()
	if base.K == "num" {
		return true
	}
	for _, a := range sp.Also {
		if a.K == "num" {
			return true
		}
	}
	return false
}

// items stored BY VALUE (struct and array kinds) whose text depends on state
// reached through a reference inside them
type c01StructSlice struct {
	A []int
	N string
}
type c01StructMap struct{ M map[string]int }
type c01ValStrPtr struct{ p *string }

func (v c01ValStrPtr) String() string { return *v.p }

type c01ValErrMap struct{ m map[string]string }

func (v c01ValErrMap) Error() string { return v.m["k"] }

type c01ValGoStrSlice struct{ b []string }

func (v c01ValGoStrSlice) GoString() string { return strings.Join(v.b, "|") }

type c01ArrPtr [2]*O01

var c01ByValueKinds = []string{"structslice", "structmap", "valstrptr", "valerrmap", "valgostrslice", "arrptr"}

// c01Make builds the base item and says how a mutation round changes it
func c01Make(base ItemSpec) (interface{}, func(C01Round)) {
	if v, m, ok := c01MakeMore(base); ok {
		return v, m
	}
	switch base.K {
	case "num":
		return c01Nums[int(base.I)%len(c01Nums)], func(C01Round) {}
	case "structslice":
		a := []int{int(base.I), 2}
		return c01StructSlice{A: a, N: string(base.B)}, func(rd C01Round) { a[0] = rd.H }
	case "structmap":
		m := map[string]int{"k": int(base.I)}
		return c01StructMap{M: m}, func(rd C01Round) { m["k"] = rd.H }
	case "valstrptr":
		p := new(string)
		*p = string(base.B)
		return c01ValStrPtr{p}, func(rd C01Round) { *p = string(rd.S) }
	case "valerrmap":
		m := map[string]string{"k": string(base.B)}
		return c01ValErrMap{m}, func(rd C01Round) { m["k"] = string(rd.E) }
	case "valgostrslice":
		b := []string{string(base.B), "z"}
		return c01ValGoStrSlice{b}, func(rd C01Round) { b[0] = string(rd.G) }
	case "arrptr":
		a := c01ArrPtr{&O01{objData{s: string(base.B)}}, &O01{objData{s: "second"}}}
		return a, func(rd C01Round) { a[0].s = string(rd.S) }
	case "typednil":
		return c01Nils[int(base.I)%len(c01Nils)], func(C01Round) {}
	}
	v, d := base.Make()
	switch base.K {
	case "obj":
		return v, func(rd C01Round) {
			if d != nil {
				*d = objData{s: string(rd.S), g: string(rd.G), e: string(rd.E), h: rd.H, w: rd.W}
			}
		}
	case "slice":
		return v, func(rd C01Round) { v.([]int)[0] = rd.H }
	case "map":
		return v, func(rd C01Round) { v.(map[string]int)[string(base.B)] = rd.H }
	}
	return v, func(C01Round) {}
}

const c01ViaN = 8

var c01ViaGo = []string{
	"c := tabular.NewCell(ITEM)",
	"t := tabular.New(); t.AddRowItems(\"f\", ITEM); c, _ := t.CellAt(tabular.CellLocation{Row: 1, Column: 2})",
	"t := tabular.New(); t.AddHeaders(ITEM); c := &t.Headers()[0]",
	"t := tabular.New(); t.AddRow(tabular.NewRow().Add(tabular.NewCell(ITEM))); c, _ := t.CellAt(tabular.CellLocation{Row: 1, Column: 1})",
	"t := tabular.New(); r := t.AppendNewRow(); r.Add(tabular.NewCell(ITEM)); c := &r.Cells()[0]",
	"t := tabular.New(); t.AddHeaders(\"h\", ITEM); t.AddRowItems(ITEM, \"x\"); c := &t.AllRows()[0].Cells()[0]",
	"t := tabular.New(); t.AddHeaders(\"k\", OLD /* another item with the same text: the text as a string; nil for \"\"; a pointer with String() for a string item */); t.AddRowItems(\"a\", \"b\"); t.AddHeaders(\"k\", ITEM); c := &t.Headers()[1]",
	"t := tabular.New(); t.AddHeaders(OLD /* a distinct pointer whose String() gives the same text */); t.AddHeaders(ITEM); c := &t.Headers()[0]",
}

// cellVia stores item as the spec says and returns the cell to observe
func cellVia(via int, item interface{}) (*tabular.Cell, *c01Home) {
	if via == 0 {
		c := tabular.NewCell(item)
		return &c, nil
	}
	t := tabular.New()
	must := func(c *tabular.Cell, err error) *tabular.Cell {
		if err != nil {
			panic("CellAt: " + err.Error())
		}
		return c
	}
	switch via {
	case 1:
		t.AddRowItems("f", item)
		return must(t.CellAt(tabular.CellLocation{Row: 1, Column: 2})), &c01Home{t: t, row: t.AllRows()[0], col: 2}
	case 2:
		t.AddHeaders(item)
		return &t.Headers()[0], &c01Home{t: t, col: 1, header: true}
	case 3:
		t.AddRow(tabular.NewRow().Add(tabular.NewCell(item)))
		return must(t.CellAt(tabular.CellLocation{Row: 1, Column: 1})), &c01Home{t: t, row: t.AllRows()[0], col: 1}
	case 4:
		r := t.AppendNewRow()
		r.Add(tabular.NewCell(item))
		return &r.Cells()[0], &c01Home{t: t, row: r, col: 1}
	case 5:
		t.AddHeaders("h", item)
		t.AddRowItems(item, "x")
		return &t.AllRows()[0].Cells()[0], &c01Home{t: t, row: t.AllRows()[0], col: 1}
	case 6, 7:
		// AddHeaders a second time: at the cell's position the old header held a
		// DIFFERENT item with the SAME text
		probe := tabular.NewCell(item)
		text := probe.String()
		var old interface{}
		var od *objData
		_, isString := item.(string)
		switch {
		case via == 7 || (isString && text != ""):
			old, od = newObj(1, objData{s: text})
		case item == nil:
			old = ""
		case text == "":
			old = nil
		default:
			old = text
		}
		if via == 6 {
			t.AddHeaders("k", old)
			t.AddRowItems("a", "b")
			t.AddHeaders("k", item)
			return &t.Headers()[1], &c01Home{t: t, col: 2, header: true, old: od}
		}
		t.AddHeaders(old)
		t.AddHeaders(item)
		return &t.Headers()[0], &c01Home{t: t, col: 1, header: true, old: od}
	}
	panic(fmt.Sprintf("harness: unknown via %d", via))
}

// ---------------------------------------------------------------- descriptors

type objDesc struct {
	S, G, E *string
	H, W    *int
	V       string
	J       *string
}

// describe asks Go (not tabular) what the value offers
func describe(v interface{}) objDesc {
	var d objDesc
	if x, ok := v.(interface{ String() string }); ok {
		s := x.String()
		d.S = &s
	}
	if x, ok := v.(interface{ GoString() string }); ok {
		s := x.GoString()
		d.G = &s
	}
	if x, ok := v.(interface{ Error() string }); ok {
		s := x.Error()
		d.E = &s
	}
	if x, ok := v.(interface{ Height() int }); ok {
		n := x.Height()
		d.H = &n
	}
	if x, ok := v.(interface{ TerminalCellWidth() int }); ok {
		n := x.TerminalCellWidth()
		d.W = &n
	}
	d.V = fmt.Sprintf("%v", v)
	if b, err := json.Marshal(v); err == nil {
		s := string(b)
		d.J = &s
	}
	return d
}

func cqOptInt(p *int) string {
	if p == nil {
		return "None"
	}
	return cqSome(cqZ(int64(*p)))
}

func (d objDesc) Coq() string {
	return fmt.Sprintf("(mkObj %s %s %s %s %s %s %s)", cqOptStr(d.S), cqOptStr(d.G), cqOptStr(d.E), cqOptInt(d.H), cqOptInt(d.W), cqStr(d.V), cqOptStr(d.J))
}

func (d objDesc) texts() []string {
	out := []string{d.V}
	for _, p := range []*string{d.S, d.G, d.E} {
		if p != nil {
			out = append(out, *p)
		}
	}
	return out
}

type descJSON struct {
	String, GoString, Error *string `json:",omitempty"`
	Height, Width           *int    `json:",omitempty"`
	FmtV                    string
}

func (d objDesc) human() descJSON {
	q := func(p *string) *string {
		if p == nil {
			return nil
		}
		s := fmt.Sprintf("%q", *p)
		return &s
	}
	return descJSON{q(d.S), q(d.G), q(d.E), d.H, d.W, fmt.Sprintf("%q", d.V)}
}

// ---------------------------------------------------------------- observation

type C01Obs struct {
	Panic string `json:"panic,omitempty"`
	Text  string `json:"-"`
	TextQ string `json:"text"`
	Empty bool   `json:"empty"`
	Same  bool   `json:"item_same"`
	H     int    `json:"height"`
	W     int    `json:"width"`
}

func (o C01Obs) Coq() string {
	if o.Panic != "" {
		return "Panic"
	}
	return fmt.Sprintf("(Ok (mkObs01 %s %s %s %s %s))", cqStr(o.Text), cqBool(o.Empty), cqBool(o.Same), cqZ(int64(o.H)), cqZ(int64(o.W)))
}

func sameItem(orig, got interface{}) (same bool) {
	defer func() {
		if recover() != nil {
			same = false
		}
	}()
	if orig == nil || got == nil {
		return orig == nil && got == nil
	}
	to, tg := reflect.TypeOf(orig), reflect.TypeOf(got)
	if to != tg {
		return false
	}
	if oc, ok := orig.(tabular.Cell); ok {
		// a Cell value: the same stored item (recursively) and the same cached text
		gc := got.(tabular.Cell)
		return sameItem(oc.Item(), gc.Item()) && oc.String() == gc.String() && oc.Empty() == gc.Empty() &&
			oc.Height() == gc.Height() && oc.TerminalCellWidth() == gc.TerminalCellWidth()
	}
	switch to.Kind() {
	case reflect.Float32, reflect.Float64:
		return math.Float64bits(reflect.ValueOf(orig).Float()) == math.Float64bits(reflect.ValueOf(got).Float())
	case reflect.Complex64, reflect.Complex128:
		a, b := reflect.ValueOf(orig).Complex(), reflect.ValueOf(got).Complex()
		return math.Float64bits(real(a)) == math.Float64bits(real(b)) && math.Float64bits(imag(a)) == math.Float64bits(imag(b))
	}
	if to.Comparable() {
		return orig == got
	}
	switch to.Kind() {
	case reflect.Slice, reflect.Map, reflect.Chan, reflect.Func:
		vo, vg := reflect.ValueOf(orig), reflect.ValueOf(got)
		if to.Kind() != reflect.Func && vo.Len() != vg.Len() {
			return false
		}
		return vo.Pointer() == vg.Pointer()
	}
	return reflect.DeepEqual(orig, got)
}

func observeCell(c *tabular.Cell, stored interface{}) (o C01Obs) {
	defer func() {
		if r := recover(); r != nil {
			o = C01Obs{Panic: fmt.Sprint(r)}
		}
	}()
	o.Text = c.String()
	o.TextQ = fmt.Sprintf("%q", o.Text)
	o.Empty = c.Empty()
	o.Same = sameItem(stored, c.Item())
	o.H = c.Height()
	o.W = c.TerminalCellWidth()
	return o
}

// ---------------------------------------------------------------- levels

type c01Level struct {
	cell    *tabular.Cell
	stored  interface{} // what was handed to NewCell
	itemCoq string
	objID   int                // 0 = the item is not an object
	objVal  func() interface{} // the object to describe (current state)
	env0    string
	newObs  C01Obs
	rounds  []string // Coq triples
	descs   []interface{}
	panicky bool
	home    *c01Home
}

type c01RoundDesc struct {
	Env    *descJSON `json:"object,omitempty"`
	Before C01Obs    `json:"before_update"`
	After  C01Obs    `json:"after_update"`
}

type c01LevelDesc struct {
	Level  int            `json:"level"`
	Item   string         `json:"item"`
	Object *descJSON      `json:"object,omitempty"`
	New    C01Obs         `json:"new"`
	Rounds []c01RoundDesc `json:"rounds,omitempty"`
}

type C01Desc struct {
	Sig     string         `json:"sig"`
	Levels  []c01LevelDesc `json:"levels"`
	GoCode  string         `json:"go,omitempty"`
	Between string         `json:"between_mutate_and_observe,omitempty"`
}

func envCoq(id int, v interface{}, texts *[]string) (string, *descJSON) {
	if id == 0 {
		return "[]", nil
	}
	d := describe(v)
	*texts = append(*texts, d.texts()...)
	h := d.human()
	return cqList([]string{cqPair(cqN(uint64(id)), d.Coq())}), &h
}

// chain returns the wrappers from the outermost inwards and the base item
func (it ItemSpec) chain() (wraps []string, base ItemSpec) {
	cur := it
	for (cur.K == "cell" || cur.K == "pcell") && cur.Inner != nil {
		wraps = append(wraps, cur.K)
		cur = *cur.Inner
	}
	return wraps, cur
}

func wrapItem(wraps []string, base ItemSpec) ItemSpec {
	cur := base
	for i := len(wraps) - 1; i >= 0; i-- {
		in := cur
		cur = ItemSpec{K: wraps[i], Inner: &in}
	}
	return cur
}

func c01Run(sp C01Spec) (coq string, desc C01Desc, texts []string, lv []*c01Level) {
	wraps, base := sp.Item.chain()
	// level 0
	var baseVal interface{}
	var mutate func(C01Round)
	func() {
		defer func() {
			if r := recover(); r != nil {
				panic(fmt.Sprintf("harness: cannot build the base item: %v", r))
			}
		}()
		baseVal, mutate = c01Make(base)
	}()
	// the items that go first
	var pre []*c01Level
	var preDesc []c01LevelDesc
	// the first item whose fresh cell does not read as Go itself says the item
	// reads: only used to name the class of a failure (Desc.sig), never to judge
	var firstOff *ItemSpec
	for _, a := range sp.Also {
		_, ab := a.chain()
		av, _ := c01Make(ab)
		pl := &c01Level{stored: av}
		id := 0
		switch ab.K {
		case "nil":
			pl.itemCoq = "INil"
		case "str":
			pl.itemCoq = "(IString " + cqStr(string(ab.B)) + ")"
			texts = append(texts, string(ab.B))
		case "rune":
			pl.itemCoq = "(IRune " + cqZ(int64(ab.R)) + ")"
			texts = append(texts, string(rune(ab.R)))
		default:
			pl.itemCoq = "(IObj 1%N)"
			id = 1
		}
		var dj *descJSON
		pl.env0, dj = envCoq(id, av, &texts)
		func() {
			defer func() {
				if r := recover(); r != nil {
					pl.newObs = C01Obs{Panic: fmt.Sprint(r)}
					pl.panicky = true
				}
			}()
			c := tabular.NewCell(av)
			pl.cell = &c
		}()
		if !pl.panicky {
			pl.newObs = observeCell(pl.cell, pl.stored)
			if firstOff == nil && pl.newObs.Panic == "" && pl.newObs.Text != c01TextHint(av) {
				off := ab
				firstOff = &off
			}
		}
		texts = append(texts, pl.newObs.Text)
		pre = append(pre, pl)
		preDesc = append(preDesc, c01LevelDesc{Level: -len(pre), Item: "before:" + ab.K, Object: dj, New: pl.newObs})
	}
	l0 := &c01Level{stored: baseVal}
	switch base.K {
	case "nil":
		l0.itemCoq = "INil"
	case "str":
		l0.itemCoq = "(IString " + cqStr(string(base.B)) + ")"
		texts = append(texts, string(base.B))
	case "rune":
		l0.itemCoq = "(IRune " + cqZ(int64(base.R)) + ")"
		texts = append(texts, string(rune(base.R)))
	default:
		l0.itemCoq = "(IObj 1%N)"
		l0.objID = 1
		l0.objVal = func() interface{} { return baseVal }
	}
	lv = append(lv, l0)
	build := func(l *c01Level, via int) {
		defer func() {
			if r := recover(); r != nil {
				l.newObs = C01Obs{Panic: fmt.Sprint(r)}
				l.panicky = true
				var c tabular.Cell
				l.cell = &c
			}
		}()
		l.cell, l.home = cellVia(via, l.stored)
	}
	viaFor := func(outermost bool) int {
		if outermost {
			return sp.Via
		}
		return 0
	}
	var d0 *descJSON
	l0.env0, d0 = envCoq(l0.objID, baseVal, &texts)
	build(l0, viaFor(len(wraps) == 0))
	descL := []c01LevelDesc{{Level: 0, Item: base.K, Object: d0}}
	// wrappers, innermost first
	for i := len(wraps) - 1; i >= 0; i-- {
		inner := lv[len(lv)-1]
		l := &c01Level{}
		k := len(lv)
		var dj *descJSON
		if wraps[i] == "cell" {
			cp := *inner.cell // the value that goes into the interface
			l.stored = cp
			l.itemCoq = fmt.Sprintf("(ICell (mkCell %s %s %s %s %s))", inner.itemCoq, cqStr(cp.String()),
				cqZ(int64(cp.TerminalCellWidth())), cqZ(int64(cp.Height())), cqBool(cp.Empty()))
			texts = append(texts, cp.String())
			l.env0 = "[]"
		} else {
			p := inner.cell
			l.stored = p
			l.objID = 100 + k
			l.itemCoq = fmt.Sprintf("(IObj %s)", cqN(uint64(l.objID)))
			l.objVal = func() interface{} { return p }
			l.env0, dj = envCoq(l.objID, p, &texts)
		}
		build(l, viaFor(i == 0))
		lv = append(lv, l)
		descL = append(descL, c01LevelDesc{Level: k, Item: wraps[i], Object: dj})
	}
	for k, l := range lv {
		if !l.panicky {
			l.newObs = observeCell(l.cell, l.stored)
			if firstOff == nil && l.newObs.Panic == "" && l.newObs.Text != c01TextHint(l.stored) {
				off := base
				firstOff = &off
			}
		}
		texts = append(texts, l.newObs.Text)
		descL[k].New = l.newObs
	}
	// callbacks on and above a table-held cell
	home := lv[len(lv)-1].home
	if home != nil && sp.Cb != 0 && !lv[len(lv)-1].panicky {
		home.registerCallbacks(lv[len(lv)-1].cell, sp.Cb)
	}
	// rounds
	for _, rd := range sp.Rounds {
		// mutate the base item
		mutate(rd)
		// the item this header replaced changes as well: none of the cell's business
		if home != nil && home.old != nil {
			home.old.s = "the replaced header's item, changed"
		}
		// things done to the table that are no request to update
		if home != nil && sp.Idle != 0 {
			home.idle(sp.Idle)
		}
		before := make([]C01Obs, len(lv))
		for k, l := range lv {
			before[k] = observeCell(l.cell, l.stored)
			texts = append(texts, before[k].Text)
		}
		order := make([]int, len(lv))
		for k := range order {
			if rd.TopDown {
				order[k] = len(lv) - 1 - k
			} else {
				order[k] = k
			}
		}
		for _, k := range order {
			l := lv[k]
			var v interface{}
			if l.objVal != nil {
				v = l.objVal()
			}
			envS, dj := envCoq(l.objID, v, &texts)
			after := func() (o C01Obs) {
				defer func() {
					if r := recover(); r != nil {
						o = C01Obs{Panic: fmt.Sprint(r)}
					}
				}()
				l.cell.Update()
				return observeCell(l.cell, l.stored)
			}()
			texts = append(texts, after.Text)
			l.rounds = append(l.rounds, fmt.Sprintf("(%s, %s, %s)", envS, before[k].Coq(), after.Coq()))
			descL[k].Rounds = append(descL[k].Rounds, c01RoundDesc{Env: dj, Before: before[k], After: after})
		}
	}
	var lcs []string
	for _, l := range pre {
		lcs = append(lcs, fmt.Sprintf("(mkLevel %s %s %s [])", l.itemCoq, l.env0, l.newObs.Coq()))
	}
	descL = append(preDesc, descL...)
	for _, l := range lv {
		lcs = append(lcs, fmt.Sprintf("(mkLevel %s %s %s %s)", l.itemCoq, l.env0, l.newObs.Coq(), cqList(l.rounds)))
	}
	// display widths of every line of every text that may be measured
	seen := map[string]bool{}
	var ws []string
	for _, t := range texts {
		for _, ln := range ownLines(t) {
			if !seen[ln] {
				seen[ln] = true
				ws = append(ws, cqPair(cqStr(ln), cqNat(runewidth.StringWidth(ln))))
			}
		}
	}
	sig := c01SigSpec(sp, base)
	if firstOff != nil && c01IsMoreKind(firstOff.K) {
		sig = c01Sig(*firstOff)
	}
	desc = C01Desc{Sig: sig, Levels: descL, GoCode: c01GoSnippet(wraps, base, sp.Via, sp.Also), Between: c01Between(sp)}
	return cqPair(cqList(ws), cqList(lcs)), desc, texts, lv
}

// c01GoSnippet: a Go expression that builds the outermost cell (only for item
// kinds that have a literal; objects are the generated types of
// harness/objtypes_gen.go and are described under "object")
func c01GoLiteral(base ItemSpec) string {
	switch base.K {
	case "nil":
		return "nil"
	case "str":
		return fmt.Sprintf("%q", string(base.B))
	case "rune":
		return fmt.Sprintf("rune(%d)", base.R)
	case "int":
		return fmt.Sprintf("%d", base.I)
	case "bool":
		return fmt.Sprintf("%v", base.I != 0)
	case "num":
		return c01NumGo[int(base.I)%len(c01NumGo)]
	case "typednil":
		return c01NilGoSrc[int(base.I)%len(c01NilGoSrc)]
	case "objval", "zoo", "twin":
		return c01DeclOf(base)
	}
	return ""
}

func c01GoSnippet(wraps []string, base ItemSpec, via int, also []ItemSpec) string {
	var e string
	switch base.K {
	case "num", "typednil", "objval", "zoo", "twin":
		e = c01GoLiteral(base)
	case "nil":
		e = "nil"
	case "str":
		e = fmt.Sprintf("%q", string(base.B))
	case "rune":
		e = fmt.Sprintf("rune(%d)", base.R)
		if base.R >= 0x20 && base.R < 0x7f && base.R != '\'' && base.R != '\\' {
			e = fmt.Sprintf("'%c'", base.R)
		}
	case "int":
		e = fmt.Sprintf("%d", base.I)
	case "bool":
		e = fmt.Sprintf("%v", base.I != 0)
	default:
		return ""
	}
	for i := len(wraps) - 1; i >= 0; i-- {
		e = "tabular.NewCell(" + e + ")"
		if wraps[i] == "pcell" {
			e = "func() *tabular.Cell { c := " + e + "; return &c }()"
		}
	}
	if via < 0 || via >= len(c01ViaGo) {
		return ""
	}
	pre := ""
	for _, a := range also {
		lit := c01GoLiteral(a)
		if lit == "" {
			return ""
		}
		pre += "_ = tabular.NewCell(" + lit + "); "
	}
	return pre + strings.Replace(c01ViaGo[via], "ITEM", e, -1) + "; c.String(), c.Empty(), c.Item()"
}

// c01Between: in words, what a case does between mutating and observing
func c01Between(sp C01Spec) string {
	if sp.Via == 0 || (sp.Cb == 0 && sp.Idle == 0) {
		return ""
	}
	var cbs, ops []string
	for i, n := range c01CbNames {
		if sp.Cb&(1<<uint(i)) != 0 {
			cbs = append(cbs, n)
		}
	}
	for i, n := range c01IdleNames {
		if sp.Idle&(1<<uint(i)) != 0 {
			ops = append(ops, n)
		}
	}
	return fmt.Sprintf("callbacks (all four times) registered on: %s; after each mutation and before observing, on the table: %s (no Update)", strings.Join(cbs, ", "), strings.Join(ops, ", "))
}

func c01SigSpec(sp C01Spec, base ItemSpec) string {
	if hasNum(sp) {
		return "item=scalar-after-an-equal-scalar"
	}
	if c01HasTwin(sp) {
		return "item=one-of-several-types-of-the-same-name"
	}
	if len(sp.Also) > 0 {
		return c01Sig(base) + "-after-other-items"
	}
	return c01Sig(base)
}

func c01Sig(base ItemSpec) string {
	switch base.K {
	case "objval":
		return "item=struct-value-whose-methods-are-on-the-pointer-receiver"
	case "zoo":
		hold := "value"
		if base.Mask&1 != 0 {
			hold = "pointer"
		}
		return "item=" + c01ZooGroup(int(base.I)%len(c01Zoo)) + "-type-held-by-" + hold
	case "twin":
		return "item=one-of-several-types-of-the-same-name"
	}
	if base.K == "obj" {
		names := []string{}
		for i, n := range []string{"String", "GoString", "Error"} {
			if base.Mask&(1<<uint(i)) != 0 {
				names = append(names, n)
			}
		}
		if len(names) == 0 {
			return "item=object-without-text-methods"
		}
		return "item=object-with-" + strings.Join(names, "+")
	}
	return "item=" + base.K
}

// ---------------------------------------------------------------- generation

var c01Texts = []string{"", "abc", "two\nlines\n", "hé 世界 é", "\xff\xfe bad \xe4\xb8", "\n", " ", "x"}

var c01Runes = []int32{'x', 0, '\n', 0x7f, 0x80, 0xe9, 0x7ff, 0x800, 0x4e16, 0xd7ff, 0xd800, 0xdbff, 0xdfff, 0xe000, 0xfffd, 0xffff,
	0x10000, 0x1f600, 0x10ffff, 0x110000, -1, math.MinInt32, math.MaxInt32, 0x301, 0x200d}

func c01Obj(mask int, t int, hw int) ItemSpec {
	s := c01Texts[t%len(c01Texts)]
	// the lower-precedence methods return something else, never empty
	g := "G:" + c01Texts[(t+1)%len(c01Texts)]
	e := "E:" + c01Texts[(t+2)%len(c01Texts)]
	switch {
	case mask&1 != 0:
	case mask&2 != 0:
		g, s = s, "S:unused"
	case mask&4 != 0:
		e, s = s, "S:unused"
	}
	hs := []int{-2, 0, 3}
	wsv := []int{-1, 0, 5}
	return ItemSpec{K: "obj", Mask: mask, S: []byte(s), G: []byte(g), E: []byte(e), H: hs[hw%3], W: wsv[(hw/3)%3]}
}

func c01RandRound(r *RNG) C01Round {
	return C01Round{S: []byte(pick(r, c01Texts)), G: []byte("g" + pick(r, c01Texts)), E: []byte(pick(r, c01Texts)),
		H: r.Intn(6) - 2, W: r.Intn(8) - 2, TopDown: r.Bool()}
}

func c01RandBase(r *RNG) ItemSpec {
	switch r.Intn(14) {
	case 0:
		return ItemSpec{K: "nil"}
	case 1, 2:
		if r.Pct(50) {
			return Str(pick(r, c01Texts))
		}
		return Str(c18Rand(r))
	case 3, 4:
		if r.Pct(60) {
			return ItemSpec{K: "rune", R: pick(r, c01Runes)}
		}
		return ItemSpec{K: "rune", R: int32(r.U64())}
	case 5:
		return ItemSpec{K: "int", I: int64(r.Intn(2000) - 1000)}
	case 6:
		return ItemSpec{K: pick(r, []string{"bool", "float", "chan"}), I: int64(r.Intn(2)), F: float64(r.Intn(100)) / 8}
	case 7:
		return ItemSpec{K: pick(r, []string{"slice", "map", "structx"}), I: int64(r.Intn(50)), B: []byte(pick(r, c01Texts))}
	case 8:
		return ItemSpec{K: pick(r, []string{"valstr", "strerr"}), B: []byte(pick(r, c01Texts))}
	case 9:
		return c01Num(int64(r.Intn(len(c01Nums))))
	case 10:
		if r.Pct(40) {
			return ItemSpec{K: "typednil", I: int64(r.Intn(len(c01Nils)))}
		}
		return ItemSpec{K: pick(r, c01ByValueKinds), B: []byte(pick(r, c01Texts)), I: int64(r.Intn(9))}
	default:
		return c01Obj(r.Intn(32), r.Intn(len(c01Texts)), r.Intn(9))
	}
}

func c01Tags(sp C01Spec) []string {
	wraps, base := sp.Item.chain()
	tags := []string{"base=" + base.K, fmt.Sprintf("depth=%d", len(wraps)), fmt.Sprintf("rounds=%d", len(sp.Rounds)), fmt.Sprintf("via=%d", sp.Via)}
	if len(sp.Also) > 0 {
		tags = append(tags, fmt.Sprintf("items-before=%d", len(sp.Also)))
	}
	if sp.Via != 0 && len(sp.Rounds) > 0 {
		for i, n := range c01IdleNames {
			if sp.Idle&(1<<uint(i)) != 0 {
				tags = append(tags, "between-mutate-and-observe="+n)
			}
		}
		for i, n := range c01CbNames {
			if sp.Cb&(1<<uint(i)) != 0 {
				tags = append(tags, "callbacks-on="+n)
			}
		}
	}
	if sp.Fresh || c01HasTwin(sp) {
		tags = append(tags, "alone-in-a-process")
	}
	switch base.K {
	case "zoo":
		ent := c01Zoo[int(base.I)%len(c01Zoo)]
		tags = append(tags, "zoo-kind="+ent.kind)
		if base.Mask&1 != 0 {
			tags = append(tags, "held=pointer")
		} else {
			tags = append(tags, "held=value")
		}
	case "objval":
		tags = append(tags, "held=value", fmt.Sprintf("pointer-receiver-text-methods=%d", base.Mask&7))
	case "twin":
		tags = append(tags, fmt.Sprintf("namesake-family=%d", base.R))
	}
	for _, a := range sp.Also {
		if _, ab := a.chain(); ab.K == "twin" {
			tags = append(tags, "namesake-seen-before")
			break
		}
	}
	if base.K == "num" {
		tags = append(tags, "num="+c01NumGo[int(base.I)%len(c01NumGo)])
	}
	if sp.Via != 0 && len(wraps) > 0 && wraps[0] == "cell" {
		tags = append(tags, "cell-value-stored-through-table")
	}
	for _, w := range wraps {
		tags = append(tags, "wrap="+w)
	}
	if base.K == "obj" {
		tags = append(tags, fmt.Sprintf("text-methods=%d", base.Mask&7), fmt.Sprintf("size-overrides=%d", base.Mask>>3))
	}
	if base.K == "rune" {
		r := base.R
		switch {
		case r < 0:
			tags = append(tags, "rune=negative")
		case r < 0x80:
			tags = append(tags, "rune=ascii")
		case r < 0x800:
			tags = append(tags, "rune=2-byte")
		case r >= 0xd800 && r <= 0xdfff:
			tags = append(tags, "rune=surrogate")
		case r < 0x10000:
			tags = append(tags, "rune=3-byte")
		case r <= 0x10ffff:
			tags = append(tags, "rune=4-byte")
		default:
			tags = append(tags, "rune=above-max")
		}
	}
	return tags
}

func c01Size(sp C01Spec) int {
	wraps, base := sp.Item.chain()
	n := 20*len(wraps) + 10*len(sp.Rounds) + len(base.B) + len(base.S) + len(base.G) + len(base.E)
	if sp.Via != 0 {
		n += 2
	}
	n += 5 * len(sp.Also)
	if len(sp.Also) > 0 && !(sp.Fresh || c01HasTwin(sp)) {
		n += 4 // not alone in its process: a self-contained case is the better replay
	}
	for m := sp.Cb; m != 0; m >>= 1 {
		n += m & 1
	}
	for m := sp.Idle; m != 0; m >>= 1 {
		n += m & 1
	}
	for _, w := range wraps {
		if w == "pcell" {
			n += 2
		}
	}
	for m := base.Mask; m != 0; m >>= 1 {
		n += 3 * (m & 1)
	}
	if base.K == "rune" && base.R != 'x' {
		n += 1
	}
	if base.H != 0 {
		n++
	}
	if base.W != 0 {
		n++
	}
	for _, rd := range sp.Rounds {
		n += len(rd.S) + len(rd.G) + len(rd.E)
	}
	return n
}

func c01Shrink(sp C01Spec) []C01Spec {
	var out []C01Spec
	wraps, base := sp.Item.chain()
	// candidates that drop an item which goes first come first: the library
	// may remember texts across cells, and candidates share one process
	if len(sp.Also) > 0 && !hasNum(sp) {
		// one of the items that went first, alone
		for _, a := range sp.Also {
			if _, ab := a.chain(); c01IsMoreKind(ab.K) {
				out = append(out, C01Spec{Item: a})
			}
		}
		out = append(out, C01Spec{Item: sp.Item, Rounds: sp.Rounds, Via: sp.Via, Cb: sp.Cb, Idle: sp.Idle})
		for i := range sp.Also {
			if len(sp.Also) > 1 {
				out = append(out, C01Spec{Item: sp.Item, Rounds: sp.Rounds, Via: sp.Via, Cb: sp.Cb, Idle: sp.Idle, Also: append(append([]ItemSpec{}, sp.Also[:i]...), sp.Also[i+1:]...)})
			}
		}
	}
	with := func(w []string, b ItemSpec, rounds []C01Round) {
		out = append(out, C01Spec{Item: wrapItem(w, b), Rounds: rounds, Via: sp.Via, Also: sp.Also, Cb: sp.Cb, Idle: sp.Idle})
	}
	if sp.Via != 0 {
		out = append(out, C01Spec{Item: sp.Item, Rounds: sp.Rounds, Also: sp.Also})
		if sp.Via != 1 {
			out = append(out, C01Spec{Item: sp.Item, Rounds: sp.Rounds, Via: 1, Also: sp.Also, Cb: sp.Cb, Idle: sp.Idle})
		}
		if sp.Cb != 0 || sp.Idle != 0 {
			out = append(out, C01Spec{Item: sp.Item, Rounds: sp.Rounds, Via: sp.Via, Also: sp.Also})
		}
		for bit := 0; bit < 9; bit++ {
			if sp.Idle&(1<<uint(bit)) != 0 && sp.Idle != 1<<uint(bit) {
				out = append(out, C01Spec{Item: sp.Item, Rounds: sp.Rounds, Via: sp.Via, Also: sp.Also, Cb: sp.Cb, Idle: 1 << uint(bit)})
			}
			if bit < 5 && sp.Cb&(1<<uint(bit)) != 0 && sp.Cb != 1<<uint(bit) {
				out = append(out, C01Spec{Item: sp.Item, Rounds: sp.Rounds, Via: sp.Via, Also: sp.Also, Cb: 1 << uint(bit), Idle: sp.Idle})
			}
		}
	}
	if len(sp.Rounds) > 0 {
		with(wraps, base, nil)
		for i := range sp.Rounds {
			with(wraps, base, append(append([]C01Round{}, sp.Rounds[:i]...), sp.Rounds[i+1:]...))
		}
	}
	for i := range wraps {
		with(append(append([]string{}, wraps[:i]...), wraps[i+1:]...), base, sp.Rounds)
		if wraps[i] == "pcell" {
			w := append([]string{}, wraps...)
			w[i] = "cell"
			with(w, base, sp.Rounds)
		}
	}
	switch base.K {
	case "rune":
		if base.R != 'x' {
			with(wraps, ItemSpec{K: "rune", R: 'x'}, sp.Rounds)
		}
	case "str":
		if len(base.B) > 0 {
			with(wraps, Str(string(base.B[:len(base.B)/2])), sp.Rounds)
			with(wraps, Str(string(base.B[1:])), sp.Rounds)
		}
	case "obj":
		for bit := 0; bit < 5; bit++ {
			if base.Mask&(1<<uint(bit)) != 0 {
				b := base
				b.Mask &^= 1 << uint(bit)
				with(wraps, b, sp.Rounds)
			}
		}
		for i, f := range [][]byte{base.S, base.G, base.E} {
			if len(f) > 1 {
				b := base
				h := f[:len(f)/2]
				switch i {
				case 0:
					b.S = h
				case 1:
					b.G = h
				default:
					b.E = h
				}
				with(wraps, b, sp.Rounds)
			}
		}
		if base.H != 0 || base.W != 0 {
			b := base
			b.H, b.W = 0, 0
			with(wraps, b, sp.Rounds)
		}
	case "objval", "zoo", "twin":
		for i, f := range [][]byte{base.S, base.G, base.E} {
			if len(f) > 1 {
				b := base
				h := f[:len(f)/2]
				switch i {
				case 0:
					b.S = h
				case 1:
					b.G = h
				default:
					b.E = h
				}
				with(wraps, b, sp.Rounds)
			}
		}
	}
	for i := range out {
		out[i].Fresh = sp.Fresh
	}
	return out
}

func init() {
	register(&Prop{
		ID:       "C01",
		Imports:  "From Tab Require Import Run.Glue Run.C01Run.",
		CaseType: "c01_case",
		CaseFn:   "C01_case",
		ModelFn:  "C01_model",
		Rule: "items of every kind the library distinguishes: nil, strings (empty, ASCII, multi-line, multibyte, ill-formed UTF-8), runes (ASCII, NUL, 2/3/4-byte, surrogates, U+FFFD, > U+10FFFF, negative, int32 extremes), " +
			"32 generated pointer types = every subset of {String, GoString, Error} x {Height, TerminalCellWidth} with the selected method returning each text class (the others return something else), " +
			"int, bool, float, slice, map, struct, value-receiver Stringer, string-kind error, chan; scalars that are == another value and format differently or are != themselves (signed zeros and NaN of float32/float64/complex64/complex128, infinities), put into cells one after the other in one process in both orders; " +
			"boundary values of every predeclared integer type (min, max, 1<<63, 1<<63-1, all bits set) and of named integer types; nil values that are not the untyped nil (nil pointers whose String / GoString / Error are nil-safe, nil *struct, *int, map, slice, func, chan); " +
			"headers replaced by a second AddHeaders whose new item differs from the old one at that position but has the same text (the text as a string, nil for the empty text, another pointer), the old item mutated as well; " +
			"items stored BY VALUE whose text is reached through a reference inside them (struct with a slice / map field under %v, value-receiver String / Error / GoString reading through a pointer / map / slice field, array of pointers to Stringers), mutated through that reference; each also nested in Cell and *Cell up to depth 3; " +
			"0-2 mutation rounds (object fields / slice element / map value changed, then every level observed, then Update bottom-up or top-down, then observed); " +
			"the outermost cell is made by NewCell or the item is stored THROUGH a table (AddRowItems, AddHeaders, NewRow+Add+AddRow, AppendNewRow+Add, header and body together) and the cell the table hands out (CellAt, Headers(), Row.Cells()) is the one observed and Updated, with the same expectations; " +
			"for a table-held cell, between every mutation and the observation that must still show the snapshot, operations that are no request to update: rendering through csv / html / json / markdown / texttable, InvokeRenderCallbacks, reading everything back (Headers, AllRows, Cells, CellAt, Column), fmt %v / %+v / %#v of the table, adding rows / a separator / headers - with harmless callbacks registered for all four times on the cell itself, its row, its column, column 0 and the table, singly and all together; " +
			"what an item OFFERS by Go's method sets: every kind of named type that can carry methods (struct, array, int, string, slice, map, func, chan) x methods declared on the value or on the pointer receiver x every subset of {String, GoString, Error}, each stored by value AND by pointer; the 32 generated types stored by value (their methods are on the pointer receiver: the value offers none); " +
			"embedding (promotion through an embedded pointer, an embedded value, two levels, an embedded interface, an ambiguous and a shadowed String), generic types, a named int32 that is not rune, and standard-library values by value and by pointer (url.URL, big.Int / Float / Rat, bytes.Buffer, strings.Builder, time.Time, net.IPNet, os.PathError, strconv.NumError, regexp.Regexp, mail.Address, url.Userinfo; time.Duration / Month, net.IP, netip.Addr, errors.New / Join / %w, syscall.Errno, os.FileMode, json.Number, reflect.Value / Type / Kind, image.Point, context.Background ...), the descriptor always being what Go's own type assertions say of the very value stored; " +
			"what the process saw before: distinct types of ONE name (nine types called c01Same - eight function-local ones, one per method subset, and the package-level one; the same over kind int), every ordered pair of them and some triples, by value and by pointer, and look-alike pairs (same kind, layout and number of methods, other methods; a value and a pointer of one type), each such case in a PROCESS OF ITS OWN (a child process: the items named in the case are the first items that process ever puts into cells, so the verdict is a function of the case alone); " +
			"observed per level and phase: String, Empty, Item identity (type and value of what Item() hands back), Height, TerminalCellWidth; a case is non-trivial when the base item is not nil; distinct = distinct Coq case term",
		Exhaustive: "all 32 method-set combinations x 8 text classes (with one mutation round), the 25 listed runes, every non-object kind, and every wrapper sequence over {Cell, *Cell} up to depth 2 around 6 representative bases; the 32 generated types by value; every type of the zoo (8 kinds x 2 receivers x 7-8 method subsets, embedding, generics, 48 standard-library values) by value and by pointer; all 72 ordered pairs of the nine same-named types, each pair alone in a process",
		Gen: func(r *RNG, tier string) []json.RawMessage {
			var out []json.RawMessage
			add := func(sp C01Spec) { out = append(out, mustJSON(sp)) }
			// every descriptor kind x text class, with one mutation round
			i := 0
			for mask := 0; mask < 32; mask++ {
				for t := range c01Texts {
					nb := c01Obj(mask, t+3, i+4)
					add(C01Spec{Item: c01Obj(mask, t, i), Rounds: []C01Round{{S: nb.S, G: nb.G, E: nb.E, H: nb.H, W: nb.W, TopDown: i%2 == 0}}, Via: (i / 2) % c01ViaN})
					i++
				}
			}
			for _, rn := range c01Runes {
				add(C01Spec{Item: ItemSpec{K: "rune", R: rn}})
				add(C01Spec{Item: ItemSpec{K: "rune", R: rn}, Rounds: []C01Round{{}}, Via: 1 + int(uint32(rn))%(c01ViaN-1)})
			}
			for _, t := range c01Texts {
				add(C01Spec{Item: Str(t)})
				add(C01Spec{Item: ItemSpec{K: "valstr", B: []byte(t)}})
				add(C01Spec{Item: ItemSpec{K: "strerr", B: []byte(t)}, Rounds: []C01Round{{}}})
			}
			others := []ItemSpec{{K: "nil"}, {K: "int", I: 42}, {K: "int", I: -7}, {K: "bool", I: 1}, {K: "bool"}, {K: "float", F: 2.5},
				{K: "slice", I: 3}, {K: "map", I: 4, B: []byte("k")}, {K: "structx", I: 5, B: []byte("b")}, {K: "chan"}}
			for _, o := range others {
				add(C01Spec{Item: o})
				for via := 1; via < c01ViaN; via++ {
					add(C01Spec{Item: o, Rounds: []C01Round{{H: 9}, {H: 10, TopDown: true}}, Via: via})
				}
			}
			// values that are == and yet format differently (or are != themselves), one after the other in one process
			for k, pr := range [][2]int64{{0, 1}, {4, 3}, {6, 9}, {13, 10}, {7, 8}, {11, 12}, {2, 2}, {5, 5}, {26, 26}, {1, 0}, {3, 4}, {14, 16}, {18, 19}} {
				add(C01Spec{Item: c01Num(pr[1]), Also: []ItemSpec{c01Num(pr[0])}, Via: k % c01ViaN})
				add(C01Spec{Item: wrapItem([]string{"cell"}, c01Num(pr[0])), Also: []ItemSpec{c01Num(pr[1]), c01Num(pr[0])}})
			}
			for k := range c01Nums {
				add(withTwins(C01Spec{Item: c01Num(int64(k)), Rounds: []C01Round{{}}}))
			}
			// nil values that are not the untyped nil
			for k := range c01Nils {
				b := ItemSpec{K: "typednil", I: int64(k)}
				add(C01Spec{Item: b})
				add(C01Spec{Item: b, Rounds: []C01Round{{}}, Via: 1 + k%(c01ViaN-1)})
				add(C01Spec{Item: wrapItem([]string{"cell"}, b), Rounds: []C01Round{{}}, Via: (k + 3) % c01ViaN})
			}
			// items held by value whose text is reached through a reference inside them
			for k, kind := range c01ByValueKinds {
				for j, t := range c01Texts {
					b := ItemSpec{K: kind, B: []byte(t), I: int64(j)}
					rounds := []C01Round{{S: []byte("changed"), G: []byte("G2"), E: []byte("E2"), H: 70 + j}, {H: j}, {S: []byte(t), G: []byte(t), E: []byte(t), H: j}}
					add(C01Spec{Item: b, Rounds: rounds, Via: (k + j) % c01ViaN})
					if j < 3 {
						add(C01Spec{Item: wrapItem([]string{"pcell"}, b), Rounds: rounds[:2]})
						add(C01Spec{Item: wrapItem([]string{"cell"}, b), Rounds: rounds[:1], Via: 1 + j})
					}
				}
			}
			// a cell in a table, its item mutated, then things done to the table that are
			// no request to update (each renderer, InvokeRenderCallbacks, reading back,
			// fmt, adding rows), with callbacks on / above the cell; then observed
			chg := []C01Round{{S: []byte("changed\nnow"), G: []byte("G2"), E: []byte("E2"), H: 2, W: 4}, {S: []byte(""), G: []byte("g3"), E: []byte("e3")}}
			for via := 1; via < c01ViaN; via++ {
				for _, cb := range []int{0, 1, 2, 4, 8, 16, c01CbAll} {
					for bit := 0; bit < 9; bit++ {
						add(C01Spec{Item: c01Obj(1+8*((via+bit)%4), 1, via+bit), Rounds: chg, Via: via, Cb: cb, Idle: 1 << uint(bit)})
					}
					add(C01Spec{Item: c01Obj(1, 2, via), Rounds: chg, Via: via, Cb: cb, Idle: c01IdleAll})
					add(C01Spec{Item: wrapItem([]string{"pcell"}, c01Obj(1, 1, via)), Rounds: chg[:1], Via: via, Cb: cb, Idle: 1 | 16 | 32})
				}
			}
			// nesting
			reps := []ItemSpec{{K: "nil"}, Str(""), Str("a\nb"), {K: "rune", R: 'x'}, c01Obj(1, 1, 0), c01Obj(31, 2, 5), c01Obj(0, 0, 0), c01Obj(7, 0, 8)}
			wrapSeqs := [][]string{{"cell"}, {"pcell"}, {"cell", "cell"}, {"cell", "pcell"}, {"pcell", "cell"}, {"pcell", "pcell"}}
			for _, b := range reps {
				for _, w := range wrapSeqs {
					add(C01Spec{Item: wrapItem(w, b)})
					add(C01Spec{Item: wrapItem(w, b), Rounds: []C01Round{c01RandRound(r)}})
					add(C01Spec{Item: wrapItem(w, b), Rounds: []C01Round{{S: []byte(""), G: []byte("g"), E: []byte("e"), TopDown: true}, c01RandRound(r)}})
					// the same item stored through every table entry point
					for via := 1; via < c01ViaN; via++ {
						add(C01Spec{Item: wrapItem(w, b), Rounds: []C01Round{{S: []byte("changed"), G: []byte("G2"), E: []byte("E2"), H: 2, W: 4, TopDown: via%2 == 0}}, Via: via})
					}
				}
			}
			n := 400
			if tier == "thorough" {
				n = 20000
			}
			for k := 0; k < n; k++ {
				b := c01RandBase(r)
				var w []string
				for d := r.Intn(4); d > 0 && r.Pct(70); d-- {
					w = append(w, pick(r, []string{"cell", "pcell"}))
				}
				var rounds []C01Round
				for d := r.Intn(3); d > 0; d-- {
					rounds = append(rounds, c01RandRound(r))
				}
				via := 0
				if r.Pct(50) {
					via = 1 + r.Intn(c01ViaN-1)
				}
				var also []ItemSpec
				if r.Pct(20) {
					for d := 1 + r.Intn(2); d > 0; d-- {
						if r.Pct(50) {
							also = append(also, c01Num(int64(r.Intn(len(c01Nums)))))
						} else {
							also = append(also, c01RandBase(r))
						}
					}
				}
				cb, idle := 0, 0
				if via != 0 && r.Pct(70) {
					idle = 1 << uint(r.Intn(9))
					if r.Pct(30) {
						idle |= r.Intn(c01IdleAll + 1)
					}
					if r.Pct(60) {
						cb = 1 << uint(r.Intn(5))
						if r.Pct(30) {
							cb = r.Intn(c01CbAll + 1)
						}
					}
				}
				add(withTwins(C01Spec{Item: wrapItem(w, b), Rounds: rounds, Via: via, Also: also, Cb: cb, Idle: idle}))
			}
			c01GenMore(r, tier, add)
			return out
		},
		Run: func(spec json.RawMessage) CaseOut {
			var sp C01Spec
			if err := json.Unmarshal(spec, &sp); err != nil {
				panic(err)
			}
			var coq string
			var desc interface{}
			ran := false
			if c01WantsChild(sp) {
				coq, desc, ran = c01InChild(spec)
			}
			if !ran {
				coq, desc, _, _ = c01Run(sp)
			}
			_, base := sp.Item.chain()
			return CaseOut{
				Coq:        coq,
				Desc:       desc,
				Size:       c01Size(sp),
				Tags:       c01Tags(sp),
				Key:        fmt.Sprintf("%d:%d:%d:%s", sp.Via, sp.Cb, sp.Idle, coq),
				Nontrivial: base.K != "nil",
			}
		},
		Shrink: func(spec json.RawMessage) []json.RawMessage {
			var sp C01Spec
			if err := json.Unmarshal(spec, &sp); err != nil {
				return nil
			}
			var out []json.RawMessage
			for _, c := range c01Shrink(sp) {
				out = append(out, mustJSON(c))
			}
			return out
		},
	})
}
