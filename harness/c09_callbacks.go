package main

// C09, tables that carry property callbacks of the application.
//
// "Every table that can be built through the public API" includes tables on
// which the application registered PropertyCallbacks - on the table, on a
// wrapper standing for it, on columns, rows, cells and header cells, for add
// time and the three render times, aimed at the owner itself, its cells or its
// rows, before, during and after the build.  The library is handed the
// callback as an interface value and may assume nothing about its dynamic
// type: the palette below has comparable and uncomparable types (function
// values behind an adapter type, structs holding a slice / a map / a func /
// an interface holding a slice, named slice, map and array types, a struct
// holding NaN, which is comparable and unequal to itself), several values of
// one type in one list, equal values and the very same value twice.  What a
// callback does is total and touches nothing but its target's properties
// (DESIGN section 13, decision 3): it logs its label, and then sets a
// property (values of comparable and uncomparable types under comparable
// keys), reads its target, or returns an error (of a comparable or an
// uncomparable error type).
//
// The same build is shipped as a history of the callback machine
// (coq/Model/Callbacks.v) and the logs are compared with the machine's
// (coq/Run/C09Run.v cb_corr).

import (
	"errors"
	"fmt"
	"math"
	"sort"
	"strings"

	"go.pennock.tech/tabular"
	"go.pennock.tech/tabular/csv"
	"go.pennock.tech/tabular/properties/align"
)

// C09Cb is one RegisterPropertyCallback call.
type C09Cb struct {
	// At: the registration is made once At body rows have joined the table
	// (0 = on the empty table, before any building call; more than the number
	// of rows = after the whole build).
	At     int    `json:"at"`
	Owner  string `json:"owner"`         // table | wrapper | column | row | cell | hcell
	Row    int    `json:"row,omitempty"` // body row index (row, cell)
	Col    int    `json:"col,omitempty"` // column number (column); 1-based position (cell, hcell)
	Time   int    `json:"time"`          // 0 add, 1 pre-cell, 2 render, 3 post-cell
	Target int    `json:"target"`        // 0 itself, 1 cell, 2 row
	Kind   string `json:"kind"`          // dynamic type of the callback value (c09CbKinds)
	Act    int    `json:"act,omitempty"` // what an invocation does after logging (c09CbAct)
	// Val > 0: registrations with the same Kind and Val pass the very same
	// value (made at the first of them, whose Act it keeps).
	Val int `json:"val,omitempty"`
}

var c09CbKinds = []string{"empty", "ptr", "val", "func", "slicefield", "mapfield", "funcfield", "ifacefield",
	"slice", "map", "array", "string", "nan", "chan"}

var c09CbOwners = []string{"table", "wrapper", "column", "row", "cell", "hcell"}

// the log the test callbacks write into (the harness runs one case at a time)
var c09CbLog []int

// ---- the callback types

type c09CbEmpty struct{}
type c09CbPtr struct{ label, act int }
type c09CbVal struct{ label, act int }
type c09CbFunc func(tabular.PropertyOwner) error
type c09CbSliceField struct {
	label, act int
	tags       []string
}
type c09CbMapField struct {
	label, act int
	seen       map[string]int
}
type c09CbFuncField struct {
	label, act int
	f          func()
}
type c09CbIfaceField struct {
	label, act int
	extra      interface{}
}
type c09CbSlice []int
type c09CbMap map[string]int
type c09CbArray [1]func(tabular.PropertyOwner) error
type c09CbString string
type c09CbNaN struct {
	label, act int
	f          float64
}
type c09CbChan chan int

const (
	c09LabelEmpty = 90
	c09LabelChan  = 91
)

func (c09CbEmpty) UpdateProperties(po tabular.PropertyOwner) error {
	return c09CbAct(c09LabelEmpty, 0, po)
}
func (c *c09CbPtr) UpdateProperties(po tabular.PropertyOwner) error {
	return c09CbAct(c.label, c.act, po)
}
func (c c09CbVal) UpdateProperties(po tabular.PropertyOwner) error {
	return c09CbAct(c.label, c.act, po)
}
func (f c09CbFunc) UpdateProperties(po tabular.PropertyOwner) error { return f(po) }
func (c c09CbSliceField) UpdateProperties(po tabular.PropertyOwner) error {
	return c09CbAct(c.label, c.act, po)
}
func (c c09CbMapField) UpdateProperties(po tabular.PropertyOwner) error {
	return c09CbAct(c.label, c.act, po)
}
func (c c09CbFuncField) UpdateProperties(po tabular.PropertyOwner) error {
	c.f()
	return c09CbAct(c.label, c.act, po)
}
func (c c09CbIfaceField) UpdateProperties(po tabular.PropertyOwner) error {
	return c09CbAct(c.label, c.act, po)
}
func (c c09CbSlice) UpdateProperties(po tabular.PropertyOwner) error { return c09CbAct(c[0], c[1], po) }
func (c c09CbMap) UpdateProperties(po tabular.PropertyOwner) error {
	return c09CbAct(c["label"], c["act"], po)
}
func (c c09CbArray) UpdateProperties(po tabular.PropertyOwner) error { return c[0](po) }
func (c c09CbString) UpdateProperties(po tabular.PropertyOwner) error {
	var label, act int
	fmt.Sscanf(string(c), "%d:%d", &label, &act)
	return c09CbAct(label, act, po)
}
func (c c09CbNaN) UpdateProperties(po tabular.PropertyOwner) error {
	return c09CbAct(c.label, c.act, po)
}
func (c09CbChan) UpdateProperties(po tabular.PropertyOwner) error {
	return c09CbAct(c09LabelChan, 0, po)
}

func c09CbMake(kind string, label, act int) tabular.PropertyCallback {
	switch kind {
	case "empty":
		return c09CbEmpty{}
	case "ptr":
		return &c09CbPtr{label, act}
	case "val":
		return c09CbVal{label, act}
	case "func":
		return c09CbFunc(func(po tabular.PropertyOwner) error { return c09CbAct(label, act, po) })
	case "slicefield":
		return c09CbSliceField{label, act, []string{"a", "b"}}
	case "mapfield":
		return c09CbMapField{label, act, map[string]int{"a": 1}}
	case "funcfield":
		return c09CbFuncField{label, act, func() {}}
	case "ifacefield":
		return c09CbIfaceField{label, act, []int{label}}
	case "slice":
		return c09CbSlice{label, act}
	case "map":
		return c09CbMap{"label": label, "act": act}
	case "array":
		return c09CbArray{func(po tabular.PropertyOwner) error { return c09CbAct(label, act, po) }}
	case "string":
		return c09CbString(fmt.Sprintf("%d:%d", label, act))
	case "nan":
		return c09CbNaN{label, act, math.NaN()}
	case "chan":
		return c09CbChan(make(chan int))
	}
	panic("unknown callback kind " + kind)
}

// the label a callback of this kind logs
func c09CbLabel(kind string, label int) int {
	switch kind {
	case "empty":
		return c09LabelEmpty
	case "chan":
		return c09LabelChan
	}
	return label
}

type c09Key struct{ n int }
type c09KeyObj struct{ name string }

var c09KeyObjs = map[int]*c09KeyObj{}

type c09ErrSlice struct{ msgs []string }

func (e c09ErrSlice) Error() string { return strings.Join(e.msgs, "; ") }

type c09ErrMap struct{ m map[string]string }

func (e c09ErrMap) Error() string { return fmt.Sprint(e.m) }

// c09CbAct: what every test callback does: log (label, kind of object
// received), then the action.
func c09CbAct(label, act int, po tabular.PropertyOwner) error {
	k := 4
	switch v := po.(type) {
	case *tabular.ATable:
		k = 0
	case *tabular.Row:
		k = 2
	case *tabular.Cell:
		k = 3
	default:
		if fmt.Sprintf("%T", v) == "*tabular.column" {
			k = 1
		}
	}
	c09CbLog = append(c09CbLog, label*8+k)
	switch act {
	case 1:
		po.SetProperty(c09Key{label}, true)
	case 2:
		po.SetProperty(fmt.Sprintf("c09:%d", label), []int{label, k}) // a value of an uncomparable type, set again on every pass
	case 3:
		ko := c09KeyObjs[label]
		if ko == nil {
			ko = &c09KeyObj{fmt.Sprint(label)}
			c09KeyObjs[label] = ko
		}
		po.SetProperty(ko, map[string]int{"label": label})
	case 4:
		po.SetProperty(c09Key{-label}, func() int { return label })
		if f, ok := po.GetProperty(c09Key{-label}).(func() int); ok {
			f()
		}
	case 5:
		return errors.New("c09: a callback reports an error")
	case 6:
		return c09ErrSlice{[]string{"c09", fmt.Sprint(label)}} // an error value of an uncomparable type
	case 7:
		return c09ErrMap{map[string]string{"c09": fmt.Sprint(label)}}
	case 8:
		if k == 1 {
			po.SetProperty(align.PropertyType, align.Right) // a column aligns itself while the table is rendered
		}
	case 9:
		// reads its target
		po.GetProperty(c09Key{12345})
		switch v := po.(type) {
		case *tabular.Cell:
			_ = v.String()
			_ = v.Height()
			_ = v.TerminalCellWidth()
			_ = v.Lines()
			_ = v.Empty()
		case *tabular.Row:
			_ = v.Cells()
			_ = v.IsSeparator()
		case *tabular.ATable:
			_ = v.NColumns()
			_ = v.NRows()
		}
	}
	return nil
}

const c09NActs = 10

// c09CbSorted: the registrations in the order they are made (by At, stable).
func c09CbSorted(cbs []C09Cb) []C09Cb {
	out := append([]C09Cb{}, cbs...)
	sort.SliceStable(out, func(i, j int) bool { return out[i].At < out[j].At })
	return out
}

// c09CbRun is the record of the registrations made on one table.
type c09CbRun struct {
	cbs     []C09Cb // sorted
	next    int
	vals    map[string]tabular.PropertyCallback
	labels  map[string]int
	Applied []bool // the owner existed when the registration's turn came
	Refused []bool // RegisterPropertyCallback returned an error
	only    []bool // when non-nil: make exactly these (as decided on the probe table)
}

func newC09CbRun(cbs []C09Cb, only []bool) *c09CbRun {
	s := c09CbSorted(cbs)
	return &c09CbRun{cbs: s, vals: map[string]tabular.PropertyCallback{}, labels: map[string]int{},
		Applied: make([]bool, len(s)), Refused: make([]bool, len(s)), only: only}
}

// label of registration i (as logged by its callback)
func (cr *c09CbRun) label(i int) int {
	cb := cr.cbs[i]
	if cb.Val > 0 {
		key := fmt.Sprintf("%s/%d", cb.Kind, cb.Val)
		if l, ok := cr.labels[key]; ok {
			return l
		}
		l := c09CbLabel(cb.Kind, 60+cb.Val%20)
		cr.labels[key] = l
		return l
	}
	return c09CbLabel(cb.Kind, 1+i%50)
}

func (cr *c09CbRun) value(i int) tabular.PropertyCallback {
	cb := cr.cbs[i]
	if cb.Val > 0 {
		key := fmt.Sprintf("%s/%d", cb.Kind, cb.Val)
		if v, ok := cr.vals[key]; ok {
			return v
		}
		v := c09CbMake(cb.Kind, cr.label(i), cb.Act%c09NActs)
		cr.vals[key] = v
		return v
	}
	return c09CbMake(cb.Kind, cr.label(i), cb.Act%c09NActs)
}

// upTo makes the registrations whose turn has come once rowsDone body rows
// are in the table (all = every one that is left).
func (cr *c09CbRun) upTo(t tabular.Table, rowsDone int, all bool) {
	for cr.next < len(cr.cbs) && (all || cr.cbs[cr.next].At <= rowsDone) {
		i := cr.next
		cr.next++
		if cr.only != nil && (i >= len(cr.only) || !cr.only[i]) {
			continue
		}
		cb := cr.cbs[i]
		var owner tabular.PropertyOwner
		switch cb.Owner {
		case "table":
			owner = t
		case "wrapper":
			owner = csv.Wrap(t) // a rendering wrapper named as the owner stands for the table
		case "column":
			if cb.Col >= 0 {
				if col := t.Column(cb.Col); col != nil {
					owner = col
				}
			}
		case "row":
			if rows := t.AllRows(); cb.Row >= 0 && cb.Row < len(rows) {
				owner = rows[cb.Row]
			}
		case "cell":
			if cb.Row >= 0 && cb.Col >= 1 {
				if c, err := t.CellAt(tabular.CellLocation{Row: cb.Row + 1, Column: cb.Col}); err == nil && c != nil {
					owner = c
				}
			}
		case "hcell":
			if h := t.Headers(); cb.Col >= 1 && cb.Col <= len(h) {
				owner = &h[cb.Col-1]
			}
		}
		if owner == nil || cb.Time < 0 || cb.Time > 3 || cb.Target < 0 || cb.Target > 2 {
			continue
		}
		cr.Applied[i] = true
		cr.Refused[i] = c09Register(t, owner, cb.Time, cb.Target, cr.value(i)) != nil
	}
}

func c09Register(t tabular.Table, owner tabular.PropertyOwner, when, target int, v tabular.PropertyCallback) error {
	// the time and target types are unexported: spell the twelve combinations out
	switch when*3 + target {
	case 0:
		return t.RegisterPropertyCallback(owner, tabular.CB_AT_ADD, tabular.CB_ON_ITSELF, v)
	case 1:
		return t.RegisterPropertyCallback(owner, tabular.CB_AT_ADD, tabular.CB_ON_CELL, v)
	case 2:
		return t.RegisterPropertyCallback(owner, tabular.CB_AT_ADD, tabular.CB_ON_ROW, v)
	case 3:
		return t.RegisterPropertyCallback(owner, tabular.CB_AT_RENDER_PRECELL, tabular.CB_ON_ITSELF, v)
	case 4:
		return t.RegisterPropertyCallback(owner, tabular.CB_AT_RENDER_PRECELL, tabular.CB_ON_CELL, v)
	case 5:
		return t.RegisterPropertyCallback(owner, tabular.CB_AT_RENDER_PRECELL, tabular.CB_ON_ROW, v)
	case 6:
		return t.RegisterPropertyCallback(owner, tabular.CB_AT_RENDER, tabular.CB_ON_ITSELF, v)
	case 7:
		return t.RegisterPropertyCallback(owner, tabular.CB_AT_RENDER, tabular.CB_ON_CELL, v)
	case 8:
		return t.RegisterPropertyCallback(owner, tabular.CB_AT_RENDER, tabular.CB_ON_ROW, v)
	case 9:
		return t.RegisterPropertyCallback(owner, tabular.CB_AT_RENDER_POSTCELL, tabular.CB_ON_ITSELF, v)
	case 10:
		return t.RegisterPropertyCallback(owner, tabular.CB_AT_RENDER_POSTCELL, tabular.CB_ON_CELL, v)
	default:
		return t.RegisterPropertyCallback(owner, tabular.CB_AT_RENDER_POSTCELL, tabular.CB_ON_ROW, v)
	}
}

// c09BuildCb builds ts on t, making the registrations at their turns; hook
// (may be nil) is called after every body row, after the registrations due.
func c09BuildCb(ts TableSpec, cbs []C09Cb, only []bool, t tabular.Table, hook func()) *c09CbRun {
	cr := newC09CbRun(cbs, only)
	every := ts
	every.Stages = nil
	for i := range ts.Rows {
		every.Stages = append(every.Stages, i)
	}
	cr.upTo(t, 0, false)
	done := 0
	every.BuildStaged(t, func() {
		// BuildStaged also calls the hook once more before a second AddHeaders:
		// by then every row is in
		if done < len(ts.Rows) {
			done++
		}
		cr.upTo(t, done, false)
		if hook != nil {
			hook()
		}
	})
	cr.upTo(t, 0, true)
	return cr
}

// c09CbHistory writes the same build as a history of the callback machine
// (coq/Base/CbTypes.v op, through the constructors of coq/Run/C09Run.v),
// mirroring TableSpec.buildStaged call by call, with the registrations that
// were made (applied) at their turns.  ok is false when the spec attaches a
// pre-built row twice (outside the machine's histories).
func c09CbHistory(ts TableSpec, cr *c09CbRun) (ops []string, refused []string, ok bool) {
	for _, r := range ts.Rows {
		if r.Twice && !r.Sep && (r.How == 1 || r.How == 3) {
			return nil, nil, false
		}
	}
	nextID := 0    // the machine's row ids, in allocation order
	var body []int // body row index -> id
	header := -1   // id of the current header row
	next := 0      // next registration
	regs := func(rowsDone int, all bool) {
		for next < len(cr.cbs) && (all || cr.cbs[next].At <= rowsDone) {
			i := next
			next++
			if !cr.Applied[i] {
				continue
			}
			cb := cr.cbs[i]
			k, a, b := 0, 0, 0
			switch cb.Owner {
			case "column":
				k, a = 1, cb.Col
			case "row":
				k, a = 2, 9999 // an id the machine does not have: should the real table have had a row the mirror does not know
				if cb.Row < len(body) {
					a = body[cb.Row]
				}
			case "cell":
				k, a, b = 3, 9999, cb.Col
				if cb.Row < len(body) {
					a = body[cb.Row]
				}
			case "hcell":
				k, a, b = 3, 9999, cb.Col
				if header >= 0 {
					a = header
				}
			}
			ops = append(ops, fmt.Sprintf("cbo_reg %d %d %d %d %d %d", k, a, b, cb.Time, cb.Target, cr.label(i)))
			refused = append(refused, cqBool(cr.Refused[i]))
		}
	}
	addHeader := func(h *[]ItemSpec) {
		if h != nil {
			ops = append(ops, fmt.Sprintf("cbo_headers %d", len(*h)))
			header = nextID
			nextID++
		}
	}
	type pending struct{ row, left, n int }
	var late []pending
	flush := func(all bool) {
		keep := late[:0]
		for _, p := range late {
			if all || p.left <= 0 {
				if p.row < len(body) {
					for k := 0; k < p.n; k++ {
						ops = append(ops, fmt.Sprintf("cbo_add %d", body[p.row]))
					}
				}
			} else {
				p.left--
				keep = append(keep, p)
			}
		}
		late = keep
	}
	regs(0, false)
	first := ts.HeaderAt <= 0 && len(ts.AlignEarly)+len(ts.SkipEarly) > 0 && ts.Header != nil
	if first {
		addHeader(ts.Header)
	}
	done := first
	for i, r := range ts.Rows {
		if !done && ts.HeaderAt <= i {
			addHeader(ts.Header)
			done = true
		}
		id := nextID
		nextID++
		switch {
		case r.Sep:
			ops = append(ops, "cbo_sep")
		case r.How == 1 || r.How == 3:
			ops = append(ops, "cbo_new")
			for range r.Cells {
				ops = append(ops, fmt.Sprintf("cbo_add %d", id))
			}
			ops = append(ops, fmt.Sprintf("cbo_addrow %d", id))
		case r.How == 2:
			ops = append(ops, "cbo_append")
			for range r.Cells {
				ops = append(ops, fmt.Sprintf("cbo_add %d", id))
			}
		default:
			ops = append(ops, fmt.Sprintf("cbo_items %d", len(r.Cells)))
		}
		body = append(body, id)
		flush(false)
		if len(r.Late) > 0 {
			late = append(late, pending{len(body) - 1, r.LateAfter, len(r.Late)})
			flush(false)
		}
		regs(i+1, false)
	}
	flush(true)
	if !done {
		addHeader(ts.Header)
	}
	addHeader(ts.Header2)
	regs(0, true)
	for i := range ops {
		if strings.Contains(ops[i], " ") {
			ops[i] = "(" + ops[i] + ")"
		}
	}
	return ops, refused, true
}

func cqNats(xs []int) string {
	ss := make([]string, len(xs))
	for i, x := range xs {
		ss[i] = fmt.Sprint(x)
	}
	return "[" + strings.Join(ss, ";") + "]%nat"
}

// ---- generators

func c09ItemWide(r *RNG) ItemSpec {
	switch r.Intn(12) {
	case 0:
		return ItemSpec{K: "slice", I: int64(r.Intn(3))} // items of uncomparable dynamic types, equal ones in several cells
	case 1:
		return ItemSpec{K: "map", B: []byte("k"), I: int64(r.Intn(2))}
	case 2:
		return ItemSpec{K: "valstr", B: []byte(pick(r, []string{"", "v", "v\nw"}))}
	case 3:
		return ItemSpec{K: "structx", I: int64(r.Intn(3)), B: []byte("s")}
	}
	return c09Item(r)
}

func c09RandCb(r *RNG, ts TableSpec) C09Cb {
	cb := C09Cb{
		At:     r.Intn(len(ts.Rows) + 2),
		Owner:  pick(r, c09CbOwners),
		Row:    r.Intn(len(ts.Rows) + 1),
		Col:    r.Intn(4),
		Time:   r.Intn(4),
		Target: r.Intn(3),
		Kind:   pick(r, c09CbKinds),
		Act:    r.Intn(c09NActs),
	}
	if r.Pct(60) {
		cb.At = len(ts.Rows) + 1 // after the build, when every owner exists
	}
	if r.Pct(70) && cb.Target == 2 {
		cb.Target = r.Intn(2)
	}
	if r.Pct(15) {
		cb.Val = 1 + r.Intn(2)
	}
	return cb
}

// c09CbBase: a small table with a header, a separator, a row extended after
// it joined the table and a short row.
func c09CbBase(text func(*RNG) ItemSpec, r *RNG) TableSpec {
	h := []ItemSpec{Str("name"), text(r)}
	return TableSpec{Header: &h, Rows: []RowSpec{
		{Cells: []ItemSpec{Str("alpha"), text(r)}},
		{Sep: true},
		{How: 2, Cells: []ItemSpec{text(r), Str("2")}},
		{How: 1, Cells: []ItemSpec{text(r)}},
	}}
}

// every (owner, target) slot of the base table
func c09CbSlots() []C09Cb {
	var out []C09Cb
	for _, ow := range c09CbOwners {
		for g := 0; g < 3; g++ {
			cb := C09Cb{Owner: ow, Target: g}
			switch ow {
			case "column":
				cb.Col = (g + 1) % 3 // columns 1, 2 and the defaults column 0
			case "row":
				cb.Row = []int{0, 1, 2}[g] // a plain row, the separator, the extended row
			case "cell":
				cb.Row, cb.Col = []int{0, 2, 3}[g], 1+g%2
			case "hcell":
				cb.Col = 1 + g%2
			}
			out = append(out, cb)
		}
	}
	return out
}

func c09GenCallbacks(r *RNG, tier string) []C09Spec {
	var out []C09Spec
	n := 0
	add := func(ts TableSpec, cbs []C09Cb) {
		n++
		out = append(out, C09Spec{Table: ts, Cbs: cbs, Shared: n%3 == 0, Perm: r.U64() % 1000003, Staged: n%5 == 1, Grow: n % 2})
	}
	slots := c09CbSlots()
	// every kind x every time: two callbacks of that kind in every list of the table (all slots at once)
	for ki, kind := range c09CbKinds {
		for tm := 0; tm < 4; tm++ {
			ts := c09CbBase(c09Item, r)
			var cbs []C09Cb
			for si, s := range slots {
				for k := 0; k < 2; k++ {
					cb := s
					cb.Kind, cb.Time = kind, tm
					cb.Act = (ki + tm + si + 5*k) % c09NActs
					cb.At = len(ts.Rows) + 1
					if tm == 0 {
						// add-time callbacks are registered before the rows they are to see
						cb.At = 0
						if s.Owner == "row" || s.Owner == "cell" || s.Owner == "hcell" {
							cb.At = s.Row + 1
						}
					}
					cbs = append(cbs, cb)
				}
			}
			add(ts, cbs)
		}
	}
	// every kind: three of a kind plus the very same value once more, in the lists walked for every cell, mixed times
	for ki, kind := range c09CbKinds {
		ts := c09CbBase(c09Item, r)
		after := len(ts.Rows) + 1
		var cbs []C09Cb
		for _, s := range []C09Cb{{Owner: "table", Target: 1, Time: 2}, {Owner: "table", Target: 0, Time: 1}, {Owner: "column", Col: 0, Target: 1, Time: 3},
			{Owner: "column", Col: 1, Target: 1, Time: 1}, {Owner: "row", Row: 2, Target: 1, Time: 0, At: 3}, {Owner: "table", Target: 2, Time: 0}, {Owner: "table", Target: 1, Time: 0}} {
			for k := 0; k < 4; k++ {
				cb := s
				cb.Kind = kind
				cb.Act = (ki + k) % c09NActs
				if s.Time != 0 {
					cb.At = after
				}
				if k == 0 || k == 3 {
					cb.Val = 1 + len(cbs)/4
				}
				cbs = append(cbs, cb)
			}
		}
		add(ts, cbs)
	}
	// one callback of every kind in one list
	for _, s := range []C09Cb{{Owner: "table", Target: 1, Time: 2}, {Owner: "wrapper", Target: 1, Time: 1}, {Owner: "row", Row: 0, Target: 1, Time: 3},
		{Owner: "column", Col: 2, Target: 1, Time: 1}, {Owner: "cell", Row: 0, Col: 2, Target: 0, Time: 2}, {Owner: "table", Target: 0, Time: 3},
		{Owner: "table", Target: 1, Time: 0}, {Owner: "column", Col: 0, Target: 0, Time: 1}} {
		ts := c09CbBase(c09ItemWide, r)
		var cbs []C09Cb
		for ki, kind := range c09CbKinds {
			cb := s
			cb.Kind = kind
			cb.Act = ki % c09NActs
			if s.Time != 0 {
				cb.At = len(ts.Rows) + 1
			}
			cbs = append(cbs, cb)
		}
		add(ts, cbs)
	}
	// random tables, random registrations at random points of the build
	nr := 150
	if tier == "thorough" {
		nr = 3000
	}
	for i := 0; i < nr; i++ {
		ts := randTable(r, 4, 3, c09ItemWide, []int{0, 1, 2, 2, 3})
		ts.Stages = nil
		if i%4 == 3 {
			enrichSpec(r, &ts, c09ItemWide)
			for k := range ts.Rows {
				ts.Rows[k].Twice = false
			}
			ts.Mutations = nil
		}
		var cbs []C09Cb
		for k := 1 + r.Intn(6); k > 0; k-- {
			cb := c09RandCb(r, ts)
			cbs = append(cbs, cb)
			if r.Pct(50) {
				// one more of the same kind in the same list
				cb2 := cb
				cb2.Act = r.Intn(c09NActs)
				if r.Pct(25) {
					cb2.Val, cbs[len(cbs)-1].Val = 9, 9
				}
				cbs = append(cbs, cb2)
			}
		}
		add(ts, cbs)
	}
	// items of uncomparable dynamic types (equal ones in several cells), no callbacks
	ni := 40
	if tier == "thorough" {
		ni = 1000
	}
	for i := 0; i < ni; i++ {
		ts := randTable(r, 4, 4, c09ItemWide, []int{0, 1, 2, 2, 3})
		if i%3 == 0 {
			enrichSpec(r, &ts, c09ItemWide)
		}
		add(ts, nil)
	}
	return out
}

// shrinking: drop one registration; simplify one
func c09ShrinkCbs(cbs []C09Cb) [][]C09Cb {
	var out [][]C09Cb
	if len(cbs) > 3 {
		out = append(out, append([]C09Cb{}, cbs[:len(cbs)/2]...), append([]C09Cb{}, cbs[len(cbs)/2:]...))
	}
	for i := range cbs {
		c := append(append([]C09Cb{}, cbs[:i]...), cbs[i+1:]...)
		out = append(out, c)
	}
	for i := range cbs {
		if cbs[i].Act != 0 {
			c := append([]C09Cb{}, cbs...)
			c[i].Act = 0
			out = append(out, c)
		}
	}
	return out
}

func c09CbsSize(cbs []C09Cb) int {
	n := 0
	for _, cb := range cbs {
		n += 3
		if cb.Act != 0 {
			n++
		}
		if cb.Val != 0 {
			n++
		}
	}
	return n
}
