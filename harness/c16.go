package main

// C16 - independent tables can be built and rendered concurrently.
//
// Two kinds of case (Run/C16Run.v):
//
//	{"kind":"facts"}  the shared-state inventory of the repository's source
//	                  (c16_srcfacts.go), judged by shared_ok in Coq; its verdict
//	                  goes into the correspondence bit.
//	{"kind":"run",…}  one concurrent run: this binary (built with -race by
//	                  check.py) re-executes itself as a child in worker mode
//	                  (argv[1] = "C16worker", input on stdin, result as JSON on
//	                  stdout, race reports on stderr).  In the child every
//	                  goroutine owns its tables and wrappers: it builds them
//	                  from its own specs and renders them in every format and
//	                  every registered decoration, while reader goroutines list
//	                  and look up decorations.
//
// "What the same table produces alone" is computed in one of two ways: the same
// programmes run alone in the same process (before the goroutines, or - cold
// cases - after them, the process not having touched the library before), or
// (pristine_reference, few goroutines) each programme runs in a fresh child
// process of its own (mode "solo"), whose outputs are handed to the concurrent
// child as the reference.  The second way is what exposes shared state that
// also corrupts sequential use within one process.
//
// The property oracle (ok) is: no race report, no crash, the goroutines did not
// get stuck (c16Watchdog), every registry read returned what it returns
// sequentially, every goroutine's outputs are byte-for-byte those of its solo
// run, and (cases with own_decorations, c16_own.go) every answer a goroutine
// got about the decorations it registered itself is the one it gets alone.  Outputs are compared in the child
// (byte-wise, the first differences are reported in full) and shipped to Coq
// as one 64-bit FNV-1a digest per goroutine and phase.

import (
	"bytes"
	"context"
	"encoding/json"
	"errors"
	"fmt"
	"hash/fnv"
	htmltemplate "html/template"
	"io"
	"math"
	"os"
	"os/exec"
	"runtime"
	"runtime/debug"
	"sort"
	"strings"
	"sync"
	"sync/atomic"
	"time"

	"go.pennock.tech/tabular"
	"go.pennock.tech/tabular/auto"
	"go.pennock.tech/tabular/csv"
	"go.pennock.tech/tabular/html"
	tjson "go.pennock.tech/tabular/json"
	"go.pennock.tech/tabular/markdown"
	"go.pennock.tech/tabular/texttable"
	"go.pennock.tech/tabular/texttable/decoration"
)

type C16Spec struct {
	Kind     string   `json:"kind"` // facts | run
	Seed     uint64   `json:"seed,omitempty"`
	G        int      `json:"goroutines,omitempty"`
	Readers  int      `json:"readers,omitempty"`
	Procs    int      `json:"gomaxprocs,omitempty"`
	Tables   int      `json:"tables,omitempty"` // per goroutine
	Iters    int      `json:"iters,omitempty"`
	MaxRows  int      `json:"max_rows,omitempty"`
	MaxCells int      `json:"max_cells,omitempty"`
	Formats  []string `json:"formats,omitempty"` // classes: csv html json markdown texttable auto; empty = all
	Full     bool     `json:"full,omitempty"`    // every table in every format; otherwise the six core renders plus a rotating share of decorations and auto styles
	Repeat   int      `json:"repeat,omitempty"`  // run the child up to this many times until a failure shows (shrinking)
	// ColdFirst: the concurrent phase runs before anything has been rendered in the
	// process AND before the process has touched the decoration registry at all
	// (the built-in names are taken as constants), so that the goroutines' first
	// actions - the same few lookups, at once - are the first ever in the process
	ColdFirst bool `json:"cold_first,omitempty"`
	// Pristine: "what the same table produces alone" is computed by running each
	// goroutine's programme in a fresh child process of its own (one per
	// goroutine) instead of in the process that also runs the goroutines
	Pristine bool `json:"pristine_reference,omitempty"`
	// Tall: the first Tall goroutines also own one table of c16TallRows rows
	// (renderers may treat big tables differently), rendered as texttable only
	Tall int `json:"tall_tables,omitempty"`
	// Storm: right after the prologue every goroutine goes Storm times round a
	// palette of c16Palette() distinct style spellings (starting at its own
	// offset) through auto.Wrap / auto.Render on tiny tables of its own; per
	// spelling, what came back (wrapper type; rendered text on every 8th turn)
	// is compared with what that exact spelling gives alone
	Storm int `json:"style_storm,omitempty"`
	// Own: every goroutine also registers decorations OF ITS OWN, under names
	// nobody else uses, while the others run (c16_own.go): one right after the
	// start barrier, Own-1 more after the prologue, and one for every other
	// table, which is then also rendered in its house style
	Own int `json:"own_decorations,omitempty"`
	// Kinds: every goroutine also owns Kinds tables whose cells hold items of
	// every Go kind, of types all goroutines have in common, zero and non-zero
	// values (c16_r6.go); rendered in the five core formats
	Kinds int `json:"kind_tables,omitempty"`
	// Hammer: every goroutine also renders one small table of its own Hammer
	// times in each core format class of Formats (all five when Formats is
	// empty): schedules dense in one renderer (c16_r6.go)
	Hammer int `json:"hammer,omitempty"`
	// StuckAfter: seconds without any render finishing after which the child
	// looks whether all its goroutines are blocked (default 3)
	StuckAfter int `json:"stuck_after_s,omitempty"`
}

// what the worker process reads on stdin
type c16WorkerIn struct {
	Spec C16Spec    `json:"spec"`
	Mode string     `json:"mode"`          // run | solo
	Solo int        `json:"solo"`          // solo: which goroutine's programme
	Ref  [][]string `json:"ref,omitempty"` // run: per goroutine, the outputs of its programme in a process of its own
}

type c16SoloOut struct {
	Outs   []string `json:"outs"`
	Labels []string `json:"labels"`
}

type c16Row struct {
	Seq1 uint64 `json:"seq1"`
	Seq2 uint64 `json:"seq2"`
	Conc uint64 `json:"conc"`
}

type C16Result struct {
	Rows        []c16Row       `json:"rows"`
	NMismatch   int            `json:"output_mismatches"`
	Mismatches  []string       `json:"first_mismatches,omitempty"`
	SeqDiffer   []string       `json:"sequential_renders_differ,omitempty"`
	RegReads    int64          `json:"registry_reads"`
	RegMismatch int64          `json:"registry_mismatches"`
	Renders     int            `json:"renders"` // concurrent renders
	Formats     []string       `json:"formats"`
	FormatsUsed int            `json:"formats_rendered"`
	Outcomes    map[string]int `json:"outcomes"` // ok / err / panic over the solo renders
	Procs       int            `json:"gomaxprocs"`
	Reference   string         `json:"reference"` // same-process | own-process-per-goroutine
	ErrTables   int            `json:"tables_recording_errors"`
	Notes       []string       `json:"notes,omitempty"`
	// decorations of the goroutines' own
	OwnOps      [][]c16OwnOp `json:"-"`
	OwnOpsCoq   []string     `json:"own_ops_coq,omitempty"` // per goroutine, as shipped to Coq (child to parent only)
	OwnOpsN     int          `json:"own_registry_operations_logged,omitempty"`
	OwnNames    int          `json:"own_names_registered,omitempty"`
	OwnLost     []string     `json:"own_registrations_lost,omitempty"`
	OwnMismatch int          `json:"own_answers_differing_from_alone,omitempty"`
	Stuck       string       `json:"stuck,omitempty"` // all goroutines blocked: the dump
}

// ---------------------------------------------------------------- generator of table specs

var c16Atoms = []string{"", "a", "é", "x|y", "<b>&amp;</b>", "line1\nline2", `"q",`, "日本語", "tab\there", " ", "0",
	"a rather longer cell text that widens its column", "*md* _x_ `c`", "\\", "<script>alert(1)</script>", "é", "multi\nline\ncell"}

// short texts that many goroutines' tables have in common, as plain strings
// and as single-line items that declare a display width of their own
// Two classes matter for width measurement and are both in the pool: texts with
// an emoji presentation selector (U+FE0F) and texts with East-Asian-ambiguous
// characters (accented Latin, ± ° × §, Greek, Cyrillic, box drawing).
var c16Shared = []string{"yes", "no", "-", "0", "n/a", "ok", "total", "12.5",
	"\u26a0\ufe0f degraded", "\u2714\ufe0f ok", "\u2764\ufe0f", "caf\u00e9", "\u00b15 \u00b0C", "na\u00efve \u00a74 \u00d72", "\u03b1\u03b2\u03b3", "\u041f\u0440\u0438\u0432\u0435\u0442", "\u2500\u2502\u253c"}

func c16Item(r *RNG) ItemSpec {
	switch r.Intn(16) {
	case 12, 13:
		return Str(pick(r, c16Shared))
	case 14:
		// String() + TerminalCellWidth(): declares more cells than the text measures
		t := pick(r, c16Shared)
		return ItemSpec{K: "obj", Mask: 17, S: []byte(t), W: len(t) + 1 + r.Intn(3)}
	case 15:
		if r.Pct(40) {
			// encoding/json refuses it part-way down the table; the text form is stable
			return ItemSpec{K: "float", F: math.Inf(1 - 2*r.Intn(2))}
		}
		return Str(pick(r, c16Shared))
	case 0:
		return ItemSpec{K: "int", I: int64(r.Intn(100000)) - 500}
	case 1:
		return ItemSpec{K: "float", F: float64(r.Intn(1000)) / 8}
	case 2:
		return ItemSpec{K: "bool", I: int64(r.Intn(2))}
	case 3:
		return ItemSpec{K: "nil"}
	case 4:
		return ItemSpec{K: "valstr", B: []byte(pick(r, c16Atoms))}
	case 5, 6:
		n := 1 + r.Intn(14)
		b := make([]byte, n)
		for i := range b {
			b[i] = byte(32 + r.Intn(95))
		}
		return Str(string(b))
	default:
		return Str(pick(r, c16Atoms))
	}
}

// c16Table: at least one cell in every row and header (the pinned tree panics
// on zero-cell rows in some renderers for reasons that are other properties'
// business), rows built by AddRowItems / NewRow+AddRow / NewRowSizedFor.
func c16Table(r *RNG, maxRows, maxCells int) TableSpec {
	if maxCells < 1 {
		maxCells = 1
	}
	h := 1 + r.Intn(maxCells)
	if r.Pct(8) {
		h = -1
	}
	n := r.Intn(maxRows + 1)
	rows := make([]int, n)
	for i := range rows {
		if r.Pct(12) {
			rows[i] = -1
		} else {
			rows[i] = 1 + r.Intn(maxCells)
		}
	}
	ts := shapeSpec(r, h, rows, c16Item, []int{0, 0, 1, 3})
	if r.Pct(50) {
		ts.Align = map[int]int{}
		for c := 0; c < maxCells; c++ {
			if r.Pct(50) {
				ts.Align[c] = 1 + r.Intn(3)
			}
		}
	}
	if r.Pct(25) {
		ts.Skip = map[int]int{r.Intn(maxCells): 1 + r.Intn(2)}
	}
	return ts
}

// c16Tab: a table spec plus the things that make a table record errors or
// meet failing destinations while it is rendered.
type c16Tab struct {
	TableSpec
	Tag    string // unique per (seed, goroutine, table): marks this table's own errors
	SepAdd bool   // a cell is added to a separator row (misuse: an error is recorded)
	FailCB bool   // a render-time callback that fails the first three times it runs
	FailW  int    // > 0: between renders, RenderTo into a writer that fails after (FailW-1)*17 bytes
}

func c16Programme(spec C16Spec, g int) []c16Tab {
	r := NewRNG(spec.Seed*1000003 + uint64(g)*7919 + 17)
	out := make([]c16Tab, spec.Tables)
	for k := range out {
		ct := c16Tab{TableSpec: c16Table(r, spec.MaxRows, spec.MaxCells), Tag: fmt.Sprintf("s%d-g%d-t%d", spec.Seed, g, k)}
		ct.SepAdd = r.Pct(25)
		ct.FailCB = r.Pct(25)
		if r.Pct(30) {
			ct.FailW = 1 + r.Intn(4)
		}
		out[k] = ct
	}
	return out
}

type c16FailCB struct {
	tag string
	n   int
}

func (cb *c16FailCB) UpdateProperties(tabular.PropertyOwner) error {
	if cb.n >= 3 {
		return nil
	}
	cb.n++
	return fmt.Errorf("c16:%s:callback#%d", cb.tag, cb.n)
}

type c16FailWriter struct{ left int }

func (w *c16FailWriter) Write(p []byte) (int, error) {
	if len(p) <= w.left {
		w.left -= len(p)
		return len(p), nil
	}
	n := w.left
	w.left = 0
	return n, errors.New("c16: destination full")
}

// c16Errors: how many errors the table (and its rows) hold and which: errors
// made by this harness carry their table's tag, the library's own are only
// counted as such (their wording is not compared).
func c16Errors(t tabular.Table) string {
	name := func(e error) string {
		if e == nil {
			return "<nil>"
		}
		m := e.Error()
		if i := strings.Index(m, "c16:"); i >= 0 {
			return m[i:]
		}
		return "library"
	}
	var sb strings.Builder
	es := t.Errors()
	fmt.Fprintf(&sb, "errors\x00table=%d", len(es))
	for _, e := range es {
		sb.WriteString(" " + name(e))
	}
	for i, r := range t.AllRows() {
		if re := r.Errors(); len(re) > 0 {
			fmt.Fprintf(&sb, " row%d=%d", i, len(re))
			for _, e := range re {
				sb.WriteString(" " + name(e))
			}
		}
	}
	return sb.String()
}

// c16FailRender: RenderTo of t into a destination that fails; only whether it
// failed is kept.
func c16FailRender(t tabular.Table, which, budget int) string {
	o := capture(func() (string, error) {
		w := &c16FailWriter{left: budget}
		switch which % 5 {
		case 0:
			return "", tjson.Wrap(t).RenderTo(w)
		case 1:
			return "", csv.Wrap(t).RenderTo(w)
		case 2:
			return "", markdown.Wrap(t).RenderTo(w)
		case 3:
			return "", html.Wrap(t).RenderTo(w)
		default:
			return "", texttable.RenderTo(t, w)
		}
	})
	return "failing-writer\x00" + o.Kind
}

// the documented built-in decoration names (texttable/decoration: D_* constants)
var c16Builtin = []string{decoration.D_ASCII_SIMPLE, decoration.D_NONE, decoration.D_UTF8_DOUBLE, decoration.D_UTF8_HEAVY, decoration.D_UTF8_LIGHT, decoration.D_UTF8_LIGHT_CURVED}

func c16BuiltinStyles() []string {
	l := append([]string{"csv", "html", "json", "markdown"}, c16Builtin...)
	sort.Strings(l)
	return l
}

// c16Prologue: the first things every goroutine does after the start barrier -
// the same lookups, in the same order, at the same time - and then renders of
// one tiny table in each of those decorations.
func c16Prologue(names []string) (out, labels []string) {
	for _, nm := range names {
		d := decoration.Named(nm)
		out = append(out, fmt.Sprintf("named\x00unknown=%v", d == decoration.EmptyDecoration))
		labels = append(labels, "prologue Named("+nm+")")
	}
	t := tabular.New()
	t.AddHeaders("h")
	t.AddRowItems("v")
	for _, nm := range names {
		out = append(out, c16Render(t, "auto:"+nm))
		labels = append(labels, "prologue format auto:"+nm)
	}
	return out, labels
}

// ---------------------------------------------------------------- rendering

// c16Pick: the formats table k of goroutine g is rendered in.  With Full,
// all of them; otherwise the core renders (csv, json, markdown, both html
// forms, default texttable, the unknown decoration) and a share of the named
// decorations and auto styles that rotates with (g, k), so that one run with
// eight or more goroutines still renders every registered decoration and
// every listed style concurrently several times.
func c16Pick(spec C16Spec, all []string, g, k int) []string {
	if spec.Full {
		return all
	}
	var out []string
	nd, na := 0, 0
	rot := g + 3*k
	for _, f := range all {
		switch {
		case strings.HasPrefix(f, "texttable:") && f != "texttable:no-such-decoration", strings.HasPrefix(f, "texttable-decor:"):
			if (nd+rot)%3 == 0 {
				out = append(out, f)
			}
			nd++
		case strings.HasPrefix(f, "auto:"):
			if (na+rot)%4 == 0 {
				out = append(out, f)
			}
			na++
		default:
			out = append(out, f)
		}
	}
	return out
}

func c16Formats(spec C16Spec, names, styles []string) []string {
	want := map[string]bool{}
	for _, f := range spec.Formats {
		want[f] = true
	}
	all := len(want) == 0
	var fs []string
	if all || want["csv"] {
		fs = append(fs, "csv")
	}
	if all || want["json"] {
		fs = append(fs, "json")
	}
	if all || want["markdown"] {
		fs = append(fs, "markdown")
	}
	if all || want["html"] {
		fs = append(fs, "html", "html+attrs")
	}
	if all || want["texttable"] {
		fs = append(fs, "texttable")
		for _, n := range names {
			fs = append(fs, "texttable:"+n)
		}
		if len(names) > 0 {
			fs = append(fs, "texttable-decor:"+names[len(names)-1])
		}
		fs = append(fs, "texttable:no-such-decoration")
	}
	if all || want["auto"] {
		for _, s := range styles {
			fs = append(fs, "auto:"+s)
		}
		if len(names) > 0 {
			fs = append(fs, "auto:texttable."+names[0], "auto:TextTable")
		}
	}
	return fs
}

type discardCounter struct{ n int }

func (d *discardCounter) Write(p []byte) (int, error) { d.n += len(p); return len(p), nil }

// c16Render renders t (owned by the calling goroutine) in one format and
// returns outcome kind + bytes.  Error messages are not part of it.
func c16Render(t tabular.Table, f string) string {
	defer c16Tick()
	o := capture(func() (string, error) {
		switch {
		case f == "csv":
			return csv.Wrap(t).Render()
		case f == "json":
			return tjson.Wrap(t).Render()
		case f == "markdown":
			return markdown.Wrap(t).Render()
		case f == "html":
			return html.Wrap(t).Render()
		case f == "html+attrs":
			ht := html.Wrap(t)
			ht.Id, ht.Class, ht.Caption, ht.TemplateName = "id<1>", `c1 "c2"`, "cap & <tion>", "tpl"
			ctr := new(int)
			ht.SetRowClassGenerator(func(rowNum int, ctx interface{}) htmltemplate.HTMLAttr {
				c := ctx.(*int)
				*c++
				return htmltemplate.HTMLAttr(fmt.Sprintf("r%d-n%d", rowNum, *c))
			}, ctr)
			s1, err := ht.Render()
			if err != nil {
				return s1, err
			}
			// the second render goes through the wrapper's cached template
			var b bytes.Buffer
			err = ht.RenderTo(&b)
			return s1 + "\x00" + b.String(), err
		case f == "texttable":
			tt := texttable.Wrap(t)
			s, err := tt.Render()
			if err != nil {
				return s, err
			}
			var d discardCounter
			err = texttable.RenderTo(t, &d)
			return fmt.Sprintf("%s\x00%d", s, d.n), err
		case strings.HasPrefix(f, "texttable:"):
			tt := texttable.Wrap(t)
			tt.SetDecorationNamed(f[len("texttable:"):]) // an unknown name must make Render fail
			return tt.Render()
		case strings.HasPrefix(f, "texttable-decor:"):
			return texttable.Wrap(t).SetDecoration(decoration.Named(f[len("texttable-decor:"):])).Render()
		case strings.HasPrefix(f, "auto:"):
			return auto.Render(t, f[len("auto:"):])
		}
		panic("unknown format " + f)
	})
	return o.Kind + "\x00" + string(o.Out)
}

const c16TallRows = 1100

// c16TallTable: three columns whose cell widths vary and grow down the table,
// a separator every 97 rows.
func c16TallTable(g int) tabular.Table {
	t := tabular.New()
	t.AddHeaders("n", "name", "note")
	for i := 0; i < c16TallRows; i++ {
		if i%97 == 96 {
			t.AddSeparator()
			continue
		}
		t.AddRowItems(i*(g+3), strings.Repeat("x", (i*5)%29+i/64), strings.Repeat("\u00e9-", (i*7)%11+i/128))
	}
	return t
}

func c16WantsDecorations(spec C16Spec) bool {
	if len(spec.Formats) == 0 {
		return true
	}
	for _, f := range spec.Formats {
		if f == "texttable" || f == "auto" {
			return true
		}
	}
	return false
}

// c16Palette: many distinct spellings of the styles auto accepts - the five
// formats in several capitalisations and with ignored trailing sections, the
// built-in decorations bare and as texttable.<name>, and two that name nothing.
func c16Palette(names []string) []string {
	p := []string{"csv", "CSV", "Csv", "csv.x", "json", "JSON", "Json", "JSON.x", "html", "HTML", "Html", "html.y",
		"markdown", "Markdown", "MARKDOWN", "Markdown.y", "texttable", "TextTable", "TEXTTABLE", "Utf8-Light", "texttable.no-such"}
	for i, n := range names {
		p = append(p, n, "texttable."+n)
		if i%2 == 0 {
			p = append(p, "TextTable."+n)
		}
	}
	return p
}

// c16Storm: one record per spelling - the distinct things it produced over all
// turns, with counts.  Alone every spelling produces one thing every time.
func c16Storm(spec C16Spec, g int, names []string) (out, labels []string) {
	pal := c16Palette(names)
	seen := make([]map[string]int, len(pal))
	for i := range seen {
		seen[i] = map[string]int{}
	}
	for turn := 0; turn < spec.Storm; turn++ {
		for j := range pal {
			i := (j + g*7 + turn) % len(pal)
			o := capture(func() (string, error) {
				t := tabular.New()
				if (turn+j)%8 != 0 {
					return fmt.Sprintf("%T", auto.Wrap(t, pal[i])), nil
				}
				t.AddHeaders("h")
				t.AddRowItems("v")
				w := auto.Wrap(t, pal[i])
				s, err := w.Render()
				return fmt.Sprintf("%T\x00%s", w, s), err
			})
			seen[i][o.Kind+"\x00"+string(o.Out)]++
			c16Tick()
		}
	}
	for i, st := range pal {
		var keys []string
		for k := range seen[i] {
			keys = append(keys, k)
		}
		sort.Strings(keys)
		var sb strings.Builder
		sb.WriteString("storm")
		for _, k := range keys {
			fmt.Fprintf(&sb, "\x00%dx %s", seen[i][k], k)
		}
		out = append(out, sb.String())
		labels = append(labels, "style storm, format auto:"+st)
	}
	return out, labels
}

func c16RunProgramme(spec C16Spec, g int, prog []c16Tab, names, formats []string, salt string, log *c16OwnLog) (out, labels []string) {
	var own *c16Own
	var tiny tabular.Table
	if spec.Own > 0 {
		own = &c16Own{seed: spec.Seed, g: g, salt: salt, log: log}
		tiny = c16OwnTinyTable(g)
		// the very first thing after the start barrier: every goroutine registers
		out, labels = own.round(tiny, 0)
	}
	if c16WantsDecorations(spec) {
		o, l := c16Prologue(names)
		out, labels = append(out, o...), append(labels, l...)
		if spec.Storm > 0 {
			o, l := c16Storm(spec, g, names)
			out, labels = append(out, o...), append(labels, l...)
		}
	}
	for i := 1; i < spec.Own; i++ {
		o, l := own.round(tiny, i)
		out, labels = append(out, o...), append(labels, l...)
	}
	for k, ct := range prog {
		t := tabular.New()
		ct.Build(t)
		house := ""
		if own != nil && (k+g)%2 == 0 {
			// this table gets a house style, registered before its first render
			house = own.fresh()
			d := own.register(house, 2*spec.Own+k)
			out = append(out, own.lookup(house, d))
			labels = append(labels, fmt.Sprintf("table %d own name just registered: Named", k))
		}
		if ct.SepAdd {
			t.AddSeparator()
			rows := t.AllRows()
			rows[len(rows)-1].Add(tabular.NewCell("stray"))
		}
		if ct.FailCB {
			t.RegisterPropertyCallback(t, tabular.CB_AT_RENDER_POSTCELL, tabular.CB_ON_ITSELF, &c16FailCB{tag: ct.Tag})
		}
		for i, f := range c16Pick(spec, formats, g, k) {
			out = append(out, c16Render(t, f))
			labels = append(labels, fmt.Sprintf("table %d format %s", k, f))
			if i == 0 {
				out = append(out, c16Errors(t))
				labels = append(labels, fmt.Sprintf("table %d errors held after the first render", k))
			}
			if ct.FailW > 0 && i%3 == 1 {
				out = append(out, c16FailRender(t, i/3+k, (ct.FailW-1)*17))
				labels = append(labels, fmt.Sprintf("table %d RenderTo a failing destination (#%d)", k, i/3))
			}
		}
		if house != "" {
			for _, f := range []string{"texttable:", "auto:", "auto:texttable."} {
				out = append(out, c16Render(t, f+house))
				labels = append(labels, fmt.Sprintf("table %d format %s<its own house style>", k, f))
			}
			out = append(out, c16Render(t, "auto:"+house+".x"))
			labels = append(labels, fmt.Sprintf("table %d format auto:<its own house style>.x", k))
		}
		out = append(out, c16Errors(t))
		labels = append(labels, fmt.Sprintf("table %d errors held at the end", k))
	}
	if spec.Kinds > 0 {
		o, l := c16KindTables(spec, g)
		out, labels = append(out, o...), append(labels, l...)
	}
	if spec.Hammer > 0 {
		o, l := c16Hammer(spec, g, strings.HasPrefix(salt, "conc"))
		out, labels = append(out, o...), append(labels, l...)
	}
	if g < spec.Tall && c16WantsDecorations(spec) {
		t := c16TallTable(g)
		for _, f := range []string{"texttable:" + names[g%len(names)], "auto:" + names[(g+1)%len(names)]} {
			out = append(out, c16Render(t, f))
			labels = append(labels, fmt.Sprintf("tall table (%d rows) format %s", c16TallRows, f))
		}
	}
	return out, labels
}

func c16Digest(outs []string, times int) uint64 {
	h := fnv.New64a()
	for i := 0; i < times; i++ {
		for _, s := range outs {
			fmt.Fprintf(h, "%d:", len(s))
			io.WriteString(h, s)
		}
	}
	return h.Sum64()
}

func at(xs []string, i int) string {
	if i < len(xs) {
		return xs[i]
	}
	return "<missing>"
}

func clip(s string, n int) string {
	if len(s) > n {
		return s[:n] + "…"
	}
	return s
}

// ---------------------------------------------------------------- the child process

func c16Worker() {
	var in c16WorkerIn
	if err := json.NewDecoder(os.Stdin).Decode(&in); err != nil {
		fmt.Fprintln(os.Stderr, "C16worker: bad input:", err)
		os.Exit(3)
	}
	spec := in.Spec
	// In a cold case nothing of the library runs before the goroutines do: the
	// built-in names are constants here, not read from the registry.
	var names, styles []string
	if spec.ColdFirst {
		names, styles = c16Builtin, c16BuiltinStyles()
	} else {
		names, styles = decoration.RegisteredDecorationNames(), auto.ListStyles()
	}
	formats := c16Formats(spec, names, styles)

	if in.Mode == "solo" {
		// one goroutine's programme, alone in this process
		outs, labels := c16RunProgramme(spec, in.Solo, c16Programme(spec, in.Solo), names, formats, "solo", nil)
		os.Stdout.Write(mustJSON(c16SoloOut{Outs: outs, Labels: labels}))
		return
	}

	res := C16Result{Formats: formats, Outcomes: map[string]int{}, Procs: runtime.GOMAXPROCS(0), Reference: "same-process"}
	progs := make([][]c16Tab, spec.G)
	for g := 0; g < spec.G; g++ {
		progs[g] = c16Programme(spec, g)
		for _, ct := range progs[g] {
			if ct.SepAdd || ct.FailCB {
				res.ErrTables++
			}
		}
	}
	pristine := len(in.Ref) == spec.G
	if pristine {
		res.Reference = "own-process-per-goroutine"
	}
	seq1 := make([][]string, spec.G)
	labels := make([][]string, spec.G)
	res.Rows = make([]c16Row, spec.G)
	rendered := map[string]bool{}
	// solo runs in this process: twice; with a reference from processes of
	// their own, once, and seq1 is that reference
	soloPhase := func() {
		for g := 0; g < spec.G; g++ {
			var seq2 []string
			if pristine {
				seq1[g] = in.Ref[g]
				seq2, labels[g] = c16RunProgramme(spec, g, progs[g], names, formats, "alone", nil)
			} else {
				seq1[g], labels[g] = c16RunProgramme(spec, g, progs[g], names, formats, "alone", nil)
				seq2, _ = c16RunProgramme(spec, g, progs[g], names, formats, "again", nil)
			}
			res.Rows[g].Seq1 = c16Digest(seq1[g], spec.Iters)
			res.Rows[g].Seq2 = c16Digest(seq2, spec.Iters)
			res.Renders += len(seq2) * spec.Iters
			if len(seq1[g]) != len(seq2) && len(res.SeqDiffer) < 5 {
				res.SeqDiffer = append(res.SeqDiffer, fmt.Sprintf("goroutine %d: %d outputs in the reference, %d in this process", g, len(seq1[g]), len(seq2)))
			}
			for i := range seq2 {
				if j := strings.IndexByte(seq2[i], 0); j >= 0 {
					if k := seq2[i][:j]; k == "ok" || k == "err" || k == "panic" {
						res.Outcomes[k]++
					}
				}
				if j := strings.Index(labels[g][i], "format "); j >= 0 {
					rendered[labels[g][i][j+7:]] = true
				}
				if at(seq1[g], i) != seq2[i] && len(res.SeqDiffer) < 5 {
					res.SeqDiffer = append(res.SeqDiffer, fmt.Sprintf("goroutine %d %s: first (%s) %q second (this process) %q",
						g, labels[g][i], res.Reference, clip(at(seq1[g], i), 300), clip(seq2[i], 300)))
				}
			}
		}
		res.FormatsUsed = len(rendered)
	}

	// concurrent run; the outputs are kept and compared once both phases are done
	var wg, rwg sync.WaitGroup
	start := make(chan struct{})
	var done int32
	conc := make([][][]string, spec.G)
	ownLogs := make([]*c16OwnLog, spec.G)
	for g := 0; g < spec.G; g++ {
		wg.Add(1)
		ownLogs[g] = newC16OwnLog(g)
		go func(g int) {
			defer wg.Done()
			<-start
			for it := 0; it < spec.Iters; it++ {
				outs, _ := c16RunProgramme(spec, g, progs[g], names, formats, fmt.Sprintf("conc%d", it), ownLogs[g])
				conc[g] = append(conc[g], outs)
			}
		}(g)
	}
	compare := func() {
		for g := 0; g < spec.G; g++ {
			var all []string
			for it, outs := range conc[g] {
				n := len(seq1[g])
				if len(outs) > n {
					n = len(outs)
				}
				for i := 0; i < n; i++ {
					if at(outs, i) != at(seq1[g], i) {
						res.NMismatch++
						if len(res.Mismatches) < 6 {
							res.Mismatches = append(res.Mismatches, fmt.Sprintf("goroutine %d iteration %d %s: alone (%s) %q concurrently %q",
								g, it, at(labels[g], i), res.Reference, clip(at(seq1[g], i), 400), clip(at(outs, i), 400)))
						}
					}
				}
				all = append(all, outs...)
			}
			res.Rows[g].Conc = c16Digest(all, 1)
		}
	}
	// Half of the cases run the concurrent phase FIRST, in a process that has
	// rendered nothing yet: a lazily filled package-level cache is then written
	// concurrently (the solo phase would otherwise have warmed it up and turned
	// every concurrent access into a read).
	if !spec.ColdFirst {
		soloPhase()
	}
	// Registry readers.  Warm: they compare with what this process read before
	// the goroutines started.  Cold: nothing was read before; every reader's own
	// first answers are kept and checked, after the join, against what the
	// registry says then (nothing is registered meanwhile, so all must agree).
	var warmDecors []decoration.Decoration
	if !spec.ColdFirst {
		warmDecors = make([]decoration.Decoration, len(names))
		for i, n := range names {
			warmDecors[i] = decoration.Named(n)
		}
	}
	type firstSeen struct {
		listing string
		styles  string
		decors  []decoration.Decoration
	}
	firsts := make([]firstSeen, spec.Readers)
	for k := 0; k < spec.Readers; k++ {
		rwg.Add(1)
		go func(k int) {
			defer rwg.Done()
			<-start
			expectL, expectS, expectD := strings.Join(names, "\x00"), strings.Join(styles, "\x00"), warmDecors
			var prevL, prevS []string
			for n := 0; atomic.LoadInt32(&done) == 0 || n < 3; n++ {
				bad := int64(0)
				var ds []decoration.Decoration
				if k%2 == 0 { // half of the readers start with the lookups, half with the listing
					for _, nm := range names {
						ds = append(ds, decoration.Named(nm))
					}
				}
				l := strings.Join(decoration.RegisteredDecorationNames(), "\x00")
				if k%2 == 1 {
					for _, nm := range names {
						ds = append(ds, decoration.Named(nm))
					}
				}
				st := ""
				if k%2 == 1 {
					st = strings.Join(auto.ListStyles(), "\x00")
				}
				if spec.ColdFirst && n == 0 {
					firsts[k] = firstSeen{l, st, ds}
					expectL, expectS, expectD = l, st, ds
				}
				if spec.Own > 0 {
					// names are being registered meanwhile: the listings may only grow,
					// and only by the goroutines' own names
					curL := strings.Split(l, "\x00")
					if !c16ListingGrows(prevL, curL, names) {
						bad++
					}
					prevL = curL
					if k%2 == 1 {
						curS := strings.Split(st, "\x00")
						if !c16ListingGrows(prevS, curS, styles) {
							bad++
						}
						prevS = curS
					}
					l, st = expectL, expectS
				}
				if l != expectL {
					bad++
				}
				for i := range ds {
					if ds[i] != expectD[i] {
						bad++
					}
				}
				if decoration.Named("no-such-decoration") != decoration.EmptyDecoration {
					bad++
				}
				if k%2 == 1 && st != expectS {
					bad++
				}
				atomic.AddInt64(&res.RegReads, int64(len(names)+2))
				atomic.AddInt64(&res.RegMismatch, bad)
				runtime.Gosched()
			}
		}(k)
	}
	var joined int32
	go c16Watchdog(spec, &joined)
	close(start)
	wg.Wait()
	atomic.StoreInt32(&done, 1)
	rwg.Wait()
	atomic.StoreInt32(&joined, 1)
	// the goroutines' own decorations: after the join every name holds what its
	// goroutine registered last and is listed; the logs go to Coq
	if spec.Own > 0 {
		listed := map[string]bool{}
		for _, n := range decoration.RegisteredDecorationNames() {
			listed[n] = true
		}
		res.OwnOps = make([][]c16OwnOp, spec.G)
		for g, lg := range ownLogs {
			res.OwnOps[g] = lg.ops
			res.OwnNames += len(lg.order)
			for _, n := range lg.order {
				what := ""
				if d := decoration.Named(n); d == decoration.EmptyDecoration {
					what = "is unknown"
				} else if d != lg.final[n] {
					what = "holds another decoration than the one registered last"
				} else if !listed[n] {
					what = "is not listed"
				}
				if what != "" {
					res.RegMismatch++
					if len(res.OwnLost) < 6 {
						res.OwnLost = append(res.OwnLost, fmt.Sprintf("after the join, the name %q registered by goroutine %d %s", n, g, what))
					}
				}
			}
			res.OwnMismatch += c16OwnJudge(lg.ops)
			res.OwnOpsCoq = append(res.OwnOpsCoq, c16OwnOpsCoq(lg.ops))
			res.OwnOpsN += len(lg.ops)
		}
	}
	if spec.ColdFirst {
		soloPhase()
		finalL, finalS := strings.Join(decoration.RegisteredDecorationNames(), "\x00"), strings.Join(auto.ListStyles(), "\x00")
		if spec.Own > 0 {
			// the listings have grown by the goroutines' own names; the readers'
			// first answers are compared on the built-in names
			finalL, finalS = c16OnlyBase(finalL, names), c16OnlyBase(finalS, styles)
			for k := range firsts {
				firsts[k].listing, firsts[k].styles = c16OnlyBase(firsts[k].listing, names), c16OnlyBase(firsts[k].styles, styles)
			}
		}
		for k, f := range firsts {
			if f.listing != finalL || (k%2 == 1 && f.styles != finalS) {
				res.RegMismatch++
			}
			for i, nm := range names {
				if i < len(f.decors) && f.decors[i] != decoration.Named(nm) {
					res.RegMismatch++
				}
			}
		}
		if finalL != strings.Join(names, "\x00") {
			res.Notes = append(res.Notes, fmt.Sprintf("the registry lists %q, the cold cases use the documented built-in names %q", strings.Split(finalL, "\x00"), names))
		}
	} else if now := strings.Join(decoration.RegisteredDecorationNames(), "\x00"); (spec.Own == 0 && now != strings.Join(names, "\x00")) || c16OnlyBase(now, names) != strings.Join(names, "\x00") {
		res.RegMismatch++
	}
	compare()
	os.Stdout.Write(mustJSON(res))
}

func init() {
	if len(os.Args) >= 2 && os.Args[1] == "C16worker" {
		c16Worker()
		os.Exit(0)
	}
}

// ---------------------------------------------------------------- the parent side

func raceEnabled() bool {
	if bi, ok := debug.ReadBuildInfo(); ok {
		for _, s := range bi.Settings {
			if s.Key == "-race" && s.Value == "true" {
				return true
			}
		}
	}
	return false
}

type c16Obs struct {
	Sig        string      `json:"sig,omitempty"`
	Race       bool        `json:"race"`
	Crashed    bool        `json:"crashed"`
	ExitCode   int         `json:"exit_code"`
	Report     string      `json:"report,omitempty"` // race detector / runtime output of the child
	Stuck      bool        `json:"stuck"`
	Result     *C16Result  `json:"result,omitempty"`
	Attempts   int         `json:"attempts"`
	Facts      interface{} `json:"facts,omitempty"`
	Offending  []SrcAcc    `json:"offending,omitempty"`
	RaceDetect bool        `json:"race_detector"`
}

// c16Exec runs this binary once more as a worker process.
func c16Exec(in c16WorkerIn, procs int) (stdout []byte, stderr string, exit int) {
	ctx, cancel := context.WithTimeout(context.Background(), 10*time.Minute)
	defer cancel()
	cmd := exec.CommandContext(ctx, os.Args[0], "C16worker")
	env := []string{}
	for _, e := range os.Environ() {
		if !strings.HasPrefix(e, "GORACE=") && !strings.HasPrefix(e, "GOMAXPROCS=") {
			env = append(env, e)
		}
	}
	env = append(env, "GORACE=halt_on_error=0 exitcode=66 atexit_sleep_ms=0", fmt.Sprintf("GOMAXPROCS=%d", procs))
	cmd.Env = env
	cmd.Stdin = bytes.NewReader(mustJSON(in))
	var so, se bytes.Buffer
	cmd.Stdout, cmd.Stderr = &so, &se
	if err := cmd.Run(); err != nil {
		if ee, ok := err.(*exec.ExitError); ok {
			exit = ee.ExitCode()
		} else {
			panic(fmt.Sprintf("C16: cannot run the worker process: %v", err))
		}
	}
	if exit == 3 {
		panic("C16: worker rejected its input: " + se.String())
	}
	return so.Bytes(), se.String(), exit
}

// c16PristineRefs: every goroutine's programme in a fresh process of its own
// (a few at a time).  A race report from such a process (the library's own
// goroutines inside one render) is a finding like any other; a process that
// dies without output is reported as a crash.
func c16PristineRefs(spec C16Spec) (refs [][]string, raceReport, crashReport string) {
	refs = make([][]string, spec.G)
	races := make([]string, spec.G)
	fails := make([]string, spec.G)
	var wg sync.WaitGroup
	sem := make(chan struct{}, 8)
	for g := 0; g < spec.G; g++ {
		wg.Add(1)
		go func(g int) {
			defer wg.Done()
			sem <- struct{}{}
			defer func() { <-sem }()
			procs := 2
			if spec.Tall > 0 && spec.Procs > procs {
				procs = spec.Procs
			}
			so, se, exit := c16Exec(c16WorkerIn{Spec: spec, Mode: "solo", Solo: g}, procs)
			var out c16SoloOut
			if strings.Contains(se, "WARNING: DATA RACE") || exit == 66 {
				races[g] = fmt.Sprintf("goroutine %d's programme ALONE in a process of its own:\n%s", g, se)
			}
			if json.Unmarshal(so, &out) != nil || len(out.Outs) == 0 || (exit != 0 && exit != 66) {
				fails[g] = fmt.Sprintf("goroutine %d's programme alone in a process of its own: exit %d: %s", g, exit, clip(se, 1500))
				return
			}
			refs[g] = out.Outs
		}(g)
	}
	wg.Wait()
	for g := range refs {
		if races[g] != "" && raceReport == "" {
			raceReport = races[g]
		}
		if fails[g] != "" && crashReport == "" {
			crashReport = fails[g]
		}
	}
	return refs, raceReport, crashReport
}

func c16Child(spec C16Spec) (obs c16Obs) {
	in := c16WorkerIn{Spec: spec, Mode: "run"}
	soloRace, soloCrash := "", ""
	if spec.Pristine {
		in.Ref, soloRace, soloCrash = c16PristineRefs(spec)
		if soloCrash != "" {
			return c16Obs{Crashed: true, Race: soloRace != "", Report: clip(soloCrash+"\n"+soloRace, 6000)}
		}
	}
	so, stderr, exit := c16Exec(in, spec.Procs)
	obs.ExitCode = exit
	obs.Race = strings.Contains(stderr, "WARNING: DATA RACE") || obs.ExitCode == 66 || soloRace != ""
	var res C16Result
	if json.Unmarshal(so, &res) == nil && len(res.Rows) > 0 {
		obs.Result = &res
	}
	obs.Stuck = obs.ExitCode == 67 && obs.Result != nil && obs.Result.Stuck != ""
	obs.Crashed = obs.Result == nil || (obs.ExitCode != 0 && obs.ExitCode != 66 && !obs.Stuck)
	if obs.Race || obs.Crashed {
		obs.Report = clip(soloRace+stderr, 6000)
	}
	if obs.Stuck {
		obs.Report = clip(obs.Result.Stuck, 6000)
		obs.Result.Stuck = "see report"
	}
	return obs
}

func c16Sig(o c16Obs) string {
	switch {
	case o.Race:
		return "data-race"
	case o.Crashed:
		return "worker-crashed"
	case o.Stuck:
		return "goroutines-stuck"
	case o.Result != nil && (o.Result.OwnMismatch > 0 || len(o.Result.OwnLost) > 0):
		return "own-registration-lost"
	case o.Result != nil && o.Result.NMismatch > 0:
		return "concurrent-output-differs"
	case o.Result != nil && o.Result.RegMismatch > 0:
		return "registry-read-differs"
	case o.Result != nil && len(o.Result.SeqDiffer) > 0:
		return "sequential-renders-differ"
	}
	return ""
}

func c16RunCase(spec C16Spec) CaseOut {
	if spec.G < 1 || spec.Tables < 1 || spec.Iters < 1 {
		panic("C16: a run needs goroutines, tables and iters >= 1")
	}
	if spec.Procs < 1 {
		spec.Procs = 1
	}
	rep := spec.Repeat
	if rep < 1 {
		rep = 1
	}
	var obs c16Obs
	for a := 1; a <= rep; a++ {
		obs = c16Child(spec)
		obs.Attempts = a
		if c16Sig(obs) != "" {
			break
		}
	}
	obs.Sig = c16Sig(obs)
	obs.RaceDetect = raceEnabled()
	var rows []string
	regmis, renders := 0, 0
	outcomeTags := []string{}
	if obs.Result != nil {
		for _, r := range obs.Result.Rows {
			rows = append(rows, fmt.Sprintf("(%s, %s, %s)", cqN(r.Seq1), cqN(r.Seq2), cqN(r.Conc)))
		}
		regmis = int(obs.Result.RegMismatch)
		renders = obs.Result.Renders
		for k := range obs.Result.Outcomes {
			outcomeTags = append(outcomeTags, "solo-outcome="+k)
		}
	}
	owns := "[]"
	if obs.Result != nil && len(obs.Result.OwnOpsCoq) > 0 {
		owns = "[" + strings.Join(obs.Result.OwnOpsCoq, ";\n   ") + "]%N"
		obs.Result.OwnOpsCoq = nil
	}
	term := fmt.Sprintf("(CRun %s %s %s %s %s %s %s)", cqNat(spec.G), cqBool(obs.Race), cqBool(obs.Crashed), cqBool(obs.Stuck), cqNat(regmis), cqList(rows), owns)
	fclass := "all-classes"
	if len(spec.Formats) > 0 {
		fclass = strings.Join(spec.Formats, "+")
	}
	tags := append([]string{"kind=run", fmt.Sprintf("goroutines=%d", spec.G), fmt.Sprintf("gomaxprocs=%d", spec.Procs),
		fmt.Sprintf("readers=%d", spec.Readers), fmt.Sprintf("tables-per-goroutine=%d", spec.Tables), "formats=" + fclass,
		fmt.Sprintf("every-table-in-every-format=%v", spec.Full), fmt.Sprintf("cold-start=%v", spec.ColdFirst), fmt.Sprintf("reference-in-own-process=%v", spec.Pristine),
		fmt.Sprintf("tall-tables=%d", spec.Tall), fmt.Sprintf("style-storm=%v", spec.Storm > 0), fmt.Sprintf("own-decorations-registered-concurrently=%v", spec.Own > 0),
		fmt.Sprintf("items-of-every-kind=%v", spec.Kinds > 0), fmt.Sprintf("dense-in-one-renderer=%v", spec.Hammer > 0), fmt.Sprintf("race=%v", obs.Race), fmt.Sprintf("race-detector=%v", obs.RaceDetect)}, outcomeTags...)
	if obs.Result != nil && obs.Result.ErrTables > 0 {
		tags = append(tags, "tables-recording-errors")
	}
	return CaseOut{
		Coq:        term,
		Desc:       obs,
		Size:       spec.G*spec.Tables*spec.Iters*(1+spec.MaxRows*spec.MaxCells) + spec.Readers + spec.G*spec.Own + spec.G*spec.Iters*(4*spec.Kinds+spec.Hammer/8),
		Tags:       tags,
		Key:        fmt.Sprintf("%d/%d/%d/%d/%d/%d/%s/%v/%v/%s", spec.Seed, spec.G, spec.Procs, spec.Tables, spec.Iters, spec.Readers, fclass, spec.ColdFirst, spec.Pristine, obs.Sig) + fmt.Sprintf("/tall%d/storm%d/own%d/kinds%d/hammer%d", spec.Tall, spec.Storm, spec.Own, spec.Kinds, spec.Hammer),
		Nontrivial: spec.G >= 2 && renders > 0,
	}
}

// The walk takes a few seconds (the standard library is type-checked from
// source); when cases are generated it is started in the background and runs
// while the parent waits for its worker processes.
type c16FactsResult struct {
	f   *SrcFacts
	err error
}

var c16FactsCh chan c16FactsResult

func c16FactsNow() c16FactsResult {
	repo, err := repoUnderTest()
	if err != nil {
		return c16FactsResult{nil, err}
	}
	f, err := collectSrcFacts(repo)
	if err != nil {
		err = fmt.Errorf("source inventory of %s failed: %v", repo, err)
	}
	return c16FactsResult{f, err}
}

func c16FactsCase() CaseOut {
	var fr c16FactsResult
	if c16FactsCh != nil {
		fr = <-c16FactsCh
		c16FactsCh = nil
	} else {
		fr = c16FactsNow()
	}
	if fr.err != nil {
		panic("C16: " + fr.err.Error())
	}
	f := fr.f
	// a stand-alone copy for inspection (work directory; never part of the committed tree)
	os.WriteFile("SrcFacts.v", []byte(f.CoqFile()), 0o644)
	bad := f.Offending()
	obs := c16Obs{Facts: f, Offending: bad, RaceDetect: raceEnabled()}
	if len(bad) > 0 {
		obs.Sig = "source-inventory"
	}
	return CaseOut{
		Coq:        "(CFacts " + f.CoqList() + ")",
		Desc:       obs,
		Size:       len(f.Vars) + len(f.Accs),
		Tags:       []string{"kind=facts", fmt.Sprintf("package-vars=%d", len(f.Vars)), fmt.Sprintf("offending=%d", len(bad))},
		Key:        fmt.Sprintf("facts/%d/%d/%d", len(f.Vars), len(f.Accs), len(bad)),
		Nontrivial: len(f.Vars) > 0,
	}
}

func c16Shrink(raw json.RawMessage) []json.RawMessage {
	var s C16Spec
	if json.Unmarshal(raw, &s) != nil || s.Kind != "run" {
		return nil
	}
	var out []json.RawMessage
	add := func(c C16Spec) {
		c.Repeat = 3
		c.StuckAfter = 2
		out = append(out, mustJSON(c))
	}
	if s.G > 2 {
		c := s
		c.G = (s.G + 1) / 2
		add(c)
	}
	if s.Tables > 1 {
		c := s
		c.Tables--
		add(c)
	}
	if s.Iters > 1 {
		c := s
		c.Iters = (s.Iters + 1) / 2
		add(c)
	}
	if s.Readers > 0 {
		c := s
		c.Readers = 0
		add(c)
	}
	if s.Storm > 0 {
		c := s
		c.Storm = 0
		add(c)
		c = s
		c.Tables, c.Iters, c.MaxRows, c.MaxCells, c.Tall = 1, 1, 1, 1, 0 // the storm and little else
		add(c)
	}
	if s.Own > 0 {
		c := s
		c.Own = 0
		add(c)
		c = s
		c.Tables, c.Iters, c.MaxRows, c.MaxCells, c.Tall, c.Storm = 1, 1, 1, 1, 0, 0 // the own decorations and little else
		add(c)
		if s.Own > 2 {
			c = s
			c.Own = (s.Own + 1) / 2
			add(c)
		}
	}
	if s.Kinds > 0 {
		c := s
		c.Kinds = 0
		add(c)
		c = s
		c.Tables, c.Iters, c.MaxRows, c.MaxCells, c.Tall, c.Storm, c.Own, c.Hammer, c.Readers = 1, 1, 1, 1, 0, 0, 0, 0, 0 // the kind tables and little else
		add(c)
		if s.Kinds > 1 {
			c = s
			c.Kinds = (s.Kinds + 1) / 2
			add(c)
		}
	}
	if s.Hammer > 0 {
		c := s
		c.Hammer = 0
		add(c)
		c = s
		c.Tables, c.Iters, c.MaxRows, c.MaxCells, c.Tall, c.Storm, c.Own, c.Kinds, c.Readers = 1, 1, 1, 1, 0, 0, 0, 0, 0 // the dense renders and little else
		add(c)
		if s.Hammer > 50 {
			c = s
			c.Hammer = (s.Hammer + 1) / 2
			add(c)
		}
	}
	if s.Tall > 0 {
		c := s
		c.Tall = 0
		add(c)
		c = s
		c.Tables, c.Iters, c.MaxRows, c.MaxCells = 1, 1, 1, 1 // the tall tables and little else
		add(c)
	}
	if s.MaxRows > 1 {
		c := s
		c.MaxRows /= 2
		add(c)
	}
	if s.MaxCells > 1 {
		c := s
		c.MaxCells /= 2
		add(c)
	}
	classes := s.Formats
	if len(classes) == 0 {
		classes = []string{"csv", "json", "markdown", "html", "texttable", "auto"}
	}
	if len(classes) > 1 {
		for _, f := range classes {
			c := s
			c.Formats = []string{f}
			add(c)
		}
	}
	return out
}

func init() {
	register(&Prop{
		ID:       "C16",
		Imports:  "From Tab Require Import Run.Glue Run.C16Run.",
		CaseType: "c16_case",
		CaseFn:   "C16_case",
		ModelFn:  "C16_model",
		Rule: "one case is the shared-state inventory of the repository's source (every package-level var of every non-test package and every post-init write, address-of, append destination or pointer-receiver call on one; accesses to the fields of mutex-carrying variables - registry.table - with their lock status: lexically between Lock and Unlock of the variable's own mutex, exclusive lock for mutations, or in an unexported helper all of whose call sites are so locked), judged by shared_ok; " +
			"assumed of the standard library: sync and sync/atomic types synchronise, and the methods of *strings.Replacer and of *regexp.Regexp (except Longest) are safe for concurrent use as documented, so calls of them on package-level variables are not counted as mutation; " +
			"every other case is one child process under the race detector: 8-64 goroutines that each build their own tables (1-6 columns, 0-6 rows, separators, multi-line / markup / non-ASCII / non-string items, alignment and skipable column properties, built by AddRowItems, NewRow+AddRow, NewRowSizedFor) and render each in csv, json, markdown, html (plain; Id/Class/Caption/TemplateName/row-class generator, rendered twice through the wrapper's cached template), texttable (default decoration, an unknown name, RenderTo) plus the registered decorations by name / by value and auto.Render for the listed styles - all of them for every table in the cases tagged every-table-in-every-format=true, otherwise a third / a quarter per table rotating with (goroutine, table) so that every run still renders every decoration and style concurrently - " +
			"while 1-8 reader goroutines call RegisteredDecorationNames / Named / auto.ListStyles. Every goroutine's first actions after the start barrier are the same lookups of the six built-in decoration names and renders of a tiny table in each. Cells draw on a small pool of short texts shared by all goroutines, as plain strings and as single-line items declaring a wider display width; some cells hold +Inf/-Inf (encoding/json refuses them part-way down the table); a quarter of the tables record errors (a cell added to a separator row; a render-time callback failing three times) and what t.Errors() and every row's Errors() hold - count, order, and for the harness's own errors their per-table tag - is compared after the first render and at the end; a third of the tables are, between renders, rendered into destinations that fail after 0-51 bytes; the shared text pool holds texts with an emoji presentation selector (U+FE0F) and texts with East-Asian-ambiguous characters; in a fifth of the cases (GOMAXPROCS >= 2) one or two goroutines also own a 1100-row table rendered as texttable; in half of the cases every goroutine, right after its first lookups, goes 5-16 times round a palette of 39 distinct style spellings (the five formats in several capitalisations and with ignored trailing sections, every built-in decoration bare and as texttable.<name>/TextTable.<name>, two names of nothing) through auto.Wrap on tables of its own, each goroutine starting at its own offset, and per spelling the wrapper types (and, every eighth turn, the rendered text) it got are compared with what that exact spelling gives alone. " +
			"In three quarters of the cases (tag own-decorations-registered-concurrently) the goroutines also WRITE the registry, each under names of its own: the first thing every goroutine does after the start barrier is to register a decoration under a name nobody else uses (decoration.RegisterDecorationName), 3-12 such house styles follow after the first lookups and one more for every other table; each is looked up (Named, also before it is registered and under a name nobody registers), selected on a table of the goroutine's own (SetDecorationNamed + Render, auto.Render with the name, with texttable.<name>, and with a trailing sub-style section so that auto first probes a longer name that is not registered), looked for in RegisteredDecorationNames / auto.ListStyles, every third one is re-registered with another decoration and selected again; the table that got a house style is rendered in it four ways. A name is fresh whenever it is registered (it carries the phase), plain, dotted or upper-case, and is not part of any output. Every goroutine logs what it did about its own names and the answers it got (OpW/OpR/OpL); Coq judges the log against the goroutine's solo run on the registry model (own_ok; by c16_own_oracle_any_schedule what every interleaving gives on the model); after the join every registered name must hold what its goroutine registered last and be listed; the readers' listings must be strictly sorted and may only grow, and only by such names. " +
			"A watchdog in the child: when nothing (no render, no registry operation of those rounds) has finished for 3 s and a dump of all goroutines shows every goroutine of the run blocked - none running, runnable or sleeping - twice, one second apart, the run is reported as stuck (ok = false) instead of waiting for ever. " +
			"Reference ('rendered alone'): the same programmes run alone in the same process, twice (before the goroutines in warm cases; in cold cases - half - after them, and then the process does not touch the library or the registry before the goroutines do: built-in names are constants, readers check their own first answers against the registry afterwards); in a third of the cases (8-12 goroutines) each goroutine's reference is instead computed in a pristine child process of its own and the same-process solo run is the correspondence side. Goroutine count, GOMAXPROCS (1..16), tables, iterations vary by seed. " +
			"Round 6, two more kinds of case: (items-of-every-kind=true) 8-12 goroutines, each with a reference from a process of its own, also own 2-4 tables whose cells hold items of every Go kind whose text form holds no address - the integer, float and complex kinds, string, array, slice, map, struct, pointer to struct, interface, nil; per kind several types (plain, with encoding/json field options, with unexported fields only, with String / MarshalJSON / MarshalText methods, an error value) - the types common to all goroutines, the values (the zero value 40% of the time, else small non-zero ones) each goroutine's own, rendered in the five formats; (dense-in-one-renderer=true) one case per format class (csv, json, markdown, html, texttable): 8-16 goroutines, a minimal programme in that class only, and then each renders a small table of its own (2 columns, 4-8 rows, a few texts of the pool of texts needing escaping and of the shared short texts repeated down each column, a different few per goroutine; rebuilt every fourth turn) 400 times (thorough: 1500) in that class, all goroutines at the same time; the distinct outputs per goroutine are compared with what the table gives alone (one). " +
			"A case is non-trivial when at least two goroutines rendered concurrently; distinct = distinct (seed, goroutines, GOMAXPROCS, tables, iterations, readers, formats, outcome)",
		Exhaustive: "",
		Gen: func(r *RNG, tier string) []json.RawMessage {
			var out []json.RawMessage
			c16FactsCh = make(chan c16FactsResult, 1)
			go func(ch chan c16FactsResult) { ch <- c16FactsNow() }(c16FactsCh)
			n := 14
			if tier == "thorough" {
				n = 60
			}
			gs := []int{16, 32, 64, 24, 48}
			small := []int{8, 12, 10, 9}
			procs := []int{1, 2, 4, 8, 16, 3}
			for i := 0; i < n; i++ {
				g := gs[i%len(gs)]
				// a third of the cases: few goroutines, and the reference for each is
				// computed in a pristine process of its own
				pristine := i%3 == 0
				if pristine {
					g = small[(i/3)%len(small)]
				}
				s := C16Spec{Kind: "run", Seed: r.U64() % 1000000007, G: g, Readers: 1 + r.Intn(8), Procs: procs[(i/2+r.Intn(2))%len(procs)],
					Tables: 1 + r.Intn(3), Iters: 1 + r.Intn(3), MaxRows: 1 + r.Intn(6), MaxCells: 1 + r.Intn(6)}
				budget := 200
				if tier == "thorough" {
					budget = 400
					s.Full = i%2 == 0
				} else {
					s.Full = i%4 == 3
				}
				for s.G*s.Tables*(s.Iters+2) > budget && (s.Iters > 1 || s.Tables > 1) {
					if s.Iters > 1 {
						s.Iters--
					} else {
						s.Tables--
					}
				}
				s.ColdFirst = i%2 == 1
				s.Pristine = pristine
				if i%2 == 0 {
					// a storm of distinct style spellings, sized to the goroutine count
					s.Storm = 320 / s.G
					if s.Storm > 16 {
						s.Storm = 16
					}
					if s.Storm < 5 {
						s.Storm = 5
					}
				}
				if i%4 != 0 {
					// every goroutine also registers decorations of its own while the others run
					s.Own = 256 / s.G
					if s.Own > 12 {
						s.Own = 12
					}
					if s.Own < 3 {
						s.Own = 3
					}
				}
				if i%5 == 2 {
					// one or two goroutines also own a tall table
					s.Tall = 1 + i%2
					if s.Procs < 2 {
						s.Procs = 4
					}
				}
				out = append(out, mustJSON(s))
			}
			out = append(out, c16R6Cases(r, tier)...)
			// the inventory case comes last: it has been running in the background meanwhile
			out = append(out, mustJSON(C16Spec{Kind: "facts"}))
			return out
		},
		Run: func(raw json.RawMessage) CaseOut {
			var s C16Spec
			if err := json.Unmarshal(raw, &s); err != nil {
				panic(err)
			}
			switch s.Kind {
			case "facts":
				return c16FactsCase()
			case "run":
				if !raceEnabled() && os.Getenv("VERIF_C16_NORACE") == "" {
					panic("C16: the harness was built without -race (check.py builds it with -race); set VERIF_C16_NORACE=1 to run anyway")
				}
				return c16RunCase(s)
			}
			panic("C16: unknown case kind " + s.Kind)
		},
		Shrink: c16Shrink,
	})
}
