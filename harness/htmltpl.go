package main

// The HTML renderer's template, read from the SOURCE of the repository under
// test on every run: the string constant handed to template.Parse in
// html/html.go is located with go/parser, parsed with text/template/parse
// (the library's own parser, which also applies the {{- -}} trim markers), and
// written as a term of coq/Model/Tpl.v's template AST.  Coq then checks that
// this is the very template the theorem `template_is_model` (the hand-written
// model html_exec equals the interpretation of the template, for all inputs)
// was proved for.  A pipeline is carried in the parser's canonical spelling.

import (
	"encoding/json"
	"fmt"
	"go/ast"
	"go/parser"
	"go/token"
	"path/filepath"
	"strconv"
	"text/template/parse"
)

// htmlTemplateSource finds the template text: the string argument of the
// .Parse(...) call in html/html.go, resolved through a package-level constant.
func htmlTemplateSource(repo string) (string, error) {
	fset := token.NewFileSet()
	f, err := parser.ParseFile(fset, filepath.Join(repo, "html", "html.go"), nil, 0)
	if err != nil {
		return "", err
	}
	consts := map[string]string{}
	for _, d := range f.Decls {
		gd, ok := d.(*ast.GenDecl)
		if !ok || (gd.Tok != token.CONST && gd.Tok != token.VAR) {
			continue
		}
		for _, sp := range gd.Specs {
			vs := sp.(*ast.ValueSpec)
			for i, n := range vs.Names {
				if i < len(vs.Values) {
					if bl, ok := vs.Values[i].(*ast.BasicLit); ok && bl.Kind == token.STRING {
						if s, err := strconv.Unquote(bl.Value); err == nil {
							consts[n.Name] = s
						}
					}
				}
			}
		}
	}
	var found []string
	ast.Inspect(f, func(n ast.Node) bool {
		call, ok := n.(*ast.CallExpr)
		if !ok {
			return true
		}
		sel, ok := call.Fun.(*ast.SelectorExpr)
		if !ok || sel.Sel.Name != "Parse" || len(call.Args) != 1 {
			return true
		}
		switch a := call.Args[0].(type) {
		case *ast.Ident:
			if s, ok := consts[a.Name]; ok {
				found = append(found, s)
			}
		case *ast.BasicLit:
			if a.Kind == token.STRING {
				if s, err := strconv.Unquote(a.Value); err == nil {
					found = append(found, s)
				}
			}
		}
		return true
	})
	if len(found) != 1 {
		return "", fmt.Errorf("html/html.go: expected exactly one .Parse(<string constant>) call, found %d", len(found))
	}
	return found[0], nil
}

func tplNodes(l *parse.ListNode) (string, error) {
	if l == nil {
		return "[]", nil
	}
	var xs []string
	for _, n := range l.Nodes {
		s, err := tplNode(n)
		if err != nil {
			return "", err
		}
		if s != "" {
			xs = append(xs, s)
		}
	}
	return cqList(xs), nil
}

func tplBranch(kind string, b *parse.BranchNode) (string, error) {
	if b.ElseList != nil {
		return "", fmt.Errorf("template: {{else}} is outside the modelled subset")
	}
	body, err := tplNodes(b.List)
	if err != nil {
		return "", err
	}
	return fmt.Sprintf("(%s %s %s)", kind, cqStr(b.Pipe.String()), body), nil
}

func tplNode(n parse.Node) (string, error) {
	switch x := n.(type) {
	case *parse.TextNode:
		return "(NText " + cqBytes(x.Text) + ")", nil
	case *parse.CommentNode:
		return "", nil
	case *parse.ActionNode:
		return "(NAction " + cqStr(x.Pipe.String()) + ")", nil
	case *parse.WithNode:
		return tplBranch("NWith", &x.BranchNode)
	case *parse.IfNode:
		return tplBranch("NIf", &x.BranchNode)
	case *parse.RangeNode:
		return tplBranch("NRange", &x.BranchNode)
	}
	return "", fmt.Errorf("template: node %T (%s) is outside the modelled subset", n, n.String())
}

// htmlTemplateAST: the Coq term (list tnode) of the template in the source of
// the repository under test.
func htmlTemplateAST() (string, error) {
	repo, err := repoUnderTest()
	if err != nil {
		return "", err
	}
	src, err := htmlTemplateSource(repo)
	if err != nil {
		return "", err
	}
	funcs := map[string]interface{}{"Headers": 0, "RowClass": 0, "CellsOf": 0, "OnePlus": 0, "Rows": 0,
		"not": 0, "and": 0, "or": 0, "len": 0, "index": 0, "print": 0, "printf": 0, "println": 0, "html": 0, "eq": 0, "ne": 0}
	trees, err := parse.Parse("table", src, "", "", funcs)
	if err != nil {
		return "", fmt.Errorf("template does not parse: %v", err)
	}
	t := trees["table"]
	if t == nil || len(trees) != 1 {
		return "", fmt.Errorf("template defines %d templates; one expected", len(trees))
	}
	return tplNodes(t.Root)
}

// XTPL: a one-case pseudo-property used by tools/gen_tpl_model.sh to print the
// template's AST (the same term every C06 run carries as its first case).
func init() {
	register(&Prop{
		ID:       "XTPL",
		Imports:  "From Tab Require Import Run.Glue Run.TplRun.",
		CaseType: "(list tnode)",
		CaseFn:   "tpl_case",
		ModelFn:  "tpl_model",
		Rule:     "the HTML template as found in the source of the repository under test",
		Gen:      func(r *RNG, tier string) []json.RawMessage { return []json.RawMessage{json.RawMessage(`{}`)} },
		Run: func(spec json.RawMessage) CaseOut {
			term, err := htmlTemplateAST()
			if err != nil {
				panic(err)
			}
			return CaseOut{Coq: term, Desc: map[string]interface{}{"template_ast": term}, Size: 1, Key: term, Nontrivial: true}
		},
	})
}
