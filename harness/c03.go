package main

// C03: a rendered text table is a rectangle whose columns fit their widest
// cell.  Inputs: grids of hostile texts x every registered decoration and
// random custom ones; no alignment, no size overrides (those are C04's).

import (
	"encoding/json"
	"strings"
)

// rows are built by AddRowItems, NewRow+Add+AddRow or NewRowSizedFor+Add+AddRow
// (cells added to a row already in a table are C02's concern, D2)
var textHows = []int{0, 0, 1, 3}

func c03Gen(r *RNG, tier string) []json.RawMessage {
	var out []json.RawMessage
	// NewRNG(seed) starts consecutive seeds one step apart on the same splitmix
	// stream (the runs re-synchronise after a few draws); re-key from the first
	// output so that different seeds give unrelated streams
	r = NewRNG(r.U64())
	reg := registeredDecs()
	// one case per (table, decoration): shards are evaluated in parallel
	var curHooks []HookSpec
	var curNest *NestSpec
	var curOthers []int
	var curRenderOthers bool
	var curLong []LongRow
	add := func(t TableSpec, decs []DecSpec) {
		for _, d := range decs {
			out = append(out, mustJSON(TextSpec{Table: t, Decs: []DecSpec{d}, Hooks: curHooks, Nest: curNest, Others: curOthers, RenderOthers: curRenderOthers, Long: curLong}))
		}
	}
	withCustom := func(n int) []DecSpec {
		ds := append([]DecSpec{}, reg...)
		for i := 0; i < n; i++ {
			if r.Pct(35) {
				ds = append(ds, derivedDecoration(r, reg))
			} else {
				ds = append(ds, randDecoration(r))
			}
		}
		return ds
	}
	// every shape: header in {none,0,1,2 cells} x row sequences over {separator,0,1,2 cells}
	maxRows := 2
	if tier == "thorough" {
		maxRows = 3
	}
	enumShapes(maxRows, 2, func(h int, rows []int) { add(shapeSpec(r, h, rows, textItem, textHows), reg) })
	// every atom of the alphabet once in a fixed 3-column grid, in first / middle / last column
	for _, a := range textAtoms {
		h := []ItemSpec{Str("h"), Str("head"), Str("日")}
		add(TableSpec{Header: &h, Rows: []RowSpec{
			{Cells: []ItemSpec{Str(a), Str("m"), Str("z")}},
			{Sep: true},
			{Cells: []ItemSpec{Str("a"), Str(a)}},
			{Cells: []ItemSpec{Str("a"), Str("mm"), Str(a)}}}}, withCustom(1))
	}
	// every ordered pair of lines with differently ordered rune counts and
	// display widths as a two-line cell that alone decides its column's width
	// (and three-line cells around each line)
	for i, a := range measureLines {
		for j, b := range measureLines {
			if i == j {
				continue
			}
			cell := a + "\n" + b
			if (i+j)%3 == 0 {
				cell = b + "\n" + a + "\n" + b
			}
			add(TableSpec{Rows: []RowSpec{{Cells: []ItemSpec{Str("x"), Str(cell)}}, {Cells: []ItemSpec{Str(cell), Str("")}, How: 1}}},
				[]DecSpec{reg[(i+j)%len(reg)]})
		}
	}
	// the unknown name (EmptyDecoration): an error, no text
	{
		h := []ItemSpec{Str("h")}
		add(TableSpec{Header: &h, Rows: []RowSpec{{Cells: []ItemSpec{Str("x")}}}}, []DecSpec{{Name: "no-such-decoration"}})
	}
	// random grids up to 4 columns x 5 rows: ragged and zero-cell rows, header absent / shorter / longer, separators anywhere
	n, nc := 200, 1
	if tier == "thorough" {
		n, nc = 6000, 3
	}
	for i := 0; i < n; i++ {
		ts := randTable(r, 5, 4, textItem, textHows)
		switch {
		case r.Pct(25):
			// render, shape-preserving change (late cells into a ragged row, same-count second header), render again
			lateEnrich(r, &ts, widerText)
		case r.Pct(30):
			enrichSpec(r, &ts, textItem)
		case r.Pct(15):
			// render, same-size mutations of mutable items + Update, render again
			mutateSameSize(&ts, 60, r)
		}
		curHooks, curNest = nil, nil
		curOthers, curRenderOthers = nil, false
		if r.Pct(10) {
			// other wrappers made on the same table after the text wrapper
			for k := 1 + r.Intn(2); k > 0; k-- {
				curOthers = append(curOthers, 1+r.Intn(5))
			}
			curRenderOthers = r.Bool()
		}
		if r.Pct(15) {
			curHooks = randHooks(r) // the application's own callbacks, some of them failing
		}
		if r.Pct(8) {
			curNest = randNest(r) // another table rendered while this one is being written
		}
		add(ts, withCustom(nc))
		curHooks, curNest = nil, nil
		curOthers, curRenderOthers = nil, false
	}
	// a fixed grid in which every cell is the widest of its column or the
	// tallest of its row somewhere: (a) under each kind of user callback
	// registered before the Wrap, failing on every / every other / no call;
	// (b) with another table rendered from inside the writer at each of the
	// first write calls; (c) render, every text replaced by another of the same
	// size (and only one of them), Update, render again
	fixedGrid := func() TableSpec {
		h := []ItemSpec{Str("head one"), Str("h"), Str("日本語")}
		return TableSpec{Header: &h, Rows: []RowSpec{
			{Cells: []ItemSpec{Str("a"), Str("tall\ncell\nhere"), Str("z")}},
			{Sep: true},
			{Cells: []ItemSpec{Str("b"), Str("the widest of column two")}, How: 1},
			{Cells: []ItemSpec{Str("c\nd"), Str(""), Str("ＷＩＤＥ wide")}, How: 3},
		}}
	}
	for when := 0; when < 4; when++ {
		for target := 0; target < 3; target++ {
			for pat := 0; pat < 4; pat++ {
				if target != 1 && pat > 1 {
					continue
				}
				h := HookSpec{When: when, Target: target, SetProp: pat%2 == 1}
				switch pat {
				case 0:
					h.ErrMod = 1 // every call fails
				case 1:
					h.ErrMod, h.ErrRem = 2, 1
				case 2:
					h.ErrMod, h.ErrRem = 3, 0
				}
				curHooks = []HookSpec{h}
				if pat == 2 {
					curHooks = append(curHooks, HookSpec{When: 2, Target: 1, ErrMod: 2})
				}
				add(fixedGrid(), []DecSpec{reg[(when+target+pat)%len(reg)]})
			}
		}
	}
	curHooks = nil
	for _, at := range []int{-1, 0, 1, 2, 3, 5} {
		for _, cols := range []int{1, 3, 5} {
			curNest = &NestSpec{At: at, Cols: cols, Wide: 1 + 7*cols}
			add(fixedGrid(), []DecSpec{reg[(at+cols+6)%len(reg)]})
		}
	}
	curNest = nil
	// (d) the same table wrapped by other renderers (and by a second text
	// wrapper) AFTER the text wrapper was made, rendered or not before it
	for i, kinds := range [][]int{{1}, {2}, {3}, {4}, {5}, {1, 5}, {5, 1}, {1, 2, 3, 4, 5}} {
		for _, ro := range []bool{false, true} {
			curOthers, curRenderOthers = kinds, ro
			add(fixedGrid(), []DecSpec{reg[i%len(reg)], {Name: "none"}})
			ts := fixedGrid()
			ts.Stages = []int{1}
			add(ts, []DecSpec{reg[(i+1)%len(reg)]})
		}
	}
	curOthers, curRenderOthers = nil, false
	// (e) custom decorations DERIVED from each registered one: some fields
	// cleared (and a key glyph changed), then Populate again
	for bi, base := range reg {
		if base.Name == "none" {
			continue
		}
		for ci, clear := range [][]string{
			{"VHeader", "VBodyBorder"},
			{"HOuter", "HRule"},
			{"TopLeft", "TopRight", "BottomLeft", "BottomRight"},
			{"HBCross", "HBLeft", "HBRight", "LeftBodyRule", "RightBodyRule"},
			{"TopDown", "VBorder", "HOuter", "HRule", "VHeader", "VBodyBorder", "VBodyInner", "TopLeft", "TopRight", "BottomLeft", "BottomRight",
				"LeftBodyRule", "RightBodyRule", "HTopDown", "BTopDown", "BBottomUp", "HBCross", "HBLeft", "HBRight"},
		} {
			ds := DecSpec{Custom: true, Base: base.Name, Fields: map[string]string{}}
			for _, f := range clear {
				ds.Fields[f] = ""
			}
			if (bi+ci)%2 == 0 {
				ds.Fields["VBorder"] = "#"
			}
			add(fixedGrid(), []DecSpec{ds})
		}
	}
	// (g) a row holding more cells than the table has columns: appended to the
	// table, given its cells, attached to a second table and extended there by
	// one or two cells, narrow or wide - with and without headers, other rows,
	// under several decorations; the extra cells are not shown and widen nothing
	for li, extra := range [][]string{{"e"}, {"an extra cell much wider than any column"}, {"x", "yy"}, {"日本語日本語日本語", "tall\nextra\ncell"}, {""}} {
		for ci, cells := range [][]string{{}, {"a"}, {"first", "second\nline"}} {
			for hv := 0; hv < 3; hv++ {
				lr := LongRow{}
				for _, c := range cells {
					lr.Cells = append(lr.Cells, Str(c))
				}
				for _, e := range extra {
					lr.Extra = append(lr.Extra, Str(e))
				}
				curLong = []LongRow{lr}
				ts := TableSpec{}
				switch hv {
				case 1: // a header exactly as wide as the row was before it was extended (or one column)
					h := []ItemSpec{Str("h1"), Str("h2")}[:1+ci%2]
					ts.Header = &h
					ts.Rows = []RowSpec{{Cells: []ItemSpec{Str("b")}}, {Sep: true}}
				case 2: // other rows only, one of them shorter
					ts.Rows = []RowSpec{{Cells: []ItemSpec{Str("p"), Str("q")}, How: 1}, {Cells: []ItemSpec{}}}
				}
				if hv == 0 && ci == 2 && li%2 == 0 {
					curLong = append(curLong, LongRow{Cells: []ItemSpec{Str("z")}, Extra: []ItemSpec{Str("w"), Str("wide wide wide")}})
				}
				add(ts, []DecSpec{reg[(li+ci+hv)%len(reg)], {Name: "none"}})
			}
		}
	}
	curLong = nil
	// (f) few display cells, very many bytes: cluster-dense cells in narrow
	// tables (one and two columns), under every registered decoration
	for i, s := range denseTexts() {
		add(TableSpec{Rows: []RowSpec{{Cells: []ItemSpec{Str(s)}}}}, reg)
		hd := []ItemSpec{Str(s), Str("")}
		add(TableSpec{Header: &hd, Rows: []RowSpec{{Cells: []ItemSpec{Str(""), Str(s)}}, {Cells: []ItemSpec{Str(s)}, How: 1}}},
			[]DecSpec{reg[i%len(reg)], reg[(i+3)%len(reg)]})
	}
	{
		ts := fixedGrid()
		mutateSameSize(&ts, 100, nil)
		add(ts, reg)
		for k := 0; k < 6; k++ {
			ts := fixedGrid()
			mutateSameSize(&ts, 100, nil)
			ts.Mutations = ts.Mutations[k%len(ts.Mutations) : k%len(ts.Mutations)+1]
			if k%2 == 1 {
				ts.Stages = []int{0, 3}
			}
			add(ts, []DecSpec{reg[k%len(reg)]})
		}
	}
	// multi-step histories on one reused wrapper, systematically: a render of
	// the whole grid, then wider content arrives without changing the shape
	for _, wide := range []string{"considerably wider", "日本語日本語日本語日本語", "two\nlines, the second much wider", longText(0, 70)} {
		for variant := 0; variant < 4; variant++ {
			h := []ItemSpec{Str("h1"), Str("h2"), Str("h3")}
			ts := TableSpec{Header: &h, Rows: []RowSpec{
				{Cells: []ItemSpec{Str("a")}, How: []int{0, 1, 3, 0}[variant]},
				{Cells: []ItemSpec{Str("b"), Str("c"), Str("d")}},
				{Sep: true},
				{Cells: []ItemSpec{}},
			}, Stages: []int{3}}
			switch variant {
			case 0: // a late cell into the ragged first row
				ts.Rows[0].Late = []ItemSpec{Str(wide)}
				ts.Rows[0].LateAfter = 9
			case 1: // late cells into the zero-cell row
				ts.Rows[3].Late = []ItemSpec{Str("x"), Str(wide)}
				ts.Rows[3].LateAfter = 9
			case 2: // headers replaced by as many, wider ones
				h2 := []ItemSpec{Str(wide), Str("h2"), Str(wide)}
				ts.Header2 = &h2
			case 3: // both, and an early render as well
				ts.Rows[0].Late = []ItemSpec{Str("y"), Str(wide)}
				ts.Rows[0].LateAfter = 9
				h2 := []ItemSpec{Str("H"), Str(wide), Str("h3")}
				ts.Header2 = &h2
				ts.Stages = []int{0, 3}
			}
			add(ts, []DecSpec{reg[(variant)%len(reg)], {Name: "none"}})
		}
	}
	// sizes beyond small thresholds in every dimension: wide cells (and so
	// long runs of padding and rule glyphs) next to short / empty / missing
	// cells, tall cells, many columns, many rows
	k := 0
	for _, n := range longSizes {
		for kind := 0; kind < 3; kind++ {
			k++
			h := []ItemSpec{Str("h"), Str("")}
			ts := TableSpec{Header: &h, Rows: []RowSpec{
				{Cells: []ItemSpec{Str(longText(kind, n)), Str("s")}},
				{Cells: []ItemSpec{Str("short"), Str(longText((kind+1)%3, n+1) + "\nx")}},
				{Cells: []ItemSpec{Str("")}},
				{Cells: []ItemSpec{}},
			}}
			add(ts, []DecSpec{[]DecSpec{{Name: "ascii-simple"}, {Name: "none"}, {Name: "utf8-light"}}[k%3]})
		}
	}
	for _, lines := range []int{17, 65, 130} {
		tall := strings.Repeat("l\n", lines-1) + "last and widest"
		add(TableSpec{Rows: []RowSpec{{Cells: []ItemSpec{Str("x"), Str(tall), Str("日")}}, {Cells: []ItemSpec{Str(tall)}}}}, []DecSpec{{Name: "ascii-simple"}, {Name: "none"}})
	}
	for _, cols := range []int{17, 65, 130} {
		cs := make([]ItemSpec, cols)
		for i := range cs {
			cs[i] = Str(pick(r, []string{"", "a", "日", "bb"}))
		}
		hd := []ItemSpec{Str("only")}
		add(TableSpec{Header: &hd, Rows: []RowSpec{{Cells: cs}, {Cells: cs[:cols/2], How: 1}}}, []DecSpec{{Name: "ascii-simple"}, {Name: "none"}})
	}
	for _, nrows := range []int{33, 65, 130} {
		var rows []RowSpec
		for i := 0; i < nrows; i++ {
			if i%13 == 7 {
				rows = append(rows, RowSpec{Sep: true})
			} else {
				rows = append(rows, RowSpec{Cells: []ItemSpec{Str(pick(r, []string{"", "a", "日本", "b\nc"})), Str("z")}[:1+i%2]})
			}
		}
		add(TableSpec{Rows: rows}, []DecSpec{{Name: "ascii-simple"}})
	}
	// hand-written decorations that are never Populate()d (any subset of the
	// vertical pieces, rules only, corners only) on tables without columns,
	// with zero-cell rows, with one and two columns: outside C03's statement,
	// inside C09's (c09_text_any_decoration); here model = implementation
	{
		var hand []DecSpec
		for m := 1; m < 8; m++ {
			f := map[string]string{}
			if m&1 != 0 {
				f["VHeader"] = "#"
			}
			if m&2 != 0 {
				f["VBodyBorder"] = "!"
			}
			if m&4 != 0 {
				f["VBodyInner"] = "|"
			}
			hand = append(hand, DecSpec{Custom: true, NoPopulate: true, Fields: f})
		}
		hand = append(hand,
			DecSpec{Custom: true, NoPopulate: true, Fields: map[string]string{"HOuter": "=", "HRule": "-"}},
			DecSpec{Custom: true, NoPopulate: true, Fields: map[string]string{"TopLeft": "/", "BottomRight": "/", "CrossPiece": "+"}},
			DecSpec{Custom: true, NoPopulate: true, Base: "ascii-simple", Fields: map[string]string{"VBodyBorder": ""}},
			DecSpec{Custom: true, NoPopulate: true, Base: "utf8-light", Fields: map[string]string{"VHeader": "", "HOuter": ""}})
		h0 := []ItemSpec{}
		h1 := []ItemSpec{Str("h")}
		h2 := []ItemSpec{Str("h"), Str("日本")}
		for _, ts := range []TableSpec{
			{Rows: []RowSpec{{Cells: []ItemSpec{}}}},
			{Rows: []RowSpec{{Sep: true}, {Cells: []ItemSpec{}, How: 2}, {Sep: true}}},
			{Header: &h0},
			{Header: &h0, Rows: []RowSpec{{Cells: []ItemSpec{}}, {Cells: []ItemSpec{}, How: 1}}},
			{},
			{Header: &h1, Rows: []RowSpec{{Cells: []ItemSpec{}}, {Cells: []ItemSpec{Str("a\nb")}}}},
			{Rows: []RowSpec{{Cells: []ItemSpec{Str("x")}}}},
			{Header: &h2, Rows: []RowSpec{{Cells: []ItemSpec{Str("a")}}, {Sep: true}, {Cells: []ItemSpec{Str("b"), Str("c\nd")}}}},
		} {
			add(ts, hand)
		}
	}
	// separators first / last / consecutive with a header longer than the body
	for i := 0; i < 12; i++ {
		h := []ItemSpec{textItem(r), textItem(r), textItem(r), textItem(r)}
		add(TableSpec{Header: &h, Rows: []RowSpec{{Sep: true}, {Sep: true}, {Cells: []ItemSpec{textItem(r)}}, {Cells: []ItemSpec{}}, {Sep: true}}}, withCustom(1))
	}
	// histories of renders whose render-time callbacks change cells (c03_live.go)
	out = append(out, liveGen(r, tier, reg)...)
	return out
}

func init() {
	register(&Prop{
		ID:       "C03",
		Imports:  "From Tab Require Import Run.Glue Run.C03Run.",
		CaseType: "c03_case",
		CaseFn:   "C03_case_all",
		ModelFn:  "C03_model_all",
		Rule: "tables built through the public API (AddHeaders / AddRowItems / NewRow+Add+AddRow / NewRowSizedFor / AddSeparator), each rendered under every registered decoration " +
			"(decoration.RegisteredDecorationNames, fields dumped by reflection at run time) and under random custom decorations (random subset of the 22 fields, then Populate; some from NoBox(), some left incomplete); " +
			"every shape with header in {none,0,1,2 cells} and up to 2 rows over {separator,0,1,2 cells}; every atom of a hostile alphabet (ASCII, CJK, full-width, combining incl. leading, ZWSP, ZWJ, VS16, ZWJ emoji, flags, tab, CR, escapes, multi-line, trailing newlines, invalid UTF-8) in first/middle/last column of a fixed grid; random grids to 4x5; " +
			"multi-step histories through ONE reused wrapper (TableSpec.BuildRenderW: renders at Stages, then shape-preserving changes - cells appended with Row.Add to ragged rows already attached, a second AddHeaders of the same count - then the judged render), systematically on a fixed grid and on a quarter of the random grids; early column properties, rows attached twice (enrichSpec); sizes beyond small thresholds: cells of 63..300 display cells (ASCII, double-width, mixed) next to short / empty / missing cells, cells of 17..130 lines, 17..130 columns, 33..130 rows; " +
			"custom decorations DERIVED from every registered one (fields cleared, a key glyph changed, Populate again) and what Populate promises judged on the decoration handed back (complete, nothing set was changed); cluster-dense cells (long ZWJ / tag / keycap sequences, 8..40 stacked marks or zero-width characters: far more than 4 bytes per display cell) in one- and two-column tables; other wrappers (markdown, csv, html, json, a second text wrapper) made on the same table after the text wrapper, rendered or not before it; " +
			"rows holding more cells than the table has columns (t.AppendNewRow, Add, other.AddRow(row), Add one or two extra cells - narrow, wide, multi-line, empty - with and without headers and other rows): the extra cells are not shown and widen nothing; " +
			"the application's own property callbacks (every time x target on the table, failing on every / every other / no call, some setting a property of their own) registered before the build and before texttable.Wrap - the output must not depend on them; another independent table rendered from inside the writer's Write while the judged render is writing (overlapping renders, sequentially); render, same-size mutations (same width on every line, same line count, different bytes) of mutable items + Update through CellAt, render again through the same wrapper; TableSpec.BuildRenderW with StageFaults / FinalVia / FaultAt / Scribble / PropOps via enrichSpec; " +
			"histories of renders whose render-time callbacks CHANGE cells (c03_live.go): mutable items with two to four successive contents (narrower, wider, more / fewer lines, to / from nothing, hostile alphabet), an application callback that gives the item of the cell it is handed its next content and calls Cell.Update, registered on the table / a column / the defaults column / a row / the cell itself (body and header cells) for pre-cell, render or post-cell time, BEFORE or AFTER texttable.Wrap (also wrappers made before the build, and a second text wrapper made later), one to three renders through the one wrapper, EVERY render observed; what each render must show - every cell, width, height and lines alike, as the last measuring callback of that render found it - is computed in Coq from the registrations (Model/TextLive.v, Spec/TextPassSpec.v); systematically on a fixed grid (3 places x 8 kinds of change x 13 registration patterns) and on random tables; " +
			"the expected view is computed from the SPEC alone (TableSpec.SpecView: texts, per-line measured sizes, shape, properties), not read back from the table under test; " +
			"a case (one table x its decorations) is non-trivial when the table has at least one column; distinct = distinct (oracle table, view, decorations, outcomes); " +
			"the width oracle is length.StringCells of each text line and glyph; incomplete custom decorations and zero-column tables are outside the statement and only checked for model = implementation",
		Exhaustive: "shapes (header x row-sequence up to length 2) x all registered decorations; every alphabet atom in 3 column positions",
		Gen:        c03Gen,
		Run:        runC03Spec,
		Shrink:     shrinkC03JSON,
	})
}
