package main

// C03: a rendered text table is a rectangle whose columns fit their widest
// cell.  Inputs: grids of hostile texts x every registered decoration and
// random custom ones; no alignment, no size overrides (those are C04's).

import (
	"encoding/json"
)

// rows are built by AddRowItems, NewRow+Add+AddRow or NewRowSizedFor+Add+AddRow
// (cells added to a row already in a table are C02's concern, D2)
var textHows = []int{0, 0, 1, 3}

func c03Gen(r *RNG, tier string) []json.RawMessage {
	var out []json.RawMessage
	// NewRNG(seed) starts consecutive seeds one step apart on the same splitmix
	// stream (the runs re-synchronise after a few draws); re-key from the first
	// output so that different seeds give unrelated streams
	r = NewRNG(r.U64())
	reg := registeredDecs()
	// one case per (table, decoration): shards are evaluated in parallel
	add := func(t TableSpec, decs []DecSpec) {
		for _, d := range decs {
			out = append(out, mustJSON(TextSpec{Table: t, Decs: []DecSpec{d}}))
		}
	}
	withCustom := func(n int) []DecSpec {
		ds := append([]DecSpec{}, reg...)
		for i := 0; i < n; i++ {
			ds = append(ds, randDecoration(r))
		}
		return ds
	}
	// every shape: header in {none,0,1,2 cells} x row sequences over {separator,0,1,2 cells}
	maxRows := 2
	if tier == "thorough" {
		maxRows = 3
	}
	enumShapes(maxRows, 2, func(h int, rows []int) { add(shapeSpec(r, h, rows, textItem, textHows), reg) })
	// every atom of the alphabet once in a fixed 3-column grid, in first / middle / last column
	for _, a := range textAtoms {
		h := []ItemSpec{Str("h"), Str("head"), Str("日")}
		add(TableSpec{Header: &h, Rows: []RowSpec{
			{Cells: []ItemSpec{Str(a), Str("m"), Str("z")}},
			{Sep: true},
			{Cells: []ItemSpec{Str("a"), Str(a)}},
			{Cells: []ItemSpec{Str("a"), Str("mm"), Str(a)}}}}, withCustom(1))
	}
	// the unknown name (EmptyDecoration): an error, no text
	{
		h := []ItemSpec{Str("h")}
		add(TableSpec{Header: &h, Rows: []RowSpec{{Cells: []ItemSpec{Str("x")}}}}, []DecSpec{{Name: "no-such-decoration"}})
	}
	// random grids up to 4 columns x 5 rows: ragged and zero-cell rows, header absent / shorter / longer, separators anywhere
	n, nc := 260, 1
	if tier == "thorough" {
		n, nc = 6000, 3
	}
	for i := 0; i < n; i++ {
		add(randTable(r, 5, 4, textItem, textHows), withCustom(nc))
	}
	// separators first / last / consecutive with a header longer than the body
	for i := 0; i < 12; i++ {
		h := []ItemSpec{textItem(r), textItem(r), textItem(r), textItem(r)}
		add(TableSpec{Header: &h, Rows: []RowSpec{{Sep: true}, {Sep: true}, {Cells: []ItemSpec{textItem(r)}}, {Cells: []ItemSpec{}}, {Sep: true}}}, withCustom(1))
	}
	return out
}

func init() {
	register(&Prop{
		ID:       "C03",
		Imports:  "From Tab Require Import Run.Glue Run.C03Run.",
		CaseType: "text_case",
		CaseFn:   "C03_case",
		ModelFn:  "C03_model",
		Rule: "tables built through the public API (AddHeaders / AddRowItems / NewRow+Add+AddRow / NewRowSizedFor / AddSeparator), each rendered under every registered decoration " +
			"(decoration.RegisteredDecorationNames, fields dumped by reflection at run time) and under random custom decorations (random subset of the 22 fields, then Populate; some from NoBox(), some left incomplete); " +
			"every shape with header in {none,0,1,2 cells} and up to 2 rows over {separator,0,1,2 cells}; every atom of a hostile alphabet (ASCII, CJK, full-width, combining incl. leading, ZWSP, ZWJ, VS16, ZWJ emoji, flags, tab, CR, escapes, multi-line, trailing newlines, invalid UTF-8) in first/middle/last column of a fixed grid; random grids to 4x5; " +
			"a case (one table x its decorations) is non-trivial when the table has at least one column; distinct = distinct (oracle table, view, decorations, outcomes); " +
			"the width oracle is length.StringCells of each text line and glyph; incomplete custom decorations and zero-column tables are outside the statement and only checked for model = implementation",
		Exhaustive: "shapes (header x row-sequence up to length 2) x all registered decorations; every alphabet atom in 3 column positions",
		Gen:        c03Gen,
		Run:        runTextSpec,
		Shrink:     shrinkTextJSON,
	})
}
