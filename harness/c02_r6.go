package main

// C02, third part (round 6).
//
// (1) The table VALUE the program builds.  tabular.Table is an interface; the
// five rendering sub-packages (csv, html, json, markdown, texttable) and
// auto.New / auto.Wrap hand out wrapper objects that satisfy it by embedding a
// table, and a wrapper may wrap a wrapper.  "Any sequence of table-building
// calls" is a sequence of calls on any of these values: a C02Via says how the
// value is made (a stack of wrappers around one core table, the innermost made
// by Wrap(tabular.New()) or by the package's own New()), on which level of the
// stack the building calls are made and through which level the table is
// looked at.  The history and what it must show are the same as for the core
// table (Model/CoreVia.v: a wrapper's building call is the call on what it
// wraps).
//
// (2) Add-time callbacks that RETURN AN ERROR (OnAdd with E != 0; A == 9: the
// callback makes no building call at all).  An error from a callback is
// recorded in the table's error list and nothing else: the building call
// during which it was returned is a building call like any other, the row /
// cell is added and the column bookkeeping follows (Model/CoreCB.v).

import (
	"fmt"
	"strings"

	"go.pennock.tech/tabular"
	"go.pennock.tech/tabular/auto"
	"go.pennock.tech/tabular/csv"
	"go.pennock.tech/tabular/html"
	tjson "go.pennock.tech/tabular/json"
	"go.pennock.tech/tabular/markdown"
	"go.pennock.tech/tabular/texttable"
)

type C02Via struct {
	// the wrappers around the core table, innermost first; each one of
	// csv html json markdown text auto:<style>
	Nest []string `json:"nest,omitempty"`
	// New: the innermost wrapper comes from its package's New() (auto.New(style)),
	// which makes the core table itself; otherwise from Wrap(tabular.New())
	New bool `json:"new,omitempty"`
	// Build, Observe: the level the building calls are made on / the table is
	// looked at through: 0 the core table (not reachable with New), k the k-th wrapper
	Build   int `json:"build,omitempty"`
	Observe int `json:"observe,omitempty"`
}

var c02ViaKinds = []string{"csv", "html", "json", "markdown", "text"}

// the style strings of auto: every sub-package by name, texttable by name, by
// decoration, by both, and in another case
var c02ViaAuto = []string{"auto:csv", "auto:html", "auto:json", "auto:markdown", "auto:texttable", "auto:utf8-light", "auto:texttable.ascii-simple", "auto:JSON"}

func c02ViaWrap(t tabular.Table, k string) (tabular.Table, string) {
	switch k {
	case "csv":
		return csv.Wrap(t), "csv.Wrap(%s)"
	case "html":
		return html.Wrap(t), "html.Wrap(%s)"
	case "json":
		return tjson.Wrap(t), "json.Wrap(%s)"
	case "markdown":
		return markdown.Wrap(t), "markdown.Wrap(%s)"
	case "text":
		return texttable.Wrap(t), "texttable.Wrap(%s)"
	}
	if strings.HasPrefix(k, "auto:") {
		return auto.Wrap(t, k[5:]), "auto.Wrap(%s, " + fmt.Sprintf("%q", k[5:]) + ")"
	}
	return t, "%s"
}

func c02ViaNew(k string) (tabular.Table, string) {
	switch k {
	case "csv":
		return csv.New(), "csv.New()"
	case "html":
		return html.New(), "html.New()"
	case "json":
		return tjson.New(), "json.New()"
	case "markdown":
		return markdown.New(), "markdown.New()"
	case "text":
		return texttable.New(), "texttable.New()"
	}
	if strings.HasPrefix(k, "auto:") {
		return auto.New(k[5:]), fmt.Sprintf("auto.New(%q)", k[5:])
	}
	return tabular.New(), "tabular.New()"
}

// make: the value the building calls are made on, the value the table is
// looked at through, and the Go text that makes them (name: "t" or "t2")
func (v *C02Via) make(name string) (build, observe tabular.Table, text string) {
	if v == nil || len(v.Nest) == 0 {
		t := tabular.New()
		return t, t, name + " := tabular.New()"
	}
	var levels []tabular.Table
	var lines []string
	lv := func(i int) string { return fmt.Sprintf("%s_level%d", name, i) }
	lo := 0
	if v.New {
		t, s := c02ViaNew(v.Nest[0])
		levels = []tabular.Table{nil, t}
		lines = append(lines, lv(1)+" := "+s)
		lo = 1
	} else {
		t := tabular.New()
		levels = []tabular.Table{t}
		lines = append(lines, lv(0)+" := tabular.New()")
	}
	for i := len(levels); i <= len(v.Nest); i++ {
		t, s := c02ViaWrap(levels[i-1], v.Nest[i-1])
		levels = append(levels, t)
		lines = append(lines, lv(i)+" := "+fmt.Sprintf(s, lv(i-1)))
	}
	clamp := func(k int) int {
		if k < lo {
			k = lo
		}
		if k > len(v.Nest) {
			k = len(v.Nest)
		}
		return k
	}
	b, o := clamp(v.Build), clamp(v.Observe)
	lines = append(lines, fmt.Sprintf("%s := %s /* every building call is made on this value; NRows, NColumns, Headers, AllRows, CellAt, Column are asked of %s */", name, lv(b), lv(o)))
	return levels[b], levels[o], strings.Join(lines, "; ")
}

func (v *C02Via) tags() []string {
	if v == nil || len(v.Nest) == 0 {
		return nil
	}
	tags := []string{"built-through-a-wrapper", "wrapper=" + v.Nest[len(v.Nest)-1]}
	if len(v.Nest) > 1 {
		tags = append(tags, "wrapper-of-a-wrapper")
	}
	if v.New {
		tags = append(tags, "wrapper-from-New")
	}
	if v.Build != v.Observe {
		tags = append(tags, "built-and-observed-on-different-levels")
	}
	return tags
}

// one-step reductions: no wrapper at all, one wrapper fewer, Wrap instead of
// New, build and observe on the same level
func (v *C02Via) shrink() []*C02Via {
	if v == nil || len(v.Nest) == 0 {
		return nil
	}
	out := []*C02Via{nil}
	if len(v.Nest) > 1 {
		for i := range v.Nest {
			c := *v
			c.Nest = append(append([]string{}, v.Nest[:i]...), v.Nest[i+1:]...)
			if c.Build > i {
				c.Build--
			}
			if c.Observe > i {
				c.Observe--
			}
			out = append(out, &c)
		}
	}
	if v.New {
		c := *v
		c.New = false
		out = append(out, &c)
	}
	if v.Build != v.Observe {
		c := *v
		c.Observe = c.Build
		out = append(out, &c)
	}
	return out
}

// ---------------------------------------------------------------- generators

// the ways of getting one wrapper: each kind and each auto style, by Wrap and
// by New; for Wrap also built on the wrapper and looked at on the core table
// and the other way round
func c02ViaSingles() []*C02Via {
	var out []*C02Via
	for _, k := range append(append([]string{}, c02ViaKinds...), c02ViaAuto...) {
		out = append(out,
			&C02Via{Nest: []string{k}, Build: 1, Observe: 1},
			&C02Via{Nest: []string{k}, New: true, Build: 1, Observe: 1},
			&C02Via{Nest: []string{k}, Build: 1, Observe: 0},
			&C02Via{Nest: []string{k}, Build: 0, Observe: 1})
	}
	return out
}

func c02ViaRandom(r *RNG) *C02Via {
	all := append(append([]string{}, c02ViaKinds...), c02ViaAuto...)
	n := 1 + r.Intn(3)
	v := &C02Via{New: r.Intn(2) == 0}
	for i := 0; i < n; i++ {
		v.Nest = append(v.Nest, pick(r, all))
	}
	v.Build = r.Intn(n + 1)
	v.Observe = r.Intn(n + 1)
	if r.Intn(2) == 0 {
		v.Observe = v.Build
	}
	return v
}

// a header of h cells (h < 0: none) and a row of w cells which reaches the
// table by each entry point, before and after the header, followed by more
// rows: every relation between the header's and a row's width
func c02WidthShapes(maxH, maxW int, f func([]C02Op)) {
	seq := func(lo, n int) []int {
		xs := make([]int, n)
		for i := range xs {
			xs[i] = lo + i
		}
		return xs
	}
	for h := -1; h <= maxH; h++ {
		var hdr []C02Op
		if h >= 0 {
			hdr = []C02Op{{O: "AddHeaders", Xs: seq(1, h)}}
		}
		for w := 0; w <= maxW; w++ {
			xs := seq(11, w)
			tail := []C02Op{{O: "AddSeparator"}, {O: "AddRowItems", Xs: []int{31}}, {O: "AppendNewRow", R: 2}, {O: "RowAdd", R: 2, X: 32}}
			entries := [][]C02Op{
				{{O: "AddRowItems", Xs: xs}},
				c02Cat([]C02Op{{O: "NewRow", R: 1}}, c02Adds(1, 0, xs), []C02Op{{O: "AddRow", R: 1}}),
				c02Cat([]C02Op{{O: "NewRowSizedFor", R: 1}, {O: "AddRow", R: 1}}, c02Adds(1, 0, xs)),
				c02Cat([]C02Op{{O: "AppendNewRow", R: 1}}, c02Adds(1, 0, xs)),
			}
			for _, e := range entries {
				f(c02Cat(hdr, []C02Op{{O: "AddRowItems", Xs: []int{21}}}, e, tail))
				if h >= 0 {
					f(c02Cat(e, hdr, tail)) // the header after the row
				}
			}
		}
	}
}

// callbacks which return errors: for every place of registration, with and
// without a building call of their own, all short continuations in which the
// callback can fire
func c02ErrCallbacks(r *RNG, add func([]C02Op), thorough bool) {
	deep := 0
	if thorough {
		deep = 1
	}
	reg := func(w, a, f, b, e int) C02Op { return C02Op{O: "OnAdd", W: w, A: a, F: f, B: b, E: e, R2: 1} }
	for _, ae := range [][2]int{{9, 1}, {9, 2}, {0, 1}} {
		a, e := ae[0], ae[1]
		// on the table, for rows and for cells
		for _, w := range []int{0, 2} {
			c02EnumFrom([]C02Op{reg(w, a, 0, 2, e)}, 2+deep, a == 9 && e == 1, nil, nil, add)
		}
		lean := !thorough && !(a == 9 && e == 1)
		// on a column, for its cells
		for c := 1; c <= 2 && !lean; c++ {
			o := reg(3, a, 0, 2, e)
			o.C = c
			c02EnumFrom([]C02Op{{O: "AddHeaders", Xs: []int{1, 2}}, o}, 2, false, nil, nil, add)
		}
		// on a row: for itself, for its cells, "for rows"; the row detached,
		// attached, attached with cells
		for _, w := range []int{1, 4, 5} {
			if lean && w != 4 {
				continue
			}
			for _, pre := range [][]C02Op{
				{{O: "NewRow", R: 1}},
				{{O: "AppendNewRow", R: 1}},
				{{O: "AddHeaders", Xs: []int{1}}, {O: "AppendNewRow", R: 1}},
				{{O: "NewRow", R: 1}, {O: "RowAdd", R: 1, X: 3}, {O: "AddRow", R: 1}},
			} {
				o := reg(w, a, 0, 2, e)
				o.R = 1
				c02EnumFrom(c02Cat(pre, []C02Op{o}), 2+deep, false, nil, nil, add)
			}
		}
	}
	// several cells in a burst on an attached row, the callback complaining
	// about all / every second of them; the same through AddRowItems / AddRow
	for _, w := range []int{2, 4} {
		for e := 1; e <= 2; e++ {
			for n := 1; n <= 4; n++ {
				o := reg(w, 9, 0, 0, e)
				o.R = 1
				add(c02Cat([]C02Op{{O: "AddHeaders", Xs: []int{1}}, {O: "AppendNewRow", R: 1}, o}, c02Adds(1, 0, []int{11, 12, 13, 14}[:n]), []C02Op{{O: "AddSeparator"}}))
				add(c02Cat([]C02Op{{O: "NewRow", R: 1}, o}, c02Adds(1, 0, []int{11, 12, 13, 14}[:n]), []C02Op{{O: "AddRow", R: 1}, {O: "RowAdd", R: 1, X: 15}}))
			}
		}
	}
	// random programs with one to three callbacks, some returning errors
	n := 60
	if thorough {
		n = 2000
	}
	for i := 0; i < n; i++ {
		h := c02Random(r, 14, 5)
		for j := range h {
			h[j].K, h[j].Ks = 0, nil
		}
		for k := 1 + r.Intn(3); k > 0; k-- {
			o := reg(pick(r, []int{0, 1, 2, 2, 3, 4, 4, 5}), pick(r, []int{9, 9, 9, 0, 0, 1, 2, 3, 6}), pick(r, []int{0, 0, 1, 2}), 1+r.Intn(4), pick(r, []int{0, 1, 1, 2}))
			o.C = r.Intn(4)
			pos := r.Intn(len(h) + 1)
			if o.W == 1 || o.W == 4 || o.W == 5 {
				var at []int
				for j, op := range h {
					if op.O == "NewRow" || op.O == "NewRowSizedFor" || op.O == "AppendNewRow" {
						at = append(at, j)
					}
				}
				if len(at) == 0 {
					o.W = 2
				} else {
					j := pick(r, at)
					o.R = h[j].R
					pos = j + 1 + r.Intn(len(h)-j)
				}
			}
			h = c02Cat(h[:pos], []C02Op{o}, h[pos:])
		}
		if c02Valid(h) {
			add(h)
		}
	}
}

func c02R6(r *RNG, addSpec func(C02Spec), thorough bool) {
	add := func(h []C02Op) { addSpec(C02Spec{Ops: h}) }
	c02ErrCallbacks(r, add, thorough)
	singles := c02ViaSingles()
	for _, v := range singles {
		v := v
		addVia := func(h []C02Op) { addSpec(C02Spec{Ops: h, Via: v}) }
		isAuto := strings.HasPrefix(v.Nest[0], "auto:")
		same := v.Build == v.Observe
		if thorough {
			// every way of getting one wrapper x every short history; header
			// width x row width x entry point
			c02Enum(3, true, addVia)
			c02WidthShapes(3, 4, addVia)
			continue
		}
		// quick tier: all histories of two calls for the wrapper of each
		// sub-package (by Wrap and by New) over the full alphabet and for
		// auto.New over the reduced one; the width shapes for all of these
		// and, smaller, where the calls are made on one level and the table
		// is looked at through another
		switch {
		case same && !isAuto:
			c02Enum(2, true, addVia)
		case same && v.New:
			c02Enum(2, false, addVia)
		}
		switch {
		case same && !isAuto && v.New:
			c02WidthShapes(2, 3, addVia)
		case same && (v.New || !isAuto), !same && !isAuto:
			c02WidthShapes(1, 2, addVia)
		}
	}
	// the same shapes on the core table
	c02WidthShapes(3, 4, add)
	// random histories through random stacks of wrappers (also with
	// callbacks, also over two tables)
	n := 150
	if thorough {
		n = 3000
	}
	for i := 0; i < n; i++ {
		h := c02Random(r, 20, 8)
		v := c02ViaRandom(r)
		if r.Intn(4) == 0 {
			for j := range h {
				h[j].K, h[j].Ks = 0, nil
			}
			o := C02Op{O: "OnAdd", W: pick(r, []int{0, 2}), A: pick(r, []int{9, 0, 2}), B: 1 + r.Intn(3), E: r.Intn(3), R2: 1}
			pos := r.Intn(len(h) + 1)
			h = c02Cat(h[:pos], []C02Op{o}, h[pos:])
			if !c02Valid(h) {
				continue
			}
		}
		addSpec(C02Spec{Ops: h, Via: v})
	}
}
