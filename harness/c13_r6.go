package main

// C13, round 6: Cell VALUES that are copies of existing cells.
//
// A Cell is a value type.  A program can copy the value of a cell that a row
// holds - c := *cellAt, c := row.Cells()[i], c := t.Headers()[i], the same from
// another table - and from then on c is an object of its own: it starts with
// the callbacks (and properties) the cell carried at that moment, a callback
// registered upon &c belongs to c alone, and Row.Add(c) stores a further copy
// that is a new cell of its row.  The value still records the row and column
// it was copied from (unexported fields that Row.Add overwrites); nothing in
// the property lets that matter.  Until round 6 the only local Cell variables
// that received registrations were fresh ones (NewCell), and values copied out
// of rows were only ever added, never registered upon.
//
// In the history language: "stamp" with From = "cell" (SR, SC; S = which
// accessor: 0 = dereference of the pointer CellAt / &Headers()[i] gives, 1 = an
// element of the by-value slice Row.Cells() / Headers()) or "foreign" (SC).
// The simulator gives the variable the registrations the source cell carried;
// "reg" upon the variable and "rowaddfrom" the variable are as before.  What
// must hold: the source cell and every other cell keep exactly the invocations
// their own registrations give them, the variable's callbacks fire on the
// cells it was added as (once per pass each) and nowhere while it is not
// added.

import (
	"go.pennock.tech/tabular"
)

var c13RandCopies bool

func b2i(b bool) int {
	if b {
		return 1
	}
	return 0
}

// cellValue: the value of cell (id, c), copied out through the public API
func (e *c13Env) cellValue(id, c int, bySlice bool) tabular.Cell {
	if bySlice {
		if id == e.hdrID {
			if hs := e.t.Headers(); c >= 1 && c <= len(hs) {
				return hs[c-1]
			}
		} else if r := e.rowPtr(id); r != nil {
			if cs := r.Cells(); c >= 1 && c <= len(cs) {
				return cs[c-1]
			}
		}
	}
	p := e.cellPtr(id, c)
	if p == nil {
		panic("harness: source cell not reachable")
	}
	return *p
}

// foreignCell: cell n of the one row of another table (which has been rendered once)
func (e *c13Env) foreignCell(n int) *tabular.Cell {
	if e.other == nil {
		e.other = tabular.New()
		e.other.AddRowItems("f", "f", "f")
		e.other.InvokeRenderCallbacks()
	}
	p, err := e.other.CellAt(tabular.CellLocation{Row: 1, Column: n})
	if err != nil {
		panic("harness: foreign cell")
	}
	return p
}

// c13RandStamp: a new local Cell variable - fresh, or a copy of a cell that exists
func c13RandStamp(r *RNG, s *c13Sim) C13Op {
	o := opK("stamp")
	switch r.Intn(4) {
	case 0:
	case 1:
		o.From, o.SC = "foreign", 1+r.Intn(3)
	default:
		if len(s.rows) == 0 {
			return o
		}
		sr := r.Intn(len(s.rows))
		if s.rows[sr].cells == 0 {
			return o
		}
		o.From, o.SR, o.SC, o.S = "cell", sr, 1+r.Intn(s.rows[sr].cells), r.Intn(2)
	}
	return o
}

// Every way a copied cell value can take part in a history, on small tables:
// source = a body cell (first / last column; of an attached row, of a detached
// row), a header cell, a cell of another table; copied through either
// accessor; the source cell carrying 0 or 1 callback of its own before the
// copy is taken; a cell-level registration (every time, both target aliases)
// upon the copy; the copy then added - to the source's
// own row, to another attached row, to a detached row that is attached later,
// to a row in a different column position - or never added at all; a further
// registration upon the source cell after the copy was taken (it must not
// reach the copy) and one upon the stored cell.
func c13GenValueCopies(r *RNG, tier string, add func([]C13Op)) {
	cat := func(parts ...[]C13Op) []C13Op {
		var out []C13Op
		for _, p := range parts {
			out = append(out, p...)
		}
		return out
	}
	cellReg := func(row, col, cb int, time, target string) C13Op {
		return C13Op{K: "reg", Owner: "cell", R: row, N: col, Time: time, Target: target, CB: cb}
	}
	type src struct {
		base   []C13Op // builds the source (rows 0..)
		from   string
		sr, sc int
		rows   int // rows allocated by base
	}
	srcs := []src{
		{[]C13Op{opN("items", 2)}, "cell", 0, 1, 1},
		{[]C13Op{opN("items", 2)}, "cell", 0, 2, 1},
		{[]C13Op{opN("headers", 2), opN("items", 1)}, "cell", 0, 2, 2},
		{[]C13Op{opK("newrow"), opR("rowadd", 0), opR("rowadd", 0)}, "cell", 0, 2, 1}, // a detached row's cell
		{[]C13Op{opN("items", 2)}, "foreign", 0, 2, 1},
		{[]C13Op{opN("items", 1)}, "", 0, 0, 1}, // the fresh variable, for comparison
	}
	times := c13Times
	targets := []string{"itself", "cell"}
	for si, sc := range srcs {
		for _, tm := range times {
			for ti, target := range targets {
				for prior := 0; prior <= 1; prior++ {
					if prior == 1 && sc.from != "cell" {
						continue
					}
					for acc := 0; acc <= 1; acc++ {
						if acc == 1 && sc.from != "cell" {
							continue
						}
						if tier != "thorough" && acc == 1 && (ti+si+prior)%2 == 0 {
							continue
						}
						var pre []C13Op
						if prior == 1 {
							pre = []C13Op{cellReg(sc.sr, sc.sc, 1, tm, "itself")}
						}
						take := C13Op{K: "stamp", From: sc.from, SR: sc.sr, SC: sc.sc, S: acc}
						if sc.from != "cell" {
							take.S = 0
						}
						onCopy := C13Op{K: "reg", Owner: "stamp", N: 0, Time: tm, Target: target, CB: 2}
						later := []C13Op(nil)
						if sc.from == "cell" {
							later = []C13Op{cellReg(sc.sr, sc.sc, 3, tm, "cell")} // upon the source, after the copy was taken
						}
						n := sc.rows
						addv := func(dest int) C13Op { return C13Op{K: "rowaddfrom", R: dest, From: "stamp", S: 0} }
						dests := [][]C13Op{
							nil, // never added
							{opK("append"), addv(n), cellReg(n, 1, 4, tm, "itself")},                             // another attached row, column 1
							{opN("items", 2), addv(n)},                                                           // late into a full row: column 3
							{opK("newrow"), opR("rowadd", n), addv(n), opR("addrow", n)},                         // a detached row, attached later, column 2
							{opK("append"), addv(n), opK("append"), addv(n + 1), cellReg(n+1, 1, 4, tm, "cell")}, // twice
						}
						if sc.from == "cell" {
							dests = append(dests, []C13Op{addv(sc.sr)}) // back into the source's own row
						}
						for di, d := range dests {
							if tier != "thorough" && di >= 3 && (di+ti+si+prior+acc)%2 == 1 {
								continue
							}
							// registration upon the copy before it is added ...
							add(cat(sc.base, pre, []C13Op{take, onCopy}, later, d, []C13Op{opN("items", 1)}))
							// ... and (it is a variable: only the later additions carry it) between two additions
							if di == 4 {
								add(cat(sc.base, pre, []C13Op{take}, d[:2], []C13Op{onCopy}, later, d[2:]))
							}
						}
					}
				}
			}
		}
	}
	// column- and row-level cell callbacks around a copied value that carries a
	// registration of its own: the new cell belongs to the row and column it
	// now stands in, the source to its own
	for _, tm := range c13Times {
		for _, acc := range []int{0, 1} {
			base := []C13Op{opN("items", 2), opK("append"),
				{K: "reg", Owner: "column", N: 1, Time: tm, Target: "cell", CB: 5},
				{K: "reg", Owner: "column", N: 2, Time: tm, Target: "cell", CB: 6},
				{K: "reg", Owner: "row", R: 0, Time: tm, Target: "cell", CB: 7},
				{K: "reg", Owner: "row", R: 1, Time: tm, Target: "cell", CB: 8}}
			take := C13Op{K: "stamp", From: "cell", SR: 0, SC: 2, S: acc}
			onCopy := C13Op{K: "reg", Owner: "stamp", N: 0, Time: tm, Target: "itself", CB: 2}
			add(cat(base, []C13Op{take, onCopy, {K: "rowaddfrom", R: 1, From: "stamp", S: 0}}))
			add(cat(base, []C13Op{take, onCopy, opR("rowadd", 1), {K: "rowaddfrom", R: 1, From: "stamp", S: 0}}))
		}
	}
}
