package main

// C15, widened (round 5): what a destination may fail WITH, what the cells of
// the table may HOLD, and runs through one long-lived table and wrapper.

import (
	"errors"
	"fmt"
	"io"
	"io/fs"
	"strings"
)

// ---- error values.  error is an interface: the value a Write returns may be
// of any type with an Error method.  Pointer-shaped and scalar types are
// comparable with ==; slice-, map- and func-typed errors (multi-errors of a
// fan-out writer, validation error lists) and by-value structs holding one are
// NOT (== on two interface values of such a type panics at run time).  An
// error may also be a nil pointer in a non-nil interface, may answer Is / As /
// Unwrap in any way it likes, or be the product of errors.Join.

type sliceErr []error

func (e sliceErr) Error() string { return fmt.Sprintf("%d destinations failed", len(e)) }

type structSliceErr struct {
	op    string
	parts []string
}

func (e structSliceErr) Error() string { return e.op + ": " + strings.Join(e.parts, ", ") }

type mapErr map[string]string

func (e mapErr) Error() string { return fmt.Sprintf("%d fields rejected", len(e)) }

type funcErr func() string

func (e funcErr) Error() string { return e() }

type arrayOfIfaceErr [1]interface{} // comparable type, uncomparable content

func (e arrayOfIfaceErr) Error() string { return "array-shaped error" }

type nilPtrErr struct{ msg string }

func (e *nilPtrErr) Error() string {
	if e == nil {
		return "nil pointer that is an error all the same"
	}
	return e.msg
}

type isAnythingErr struct{}

func (isAnythingErr) Error() string       { return "claims to be whatever it is compared with" }
func (isAnythingErr) Is(error) bool       { return true }
func (isAnythingErr) As(interface{}) bool { return false }
func (isAnythingErr) Unwrap() error       { return nil }

type multiUnwrapErr struct{ errs []error }

func (e *multiUnwrapErr) Error() string   { return "several things went wrong" }
func (e *multiUnwrapErr) Unwrap() []error { return e.errs }

type emptyTextErr struct{}

func (emptyTextErr) Error() string { return "" }

func init() {
	c15Errs = append(c15Errs,
		sliceErr{errFault, io.ErrClosedPipe},
		structSliceErr{"write", []string{"a", "b"}},
		(*nilPtrErr)(nil),
		mapErr{"k": "v"},
		errors.Join(errFault, io.ErrClosedPipe),
		isAnythingErr{},
		funcErr(func() string { return "func-typed error" }),
		&multiUnwrapErr{[]error{errFault, fs.ErrClosed}},
		emptyTextErr{},
		arrayOfIfaceErr{[]int{1}},
		sliceErr(nil), // a nil slice in a non-nil interface
	)
}

// ---- cell contents: every kind of item the table specs can make (the
// renderers choose their encoding path by the item's dynamic type: nil,
// booleans, numbers, runes, Stringers / errors / GoStringers with and without
// size overrides, cells inside cells, slices, maps, structs)
func c15Item(r *RNG) ItemSpec {
	switch r.Intn(24) {
	case 0, 1:
		return ItemSpec{K: "nil"}
	case 2, 3:
		return ItemSpec{K: "bool", I: int64(r.Intn(2))}
	case 4:
		return ItemSpec{K: "int", I: pick(r, []int64{0, -1, 7, 1 << 40})}
	case 5:
		return ItemSpec{K: "float", F: pick(r, []float64{0, -0.5, 1e21, 123456.789})}
	case 6:
		return ItemSpec{K: "rune", R: pick(r, []int32{'x', 0x65e5, '"', '<'})}
	case 7, 8:
		return ItemSpec{K: "obj", Mask: r.Intn(32), S: []byte(pick(r, []string{"", "s", `q"`, "l1\nl2", "é<"})), G: []byte("g"), E: []byte(pick(r, []string{"", "e"})), H: 1 + r.Intn(2), W: r.Intn(4)}
	case 9:
		in := c15Item(r)
		if in.K == "cell" || in.K == "pcell" {
			in = Str("in")
		}
		return ItemSpec{K: "cell", Inner: &in}
	case 10:
		in := pick(r, []ItemSpec{Str("pc"), {K: "nil"}, {K: "bool", I: 1}})
		return ItemSpec{K: "pcell", Inner: &in}
	case 11:
		return ItemSpec{K: "slice", I: int64(r.Intn(10))}
	case 12:
		return ItemSpec{K: "map", B: []byte("k"), I: int64(r.Intn(10))}
	case 13:
		return ItemSpec{K: "structx", B: []byte("sx"), I: int64(r.Intn(10))}
	case 14:
		return ItemSpec{K: "valstr", B: []byte(pick(r, []string{"", "v", `"`, "<&>"}))}
	case 15:
		return ItemSpec{K: "strerr", B: []byte(pick(r, []string{"", "err"}))}
	default:
		return c15Text(r)
	}
}

// fixed tables over the item kinds: each kind in the first, a middle and the
// last column, in the only row and among others, with and without skipable
// columns
func c15KindTables() []TableSpec {
	hdr := func(n int) *[]ItemSpec {
		h := make([]ItemSpec, n)
		for i := range h {
			h[i] = Str(fmt.Sprintf("c%d", i))
		}
		return &h
	}
	null := ItemSpec{K: "nil"}
	yes, no := ItemSpec{K: "bool", I: 1}, ItemSpec{K: "bool"}
	num, flt := ItemSpec{K: "int", I: 42}, ItemSpec{K: "float", F: 2.5}
	obj := ItemSpec{K: "obj", Mask: 1, S: []byte("st")}
	objErr := ItemSpec{K: "obj", Mask: 4, E: []byte("er")}
	plain := ItemSpec{K: "obj", Mask: 0}
	inner := yes
	cell := ItemSpec{K: "cell", Inner: &inner}
	return []TableSpec{
		{Header: hdr(3), Rows: []RowSpec{{Cells: []ItemSpec{null, yes, no}}, {Cells: []ItemSpec{Str("t"), null, Str("u")}}, {Cells: []ItemSpec{no, Str(""), null}}}},
		{Header: hdr(1), Rows: []RowSpec{{Cells: []ItemSpec{null}}, {Sep: true}, {Cells: []ItemSpec{yes}}}},
		{Header: hdr(4), Rows: []RowSpec{{Cells: []ItemSpec{num, flt, obj, objErr}}, {Cells: []ItemSpec{plain, cell, {K: "slice", I: 3}, {K: "map", B: []byte("k"), I: 1}}}, {Cells: []ItemSpec{{K: "structx", B: []byte("b"), I: 1}, {K: "valstr", B: []byte("vs")}, {K: "strerr", B: []byte("se")}, {K: "rune", R: 'r'}}}}},
		{Header: hdr(3), Rows: []RowSpec{{Cells: []ItemSpec{null, Str(""), yes}}, {Cells: []ItemSpec{Str(""), null}}, {How: 2, Cells: []ItemSpec{no}}}, Skip: map[int]int{1: 1, 2: 1, 3: 2}},
		{Header: hdr(2), Rows: []RowSpec{{Cells: []ItemSpec{null, null}}, {Cells: []ItemSpec{Str(""), Str("")}}}, Skip: map[int]int{0: 1}},
	}
}

// which kinds of item the table holds (input-distribution tags)
func c15KindTags(ts TableSpec) []string {
	seen := map[string]bool{}
	var walk func(it ItemSpec)
	walk = func(it ItemSpec) {
		seen[it.K] = true
		if it.Inner != nil {
			walk(*it.Inner)
		}
	}
	for _, r := range ts.Rows {
		for _, c := range r.Cells {
			walk(c)
		}
	}
	var out []string
	for _, k := range []string{"nil", "bool", "int", "float", "rune", "obj", "cell", "pcell", "slice", "map", "structx", "valstr", "strerr"} {
		if seen[k] {
			out = append(out, "item-kind="+k)
		}
	}
	if len(ts.Skip) > 0 {
		out = append(out, "skipable-columns")
	}
	return out
}
