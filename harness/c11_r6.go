package main

// C11 at volume (round 6).  The property has no bound: every error is reported,
// however many there are.  The histories of c11.go are short (a handful of
// errors per container); here one container - a bare one, a detached row's,
// the table's - receives n errors for n crossing every power of two up to the
// tier's limit, through every way errors get in: loops of AddError, one long
// AddErrorList (with nil entries), AddErrorList(Errors()) doubling, a callback
// that fails for every cell of a big table at add time and at render time,
// Row.AddError / Row.Add callbacks on a row that joins afterwards (AddRow's
// take-over), misuse and direct errors once the list is long.
//
// To keep cases.v small a history is written with bulk operations
// (coq/Model/ErrBulk.v) and every Errors() result by its runs of consecutive
// ids; one observation per bulk step.

import (
	"encoding/json"
	"fmt"
	"regexp"
	"strconv"
	"strings"

	"go.pennock.tech/tabular"
)

// runs of consecutive ids: "(Some [g 0 5; gn 2])"
func (v c11View) CoqV() string {
	if v.Nil {
		return "None"
	}
	var xs []string
	for i := 0; i < len(v.Ids); {
		j := i + 1
		if v.Ids[i] < 0 {
			for j < len(v.Ids) && v.Ids[j] < 0 {
				j++
			}
			xs = append(xs, fmt.Sprintf("gn %d", j-i))
		} else {
			for j < len(v.Ids) && v.Ids[j] == v.Ids[j-1]+1 {
				j++
			}
			xs = append(xs, fmt.Sprintf("g %d %d", v.Ids[i], j-i))
		}
		i = j
	}
	return "(Some " + cqList(xs) + ")"
}

// for humans: [e0..e4095 e4097 nil*2]
func (v c11View) Short() string {
	if v.Nil {
		return "nil"
	}
	var xs []string
	for i := 0; i < len(v.Ids); {
		j := i + 1
		if v.Ids[i] < 0 {
			for j < len(v.Ids) && v.Ids[j] < 0 {
				j++
			}
			xs = append(xs, fmt.Sprintf("nil*%d", j-i))
		} else {
			for j < len(v.Ids) && v.Ids[j] == v.Ids[j-1]+1 {
				j++
			}
			if j-i == 1 {
				xs = append(xs, fmt.Sprintf("e%d", v.Ids[i]))
			} else {
				xs = append(xs, fmt.Sprintf("e%d..e%d", v.Ids[i], v.Ids[j-1]))
			}
		}
		i = j
	}
	return fmt.Sprintf("%d entries [%s]", len(v.Ids), strings.Join(xs, " "))
}

var (
	c11ReCF  = regexp.MustCompile(`^CF (\S+) (\d+) \(e (\d+)\)$`)
	c11ReRow = regexp.MustCompile(`^RowAddError (\d+) \(e (\d+)\)$`)
	c11ReTbl = regexp.MustCompile(`^TableAddError \(e (\d+)\)$`)
)

// consecutive events that differ only in consecutive error ids become one bulk event
func c11CompressEvents(evs []string) string {
	var out []string
	lastKey, lastForm := "", ""
	start, n := 0, 0
	flush := func() {
		if n > 0 {
			out = append(out, fmt.Sprintf(lastForm, start, n))
		}
		lastKey, n = "", 0
	}
	for _, ev := range evs {
		key, form, id := "", "", -1
		if m := c11ReCF.FindStringSubmatch(ev); m != nil {
			key, form = "cf "+m[1]+" "+m[2], "BCallbacks "+m[1]+" "+m[2]+" %d %d"
			id, _ = strconv.Atoi(m[3])
		} else if m := c11ReRow.FindStringSubmatch(ev); m != nil {
			key, form = "row "+m[1], "BRowErrs "+m[1]+" %d %d"
			id, _ = strconv.Atoi(m[2])
		} else if m := c11ReTbl.FindStringSubmatch(ev); m != nil {
			key, form = "tbl", "BTableErrs %d %d"
			id, _ = strconv.Atoi(m[1])
		}
		if key == "" {
			flush()
			out = append(out, "BOne ("+ev+")")
			continue
		}
		if key == lastKey && id == start+n {
			n++
			continue
		}
		flush()
		lastKey, lastForm, start, n = key, form, id, 1
	}
	flush()
	return cqList(out)
}

// ops that exist only at volume; called from (*c11Table).do
//
//	block  : the ops Sub, N times, as ONE step (one observation at the end);
//	         in repetition i every row number of Sub is shifted by i*C
//	tblbig : t.AddErrorList of N entries, every P-th (P = op.C, 0 = none) nil
func (h *c11Table) doVolume(op c11Op) (name string, act func(), ok bool) {
	switch op.Op {
	case "block":
		var names []string
		for _, s := range op.Sub {
			names = append(names, s.Op)
		}
		name = fmt.Sprintf("for i := 0; i < %d; i++ { %s } // rows numbered from the op's r, +%d per turn", op.N, strings.Join(names, "; "), op.C)
		return name, func() {
			for i := 0; i < op.N; i++ {
				for _, s := range op.Sub {
					s.R += i * op.C
					_, a, ok := h.do(s)
					if !ok {
						continue
					}
					a()
					if h.x.curMisuse >= 0 {
						// a library-made error: recognised by identity the first time it is seen
						_ = h.x.view(h.t.Errors())
						h.x.curMisuse = -1
					}
				}
			}
			h.curKind, h.curRow = op.Op, op.R
		}, true
	case "tblbig":
		el := make([]error, op.N)
		var v c11View
		for i := range el {
			id := -1
			if op.C == 0 || i%op.C != op.C-1 {
				id, el[i] = h.x.errOf(2 + 4*(i%2)) // single-id kinds: plain, comparable value
			}
			v.Ids = append(v.Ids, id)
			h.raise(-1, id, "tbllist")
		}
		h.emit("TableAddErrorList (option_map unruns "+v.CoqV()+")", fmt.Sprintf("table AddErrorList of %d entries: %s", op.N, v.Short()))
		return fmt.Sprintf("t.AddErrorList(<%d entries, every %d-th nil>)", op.N, op.C), func() { h.t.AddErrorList(el) }, true
	}
	return "", nil, false
}

// ------------------------------------------------------------ container at volume

func c11RunContV(sp c11Spec) CaseOut {
	x := newC11Ids()
	x.ek = sp.Ek
	var ec *tabular.ErrorContainer
	mode := "MNew"
	goSnip := []string{}
	switch sp.Mode {
	case "nil":
		mode = "MNil"
		goSnip = append(goSnip, "var ec *tabular.ErrorContainer")
	case "zero":
		mode = "MZero"
		ec = &tabular.ErrorContainer{}
		goSnip = append(goSnip, "ec := &tabular.ErrorContainer{}")
	default:
		ec = tabular.NewErrorContainer()
		goSnip = append(goSnip, "ec := tabular.NewErrorContainer()")
	}
	desc := c11Desc{Kind: "vcont", Mode: sp.Mode}
	var exp []int
	var steps []string
	tags := []string{"kind=vcont", "mode=" + sp.Mode}
	raised, size := 0, 0
	accept := func(id int) {
		if id >= 0 {
			raised++
			if sp.Mode != "nil" {
				exp = append(exp, id)
			}
		}
	}
	for _, op := range sp.Ops {
		var coqOp, name string
		var a, b c11View
		var el []error
		var act func()
		size += 1 + op.N
		switch op.Op {
		case "addmany":
			es := make([]error, op.N)
			first := x.next
			for i := range es {
				var id int
				id, es[i] = x.errOf(2 + 4*(i%2))
				accept(id)
			}
			coqOp = fmt.Sprintf("VAddMany %d %d", first, op.N)
			name = fmt.Sprintf("for i := 0; i < %d; i++ { ec.AddError(e(%d+i)) }", op.N, first)
			act = func() {
				for _, e := range es {
					ec.AddError(e)
				}
			}
		case "add":
			var e error
			id := -1
			if op.E != 0 {
				id, e = x.errOf(op.E)
			}
			accept(id)
			coqOp = "VOp (OpAdd " + c11ErrCoq(id) + ")"
			name = fmt.Sprintf("ec.AddError(%s)", c11ErrName(id))
			act = func() { ec.AddError(e) }
		case "addbig":
			el = make([]error, op.N)
			var v c11View
			for i := range el {
				id := -1
				if op.C == 0 || i%op.C != op.C-1 {
					id, el[i] = x.errOf(2 + 4*(i%2))
				}
				accept(id)
				v.Ids = append(v.Ids, id)
			}
			coqOp = "VAddList " + strings.TrimSuffix(strings.TrimPrefix(v.CoqV(), "(Some "), ")")
			if len(el) == 0 {
				coqOp = "VAddList []"
			}
			name = fmt.Sprintf("ec.AddErrorList(<%d entries, every %d-th nil>)", op.N, op.C)
			act = func() { ec.AddErrorList(el) }
		case "addself":
			coqOp = "VOp OpAddSelf"
			name = "ec.AddErrorList(ec.Errors())"
			if sp.Mode != "nil" {
				exp = append(exp, exp...)
			}
			act = func() { ec.AddErrorList(ec.Errors()) }
		default:
			coqOp = "VOp OpErrors"
			name = `ec.Errors(); fmt.Sprintf("%#v %v", ec, ec)`
			act = func() { _ = fmt.Sprintf("%#v %v %d", ec, ec, len(ec.Errors())) }
		}
		tags = append(tags, "op="+op.Op, fmt.Sprintf("container-holds>=2^%d", c11Log2(len(exp))))
		goSnip = append(goSnip, name)
		msg, panicked := c11Try(func() {
			act()
			a = x.view(ec.Errors())
			b = a
			if el != nil {
				var s error = &c11Err{c11Sentinel}
				for i := range el {
					el[i] = s
				}
				b = x.view(ec.Errors())
			}
		})
		want := c11ViewOfLog(exp)
		sd := c11StepDesc{Op: name, Expect: want.Short()}
		if panicked {
			sd.Panic = msg
			desc.Steps = append(desc.Steps, sd)
			steps = append(steps, cqPair(coqOp, "Panic"))
			if desc.Sig == "" {
				desc.Sig = "container-panic-at-volume:" + op.Op
			}
			break
		}
		sd.Errors, sd.After = a.Short(), b.Short()
		if !a.eq(want) || !b.eq(want) {
			switch {
			case !a.eq(want) && len(a.Ids) < len(want.Ids):
				sd.Wrong = fmt.Sprintf("Errors() has %d entries, %d non-nil errors were added", len(a.Ids), len(want.Ids))
			case !a.eq(want):
				sd.Wrong = "Errors() is not the list of non-nil errors added"
			default:
				sd.Wrong = "Errors() changed when the caller overwrote the slice it had passed"
			}
			if desc.Sig == "" {
				switch {
				case !a.eq(want) && len(a.Ids) < len(want.Ids):
					desc.Sig = "container-loses-errors-at-volume:" + op.Op
				case !a.eq(want):
					desc.Sig = "container-wrong-log-at-volume:" + op.Op
				default:
					desc.Sig = "container-aliases-caller-slice-at-volume"
				}
			}
		}
		desc.Steps = append(desc.Steps, sd)
		if a.eq(b) {
			steps = append(steps, "v1 ("+coqOp+") "+a.CoqV())
		} else {
			steps = append(steps, "v2 ("+coqOp+") "+a.CoqV()+" "+b.CoqV())
		}
	}
	desc.Go = strings.Join(goSnip, "; ")
	desc.Foreign = x.unexpected
	term := fmt.Sprintf("(CContV %s %s)", mode, cqList(steps))
	return CaseOut{Coq: term, Desc: desc, Size: size, Tags: c11Uniq(tags), Key: term, Nontrivial: raised > 0}
}

func c11Log2(n int) int {
	k := 0
	for n > 1 {
		n /= 2
		k++
	}
	return k
}

// ------------------------------------------------------------ generator

// ladder(K): cumulative totals 2^k and 2^k+1 for k = 0..K, as increments
func c11Ladder(lo, K int) []int {
	var incs []int
	total := 0
	for k := lo; k <= K; k++ {
		if d := (1 << k) - total; d > 0 {
			incs = append(incs, d)
			total += d
		}
		incs = append(incs, 1)
		total++
	}
	return incs
}

func c11GenVolume(tier string) []json.RawMessage {
	var out []json.RawMessage
	add := func(s c11Spec) { out = append(out, mustJSON(s)) }
	K, KT := 13, 13 // container / table: lists of up to 2^K + a little
	if tier == "thorough" {
		K, KT = 16, 14
	}
	// a bare container: loops of AddError crossing every power of two, one observation on each side
	for _, mode := range []string{"zero", "new", "nil"} {
		var ops []c11Op
		for _, d := range c11Ladder(0, K) {
			if d == 1 {
				ops = append(ops, c11Op{Op: "add", E: 1})
			} else {
				ops = append(ops, c11Op{Op: "addmany", N: d})
			}
		}
		ops = append(ops, c11Op{Op: "dump"}, c11Op{Op: "add", E: 0}, c11Op{Op: "add", E: 1})
		add(c11Spec{Kind: "vcont", Mode: mode, Ops: ops})
		// one long list (adopted wholesale by a container whose slice is nil, before the repair), then more
		for _, nilEvery := range []int{0, 64} {
			if mode == "nil" && nilEvery == 0 {
				continue
			}
			add(c11Spec{Kind: "vcont", Mode: mode, Ops: []c11Op{
				{Op: "addbig", N: 1<<K + 1, C: nilEvery}, {Op: "add", E: 1}, {Op: "addbig", N: 1 << (K - 1), C: nilEvery}, {Op: "add", E: 1}}})
		}
		// AddErrorList(Errors()): doubling
		if mode == "nil" {
			continue
		}
		ops = []c11Op{{Op: "addmany", N: 3}}
		for k := 0; 3<<k <= 1<<K; k++ {
			ops = append(ops, c11Op{Op: "addself"})
		}
		ops = append(ops, c11Op{Op: "add", E: 1})
		add(c11Spec{Kind: "vcont", Mode: mode, Ops: ops})
	}

	// the table's container.  cols cells per row; a failing callback per cell.
	cols := 64
	rowsFor := func(n int) int { return (n + cols - 1) / cols }
	half, full := rowsFor(1<<(KT-1)), rowsFor(1<<KT+1)
	// (a) table-level cell callback at add time: every cell of a big import is rejected;
	//     afterwards misuse on a separator, direct errors, an attached row's error
	add(c11Spec{Kind: "vtable", Ops: []c11Op{
		{Op: "reg", Owner: "table", Target: 1, When: 0, Ek: 1},
		{Op: "block", R: 1, C: 1, N: half, Sub: []c11Op{{Op: "addrowitems", R: 1, N: cols}}},
		{Op: "block", R: 1, C: 1, N: full - half, Sub: []c11Op{{Op: "addrowitems", R: 1 + half, N: cols}}},
		{Op: "sep", R: 2000}, {Op: "rowadd", R: 2000}, {Op: "tblerr", E: 1}, {Op: "rowerr", R: 1, E: 1},
		{Op: "tbllist", L: c11L(1, 0, 1)},
	}})
	// (b) a render-time cell callback over a big clean table, twice (thorough: evaluation in Coq is costly)
	if tier == "thorough" {
		add(c11Spec{Kind: "vtable", Ops: []c11Op{
			{Op: "block", R: 1, C: 1, N: half + 1, Sub: []c11Op{{Op: "addrowitems", R: 1, N: cols}}},
			{Op: "reg", Owner: "table", Target: 1, When: 2, Ek: 1},
			{Op: "render"}, {Op: "tblerr", E: 1}, {Op: "render"},
		}})
	}
	// (c) a detached row collects the errors (its own container), then joins: AddRow's take-over of a long list
	for _, viaCells := range []bool{false, true} {
		if tier != "thorough" {
			// the model keeps every intermediate list of a detached row: quadratic memory
			break
		}
		ops := []c11Op{{Op: "tblerr", E: 1}, {Op: "newrow", R: 1}}
		if viaCells {
			ops = append(ops, c11Op{Op: "reg", Owner: "row", R: 1, Target: 1, When: 0, Ek: 1},
				c11Op{Op: "block", N: 1<<KT + 1, Sub: []c11Op{{Op: "rowadd", R: 1}}})
		} else {
			ops = append(ops, c11Op{Op: "block", N: 1<<KT + 1, Sub: []c11Op{{Op: "rowerr", R: 1, E: 2}}})
		}
		ops = append(ops, c11Op{Op: "rowerr", R: 1, E: 1}, c11Op{Op: "addrow", R: 1}, c11Op{Op: "rowerr", R: 1, E: 1}, c11Op{Op: "tblerr", E: 1})
		add(c11Spec{Kind: "vtable", Ops: ops})
	}
	// (d) direct errors on the table: a loop, a long list with nils, and the ladder
	{
		var ops []c11Op
		for _, d := range c11Ladder(KT-2, KT) {
			if d == 1 {
				ops = append(ops, c11Op{Op: "tblerr", E: 1})
			} else {
				ops = append(ops, c11Op{Op: "block", N: d, Sub: []c11Op{{Op: "tblerr", E: 2}}})
			}
		}
		if tier == "thorough" {
			add(c11Spec{Kind: "vtable", Ops: ops})
		}
		add(c11Spec{Kind: "vtable", Ops: []c11Op{{Op: "tblbig", N: 1<<KT + 1, C: 64}, {Op: "tblerr", E: 1}, {Op: "tblbig", N: 1 << (KT - 1), C: 0}, {Op: "tblerr", E: 1}}})
	}
	return out
}
