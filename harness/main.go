package main

// vharness: runs generated / enumerated / corpus inputs against the real
// library (module replace => the repository under test) and writes the inputs
// together with the observed outputs as Coq terms for evaluation against the
// model, plus a JSON description of every case for evidence and replay.

import (
	"encoding/json"
	"flag"
	"fmt"
	"os"
	"path/filepath"
	"runtime/debug"
	"sort"
	"strings"
)

type CaseOut struct {
	Coq        string      // Coq term: (input, observed)
	Desc       interface{} // observed behaviour, human-readable
	Size       int
	Tags       []string // input-distribution classes
	Key        string   // identity for the distinct count
	Nontrivial bool
}

type Prop struct {
	ID       string
	Imports  string // Coq Require line(s)
	CaseType string
	CaseFn   string // case -> N (Run/Glue.v code)
	ModelFn  string // case -> printable model observation (for replays)
	Gen      func(r *RNG, tier string) []json.RawMessage
	Run      func(spec json.RawMessage) CaseOut
	Shrink   func(spec json.RawMessage) []json.RawMessage
	Rule     string
	// Exhaustive reports what part of the run enumerated a finite space completely
	Exhaustive string
	// Assumptions: what this property's check assumes about external code (evidence.assumptions)
	Assumptions []string
}

var props = map[string]*Prop{}

func register(p *Prop) { props[p.ID] = p }

func mustJSON(v interface{}) json.RawMessage {
	b, err := json.Marshal(v)
	if err != nil {
		panic(err)
	}
	return b
}

type caseRecord struct {
	Index      int             `json:"index"`
	Origin     string          `json:"origin"` // corpus | generated | given
	Spec       json.RawMessage `json:"spec"`
	Observed   interface{}     `json:"observed"`
	Size       int             `json:"size"`
	Tags       []string        `json:"tags"`
	Nontrivial bool            `json:"nontrivial"`
	CoqTerm    string          `json:"coq,omitempty"`
}

func main() {
	if len(os.Args) < 2 {
		fmt.Fprintln(os.Stderr, "usage: vharness <ID> [flags]")
		os.Exit(2)
	}
	id := os.Args[1]
	p := props[id]
	if p == nil {
		fmt.Fprintln(os.Stderr, "unknown property", id)
		os.Exit(2)
	}
	fs := flag.NewFlagSet(id, flag.ExitOnError)
	seed := fs.Uint64("seed", 1, "PRNG seed")
	tier := fs.String("tier", "quick", "quick|thorough")
	out := fs.String("out", ".", "output directory")
	specsFile := fs.String("specs", "", "JSON array of specs to run instead of generating")
	shrinkFile := fs.String("shrink", "", "JSON spec: run its one-step reductions instead of generating")
	corpus := fs.String("corpus", "", "directory of corpus specs (*.json), run first")
	perShard := fs.Int("per-shard", 400, "cases per .v file")
	keepCoq := fs.Bool("keep-coq", false, "store each case's Coq term in cases.json")
	fs.Parse(os.Args[2:])

	type specO struct {
		origin string
		spec   json.RawMessage
	}
	var specs []specO
	switch {
	case *specsFile != "":
		var arr []json.RawMessage
		b, err := os.ReadFile(*specsFile)
		if err != nil {
			panic(err)
		}
		if err := json.Unmarshal(b, &arr); err != nil {
			panic(err)
		}
		for _, s := range arr {
			specs = append(specs, specO{"given", s})
		}
	case *shrinkFile != "":
		b, err := os.ReadFile(*shrinkFile)
		if err != nil {
			panic(err)
		}
		if p.Shrink != nil {
			for _, s := range p.Shrink(b) {
				specs = append(specs, specO{"shrink", s})
			}
		}
	default:
		if *corpus != "" {
			files, _ := filepath.Glob(filepath.Join(*corpus, "*.json"))
			sort.Strings(files)
			for _, f := range files {
				b, err := os.ReadFile(f)
				if err != nil {
					continue
				}
				specs = append(specs, specO{"corpus", b})
			}
		}
		rng := NewRNG(*seed)
		for _, s := range p.Gen(rng, *tier) {
			specs = append(specs, specO{"generated", s})
		}
	}

	var records []caseRecord
	tagCount := map[string]int{}
	distinct := map[string]bool{}
	nontrivial := map[string]bool{}
	var terms []string
	// A panic that escapes from a property's Run comes from library code called
	// outside any observed step (building calls, reading the table back): the
	// case cannot be judged; it is set aside with its input and reported by
	// check.py as a broken correspondence (the model does not panic there).
	type crashRecord struct {
		Origin string          `json:"origin"`
		Spec   json.RawMessage `json:"spec"`
		Panic  string          `json:"panic"`
		Stack  string          `json:"stack"`
	}
	var crashes []crashRecord
	runOne := func(spec json.RawMessage) (co CaseOut, crashed *crashRecord) {
		defer func() {
			if r := recover(); r != nil {
				st := string(debug.Stack())
				if len(st) > 3000 {
					st = st[:3000]
				}
				crashed = &crashRecord{Spec: spec, Panic: fmt.Sprint(r), Stack: st}
			}
		}()
		return p.Run(spec), nil
	}
	for _, s := range specs {
		co, crashed := runOne(s.spec)
		if crashed != nil {
			crashed.Origin = s.origin
			crashes = append(crashes, *crashed)
			continue
		}
		i := len(records)
		rec := caseRecord{Index: i, Origin: s.origin, Spec: s.spec, Observed: co.Desc, Size: co.Size, Tags: co.Tags, Nontrivial: co.Nontrivial}
		if *keepCoq {
			rec.CoqTerm = co.Coq
		}
		records = append(records, rec)
		for _, t := range co.Tags {
			tagCount[t]++
		}
		distinct[co.Key] = true
		if co.Nontrivial {
			nontrivial[co.Key] = true
		}
		terms = append(terms, co.Coq)
	}

	// shards
	nShards := 0
	for lo := 0; lo < len(terms) || (lo == 0 && nShards == 0); lo += *perShard {
		hi := lo + *perShard
		if hi > len(terms) {
			hi = len(terms)
		}
		var sb strings.Builder
		sb.WriteString(p.Imports + "\n")
		chunk := 40
		var names []string
		for c := lo; c < hi; c += chunk {
			ce := c + chunk
			if ce > hi {
				ce = hi
			}
			name := fmt.Sprintf("cs%d", c)
			names = append(names, name)
			fmt.Fprintf(&sb, "Definition %s : list %s := [\n  %s\n].\n", name, p.CaseType, strings.Join(terms[c:ce], ";\n  "))
		}
		if len(names) == 0 {
			fmt.Fprintf(&sb, "Definition cases : list %s := [].\n", p.CaseType)
		} else {
			fmt.Fprintf(&sb, "Definition cases : list %s := %s.\n", p.CaseType, strings.Join(names, " ++ "))
		}
		fmt.Fprintf(&sb, "Definition R := Eval vm_compute in failing (map %s cases).\nPrint R.\n", p.CaseFn)
		name := filepath.Join(*out, fmt.Sprintf("cases_%03d.v", nShards))
		if err := os.WriteFile(name, []byte(sb.String()), 0o644); err != nil {
			panic(err)
		}
		nShards++
		if hi >= len(terms) {
			break
		}
	}

	if err := os.WriteFile(filepath.Join(*out, "cases.json"), mustJSON(records), 0o644); err != nil {
		panic(err)
	}
	if len(crashes) > 0 {
		if len(crashes) > 50 {
			crashes = crashes[:50]
		}
		if err := os.WriteFile(filepath.Join(*out, "crashes.json"), mustJSON(crashes), 0o644); err != nil {
			panic(err)
		}
	}
	stats := map[string]interface{}{
		"crashed_outside_observed_steps": len(crashes),
		"property":                       id,
		"seed":                           *seed,
		"tier":                           *tier,
		"evaluations":                    len(terms),
		"distinct":                       len(distinct),
		"distinct_nontrivial":            len(nontrivial),
		"shards":                         nShards,
		"per_shard":                      *perShard,
		"distribution":                   tagCount,
		"rule":                           p.Rule,
		"exhaustive_part":                p.Exhaustive,
		"imports":                        p.Imports,
		"case_fn":                        p.CaseFn,
		"model_fn":                       p.ModelFn,
		"case_type":                      p.CaseType,
		"assumptions":                    p.Assumptions,
	}
	if err := os.WriteFile(filepath.Join(*out, "stats.json"), mustJSON(stats), 0o644); err != nil {
		panic(err)
	}
}
