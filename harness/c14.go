package main

// C14: rendering is repeatable and leaves the table unchanged.

import (
	"encoding/json"
	"fmt"
	htmltemplate "html/template"
	"strings"

	"go.pennock.tech/tabular"
	"go.pennock.tech/tabular/auto"
	"go.pennock.tech/tabular/csv"
	"go.pennock.tech/tabular/html"
	tjson "go.pennock.tech/tabular/json"
	"go.pennock.tech/tabular/markdown"
	"go.pennock.tech/tabular/properties"
	"go.pennock.tech/tabular/properties/align"
	"go.pennock.tech/tabular/texttable"
	"go.pennock.tech/tabular/texttable/decoration"
)

// slots: what "the same format" means
var c14Slots = []string{"csv", "html:A", "html:B", "json", "markdown", "text:utf8-heavy", "text:ascii-simple", "text:none", "text:utf8-double",
	"text:custom", // a decoration written by hand from its three base characters, never passed through Populate
	// style strings that are no registered name but a proper prefix of several: whatever they select (nothing, today), they select it every time
	"style:utf8-l", "style:utf8", "style:u", "style:texttable.utf8-"}

// the slots every sequence is enumerated over (the style slots get their own family)
const c14MainSlots = 10

type C14Render struct {
	Slot int `json:"slot"` // -1: not a render but a cell appended to row AddRow of the table (see Add); -2: the caller changes an item in place (see Mut)
	// Fresh: 0 reuse this slot's wrapper (text slots: ONE TextTable switched between decorations), 1 new Wrap,
	// 2 package-level / auto entry, 3 RenderTo of the reused wrapper into a failing writer (not judged; what
	// follows is), 4 auto.Render around the dedicated reused wrapper of slot Over with this slot's style,
	// 5 this slot's own dedicated reused wrapper (text slots: its decoration is set once, at creation)
	Fresh int `json:"fresh"`
	Over  int `json:"over,omitempty"`
	// Slot == -1: t.AllRows()[AddRow].Add(NewCell(Add)) between two renders; what is
	// rendered afterwards is compared with a fresh table built WITH that cell
	AddRow int       `json:"add_row,omitempty"`
	Add    *ItemSpec `json:"add,omitempty"`
	// Slot == -2: the application changes the state of a mutable item the table
	// holds (c14_r6.go), and does or does not ask the cell to Update
	Mut *C14Mut `json:"mut,omitempty"`
}

type C14Spec struct {
	Table  TableSpec `json:"table"`
	Props  bool      `json:"props"`  // set user properties on table, columns, rows, cells
	Misuse bool      `json:"misuse"` // provoke an error on the table before rendering
	// TwoTables: the table's first ordinary row is also attached to another,
	// longer table (a shared totals row): it now names that table as its own
	TwoTables bool        `json:"two_tables,omitempty"`
	Renders   []C14Render `json:"renders"`
	// World: instead of one table, several tables with their own long-lived
	// wrappers rendered in one history (c14_world.go); the fields above are unused
	World *C14World `json:"world,omitempty"`
}

type userKey struct{ n int }

func c14Snapshot(t tabular.Table, keys []interface{}) string { return c14SnapshotWith(t, keys, true) }

// withView: the whole view as JSON on top (the library-interpreted column
// properties are user-set state too); without it they are listed per column
func c14SnapshotWith(t tabular.Table, keys []interface{}, withView bool) string {
	var sb strings.Builder
	if withView {
		if v, err := json.Marshal(extractView(t)); err == nil {
			sb.Write(v)
			sb.WriteString("\n")
		}
	}
	fmt.Fprintf(&sb, "rows=%d cols=%d\n", t.NRows(), t.NColumns())
	props := func(po tabular.PropertyOwner) string {
		var ps []string
		for _, k := range keys {
			ps = append(ps, fmt.Sprintf("%v", po.GetProperty(k)))
		}
		return strings.Join(ps, ",")
	}
	fmt.Fprintf(&sb, "tprops=%s\n", props(t))
	for c := -1; c <= t.NColumns()+1; c++ {
		col := t.Column(c)
		if col == nil {
			fmt.Fprintf(&sb, "col%d=nil\n", c)
		} else {
			fmt.Fprintf(&sb, "col%d=%s", c, props(col))
			if !withView {
				fmt.Fprintf(&sb, " align=%v skip=%v", col.GetProperty(align.PropertyType), col.GetProperty(properties.Skipable))
			}
			sb.WriteString("\n")
		}
	}
	cells := func(cs []tabular.Cell) {
		for i := range cs {
			c := &cs[i]
			fmt.Fprintf(&sb, "  cell %q empty=%v loc=%v h=%d w=%d props=%s item=%T\n", c.String(), c.Empty(), c.Location(), c.Height(), c.TerminalCellWidth(), props(c), c.Item())
		}
	}
	if h := t.Headers(); h != nil {
		fmt.Fprintf(&sb, "header %d\n", len(h))
		cells(h)
	} else {
		sb.WriteString("header nil\n")
	}
	for i, r := range t.AllRows() {
		fmt.Fprintf(&sb, "row %d sep=%v loc=%v props=%s errs=%d\n", i, r.IsSeparator(), r.Location(), props(r), len(r.Errors()))
		cells(r.Cells())
		for j := range r.Cells() {
			c, err := t.CellAt(tabular.CellLocation{Row: i + 1, Column: j + 1})
			fmt.Fprintf(&sb, "  at(%d,%d) ok=%v same=%v\n", i+1, j+1, err == nil, c != nil && c.String() == r.Cells()[j].String())
		}
	}
	es := t.Errors()
	fmt.Fprintf(&sb, "errors nil=%v n=%d\n", es == nil, len(es))
	for _, e := range es {
		fmt.Fprintf(&sb, "  err %p\n", e)
	}
	return sb.String()
}

// c14After: the snapshot after as (length of the prefix shared with the snapshot before, the rest)
func c14After(before, after string) string {
	n := 0
	for n < len(before) && n < len(after) && before[n] == after[n] {
		n++
	}
	return cqPair(cqNat(n), cqStr(after[n:]))
}

func c14Text(r *RNG) ItemSpec {
	return Str(pick(r, []string{"a", "bb", "x y", "", "q\"r", "l1\nl2", "l1\nl2\n", "é", "<&>", "p|q", "1,2", "日本", "é"}))
}

func init() {
	register(&Prop{
		ID:       "C14",
		Imports:  "From Tab Require Import Run.Glue Run.C14Run.",
		CaseType: "(list view * list (nat * nat) * list N * (nat * list N) * list (res (list N)) * list (nat * nat))",
		CaseFn:   "C14_case_w",
		ModelFn:  "C14_model_w",
		Rule: "a table (fixed shapes + random; optionally with user properties on the table, every column incl. column 0, rows and cells, and a pre-existing error) is rendered by a sequence of renders over 9 slots " +
			"(csv, html with two different Id/Class/Caption/row-class settings from ONE reused HTMLTable, json, markdown, text in 4 decorations), each through the slot's reused wrapper, a fresh Wrap or a package-level/auto entry point; " +
			"further slots: a hand-written decoration never passed through Populate, and four style strings that abbreviate several registered names (12 renders each through every route); runs of adjacent separators; each slot's own long-lived wrapper, auto applied around another slot's long-lived wrapper, a row shared with a second table; " +
			"round 6: tables of items of every kind (all 32 method sets of the mutable objects) whose items are changed in place - text, Go-syntax text, error text, declared sizes - before and between renders, with and without Update of the cell, in header and body cells (all 10x10 slot pairs exhaustively, random histories otherwise); every render is compared with the same build-and-change history replayed without renders on a fresh table; CSV after a change without Update is judged against the view read before the change; " +
			"all sequences of length <= 2 over the slots on two tables exhaustively, random sequences of length <= 12 otherwise; observed: every output, and a serialised snapshot (counts, every row/cell text, emptiness, location, size, CellAt, user properties of every owner, Column(n) nil-ness for -1..n+1, error list identity) before and after; " +
			"non-trivial when at least two renders of some slot happen and the table has a column",
		Exhaustive: "render sequences of length <= 2 over 9 slots on 2 fixed tables",
		Gen: func(r *RNG, tier string) []json.RawMessage {
			hdr := func(names ...string) *[]ItemSpec {
				h := make([]ItemSpec, len(names))
				for i, s := range names {
					h[i] = Str(s)
				}
				return &h
			}
			row := func(cells ...string) RowSpec {
				cs := make([]ItemSpec, len(cells))
				for i, s := range cells {
					cs[i] = Str(s)
				}
				return RowSpec{Cells: cs}
			}
			fixed := []TableSpec{
				{Header: hdr("a", "b"), Rows: []RowSpec{row("1", "two\nlines"), {Sep: true}, row("x")}, Align: map[int]int{0: 2, 1: 3}},
				{Header: hdr("k", "v", "w"), Rows: []RowSpec{row("m", "é", "3"), row("p", "q")}, Skip: map[int]int{0: 1}},
			}
			var out []json.RawMessage
			for ti, ts := range fixed {
				for a := 0; a < c14MainSlots; a++ {
					out = append(out, mustJSON(C14Spec{Table: ts, Props: ti == 0, Renders: []C14Render{{Slot: a}, {Slot: a}}}))
					for b := 0; b < c14MainSlots; b++ {
						out = append(out, mustJSON(C14Spec{Table: ts, Props: ti == 1, Misuse: b%2 == 0,
							Renders: []C14Render{{Slot: a, Fresh: (a + b) % 3}, {Slot: b, Fresh: b % 3}, {Slot: a, Fresh: (a + 1) % 3}, {Slot: b}}}))
					}
				}
			}
			// a cell appended to an attached row between renders; a failed render of the reused wrapper
			for ti, ts := range fixed {
				for a := 0; a < c14MainSlots; a++ {
					add := Str("late")
					out = append(out, mustJSON(C14Spec{Table: ts, Props: ti == 1, Renders: []C14Render{{Slot: a}, {Slot: -1, AddRow: 2 * ti, Add: &add}, {Slot: a}, {Slot: (a + 4) % c14MainSlots, Fresh: 2}, {Slot: a}}}))
					out = append(out, mustJSON(C14Spec{Table: ts, Renders: []C14Render{{Slot: a}, {Slot: a, Fresh: 3}, {Slot: a}, {Slot: a, Fresh: 3}, {Slot: a, Fresh: 1}, {Slot: a}}}))
				}
			}
			// an item that encoding/json refuses: the JSON render fails the same way every time and records nothing
			{
				h := []ItemSpec{Str("k"), Str("v")}
				ts := TableSpec{Header: &h, Rows: []RowSpec{{Cells: []ItemSpec{Str("a"), {K: "chan"}}}, {Cells: []ItemSpec{Str("b"), Str("c")}}}}
				for a := 0; a < c14MainSlots; a++ {
					out = append(out, mustJSON(C14Spec{Table: ts, Renders: []C14Render{{Slot: 3}, {Slot: a}, {Slot: 3, Fresh: 1}, {Slot: a, Fresh: 2}, {Slot: 3, Fresh: 2}}}))
				}
			}
			// runs of adjacent separators with rows after them (and at either end): every format, with a JSON / markdown / text render in between
			{
				sep := RowSpec{Sep: true}
				for ti, ts := range []TableSpec{
					{Header: hdr("k", "v"), Rows: []RowSpec{row("a", "1"), row("b", "2"), sep, sep, row("c", "3"), row("d", "4")}},
					{Header: hdr("k", "v"), Rows: []RowSpec{sep, sep, row("a", "1"), sep, sep, sep, row("b", "2"), row("c", "3"), sep, sep}},
				} {
					for a := 0; a < c14MainSlots; a++ {
						for _, mid := range []int{3, 4, 5} {
							out = append(out, mustJSON(C14Spec{Table: ts, Props: ti == 1, Renders: []C14Render{{Slot: a}, {Slot: mid, Fresh: a % 3}, {Slot: a, Fresh: 1}, {Slot: mid}, {Slot: a, Fresh: 2}}}))
						}
					}
				}
			}
			// long-lived dedicated wrappers; auto applied to another slot's wrapper; a row shared with another table
			for ti, ts := range fixed {
				withSep := ts
				withSep.Rows = append(append([]RowSpec{}, ts.Rows...), RowSpec{Sep: true}, row("z", "9"))
				for a := 0; a < c14MainSlots; a++ {
					for b := 5; b < c14MainSlots; b++ {
						out = append(out, mustJSON(C14Spec{Table: withSep, Props: ti == 0, TwoTables: (a+b)%2 == 0,
							Renders: []C14Render{{Slot: b, Fresh: 5}, {Slot: a, Fresh: 4, Over: b}, {Slot: b, Fresh: 5}, {Slot: a, Fresh: 5}, {Slot: b, Fresh: 4, Over: a}, {Slot: a, Fresh: 5}, {Slot: b, Fresh: 5}}}))
					}
					out = append(out, mustJSON(C14Spec{Table: withSep, TwoTables: true, Renders: []C14Render{{Slot: a}, {Slot: a, Fresh: 1}, {Slot: a, Fresh: 2}}}))
				}
			}
			// ambiguous abbreviations of decoration names, asked for again and again through every route
			for ti, ts := range fixed {
				for a := c14MainSlots; a < len(c14Slots); a++ {
					var rs []C14Render
					for k := 0; k < 12; k++ {
						rs = append(rs, C14Render{Slot: a, Fresh: (k + ti) % 3})
					}
					out = append(out, mustJSON(C14Spec{Table: ts, Renders: rs}))
				}
			}
			n := 60
			if tier == "thorough" {
				n = 3000
			}
			for i := 0; i < n; i++ {
				ts := randTable(r, 4, 3, c14Text, []int{0, 0, 1, 3})
				if r.Pct(85) {
					w := 1
					for _, rw := range ts.Rows {
						if len(rw.Cells) > w {
							w = len(rw.Cells)
						}
					}
					h := make([]ItemSpec, w)
					for j := range h {
						h[j] = Str(fmt.Sprintf("h%d", j))
					}
					ts.Header = &h
				}
				if r.Pct(40) {
					ts.Align = map[int]int{r.Intn(3): 1 + r.Intn(3)}
				}
				k := 2 + r.Intn(11)
				rs := make([]C14Render, k)
				for j := range rs {
					rs[j] = C14Render{Slot: r.Intn(len(c14Slots)), Fresh: r.Intn(3)}
					if r.Pct(25) {
						rs[j].Fresh = 4 + r.Intn(2)
						rs[j].Over = r.Intn(c14MainSlots)
					}
					if r.Pct(10) {
						rs[j].Fresh = 3
					}
					if j > 0 && len(ts.Rows) > 0 && r.Pct(10) {
						it := c14Text(r)
						rs[j] = C14Render{Slot: -1, AddRow: r.Intn(len(ts.Rows)), Add: &it}
					}
				}
				out = append(out, mustJSON(C14Spec{Table: ts, Props: r.Bool(), Misuse: r.Pct(30), TwoTables: r.Pct(20), Renders: rs}))
			}
			out = append(out, c14WorldGen(r, tier)...)
			out = append(out, c14MutGen(r, tier)...)
			return out
		},
		Run: func(spec json.RawMessage) CaseOut {
			var sp C14Spec
			if err := json.Unmarshal(spec, &sp); err != nil {
				panic(err)
			}
			if sp.World != nil {
				return c14RunWorld(spec, sp.World)
			}
			t := tabular.New()
			objs := sp.Table.buildStaged(t, nil)
			keys := []interface{}{"uk", userKey{1}, &userKey{2}}
			if sp.Props {
				t.SetProperty(keys[0], "table")
				for c := 0; c <= t.NColumns(); c++ {
					t.Column(c).SetProperty(keys[c%3], fmt.Sprintf("col%d", c))
				}
				for i, r := range t.AllRows() {
					r.SetProperty(keys[i%3], fmt.Sprintf("row%d", i))
					for j := range r.Cells() {
						if c, err := t.CellAt(tabular.CellLocation{Row: i + 1, Column: j + 1}); err == nil {
							c.SetProperty(keys[(i+j)%3], fmt.Sprintf("cell%d.%d", i, j))
						}
					}
				}
			}
			share := func(tb tabular.Table) {
				if !sp.TwoTables {
					return
				}
				for _, row := range tb.AllRows() {
					if !row.IsSeparator() {
						other := tabular.New()
						other.AddRowItems("o1")
						other.AddRowItems("o2", "o3")
						other.AddSeparator()
						other.AddRow(row)
						break
					}
				}
			}
			share(t)
			if sp.Misuse {
				t.AddError(fmt.Errorf("pre-existing error"))
				if rows := t.AllRows(); len(rows) > 0 && rows[0].IsSeparator() {
					rows[0].Add(tabular.NewCell("misuse"))
				}
			}
			view := extractView(t)
			// the views the table goes through: a building call or an Update makes a
			// new one; an item changed in place WITHOUT Update does not (Model/RenderMut.v:
			// nothing a cell has cached moves), so the CSV renders that follow are
			// judged against the view as it was before the change
			views := []string{view.Coq(true)}
			csvs := []string{"(0%nat, 0%nat)"}
			before := c14Snapshot(t, keys)

			// reused wrappers, one per format
			var wcsv *csv.CSVTable
			var whtml *html.HTMLTable
			var wjson *tjson.JSONTable
			var wmd *markdown.MarkdownTable
			var wtext *texttable.TextTable
			htmlCfg := func(h *html.HTMLTable, which string) {
				if which == "A" {
					h.Id, h.Class, h.Caption = "", "", ""
					h.SetRowClassGenerator(nil, nil)
				} else {
					h.Id, h.Class, h.Caption = "id<1", "cl\"s", "Cap & tion"
					h.SetRowClassGenerator(func(n int, _ interface{}) htmltemplate.HTMLAttr { return htmltemplate.HTMLAttr(fmt.Sprintf("r%d", n)) }, nil)
				}
			}
			setDecor := func(tt *texttable.TextTable, d string) {
				if d == "custom" {
					tt.SetDecoration(decoration.Decoration{Horizontal: "-", Vertical: "|", CrossPiece: "+"})
					return
				}
				tt.SetDecorationNamed(d)
			}
			wtexts := map[string]*texttable.TextTable{}
			// the dedicated reused wrapper of a slot (made on first use)
			dedicated := func(slot string) tabular.Table {
				switch {
				case slot == "csv":
					if wcsv == nil {
						wcsv = csv.Wrap(t)
					}
					return wcsv
				case strings.HasPrefix(slot, "html:"):
					if whtml == nil {
						whtml = html.Wrap(t)
					}
					return whtml
				case slot == "json":
					if wjson == nil {
						wjson = tjson.Wrap(t)
					}
					return wjson
				case slot == "markdown":
					if wmd == nil {
						wmd = markdown.Wrap(t)
					}
					return wmd
				case strings.HasPrefix(slot, "text:"):
					if wtexts[slot] == nil {
						wtexts[slot] = texttable.Wrap(t)
						setDecor(wtexts[slot], slot[5:])
					}
					return wtexts[slot]
				}
				return t
			}
			var renders, distinct []string // (slot, index into distinct) per render; the distinct outcomes
			seenOut := map[string]int{}
			addRender := func(id int, o Outcome) {
				key := o.Kind + "\x00" + string(o.Out)
				k, ok := seenOut[key]
				if !ok {
					k = len(distinct)
					seenOut[key] = k
					distinct = append(distinct, o.Coq())
				}
				renders = append(renders, cqPair(cqNat(id), cqNat(k)))
			}
			// the reference for each (slot, epoch): "the first time" = the same spec,
			// with the cells appended so far, built afresh and rendered once
			// through a fresh wrapper
			freshTable := func(epoch int) tabular.Table {
				ft := tabular.New()
				fobjs := sp.Table.buildStaged(ft, nil)
				share(ft)
				k := 0
				for _, rd := range sp.Renders {
					if rd.Slot < 0 && k < epoch {
						k++
						c14ApplyEvent(ft, fobjs, sp.Table, rd)
					}
				}
				return ft
			}
			seenSlot := map[int]bool{}
			first := map[int]Outcome{}
			epoch := 0
			for _, rd := range sp.Renders {
				if rd.Slot < 0 {
					epoch++
					continue
				}
				if rd.Fresh == 3 {
					continue
				}
				id := rd.Slot + 100*epoch
				if seenSlot[id] {
					continue
				}
				seenSlot[id] = true
				slot := c14Slots[rd.Slot]
				e := epoch
				ref := capture(func() (string, error) {
					ft := freshTable(e)
					switch {
					case slot == "csv":
						return csv.Wrap(ft).Render()
					case strings.HasPrefix(slot, "html:"):
						h := html.Wrap(ft)
						htmlCfg(h, slot[5:])
						return h.Render()
					case slot == "json":
						return tjson.Wrap(ft).Render()
					case slot == "markdown":
						return markdown.Wrap(ft).Render()
					case strings.HasPrefix(slot, "style:"):
						return auto.Render(ft, slot[6:])
					}
					tt := texttable.Wrap(ft)
					setDecor(tt, slot[5:])
					return tt.Render()
				})
				first[id] = ref
				addRender(id, ref)
			}
			type shown struct {
				Slot string
				Out  Outcome
			}
			var outs []shown
			sig := ""
			count := map[int]int{}
			epoch = 0
			after := ""
			nMut, nUpd := 0, 0
			for _, rd := range sp.Renders {
				if rd.Slot < 0 {
					// the table (or an item it holds) changes: close the current snapshot pair, apply, open the next
					after += c14Snapshot(t, keys) + "\x00"
					if c14ApplyEvent(t, objs, sp.Table, rd) {
						views = append(views, extractView(t).Coq(true))
					}
					before += "\x00" + c14Snapshot(t, keys)
					epoch++
					csvs = append(csvs, cqPair(cqNat(100*epoch), cqNat(len(views)-1)))
					if rd.Slot == -2 && rd.Mut != nil {
						nMut++
						if rd.Mut.Update {
							nUpd++
						}
					}
					continue
				}
				slot := c14Slots[rd.Slot]
				if rd.Fresh == 3 {
					// a render of the slot's reused wrapper into a failing writer
					var w RenderW
					switch {
					case slot == "csv":
						if wcsv == nil {
							wcsv = csv.Wrap(t)
						}
						w = wcsv
					case strings.HasPrefix(slot, "html:"):
						if whtml == nil {
							whtml = html.Wrap(t)
						}
						htmlCfg(whtml, slot[5:])
						w = whtml
					case slot == "json":
						if wjson == nil {
							wjson = tjson.Wrap(t)
						}
						w = wjson
					case slot == "markdown":
						if wmd == nil {
							wmd = markdown.Wrap(t)
						}
						w = wmd
					case strings.HasPrefix(slot, "style:"):
						w = auto.Wrap(t, slot[6:])
					default:
						if wtext == nil {
							wtext = texttable.Wrap(t)
						}
						setDecor(wtext, slot[5:])
						w = wtext
					}
					capture(func() (string, error) { return "", w.RenderTo(&collectWriter{failAt: 1 + len(renders)%3}) })
					continue
				}
				id := rd.Slot + 100*epoch
				o := capture(func() (string, error) {
					if rd.Fresh == 4 {
						// auto around another slot's long-lived wrapper, in this slot's style
						style := map[string]string{"csv": "csv", "html:A": "html", "json": "json", "markdown": "markdown"}[slot]
						if strings.HasPrefix(slot, "text:") && slot != "text:custom" {
							style = slot[5:]
							if rd.Over%2 == 1 {
								style = "texttable." + style
							}
						}
						if strings.HasPrefix(slot, "style:") {
							style = slot[6:]
						}
						if style != "" {
							return auto.Render(dedicated(c14Slots[rd.Over%c14MainSlots]), style)
						}
					}
					switch {
					case slot == "csv":
						switch rd.Fresh {
						case 0:
							if wcsv == nil {
								wcsv = csv.Wrap(t)
							}
							return wcsv.Render()
						case 1:
							return csv.Wrap(t).Render()
						}
						return csv.Render(t)
					case strings.HasPrefix(slot, "html:"):
						if rd.Fresh == 0 || rd.Fresh == 2 {
							if whtml == nil {
								whtml = html.Wrap(t)
							}
							htmlCfg(whtml, slot[5:])
							return whtml.Render()
						}
						h := html.Wrap(t)
						htmlCfg(h, slot[5:])
						return h.Render()
					case slot == "json":
						switch rd.Fresh {
						case 0:
							if wjson == nil {
								wjson = tjson.Wrap(t)
							}
							return wjson.Render()
						case 1:
							return tjson.Wrap(t).Render()
						}
						return auto.Render(t, "json")
					case slot == "markdown":
						switch rd.Fresh {
						case 0:
							if wmd == nil {
								wmd = markdown.Wrap(t)
							}
							return wmd.Render()
						case 1:
							return markdown.Wrap(t).Render()
						}
						return markdown.Render(t)
					case strings.HasPrefix(slot, "style:"):
						switch rd.Fresh {
						case 0:
							return auto.Wrap(t, slot[6:]).Render()
						case 1:
							tt := texttable.Wrap(t)
							tt.SetDecorationNamed(strings.TrimPrefix(slot[6:], "texttable."))
							return tt.Render()
						}
						return auto.Render(t, slot[6:])
					default:
						d := slot[5:]
						switch rd.Fresh {
						case 0:
							if wtext == nil {
								wtext = texttable.Wrap(t)
							}
							setDecor(wtext, d)
							return wtext.Render()
						case 5:
							return dedicated(slot).(*texttable.TextTable).Render()
						case 1:
							tt := texttable.Wrap(t)
							setDecor(tt, d)
							return tt.Render()
						}
						if d == "custom" {
							tt := texttable.Wrap(t)
							setDecor(tt, d)
							return tt.Render()
						}
						return auto.Render(t, d)
					}
				})
				count[id]++
				if f, ok := first[id]; !ok {
					first[id] = o
				} else if (f.Kind != o.Kind || string(f.Out) != string(o.Out)) && sig == "" {
					sig = "output-changed:" + strings.SplitN(slot, ":", 2)[0]
				}
				addRender(id, o)
				if len(outs) < 4 {
					outs = append(outs, shown{slot, o})
				}
			}
			after += c14Snapshot(t, keys)
			if before != after && sig == "" {
				sig = "snapshot-changed"
			}
			desc := map[string]interface{}{"renders_shown": outs, "sig": sig}
			if before != after {
				desc["before"] = before
				desc["after"] = after
			}
			repeated := false
			for _, c := range count {
				if c >= 2 {
					repeated = true
				}
			}
			tags := append(shapeTags(view), fmt.Sprintf("renders=%d", min(len(sp.Renders), 12)))
			if sp.Props {
				tags = append(tags, "user-props")
			}
			if sp.Misuse {
				tags = append(tags, "pre-existing-error")
			}
			if sp.TwoTables {
				tags = append(tags, "row-shared-with-another-table")
			}
			tags = append(tags, c14MutTags(sp, nMut, nUpd)...)
			return CaseOut{
				// one table; render id 0 is the CSV render of the table as first built
				Coq:        fmt.Sprintf("(%s, %s, %s, %s, %s, %s)", cqList(views), cqList(csvs), cqStr(before), c14After(before, after), cqList(distinct), cqList(renders)),
				Desc:       desc,
				Size:       sp.Table.Size()*20 + len(sp.Renders),
				Tags:       tags,
				Key:        string(spec),
				Nontrivial: repeated && view.NCols > 0,
			}
		},
		Shrink: func(spec json.RawMessage) []json.RawMessage {
			var sp C14Spec
			if err := json.Unmarshal(spec, &sp); err != nil {
				return nil
			}
			if sp.World != nil {
				return c14ShrinkWorld(sp.World)
			}
			var out []json.RawMessage
			for i := range sp.Renders {
				c := sp
				c.Renders = append(append([]C14Render{}, sp.Renders[:i]...), sp.Renders[i+1:]...)
				out = append(out, mustJSON(c))
			}
			for _, ts := range shrinkTable(sp.Table) {
				c := sp
				c.Table = ts
				out = append(out, mustJSON(c))
			}
			if sp.Props {
				c := sp
				c.Props = false
				out = append(out, mustJSON(c))
			}
			if sp.Misuse {
				c := sp
				c.Misuse = false
				out = append(out, mustJSON(c))
			}
			if sp.TwoTables {
				c := sp
				c.TwoTables = false
				out = append(out, mustJSON(c))
			}
			return out
		},
	})
}
