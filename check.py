#!/usr/bin/env python3
"""check.py <ID> --tier quick|thorough [--repo PATH] [--seed N] [--replay FILE]

Decides one property of PennockTech/tabular:
  1. the Coq development is built (no-op when current) and the property's
     theorems (Props/<ID>.v) are re-checked to be closed under the global
     context;
  2. the Go harness is rebuilt against the repository's current working tree
     and runs corpus + enumerated + random inputs on the real library;
  3. one coqc per shard evaluates, for every case, corr (model = implementation
     on the observables) and ok (the property's own oracle on what the
     implementation really produced);
  4. verdict, shrinking, replay files, evidence/<ID>.json.
Exit 0 = held on everything explored; exit 1 + 'VIOLATION property=<ID> replay=<path>'.
Exit 2 = the machinery itself failed (never a verdict about the code).
"""
import argparse, concurrent.futures, fcntl, glob, json, os, re, shutil, subprocess, sys, time

VERIF = os.path.dirname(os.path.abspath(__file__))
COQ = os.path.join(VERIF, "coq")
GOENV = dict(os.environ, GOFLAGS="-mod=mod", GOPROXY="off", GOSUMDB="off", GOTOOLCHAIN="local",
             LANG="C", LC_ALL="C", RUNEWIDTH_EASTASIAN="0", CGO_ENABLED=os.environ.get("CGO_ENABLED", "1"))
FORBIDDEN = r"Admitted|\badmit\b|\bAxiom\b|\bParameter\b|\bConjecture\b|Unset Guard|bypass_check|type-in-type|Admit Obligations|\bVariable\b|\bHypothesis\b"
ALLOWED_AXIOMS = set()   # none: every property theorem must be closed under the global context
RACE_PROPS = {"C16", "C17"}


def die(msg, code=2):
    print("check.py: " + msg, file=sys.stderr)
    sys.exit(code)


def run(cmd, **kw):
    kw.setdefault("stdout", subprocess.PIPE)
    kw.setdefault("stderr", subprocess.STDOUT)
    kw.setdefault("text", True)
    return subprocess.run(cmd, **kw)


# ---------------------------------------------------------------- Coq side

def build_coq(pid=None):
    """make under a lock; returns (ok, log).  ok is about the files this
    property needs (Props/<pid>.vo and Run/<pid>Run.vo), so one broken file
    elsewhere does not take every check down."""
    os.makedirs(os.path.join(VERIF, "work"), exist_ok=True)
    with open(os.path.join(VERIF, "work", ".coq.lock"), "w") as lk:
        fcntl.flock(lk, fcntl.LOCK_EX)
        run(["sh", os.path.join(VERIF, "tools", "gen_coqproject.sh")])
        if not os.path.exists(os.path.join(COQ, "Makefile")):
            r = run(["coq_makefile", "-f", "_CoqProject", "-o", "Makefile"], cwd=COQ)
            if r.returncode != 0:
                return False, r.stdout
        r = run(["timeout", "3000", "make", "-k", "-j16"], cwd=COQ)
        if pid is None:
            return r.returncode == 0, r.stdout
        ok = True
        for rel in ("Props/%s.v" % pid, "Run/%sRun.v" % pid):
            src = os.path.join(COQ, rel)
            vo = src + "o"
            if os.path.exists(src) and not (os.path.exists(vo) and os.path.getmtime(vo) >= os.path.getmtime(src)):
                ok = False
        return ok, r.stdout


def section_outside_ok(path):
    """Variable/Hypothesis are only allowed inside a Section."""
    depth = 0
    bad = []
    txt = open(path).read()
    txt = re.sub(r"\(\*.*?\*\)", "", txt, flags=re.S)
    for ln in txt.splitlines():
        s = ln.strip()
        if re.match(r"Section\s+\w+", s):
            depth += 1
        elif re.match(r"End\s+\w+\s*\.", s) and depth > 0:
            depth -= 1
        elif depth == 0 and re.match(r"(Variables?|Hypothes[ie]s|Context)\b", s):
            bad.append(s)
    return bad


def hygiene():
    bad = []
    for path in glob.glob(os.path.join(COQ, "**", "*.v"), recursive=True):
        txt = open(path).read()
        code = re.sub(r"\(\*.*?\*\)", "", txt, flags=re.S)
        for m in re.finditer(r"Admitted|\badmit\b|\bAxiom\b|\bParameters?\b|\bConjecture\b|Unset Guard|bypass_check|type-in-type|Admit Obligations", code):
            bad.append("%s: %s" % (os.path.relpath(path, VERIF), m.group(0)))
        for s in section_outside_ok(path):
            bad.append("%s: outside a section: %s" % (os.path.relpath(path, VERIF), s))
    return bad


def theorems_of(pid):
    path = os.path.join(COQ, "Props", pid + ".v")
    if not os.path.exists(path):
        return []
    txt = re.sub(r"\(\*.*?\*\)", "", open(path).read(), flags=re.S)
    return re.findall(r"^\s*(?:Theorem|Corollary)\s+(\w+)", txt, flags=re.M)


def check_theorems(pid, work):
    """returns (obligations, discharged, axioms_by_theorem, log)"""
    names = theorems_of(pid)
    if not names:
        return [], [], {}, "no Props/%s.v" % pid
    src = "From Tab Require Import Props.%s.\n" % pid
    for n in names:
        src += 'Print Assumptions %s.\nGoal True. idtac "@@END %s". exact I. Qed.\n' % (n, n)
    f = os.path.join(work, "assume_%s.v" % pid)
    open(f, "w").write(src)
    r = run(["timeout", "600", "coqc", "-R", COQ, "Tab", f])
    out = r.stdout
    discharged, axioms = [], {}
    if r.returncode == 0:
        pos = 0
        for n in names:
            end = out.find("@@END %s" % n, pos)
            seg = out[pos:end] if end >= 0 else ""
            pos = end + 1 if end >= 0 else pos
            if "Closed under the global context" in seg:
                discharged.append(n)
                axioms[n] = []
            else:
                ax = re.findall(r"^(\S+)\s*:", seg, flags=re.M)
                axioms[n] = ax
                if ax and all(a in ALLOWED_AXIOMS for a in ax):
                    discharged.append(n)
    return names, discharged, axioms, out[-3000:]


def big_stack():
    """coqc elaborates the case literals recursively: a long history (volume cases) needs more than the
    default 8 MB stack.  Raise the soft limit to the hard limit for the evaluator only."""
    try:
        import resource
        soft, hard = resource.getrlimit(resource.RLIMIT_STACK)
        resource.setrlimit(resource.RLIMIT_STACK, (hard, hard))
    except Exception:
        pass


def coqc_eval(vfile):
    t0 = time.time()
    r = run(["timeout", "3000", "coqc", "-R", COQ, "Tab", vfile], cwd=os.path.dirname(vfile), preexec_fn=big_stack)
    return r.returncode, r.stdout, time.time() - t0


def parse_failing(out):
    m = re.search(r"R\s*=\s*(.*?)\n\s*:\s*list", out, flags=re.S)
    if not m:
        return None
    body = re.sub(r"\s+", "", m.group(1))
    return [(int(a), int(b)) for a, b in re.findall(r"\((\d+),(\d+)%N\)", body)]


# ---------------------------------------------------------------- Go side

def build_harness(repo, work, race):
    hdir = os.path.join(work, "harness")
    os.makedirs(hdir, exist_ok=True)
    hsrc = os.environ.get("VERIF_HARNESS_SRC", os.path.join(VERIF, "harness"))   # development aid: another snapshot of the harness sources
    for f in glob.glob(os.path.join(hsrc, "*.go")):
        shutil.copy(f, hdir)
    gomod = open(os.path.join(VERIF, "harness", "go.mod")).read()
    gomod = re.sub(r"replace go\.pennock\.tech/tabular => \S+", "replace go.pennock.tech/tabular => " + repo, gomod)
    open(os.path.join(hdir, "go.mod"), "w").write(gomod)
    shutil.copy(os.path.join(repo, "go.sum"), os.path.join(hdir, "go.sum"))
    binp = os.path.join(work, "vharness")
    cmd = ["go", "build", "-tags", "verif"] + (["-race"] if race else []) + ["-o", binp, "."]
    r = run(cmd, cwd=hdir, env=GOENV)
    return r.returncode == 0, r.stdout, binp


def run_harness(binp, pid, outdir, seed, tier, extra):
    os.makedirs(outdir, exist_ok=True)
    cmd = ["timeout", "3000", binp, pid, "-seed", str(seed), "-tier", tier, "-out", outdir] + extra
    r = run(cmd, env=GOENV, cwd=outdir)
    return r.returncode, r.stdout


def evaluate(outdir):
    """coqc every shard; returns (failing list of (global index, code), eval errors, n shards)"""
    stats = json.load(open(os.path.join(outdir, "stats.json")))
    shards = sorted(glob.glob(os.path.join(outdir, "cases_*.v")))
    failing, errors = [], []
    with concurrent.futures.ThreadPoolExecutor(max_workers=min(16, max(1, len(shards)))) as ex:
        results = list(ex.map(coqc_eval, shards))
    for k, (rc, out, dt) in enumerate(results):
        if rc in (-9, 137, -6, 134) or (rc != 0 and "Out of memory" in out):
            # the evaluator was killed (memory pressure from whatever else runs on
            # the machine): evaluate this shard once more, alone
            rc, out, dt = coqc_eval(shards[k])
        fl = parse_failing(out) if rc == 0 else None
        if fl is None:
            errors.append("shard %d: coqc rc=%d: %s" % (k, rc, out[-1500:]))
            continue
        failing += [(k * stats["per_shard"] + i, c) for i, c in fl]
    return failing, errors, stats


def model_text(pid, stats, term, work, tag):
    """what the model computes for one case, as Coq prints it"""
    if not stats.get("model_fn"):
        return ""
    f = os.path.join(work, "explain_%s.v" % tag)
    open(f, "w").write("%s\nDefinition X := Eval vm_compute in (%s %s).\nPrint X.\n" % (stats["imports"], stats["model_fn"], term))
    rc, out, _ = coqc_eval(f)
    return out[:6000]


# ---------------------------------------------------------------- source ties
# A property whose model functions are ALSO produced from the Go text by
# tools/go2coq (notes/SOURCE_TIE.md).  On every run the translator is run on the
# repository under test; the result is compared with the committed generated file
# (identical: the compiled tie theorems speak about this source text), else the
# tie proofs are re-run against the fresh translation (re-proved), else the tie is
# broken (recorded; and the fresh translation, if it compiles, is evaluated on the
# run's cases against the implementation's observed output).
SOURCE_TIES = {
    "C05": {
        "targets": ["csv/csv.go:csvEscape", "csv/csv.go:emitRow", "csv/csv.go:RenderTo"],
        "generated": "Generated/CsvSrc.v",
        "proofs": ["Proofs/CsvSrcTie.v"],
        "theorems": ["c05_source_is_model", "c05_source_roundtrip", "c05_source_total"],
        # SrcTie_case : <the run's case type> -> N, bit 0 = the translated source
        # disagrees with what the implementation returned
        "eval": """From Tab Require Import Run.Glue Run.C05Run Run.C05R6Run Base.GoSem.
From SrcTie Require Import Generated.CsvSrc.
Definition src_render_string (v : view) : fres (list N) :=
  match src_RenderTo v with
  | (ws, Done (Ok _)) => Done (Ok (payloads ws))
  | (_, Done Err) => Done Err
  | (_, Done Panic) => Done Panic
  | (_, OutOfFuel) => OutOfFuel
  end.
Definition fres_eqb (a : fres (list N)) (b : res (list N)) : bool :=
  match a with Done r => res_eqb bytes_eqb r b | OutOfFuel => false end.
(* steps rendered into a string or a buffer are judged; steps into a destination with
   limited room (Some b) are left to the model-side correspondence *)
Definition SrcTie_case (c : c05x) : N :=
  code (C05x_each (fun v st => let '(_, dest, obs, _) := st in
                               match dest with None => fres_eqb (src_render_string v) obs | Some _ => true end) c) true.
""",
    },
    "C08": {
        "targets": ["markdown/markdown.go:mdCellEscape"],
        "generated": "Generated/MarkdownSrc.v",
        "proofs": ["Proofs/MarkdownSrcTie.v"],
        "theorems": ["c08_source_is_model", "c08_source_neutral"],
        "eval": None,     # no evaluation glue: a broken tie is recorded, the hand model and the correspondence decide
    },
    "C18": {
        "targets": ["length/length.go:" + f for f in ("StringBytes", "StringRunes", "StringCells", "Lines",
                                                        "LongestLineBytes", "LongestLineRunes", "LongestLineCells")],
        "generated": "Generated/LengthSrc.v",
        "proofs": ["Proofs/LengthSrcTie.v"],
        "theorems": ["c18_source_is_model", "c18_source_lines_lossless", "c18_source_longest"],
        # the translated Lines / LongestLine* on the case's string against what the real
        # functions returned; runewidth.StringWidth = the run's oracle tables
        "eval": """From Tab Require Import Run.Glue Run.C18Run Base.GoSem.
From SrcTie Require Import Generated.LengthSrc.
Definition fZ_eqb (a : fres Z) (n : nat) : bool :=
  match a with Done (Ok z) => Z.eqb z (Z.of_nat n) | _ => false end.
Definition SrcTie_case (c : c18_in * res c18_obs) : N :=
  let '(i, ob) := c in
  match ob with
  | Ok o =>
      let W := fun x => Z.of_nat (string_cells (seg_of (i_seg i)) (rw_of (i_rw i)) x) in
      code ((match src_Lines (i_s i) with Done (Ok ls) => lines_eqb ls (o_lines o) | _ => false end)
            && fZ_eqb (src_LongestLineBytes (i_s i)) (mB (o_long o))
            && fZ_eqb (src_LongestLineRunes (i_s i)) (mR (o_long o))
            && fZ_eqb (src_LongestLineCells W (i_s i)) (mC (o_long o))) true
  | _ => 0%N
  end.
""",
    },
    "C03": {
        "targets": ["texttable/decoration/strings.go:WithinWidthAligned"]
                   + ["texttable/decoration/emit.go:" + f for f in (
                       "commonTemplateLine", "LineHeaderTop", "LineHeaderBodySep", "LineBodyTop", "LineBottom",
                       "LineSeparator", "LineHeaderBlanks", "LineBodyBlanks", "HeaderDividers", "BodyDividers",
                       "commonRenderedLine", "HeaderLineRendered", "BodyLineRendered")],
        "generated": "Generated/EmitSrc.v",
        "proofs": ["Proofs/EmitSrcTie.v"],
        "theorems": ["c03_source_is_model", "c03_source_any_eol", "c03_source_rule_line"],
        "eval": None,     # no evaluation glue: a broken tie is recorded, the hand model and the correspondence decide
    },
    "C04": {
        "targets": ["texttable/decoration/strings.go:WithinWidthAligned"],
        "generated": "Generated/WidthStrSrc.v",
        "proofs": ["Proofs/WidthStrSrcTie.v"],
        "theorems": ["c04_source_is_model", "c04_source_slot"],
        "eval": None,
    },
}
SOURCE_TIES["C11"] = {
    "targets": ["error_containers.go:" + f for f in ("NewErrorContainer", "AddError", "AddErrorList", "Errors")],
    "generated": "Generated/ErrContSrc.v",
    "proofs": ["Proofs/ErrContSrcTie.v"],
    "theorems": ["c11_source_is_model", "c11_source_container", "c11_source_container_nil"],
    # container cases: the history run on the translated functions, Errors() after every step
    # (slices are values in the translation: the re-read after the caller overwrote its slice
    # is predicted equal to the first read)
    "eval": """From Tab Require Import Run.Glue Run.C11Run Base.GoSem.
From SrcTie Require Import Generated.ErrContSrc.
Definition f2r {A} (r : fres A) : res A := match r with Done x => x | OutOfFuel => Panic end.
Definition src_step (c : cont) (o : cop) : res cont :=
  match o with
  | OpAdd e => f2r (src_AddError c e)
  | OpAddList el => f2r (src_AddErrorList c el)
  | OpErrors => bind (f2r (src_Errors c)) (fun _ => Ok c)
  | OpAddSelf => bind (f2r (src_Errors c)) (fun l => f2r (src_AddErrorList c l))
  end.
Fixpoint src_model (c : res cont) (ops : list cop) : list cobs :=
  match ops with
  | [] => []
  | o :: r =>
      let c' := bind c (fun c => src_step c o) in
      bind c' (fun c' => bind (f2r (src_Errors c')) (fun l => Ok (l, l))) :: src_model c' r
  end.
Definition src_create (m : cmode) : res cont :=
  match m with MNil => Ok None | MZero => Ok (Some None) | MNew => f2r src_NewErrorContainer end.
Definition SrcTie_case (c : c11_case) : N :=
  match c with
  | CCont m steps => code (list_eqb cobs_eqb (src_model (src_create m) (map fst steps)) (map snd steps)) true
  | _ => 0%N
  end.
""",
}
TIE_LP = "SrcTie"    # logical path of the fresh copies


def first_coq_error(out):
    lines = out.splitlines()
    for i, ln in enumerate(lines):
        if ln.startswith("Error"):
            where = ""
            for prev in reversed(lines[:i]):
                m = re.match(r'File "(.*?)", line (\d+)', prev)
                if m:
                    where = "%s:%s: " % (os.path.basename(m.group(1)), m.group(2))
                    break
            msg = [x.strip() for x in [ln[len("Error:"):]] + lines[i + 1:] if x.strip()]
            if msg and msg[0].startswith("In environment"):
                # skip the printed proof context
                keep = [k for k, x in enumerate(msg) if re.match(r"(Unable|The term|Found|No |Tactic|Cannot|Not |Illegal|The reference|Ltac|Anomaly)", x)]
                msg = msg[keep[0]:] if keep else msg
            return (where + " ".join(msg[:4]))[:300]
    return (lines[-1] if lines else "no output")[:300]


def tie_coqc(tdir, vfile):
    return run(["timeout", "300", "coqc", "-R", COQ, "Tab", "-R", tdir, TIE_LP, vfile], cwd=tdir)


def source_tie(pid, repo, work):
    tie = SOURCE_TIES.get(pid)
    if tie is None:
        return None
    t0 = time.time()
    tdir = os.path.join(work, "srctie")
    gen = os.path.join(tdir, tie["generated"])
    os.makedirs(os.path.dirname(gen), exist_ok=True)
    res = {"status": None, "targets": tie["targets"], "committed": "coq/" + tie["generated"], "proofs": tie["proofs"],
           "theorems": tie["theorems"], "translator": "tools/go2coq", "dir": tdir, "compiles": False}
    binp = os.path.join(work, "go2coq")
    r = run(["go", "build", "-o", binp, "."], cwd=os.path.join(VERIF, "tools", "go2coq"), env=GOENV)
    if r.returncode != 0:
        print(r.stdout[-2000:])
        die("tools/go2coq does not build")
    r = run([binp, "-repo", repo, "-o", gen] + tie["targets"], env=GOENV)
    if r.returncode == 3:
        un = [l for l in r.stdout.splitlines() if l.startswith("UNSUPPORTED")]
        res["status"] = "broken: " + (un[0] if un else "UNSUPPORTED")
    elif r.returncode != 0:
        res["status"] = "broken: translator: " + (r.stdout.strip().splitlines() or ["rc=%d" % r.returncode])[-1][:300]
    elif open(gen, "rb").read() == open(os.path.join(COQ, tie["generated"]), "rb").read():
        res["status"] = "identical"
        res["compiles"] = True
    else:
        rr = tie_coqc(tdir, gen)
        if rr.returncode != 0:
            res["status"] = "broken: the translation does not compile: " + first_coq_error(rr.stdout)
        else:
            res["compiles"] = True
            res["status"] = "re-proved"
            for rel in tie["proofs"]:
                dst = os.path.join(tdir, rel)
                os.makedirs(os.path.dirname(dst), exist_ok=True)
                txt = open(os.path.join(COQ, rel)).read()
                mod = tie["generated"][:-2].replace("/", ".")
                txt = re.sub(r"From Tab Require Import %s\." % re.escape(mod), "From %s Require Import %s." % (TIE_LP, mod), txt)
                open(dst, "w").write(txt)
                rr = tie_coqc(tdir, dst)
                if rr.returncode != 0:
                    res["status"] = "broken: " + ("timeout (300 s) in " + rel if rr.returncode == 124 else first_coq_error(rr.stdout))
                    break
    res["seconds"] = round(time.time() - t0, 2)
    return res


def source_eval(pid, tres, outdir, stats):
    """the tie is broken but the fresh translation compiles: run IT on this run's cases
    against the implementation's observed output; returns (failing [(index, 1)], note)"""
    tie, tdir = SOURCE_TIES[pid], tres["dir"]
    if not tie.get("eval"):
        return [], "not evaluated (no evaluation glue for this property: the hand model and the correspondence decide)"
    if not tres["compiles"]:
        return [], "not evaluated (the translation does not compile)"
    if tres["status"] == "identical":
        gen = os.path.join(tdir, tie["generated"])
        if not os.path.exists(gen + "o") and tie_coqc(tdir, gen).returncode != 0:
            return [], "not evaluated"
    ev = os.path.join(tdir, "SrcEval.v")
    open(ev, "w").write(tie["eval"])
    r = tie_coqc(tdir, ev)
    if r.returncode != 0:
        return [], "not evaluated (the evaluation glue does not fit the translation: %s)" % first_coq_error(r.stdout)
    failing, n = [], 0
    for k, shard in enumerate(sorted(glob.glob(os.path.join(outdir, "cases_*.v")))):
        txt = open(shard).read()
        new = txt.replace("(map %s cases)" % stats["case_fn"], "(map SrcTie_case cases)")
        if new == txt:
            return [], "not evaluated (unexpected shard layout)"
        f = os.path.join(tdir, "eval_%03d.v" % k)
        open(f, "w").write("From %s Require Import SrcEval.\n" % TIE_LP + new)
        r = tie_coqc(tdir, f)
        fl = parse_failing(r.stdout) if r.returncode == 0 else None
        if fl is None:
            return [], "not evaluated (shard %d: %s)" % (k, first_coq_error(r.stdout))
        failing += [(k * stats["per_shard"] + i, 1) for i, c in fl if c & 1]
        n += 1
    return failing, "the translated source was run on the %d cases of this run: %d disagree with the implementation" % (stats["evaluations"], len(failing))


# ---------------------------------------------------------------- source fingerprint

def source_fingerprint(repo):
    """sha256 over the repository's non-test Go sources (and go.mod), by relative path"""
    import hashlib
    h = hashlib.sha256()
    files = []
    for root, dirs, names in os.walk(repo):
        dirs[:] = sorted(d for d in dirs if d not in (".git", "vendor", "testdata"))
        for n in sorted(names):
            if (n.endswith(".go") and not n.endswith("_test.go")) or n == "go.mod":
                files.append(os.path.join(root, n))
    for f in files:
        h.update(os.path.relpath(f, repo).encode() + b"\0")
        h.update(open(f, "rb").read() + b"\0")
    return h.hexdigest()


def pinned_fingerprint():
    try:
        return open(os.path.join(VERIF, "PINNED_SOURCE")).read().split()[0]
    except (OSError, IndexError):
        return None


# ---------------------------------------------------------------- findings

def load_known(pid):
    known = []
    path = os.path.join(VERIF, "KNOWN_FINDINGS.txt")
    if os.path.exists(path):
        for ln in open(path):
            m = re.match(r"known:\s*property=(\S+)\s+sig=(\S+)\s+(.*)", ln.strip())
            if m and m.group(1) == pid:
                known.append((m.group(2), m.group(3)))
    return known


def case_sig(rec):
    obs = rec.get("observed")
    if isinstance(obs, dict):
        return obs.get("sig", "")
    return ""


# ---------------------------------------------------------------- main

def main():
    ap = argparse.ArgumentParser()
    ap.add_argument("pid")
    ap.add_argument("--tier", default=os.environ.get("VERIF_TIER", "quick"))
    ap.add_argument("--repo", default="/repo")
    ap.add_argument("--seed", type=int, default=int(os.environ.get("VERIF_SEED", "1") or 1))
    ap.add_argument("--replay")
    ap.add_argument("--keep", action="store_true")
    ap.add_argument("--no-evidence", action="store_true", help="do not rewrite evidence/<ID>.json nor write replays/ (self-tests against scratch copies)")
    a = ap.parse_args()
    pid, tier = a.pid, a.tier
    t0 = time.time()
    work = os.path.join(VERIF, "work", "%s-%s-%d" % (pid, tier, os.getpid()))
    os.makedirs(work, exist_ok=True)
    try:
        rc = check(a, pid, tier, work, t0)
    finally:
        if not a.keep:
            shutil.rmtree(work, ignore_errors=True)
    sys.exit(rc)


def check(a, pid, tier, work, t0):
    repo = os.path.abspath(a.repo)
    ok, log = build_coq(pid)
    coq_built = ok
    coq_log = log[-3000:]
    bad = hygiene()
    if bad:
        die("forbidden constructs in the Coq development: %s" % "; ".join(bad[:5]))
    obligations, discharged, axioms, tlog = check_theorems(pid, work) if coq_built else (theorems_of(pid), [], {}, coq_log)

    coqchk = None
    if tier == "thorough" and coq_built and not a.replay:
        # independent re-check of the compiled theorems of this property (and all they depend on)
        r = run(["timeout", "2400", "coqchk", "-silent", "-o", "-R", COQ, "Tab", "Tab.Props.%s" % pid], cwd=COQ)
        m = re.search(r"\* Axioms:\s*(.*?)\n\s*\n", r.stdout, flags=re.S)
        coqchk = {"exit": r.returncode, "axioms": (m.group(1).strip() if m else "?"),
                  "type_in_type": "type-in-type: <none>" in r.stdout, "tail": r.stdout[-600:]}
        if r.returncode != 0 or coqchk["axioms"] != "<none>":
            discharged = []          # the independent checker does not accept the development as axiom-free
            tlog = "coqchk: " + r.stdout[-1500:]
    ok, log, binp = build_harness(repo, work, pid in RACE_PROPS)
    if not ok:
        # the repository (or the harness against it) does not compile: nothing can be shown
        print(log[-3000:])
        die("harness does not build against %s" % repo)

    tres = source_tie(pid, repo, work) if not a.replay else None
    outdir = os.path.join(work, "out")
    if a.replay:
        rp = json.load(open(a.replay))
        specs = os.path.join(work, "replay_specs.json")
        json.dump([rp["spec"]], open(specs, "w"))
        extra = ["-specs", specs, "-keep-coq"]
    else:
        extra = ["-corpus", os.path.join(VERIF, "corpus", pid), "-keep-coq"]
    rc, hlog = run_harness(binp, pid, outdir, a.seed, tier, extra)
    if rc != 0:
        print(hlog[-3000:])
        die("harness failed (rc=%d)" % rc)
    failing, errors, stats = evaluate(outdir)
    if errors:
        print("\n".join(errors))
        die("model evaluation failed")
    # The sources differ from the tree this development was last validated
    # against (PINNED_SOURCE) and the first pass found nothing: the change is
    # what is being judged, so two more passes with other seeds are run (more
    # random tables, other schedules) before the property is reported as held.
    fp, pinned = source_fingerprint(repo), pinned_fingerprint()
    extra_passes = 0
    if not a.replay and not failing and not os.path.exists(os.path.join(outdir, "crashes.json")) \
            and pinned is not None and fp != pinned and os.environ.get("VERIF_NO_ESCALATE") != "1":
        base_seed = a.seed
        for k in (1, 2):
            od = os.path.join(work, "pass%d" % k)
            rc, hlog = run_harness(binp, pid, od, base_seed + k, tier, extra)
            if rc != 0:
                print(hlog[-3000:])
                die("harness failed (rc=%d)" % rc)
            fl, errs, st = evaluate(od)
            if errs:
                print("\n".join(errs))
                die("model evaluation failed")
            extra_passes += 1
            st["evaluations_before"] = stats["evaluations"] + stats.get("evaluations_before", 0)
            failing, stats, outdir = fl, st, od
            a.seed = base_seed + k
            if failing or os.path.exists(os.path.join(od, "crashes.json")):
                break
    if tres is not None and tres["status"].startswith("broken"):
        sfl, note = source_eval(pid, tres, outdir, stats)
        tres["evaluation"] = note
        tres["mismatches"] = len(sfl)
        merged = dict(failing)
        for i, c in sfl:
            merged[i] = merged.get(i, 0) | c
        failing = sorted(merged.items())
    cases = json.load(open(os.path.join(outdir, "cases.json")))
    mach = [(i, c) for i, c in failing if c & 4]
    if mach:
        # result bit 2: a spec self-validation case (e.g. the Coq parser against the standard library) failed
        print("self-validation failed on %d case(s); first: %s" % (len(mach), json.dumps(cases[mach[0][0]])[:1500]))
        die("the check's own specification/oracle machinery failed its self-validation (never a verdict about the code)")

    crashes = []
    cpath = os.path.join(outdir, "crashes.json")
    if os.path.exists(cpath):
        crashes = json.load(open(cpath))
    if a.replay and crashes:
        print("replay of %s" % a.replay)
        print("the implementation panicked outside the observed steps of the case: %s" % crashes[0]["panic"])
        print(crashes[0]["stack"][:1500])
        print("VIOLATION property=%s replay=%s no-failing-input-found" % (pid, a.replay))
        return 1
    if a.replay:
        rec = cases[0]
        code = dict(failing).get(0, 0)
        print("replay of %s" % a.replay)
        print("spec:     %s" % json.dumps(rec["spec"])[:2000])
        print("observed: %s" % json.dumps(rec["observed"])[:3000])
        print("model:    %s" % model_text(pid, stats, rec["coq"], work, "replay"))
        print("code=%d (bit0: model<>implementation, bit1: property oracle rejects the implementation's output)" % code)
        if code & 2:
            print("VIOLATION property=%s replay=%s" % (pid, a.replay))
            return 1
        if code & 1:
            print("VIOLATION property=%s replay=%s no-failing-input-found" % (pid, a.replay))
            return 1
        return 0

    known = load_known(pid)
    violations = []      # (kind, replay path)
    known_hits = {}
    ok_fail = [(i, c) for i, c in failing if c & 2]
    corr_only = [(i, c) for i, c in failing if not (c & 2)]
    replay_n = [0]

    def write_replay(rec, code, kind, extra_info=None):
        rdir = os.path.join(VERIF, "replays", "selftest") if a.no_evidence else os.path.join(VERIF, "replays")
        os.makedirs(rdir, exist_ok=True)
        path = os.path.join(rdir, "%s-%d-%d.json" % (pid, a.seed, replay_n[0]))
        replay_n[0] += 1
        body = {"property": pid, "kind": kind, "code": code, "seed": a.seed, "tier": tier,
                "spec": rec["spec"], "observed": rec["observed"],
                "model": model_text(pid, stats, rec["coq"], work, "r%d" % replay_n[0]) if rec.get("coq") else "",
                "how_to_replay": "python3 check.py %s --replay %s" % (pid, path)}
        if extra_info:
            body.update(extra_info)
        json.dump(body, open(path, "w"), indent=1)
        return path

    def shrink(rec, want_bit):
        """greedy one-step reductions, judged by the same Coq oracle"""
        cur = rec
        for rnd in range(12):
            sf = os.path.join(work, "shrink_in.json")
            json.dump(cur["spec"], open(sf, "w"))
            sdir = os.path.join(work, "shrink%d" % rnd)
            shutil.rmtree(sdir, ignore_errors=True)
            rc, _ = run_harness(binp, pid, sdir, a.seed, tier, ["-shrink", sf, "-keep-coq"])
            if rc != 0:
                break
            fl, errs, _ = evaluate(sdir)
            if errs:
                break
            cands = json.load(open(os.path.join(sdir, "cases.json")))
            hit = [i for i, c in fl if c & want_bit and case_sig(cands[i]) == case_sig(rec)]
            if not hit:
                break
            best = min(hit, key=lambda i: cands[i]["size"])
            if cands[best]["size"] >= cur["size"] and rnd > 0:
                break
            cur = cands[best]
        return cur

    def report(group, want_bit, kind):
        # group failing cases by signature; per signature shrink the smallest
        by_sig = {}
        for i, c in group:
            by_sig.setdefault(case_sig(cases[i]), []).append((i, c))
        for sig, lst in sorted(by_sig.items()):
            kn = [d for s, d in known if s == sig and sig]
            if kn:
                known_hits[sig] = (kn[0], len(lst))
                continue
            i, c = min(lst, key=lambda ic: cases[ic[0]]["size"])
            rec = shrink(cases[i], want_bit)
            path = write_replay(rec, c, kind, {"failing_cases_in_run": len(lst), "signature": sig})
            violations.append((kind, path))

    if ok_fail:
        report(ok_fail, 2, "property-oracle-rejects-implementation")
    theorem_gap = [n for n in obligations if n not in discharged]
    searched = 0
    if not violations and (corr_only or theorem_gap or not coq_built):
        # The property is no longer shown to hold.  Search wider for a concrete failing input.
        found = False
        for k in range(1, 4 if tier == "quick" else 9):
            sdir = os.path.join(work, "widen%d" % k)
            rc, _ = run_harness(binp, pid, sdir, a.seed * 1000 + k, "thorough" if k > 1 else tier, ["-keep-coq"])
            if rc != 0:
                break
            fl, errs, st2 = evaluate(sdir)
            if errs:
                break
            searched += st2["evaluations"]
            hits = [(i, c) for i, c in fl if c & 2]
            if hits:
                wc = json.load(open(os.path.join(sdir, "cases.json")))
                save = cases
                cases_local = wc
                i, c = min(hits, key=lambda ic: wc[ic[0]]["size"])
                sig = case_sig(wc[i])
                if not [1 for s, d in known if s == sig and sig]:
                    rec = shrink(wc[i], 2)
                    violations.append(("property-oracle-rejects-implementation",
                                       write_replay(rec, c, "property-oracle-rejects-implementation", {"found_by": "widened search"})))
                    found = True
                    break
        if not found and not violations:
            if corr_only:
                by_sig = {}
                for i, c in corr_only:
                    by_sig.setdefault(case_sig(cases[i]), []).append((i, c))
                for sig, lst in sorted(by_sig.items()):
                    kn = [d for s, d in known if s == sig and sig]
                    if kn:
                        known_hits[sig] = (kn[0], len(lst))
                        continue
                    i, c = min(lst, key=lambda ic: cases[ic[0]]["size"])
                    rec = shrink(cases[i], 1)
                    path = write_replay(rec, c, "correspondence-broken",
                                        {"no_longer_checks": "correspondence %s: model observation <> implementation observation (the theorems of Props/%s.v speak about a model this code no longer matches)" % (stats["case_fn"], pid),
                                         "failing_cases_in_run": len(lst), "widened_search_cases": searched})
                    violations.append(("no-failing-input-found", path))
            if theorem_gap or not coq_built:
                rec = {"spec": None, "observed": None, "coq": None}
                path = write_replay(rec, 0, "proof-obligation-broken",
                                    {"no_longer_checks": "theorems %s of Props/%s.v (%s)" % (theorem_gap or obligations, pid, "build failed" if not coq_built else "not closed under the global context"),
                                     "log": (tlog or coq_log)[-2000:], "widened_search_cases": searched})
                violations.append(("no-failing-input-found", path))

    if crashes and not violations:
        # The implementation panicked in a step the case does not observe (the model runs through there):
        # the correspondence no longer checks on these inputs, and no input failing the property was found.
        c = min(crashes, key=lambda c: len(json.dumps(c["spec"])))
        path = write_replay({"spec": c["spec"], "observed": {"panic": c["panic"], "stack": c["stack"]}, "coq": None}, 1, "correspondence-broken",
                            {"no_longer_checks": "correspondence %s: the implementation panicked outside the observed steps (building the table / reading it back), where the model does not" % stats["case_fn"],
                             "crashed_cases_in_run": len(crashes)})
        violations.append(("no-failing-input-found", path))

    # ------------------------------------------------------------ evidence
    samples = []
    seen_tags = set()
    for rec in cases:
        key = tuple(sorted(rec["tags"]))[:3]
        if key in seen_tags:
            continue
        seen_tags.add(key)
        samples.append({"spec": rec["spec"], "observed": rec["observed"]})
        if len(samples) >= 5:
            break
    wall = time.time() - t0
    ev = {
        "property_id": pid, "tier": tier, "seed": a.seed, "level": "proof",
        "coverage": {
            "obligations": len(obligations), "discharged": len(discharged),
            "theorems": obligations, "axioms": axioms,
            "checker_cmd": "make -C coq (coqc 8.16.1, full .vo build) + coqc Print Assumptions for every theorem of coq/Props/%s.v; correspondence: go build harness against the repository's working tree, vharness %s, coqc cases_*.v (vm_compute)" % (pid, pid),
            "trusted_base": [
                "Coq 8.16.1 kernel and its bytecode VM (vm_compute); no native_compute; no extraction",
                "axioms: none (every theorem of Props/%s.v is Closed under the global context)" % pid if all(not v for v in axioms.values()) else "axioms: %s" % axioms,
                "hand-written Gallina model coq/Model (modelled, not verified: see DESIGN.md section 9), tied to the code by this run's correspondence check only on the cases listed below",
                "the Go harness (harness/*.go), check.py, Run/Glue.v (Uint63 only for shipping byte strings), Go toolchain, recover()",
                "the reading of the property into Coq: coq/Spec and coq/Props/%s.v" % pid,
            ],
            "evaluations": stats["evaluations"], "distinct_nontrivial": stats["distinct_nontrivial"],
            "distinct": stats["distinct"], "rule": stats["rule"],
            "exhaustive": False, "exhaustive_part": stats.get("exhaustive_part", ""),
            "input_distribution": stats["distribution"],
            "correspondence_mismatches": len([1 for i, c in failing if c & 1]),
            "oracle_rejections": len(ok_fail),
            "crashed_outside_observed_steps": len(crashes),
            "widened_search_cases": searched,
            "source_fingerprint": fp, "source_matches_pinned": fp == pinned,
            "extra_passes_because_source_changed": extra_passes, "evaluations_in_earlier_passes": stats.get("evaluations_before", 0),
            "samples": samples,
            "known_findings_seen": {k: {"what": v[0], "cases": v[1]} for k, v in known_hits.items()},
            "coqchk": coqchk if coqchk is not None else "thorough tier only",
            "source_tie": ({k: v for k, v in tres.items() if k != "dir"} if tres is not None else "none for this property"),
        },
        "assumptions": (stats.get("assumptions") or []) + [
            "the theorems are about a hand-written Gallina model; its agreement with the Go code is established only on the cases this run executed (correspondence_mismatches above)",
            "user-supplied methods and callbacks are total and do what the harness's test doubles do (DESIGN.md section 13)",
        ] + ([] if tres is None else [
            "source tie (%s): the functions %s are ALSO translated from the Go text of the repository under test by tools/go2coq on this run; status '%s' (identical = the compiled theorems %s hold for exactly this source text; re-proved = the tie proofs were re-run against the fresh translation; broken = they were not). Trusted for that tie: the translator, the combinators of coq/Base/GoSem.v, the table interface listed in the generated file's header (notes/SOURCE_TIE.md)"
            % (tres["committed"], ", ".join(tres["targets"]), tres["status"].split(":")[0], ", ".join(tres["theorems"]))]),
        "wall_s": round(wall, 2),
        "violations": len(violations),
    }
    if not a.no_evidence:
        os.makedirs(os.path.join(VERIF, "evidence"), exist_ok=True)
        json.dump(ev, open(os.path.join(VERIF, "evidence", pid + ".json"), "w"), indent=1)

    if tres is not None:
        print("SOURCE-TIE property=%s status=%s%s" % (pid, tres["status"], (" [%s]" % tres["evaluation"]) if tres.get("evaluation") else ""))
    for sig, (desc, n) in sorted(known_hits.items()):
        print("KNOWN-FINDING: property=%s sig=%s %s (%d cases this run)" % (pid, sig, desc, n))
    print("%s %s: %d cases (%d distinct non-trivial), %d/%d theorems closed, %d model/impl mismatches, %d oracle rejections, %.1fs"
          % (pid, tier, stats["evaluations"], stats["distinct_nontrivial"], len(discharged), len(obligations),
             len([1 for i, c in failing if c & 1]), len(ok_fail), wall))
    for kind, path in violations:
        if kind == "no-failing-input-found":
            print("VIOLATION property=%s replay=%s no-failing-input-found" % (pid, path))
        else:
            print("VIOLATION property=%s replay=%s" % (pid, path))
    return 1 if violations else 0


if __name__ == "__main__":
    main()
