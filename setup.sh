#!/bin/sh
# Build the Coq development from files on disk only (full .vo build).
set -e
cd "$(dirname "$0")"
sh tools/gen_coqproject.sh
cd coq
[ -f Makefile ] || coq_makefile -f _CoqProject -o Makefile
timeout 3000 make -j16
