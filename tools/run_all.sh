#!/bin/sh
# run_all.sh [tier] : every property's check against /repo, four at a time; one line each (not a registered command)
tier=${1:-quick}
cd "$(dirname "$0")/.."
export GOFLAGS=-mod=mod GOPROXY=off GOSUMDB=off GOTOOLCHAIN=local
ls coq/Props | sed -n 's/^\(C[0-9][0-9]\)\.v$/\1/p' | xargs -P 4 -I{} sh -c 'out=$(python3 check.py {} --tier '"$tier"' 2>&1); rc=$?; echo "{} rc=$rc $(echo "$out" | grep -E "^(VIOLATION|KNOWN-FINDING)" | cut -c1-120 | tr "\n" " ") | $(echo "$out" | tail -1 | cut -c1-200)"' | sort
