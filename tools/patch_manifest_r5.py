#!/usr/bin/env python3
"""Appends the round-5 additions to MANIFEST.json's level texts (idempotent)."""
import json, os
V = os.path.dirname(os.path.dirname(os.path.abspath(__file__)))
p = os.path.join(V, "MANIFEST.json")
m = json.load(open(p))
E2E = " END TO END (round 5): the theorem is also stated over HISTORIES of public-API calls (building calls in any interleaving plus column property settings, Model/Table.v) over ARBITRARY items, with the view hypotheses discharged for every reachable table and the expected content said in terms of the history and the items' documented text (%s); the composition is tied to the code by the pipeline correspondence carried by every C09 case (the build replayed through the table machine must present exactly the view read back from the real table)."
ADD = {
 "C01": " Round 5: c01_shown_by_every_renderer (every cell any renderer reads, after any history of building calls over arbitrary items, shows the documented text of the item put there) and, over the mutation machine Model/TableMut.v (cells remember the state their item was in at the last read): c01_table_mutation_not_seen, c01_table_update_shows, c01_mutation_free_is_hview, c01_csv_after_any_program.",
 "C03": E2E % "c03_history_refines, c03_history_rectangle, c03_history_colwidth",
 "C04": E2E % "c04_history_refines, c04_history_alignment: the effective alignment is the column's own LATEST setting, else the latest default on column 0, else left, whenever in the history the settings were made",
 "C05": E2E % "c05_history, c05_history_succeeds",
 "C06": E2E % "c06_history, c06_history_calls" + " The template is also tied to the SOURCE: harness/htmltpl.go reads the template constant from html/html.go on every run and parses it with text/template/parse; Model/Tpl.v interprets such trees (control flow, FuncMap, html/template's contextual escaping) and c06_template_is_model proves that the hand-written model html_exec IS the interpretation of the recorded tree for all inputs; each run checks that the source's tree is the recorded one.",
 "C07": E2E % "c07_history, c07_history_keys, c07_history_skipable" + " encoding/json on strings is modelled (Model/JsonString.v) and proved to denote the sanitized string for every byte string (c07_string_encoding, c07_valid_utf8_is_itself), so c07_roundtrip_modelled_strings needs no assumption on the encoding of keys and text fall-backs; the encoder model is compared with json.Marshal in every pipeline case.",
 "C08": E2E % "c08_history, c08_history_texts, c08_history_alignment",
 "C09": " Round 5: c09_total_table extends the composition to histories with column property settings and to EVERY decoration value (c09_text_any_decoration: hand-written, never populated decorations included; Render returns an error exactly for the empty decoration) - the defect D22 (a hand-written decoration with an inner but no border divider panicked on a column-less table) was found by this check on the repository and repaired; every case whose build is a machine history also carries the pipeline correspondence (Run/PipeRun.v): the table machine Model/Table.v over the items as given must present exactly the view read back from the real table, and programs that mutate items and update cells must match the mutation machine Model/TableMut.v.",
}
for c in m["checks"]:
    add = ADD.get(c["property_id"])
    if add and add.strip()[:40] not in c["level_claimed"]["text"]:
        c["level_claimed"]["text"] += add
json.dump(m, open(p, "w"), indent=1)
print("patched")
