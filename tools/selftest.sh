#!/bin/sh
# selftest.sh <patch.diff> <ID>...   (not a registered command)
# Applies one seeded change to a scratch git worktree of /repo (outside /repo
# and /verif), checks that it still builds and passes the repository's own
# tests, runs the named properties' quick checks against it, and removes the
# worktree.  Prints one line per check: CAUGHT / MISSED.
set -u
patch=$(readlink -f "$1"); shift
export GOFLAGS=-mod=mod GOPROXY=off GOSUMDB=off GOTOOLCHAIN=local
wt=$(mktemp -d /tmp/selftest.XXXXXX)
git -C /repo worktree add -q --detach "$wt" HEAD || exit 2
trap 'git -C /repo worktree remove --force "$wt" >/dev/null 2>&1; rm -rf "$wt"' EXIT
if ! git -C "$wt" apply "$patch"; then echo "PATCH-DOES-NOT-APPLY $patch"; exit 2; fi
if ! (cd "$wt" && go build ./... && go vet ./... >/dev/null 2>&1; go build ./...) >/dev/null 2>&1; then echo "MUTANT-DOES-NOT-BUILD"; exit 2; fi
if ! (cd "$wt" && go test -vet=off -count=1 ./... >/tmp/selftest.$$.log 2>&1); then echo "MUTANT-FAILS-EXISTING-TESTS"; grep -v '^ok' /tmp/selftest.$$.log | head -5; rm -f /tmp/selftest.$$.log; exit 3; fi
rm -f /tmp/selftest.$$.log
cd "$(dirname "$0")/.."
for id in "$@"; do
  out=$(python3 check.py "$id" --tier quick --repo "$wt" --no-evidence 2>&1); rc=$?
  v=$(echo "$out" | grep -c '^VIOLATION')
  if [ $rc -eq 1 ] && [ "$v" -gt 0 ]; then echo "CAUGHT $id: $(echo "$out" | grep '^VIOLATION' | head -2 | tr '\n' ' ')"; 
  elif [ $rc -eq 0 ]; then echo "MISSED $id: $(echo "$out" | tail -1)";
  else echo "BROKEN $id rc=$rc: $(echo "$out" | tail -3 | tr '\n' ' ')"; fi
done
