// srcfacts: command-line front end of the shared-state inventory (C16/C17).
//
//	sh tools/srcfacts/srcfacts.sh -repo <repository> [-o SrcFacts.v] [-json]
//
// The walk itself is harness/c16_srcfacts.go (the harness runs the same code on
// every check); srcfacts.sh compiles the two files together.  Standard library
// only.  Exit 0 = the Go-side mirror of shared_ok accepts the facts, 1 = it
// rejects them (the offending facts are listed), 2 = the walk failed.  The
// authoritative verdict is Coq's: coqc -R <verif>/coq Tab SrcFacts.v.
package main

import (
	"encoding/json"
	"flag"
	"fmt"
	"os"
)

func main() {
	repo := flag.String("repo", "", "repository to inspect (default: VERIF_REPO)")
	out := flag.String("o", "", "write SrcFacts.v here")
	asJSON := flag.Bool("json", false, "print the facts as JSON")
	flag.Parse()
	if *repo == "" {
		*repo = os.Getenv("VERIF_REPO")
	}
	if *repo == "" {
		fmt.Fprintln(os.Stderr, "srcfacts: -repo is required")
		os.Exit(2)
	}
	f, err := collectSrcFacts(*repo)
	if err != nil {
		fmt.Fprintln(os.Stderr, "srcfacts:", err)
		os.Exit(2)
	}
	if *out != "" {
		if err := os.WriteFile(*out, []byte(f.CoqFile()), 0o644); err != nil {
			fmt.Fprintln(os.Stderr, "srcfacts:", err)
			os.Exit(2)
		}
	}
	if *asJSON {
		b, _ := json.MarshalIndent(f, "", " ")
		fmt.Println(string(b))
	} else {
		fmt.Printf("%d packages, %d files, %d package-level vars, %d accesses, %d type errors, unresolved imports %v\n",
			len(f.Packages), f.Files, len(f.Vars), len(f.Accs), f.TypeErrors, f.FakeImport)
		for _, v := range f.Vars {
			fmt.Printf("var  %-22s %-26s %s sync=%v %s\n", v.Pkg, v.Name, v.Type, v.Sync, v.Pos)
		}
		for _, a := range f.Accs {
			fmt.Printf("acc  %-22s %s.%s %s %s in %s at %s sync=%v locked=%v %s\n", a.Pkg, a.Var, a.Path, a.Kind, a.Meth, a.Func, a.Pos, a.Sync, a.Locked, a.Via)
		}
		for _, c := range f.CalledLocked {
			fmt.Println("called-with-lock-held:", c)
		}
	}
	bad := f.Offending()
	for _, a := range bad {
		fmt.Printf("OFFENDING: %s %s.%s %s %s in %s at %s sync=%v locked=%v\n", a.Pkg, a.Var, a.Path, a.Kind, a.Meth, a.Func, a.Pos, a.Sync, a.Locked)
	}
	if len(bad) > 0 {
		os.Exit(1)
	}
}
