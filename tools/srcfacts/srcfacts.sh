#!/bin/sh
# Builds and runs the stand-alone source inventory: main.go of this directory
# plus harness/c16_srcfacts.go (one copy of the walk; the harness compiles the
# same file and runs it on every check of C16).
#   sh tools/srcfacts/srcfacts.sh -repo <repository> [-o <dir>/SrcFacts.v] [-json]
# With -o the generated file is also compiled (coqc -R <verif>/coq Tab), which
# fails when shared_ok rejects the facts.  Generate into a scratch directory,
# never into coq/: the file describes one repository state.
set -e
here="$(cd "$(dirname "$0")" && pwd)"
tmp="$(mktemp -d)"
trap 'rm -rf "$tmp"' EXIT
cp "$here/main.go" "$here/../../harness/c16_srcfacts.go" "$tmp/"
printf 'module srcfacts\n\ngo 1.21\n' > "$tmp/go.mod"
(cd "$tmp" && GOFLAGS=-mod=mod GOPROXY=off GOSUMDB=off GOTOOLCHAIN=local go build -o srcfacts .)
out=""
prev=""
for a in "$@"; do
  [ "$prev" = "-o" ] && out="$a"
  prev="$a"
done
rc=0
"$tmp/srcfacts" "$@" || rc=$?
[ "$rc" = 2 ] && exit 2
if [ -n "$out" ] && command -v coqc >/dev/null 2>&1; then
  (cd "$(dirname "$out")" && timeout 600 coqc -R "$here/../../coq" Tab "$(basename "$out")") || rc=1
fi
exit $rc
