// go2coq: a SHALLOW translation of a small, documented subset of Go into
// Gallina terms over coq/Base/GoSem.v (notes/SOURCE_TIE.md describes the subset
// and what is trusted).  Standard library only.
//
//	go run ./tools/go2coq -repo <repository> [-o Out.v] csv/csv.go:csvEscape csv/csv.go:emitRow ...
//
// One Gallina definition src_<Func> per target, in the order given (a callee
// must come before its callers).  The output depends on the source text of the
// targets only (no paths, no line numbers, no dates), so that it can be compared
// byte for byte with a committed copy.
//
// Anything outside the subset:  UNSUPPORTED <file>:<line> <construct>  on
// stdout and exit status 3.  The translator never guesses.
// Exit 0 = translated, 2 = usage / the file does not parse / no such function.
package main

import (
	"flag"
	"fmt"
	"go/ast"
	"go/parser"
	"go/token"
	"os"
	"path/filepath"
	"sort"
	"strconv"
	"strings"
)

type typ string

const (
	tInt      typ = "int"
	tByte     typ = "byte"
	tString   typ = "string"
	tBytes    typ = "[]byte"
	tBool     typ = "bool"
	tError    typ = "error"
	tNil      typ = "nil"
	tUnit     typ = "unit"
	tWriter   typ = "io.Writer"
	tTable    typ = "table"
	tCells    typ = "[]Cell"
	tCellsOpt typ = "[]Cell (may be nil)"
	tCell     typ = "Cell"
	tRows     typ = "[]*Row"
	tRow      typ = "*Row"
)

var coqType = map[typ]string{
	tInt: "Z", tByte: "N", tString: "bytes", tBytes: "bytes", tBool: "bool", tUnit: "unit",
	tTable: "view", tCells: "list vcell", tCellsOpt: "option (list vcell)", tCell: "vcell",
	tRows: "list vrow", tRow: "vrow",
}

// ---------------------------------------------------------------- the assumed interface

type accessor struct {
	recv   typ
	coq    string
	result typ
	doc    string
}

var accessors = map[string]accessor{
	"NColumns":              {tTable, "tbl_NColumns", tInt, "t.NColumns()              = Z.of_nat (v_ncols t)"},
	"Headers":               {tTable, "tbl_Headers", tCellsOpt, "t.Headers()               = v_header t        (nil = None)"},
	"AllRows":               {tTable, "tbl_AllRows", tRows, "t.AllRows()               = v_rows t"},
	"InvokeRenderCallbacks": {tTable, "tbl_InvokeRenderCallbacks", tUnit, "t.InvokeRenderCallbacks() = no effect on the view (the view is the table after the callbacks)"},
	"IsSeparator":           {tRow, "row_IsSeparator", tBool, "r.IsSeparator()           = (r is None)"},
	"Cells":                 {tRow, "row_Cells", tCellsOpt, "r.Cells()                 = r                 (nil for a separator)"},
	"String":                {tCell, "cell_String", tString, "c.String()                = vc_text c"},
}

var reserved = map[string]bool{}

func init() {
	for _, w := range strings.Fields(`in end fun let match with as if then else return at fix cofix for forall exists
		Type Prop Set SProp using where struct by mod IF Definition Lemma Theorem Proof Qed tt ret Norm Cont Brk Ret
		mbind sbind write index store idx bind Ok Err Panic Done panic lift length nil cons app map true false
		fst snd negb andb orb view bytes byte res fres`) {
		reserved[w] = true
	}
}

func coqName(s string) string {
	if reserved[s] || strings.HasPrefix(s, "tmp") || strings.HasPrefix(s, "src_") || strings.HasPrefix(s, "tbl_") {
		return s + "_"
	}
	return s
}

// ---------------------------------------------------------------- functions

type param struct {
	name string
	ty   typ
}

type fnInfo struct {
	rel      string // file, relative to the repository
	fset     *token.FileSet
	file     *ast.File
	decl     *ast.FuncDecl
	recv     string
	params   []param
	writer   string
	result   typ // tUnit = no result; tError = error
	usesRecv bool
	done     bool
	// extensions (end of this file)
	exts    []string // external functions the definition is parameterised by
	ptrRecv bool     // the receiver is a pointer to a one-field struct, passed as state
	mutRecv bool     // ... and the method assigns it: the definition returns the new state
}

func (f *fnInfo) pos(n ast.Node) string {
	return fmt.Sprintf("%s:%d", f.rel, f.fset.Position(n.Pos()).Line)
}

func unsupported(f *fnInfo, n ast.Node, what string) {
	fmt.Printf("UNSUPPORTED %s %s\n", f.pos(n), what)
	os.Exit(3)
}

func usage(msg string) {
	fmt.Fprintln(os.Stderr, "go2coq:", msg)
	os.Exit(2)
}

type tr struct {
	fn      *fnInfo
	fns     map[string]*fnInfo
	env     map[string]typ
	order   []string
	tmp     int
	loop    []string
	inLoop  bool
	imports map[string]bool
	used    map[string]bool // accessors used
	consts  map[string]string
}

func (t *tr) un(n ast.Node, what string) { unsupported(t.fn, n, what) }

func (t *tr) fresh() string {
	for {
		t.tmp++
		n := fmt.Sprintf("tmp%d", t.tmp)
		if _, ok := t.env[n]; !ok {
			return n
		}
	}
}

type scope struct {
	env   map[string]typ
	order []string
}

func (t *tr) save() scope {
	e := map[string]typ{}
	for k, v := range t.env {
		e[k] = v
	}
	return scope{e, append([]string{}, t.order...)}
}
func (t *tr) restore(s scope) { t.env, t.order = s.env, s.order }

func (t *tr) declare(n ast.Node, name string, ty typ) {
	if name == "_" {
		t.un(n, "declaration of _")
	}
	if _, ok := t.env[name]; ok {
		t.un(n, "declaration of "+name+" shadows or repeats a local of that name")
	}
	if name == t.fn.recv || name == t.fn.writer || t.imports[name] {
		t.un(n, "declaration of "+name+" shadows the receiver, the destination or a package")
	}
	t.env[name] = ty
	t.order = append(t.order, name)
}

func tuple(vars []string) string {
	switch len(vars) {
	case 0:
		return "tt"
	case 1:
		return coqName(vars[0])
	}
	s := make([]string, len(vars))
	for i, v := range vars {
		s[i] = coqName(v)
	}
	return "(" + strings.Join(s, ", ") + ")"
}

func (t *tr) lam(vars []string) string {
	switch len(vars) {
	case 0:
		return "fun _ : unit =>"
	case 1:
		return "fun " + coqName(vars[0]) + " : " + coqType[t.env[vars[0]]] + " =>"
	}
	return "fun '" + tuple(vars) + " =>"
}

type bind struct{ name, m string }

func wrap(pre []bind, body string) string {
	for i := len(pre) - 1; i >= 0; i-- {
		body = fmt.Sprintf("mbind (%s) (fun %s =>\n%s)", pre[i].m, pre[i].name, body)
	}
	return body
}

// ---------------------------------------------------------------- types

func (t *tr) parseType(e ast.Expr) typ {
	if ty, ok := t.parseTypeExt3(e); ok {
		return ty
	}
	if ty, ok := t.parseTypeExt(e); ok {
		return ty
	}
	switch x := e.(type) {
	case *ast.Ident:
		switch x.Name {
		case "int":
			return tInt
		case "string":
			return tString
		case "bool":
			return tBool
		case "byte":
			return tByte
		case "error":
			return tError
		}
	case *ast.ArrayType:
		if x.Len == nil {
			if id, ok := x.Elt.(*ast.Ident); ok && id.Name == "byte" {
				return tBytes
			}
			if s, ok := x.Elt.(*ast.SelectorExpr); ok && isPkg(s.X, "tabular") && s.Sel.Name == "Cell" {
				return tCells
			}
		}
	case *ast.SelectorExpr:
		if isPkg(x.X, "io") && x.Sel.Name == "Writer" {
			return tWriter
		}
		if isPkg(x.X, "tabular") && x.Sel.Name == "Table" {
			return tTable
		}
	}
	t.un(e, "type "+exprString(e))
	return ""
}

func isPkg(e ast.Expr, name string) bool {
	id, ok := e.(*ast.Ident)
	return ok && id.Name == name
}

func exprString(e ast.Expr) string {
	switch x := e.(type) {
	case *ast.Ident:
		return x.Name
	case *ast.SelectorExpr:
		return exprString(x.X) + "." + x.Sel.Name
	case *ast.StarExpr:
		return "*" + exprString(x.X)
	case *ast.ArrayType:
		return "[]" + exprString(x.Elt)
	case *ast.CallExpr:
		return exprString(x.Fun) + "(...)"
	case *ast.BasicLit:
		return x.Value
	}
	return fmt.Sprintf("%T", e)
}

// ---------------------------------------------------------------- expressions

func bytesLit(s string) string {
	if len(s) == 0 {
		return "(@nil N)"
	}
	parts := make([]string, len(s))
	for i := 0; i < len(s); i++ {
		parts[i] = fmt.Sprintf("%d%%N", s[i])
	}
	return "[" + strings.Join(parts, "; ") + "]"
}

// expr: the checked sub-expressions (index, slice, make, calls) are bound to
// temporaries, in Go's left-to-right evaluation order, before the term is used.
func (t *tr) expr(e ast.Expr) ([]bind, string, typ) {
	if pre, s, ty, ok := t.exprExt3(e); ok {
		return pre, s, ty
	}
	if pre, s, ty, ok := t.exprExt(e); ok {
		return pre, s, ty
	}
	switch x := e.(type) {
	case *ast.ParenExpr:
		return t.expr(x.X)
	case *ast.BasicLit:
		switch x.Kind {
		case token.INT:
			v, err := strconv.ParseInt(x.Value, 0, 64)
			if err != nil {
				t.un(e, "integer literal "+x.Value)
			}
			return nil, fmt.Sprintf("%d", v), tInt
		case token.CHAR:
			r, _, _, err := strconv.UnquoteChar(x.Value[1:len(x.Value)-1], '\'')
			if err != nil || r > 255 {
				t.un(e, "character literal "+x.Value+" (not a byte)")
			}
			return nil, fmt.Sprintf("%d%%N", r), tByte
		case token.STRING:
			s, err := strconv.Unquote(x.Value)
			if err != nil {
				t.un(e, "string literal")
			}
			return nil, bytesLit(s), tString
		}
		t.un(e, "literal "+x.Value)
	case *ast.Ident:
		switch x.Name {
		case "nil":
			return nil, "nil", tNil
		case "true", "false":
			if _, ok := t.env[x.Name]; !ok {
				return nil, x.Name, tBool
			}
		}
		if ty, ok := t.env[x.Name]; ok {
			if ty == tError {
				t.un(e, "use of the error variable "+x.Name+" outside the `if err := f(); err != nil { return err }` idiom")
			}
			return nil, coqName(x.Name), ty
		}
		t.un(e, "identifier "+x.Name+" (not a local of the function)")
	case *ast.UnaryExpr:
		pre, a, ty := t.expr(x.X)
		switch {
		case x.Op == token.NOT && ty == tBool:
			return pre, "(negb " + a + ")", tBool
		case x.Op == token.SUB && ty == tInt:
			return pre, "(- " + a + ")", tInt
		}
		t.un(e, "unary operator "+x.Op.String()+" on "+string(ty))
	case *ast.BinaryExpr:
		return t.binary(x)
	case *ast.IndexExpr:
		p1, a, ta := t.expr(x.X)
		p2, i, ti := t.expr(x.Index)
		if ti != tInt {
			t.un(e, "index of type "+string(ti))
		}
		var el typ
		switch ta {
		case tString, tBytes:
			el = tByte
		case tCells:
			el = tCell
		case tRows:
			el = tRow
		default:
			t.un(e, "indexing a value of type "+string(ta))
		}
		n := t.fresh()
		return append(append(p1, p2...), bind{n, fmt.Sprintf("index %s %s", a, atom(i))}), n, el
	case *ast.SliceExpr:
		if x.Low != nil || x.High == nil || x.Max != nil || x.Slice3 {
			t.un(e, "slice expression other than b[:n]")
		}
		p1, a, ta := t.expr(x.X)
		p2, h, th := t.expr(x.High)
		if ta != tBytes || th != tInt {
			t.un(e, "slice expression on "+string(ta))
		}
		n := t.fresh()
		return append(append(p1, p2...), bind{n, fmt.Sprintf("slice_to %s %s", a, atom(h))}), n, tBytes
	case *ast.SelectorExpr:
		if isPkg(x.X, t.fn.recv) && t.fn.recv != "" {
			if c, ok := t.consts[x.Sel.Name]; ok {
				return nil, c, tString
			}
			t.un(e, "receiver field "+x.Sel.Name+" (not a constant string set in every composite literal of the type)")
		}
		t.un(e, "selector "+exprString(e))
	case *ast.CallExpr:
		return t.call(x)
	}
	t.un(e, fmt.Sprintf("expression %T", e))
	return nil, "", ""
}

func atom(s string) string {
	if strings.ContainsAny(s, " ") && !(strings.HasPrefix(s, "(") && strings.HasSuffix(s, ")")) && !strings.HasPrefix(s, "[") {
		return "(" + s + ")"
	}
	if strings.HasPrefix(s, "-") {
		return "(" + s + ")"
	}
	return s
}

func (t *tr) binary(x *ast.BinaryExpr) ([]bind, string, typ) {
	p1, a, ta := t.expr(x.X)
	p2, b, tb := t.expr(x.Y)
	pre := append(p1, p2...)
	op := x.Op
	if (op == token.LAND || op == token.LOR) && ta == tBool && tb == tBool {
		if len(p2) > 0 {
			t.un(x, "&& / || whose right operand can panic (short-circuit evaluation is not translated)")
		}
		if op == token.LAND {
			return pre, "(" + a + " && " + b + ")", tBool
		}
		return pre, "(" + a + " || " + b + ")", tBool
	}
	if s, ty, ok := t.binaryExt3(x, a, ta, b, tb); ok {
		return pre, s, ty
	}
	if s, ty, ok := t.binaryExt(x, a, ta, b, tb); ok {
		return pre, s, ty
	}
	if (op == token.EQL || op == token.NEQ) && (ta == tNil || tb == tNil) {
		v, tv := a, ta
		if ta == tNil {
			v, tv = b, tb
		}
		if tv != tCellsOpt {
			t.un(x, "comparison of a "+string(tv)+" with nil")
		}
		if op == token.NEQ {
			return pre, "(not_nil " + v + ")", tBool
		}
		return pre, "(negb (not_nil " + v + "))", tBool
	}
	if ta != tb {
		t.un(x, "operator "+op.String()+" on "+string(ta)+" and "+string(tb))
	}
	switch ta {
	case tInt:
		switch op {
		case token.ADD, token.SUB, token.MUL:
			return pre, "(" + a + " " + op.String() + " " + b + ")", tInt
		case token.LSS:
			return pre, "(" + a + " <? " + b + ")", tBool
		case token.LEQ:
			return pre, "(" + a + " <=? " + b + ")", tBool
		case token.GTR:
			return pre, "(" + a + " >? " + b + ")", tBool
		case token.GEQ:
			return pre, "(" + a + " >=? " + b + ")", tBool
		case token.EQL:
			return pre, "(" + a + " =? " + b + ")", tBool
		case token.NEQ:
			return pre, "(negb (" + a + " =? " + b + "))", tBool
		}
	case tByte:
		switch op {
		case token.EQL:
			return pre, "(N.eqb " + a + " " + b + ")", tBool
		case token.NEQ:
			return pre, "(negb (N.eqb " + a + " " + b + "))", tBool
		case token.LSS:
			return pre, "(N.ltb " + a + " " + b + ")", tBool
		case token.LEQ:
			return pre, "(N.leb " + a + " " + b + ")", tBool
		case token.GTR:
			return pre, "(N.ltb " + b + " " + a + ")", tBool
		case token.GEQ:
			return pre, "(N.leb " + b + " " + a + ")", tBool
		}
	case tString:
		if op == token.ADD {
			return pre, "(" + a + " ++ " + b + ")", tString
		}
	}
	t.un(x, "operator "+op.String()+" on "+string(ta))
	return nil, "", ""
}

// coerce an argument to a parameter type
func (t *tr) coerce(n ast.Node, term string, from, to typ) string {
	if from == to {
		return term
	}
	if from == tCellsOpt && to == tCells {
		return "(slice_of " + term + ")"
	}
	t.un(n, "a "+string(from)+" where a "+string(to)+" is expected")
	return ""
}

func (t *tr) call(x *ast.CallExpr) ([]bind, string, typ) {
	if x.Ellipsis != token.NoPos {
		t.un(x, "call with ...")
	}
	if pre, s, ty, ok := t.callExt3(x); ok {
		return pre, s, ty
	}
	if pre, s, ty, ok := t.callExt(x); ok {
		return pre, s, ty
	}
	switch f := x.Fun.(type) {
	case *ast.Ident:
		if _, shadow := t.env[f.Name]; shadow {
			t.un(x, "call of the local "+f.Name)
		}
		switch f.Name {
		case "len":
			if len(x.Args) != 1 {
				t.un(x, "len")
			}
			pre, a, ta := t.expr(x.Args[0])
			switch ta {
			case tString, tBytes, tCells, tRows:
				return pre, "(Zlen " + a + ")", tInt
			case tCellsOpt:
				return pre, "(Zlen (slice_of " + a + "))", tInt
			}
			t.un(x, "len of a "+string(ta))
		case "make":
			if len(x.Args) != 2 || t.parseType(x.Args[0]) != tBytes {
				t.un(x, "make other than make([]byte, n)")
			}
			pre, n, tn := t.expr(x.Args[1])
			if tn != tInt {
				t.un(x, "make with a size of type "+string(tn))
			}
			v := t.fresh()
			return append(pre, bind{v, "make_bytes " + atom(n)}), v, tBytes
		case "string":
			if len(x.Args) != 1 {
				t.un(x, "string()")
			}
			pre, a, ta := t.expr(x.Args[0])
			if ta != tBytes && ta != tString {
				t.un(x, "string() of a "+string(ta))
			}
			return pre, a, tString
		}
		if callee, ok := t.fns[f.Name]; ok && callee.recv == "" {
			return t.callTarget(x, callee, x.Args)
		}
		t.un(x, "call of "+f.Name+" (not a translated target, listed before this function)")
	case *ast.SelectorExpr:
		if isPkg(f.X, t.fn.recv) && t.fn.recv != "" {
			if callee, ok := t.fns[f.Sel.Name]; ok && callee.recv != "" {
				return t.callTarget(x, callee, x.Args)
			}
			if acc, ok := accessors[f.Sel.Name]; ok && acc.recv == tTable && acc.result != tUnit && len(x.Args) == 0 {
				t.used[f.Sel.Name] = true
				return nil, "(" + acc.coq + " " + coqName(t.fn.recv) + ")", acc.result
			}
			t.un(x, "call of the receiver's method "+f.Sel.Name+" (neither a translated target listed before this function nor part of the assumed table interface)")
		}
		if id, ok := f.X.(*ast.Ident); ok && t.imports[id.Name] {
			if _, local := t.env[id.Name]; !local {
				if pre, term, ty, ok := t.libCall(x, id.Name+"."+f.Sel.Name); ok {
					return pre, term, ty
				}
				t.un(x, "call of "+id.Name+"."+f.Sel.Name+" in an expression")
			}
		}
		pre, a, ta := t.expr(f.X)
		if acc, ok := accessors[f.Sel.Name]; ok && acc.recv == ta && acc.result != tUnit && len(x.Args) == 0 {
			t.used[f.Sel.Name] = true
			return pre, "(" + acc.coq + " " + atom(a) + ")", acc.result
		}
		t.un(x, "method "+f.Sel.Name+" on a "+string(ta))
	}
	t.un(x, "call of "+exprString(x.Fun))
	return nil, "", ""
}

// a call of a translated function; for one that writes, the caller handles it
// at statement level (callStmt), here only pure callees are allowed
func (t *tr) callTarget(x *ast.CallExpr, callee *fnInfo, args []ast.Expr) ([]bind, string, typ) {
	if !callee.done {
		t.un(x, "call of "+callee.decl.Name.Name+" before its translation (list callees first; recursion is not translated)")
	}
	if callee.writer != "" {
		t.un(x, "call of "+callee.decl.Name.Name+" (which writes) inside an expression")
	}
	if callee.result == tError || callee.result == tUnit {
		t.un(x, "call of "+callee.decl.Name.Name+" in an expression")
	}
	pre, app := t.apply(x, callee, args)
	v := t.fresh()
	return append(pre, bind{v, "lift_pure (" + app + ")"}), v, callee.result
}

func (t *tr) apply(x *ast.CallExpr, callee *fnInfo, args []ast.Expr) ([]bind, string) {
	var pre []bind
	app := "src_" + callee.decl.Name.Name + t.extArgs(callee)
	if callee.usesRecv {
		app += " " + coqName(t.fn.recv)
	}
	goParams := callee.decl.Type.Params.NumFields()
	if len(args) != goParams {
		t.un(x, "argument count")
	}
	k := 0
	for _, fl := range callee.decl.Type.Params.List {
		for range fl.Names {
			arg := args[k]
			k++
			if t.parseType(fl.Type) == tWriter {
				if !isPkg(arg, t.fn.writer) || t.fn.writer == "" {
					t.un(arg, "destination argument other than the function's own io.Writer parameter")
				}
				continue
			}
			p, a, ta := t.expr(arg)
			pre = append(pre, p...)
			app += " " + atom(t.coerce(arg, a, ta, t.parseType(fl.Type)))
		}
	}
	return pre, app
}

// ---------------------------------------------------------------- destination writes

// fmt.Fprint(w, s...), fmt.Fprintln(w), io.WriteString(w, s): the payload
func (t *tr) writeCall(e ast.Expr) (bool, []bind, string) {
	x, ok := e.(*ast.CallExpr)
	if !ok {
		return false, nil, ""
	}
	f, ok := x.Fun.(*ast.SelectorExpr)
	if !ok {
		return false, nil, ""
	}
	id, ok := f.X.(*ast.Ident)
	if !ok || !t.imports[id.Name] {
		return false, nil, ""
	}
	if _, local := t.env[id.Name]; local {
		return false, nil, ""
	}
	name := id.Name + "." + f.Sel.Name
	switch name {
	case "fmt.Fprint", "fmt.Fprintln", "io.WriteString":
	default:
		return false, nil, ""
	}
	if len(x.Args) < 1 || !isPkg(x.Args[0], t.fn.writer) || t.fn.writer == "" || x.Ellipsis != token.NoPos {
		t.un(x, name+" on something other than the function's io.Writer parameter")
	}
	args := x.Args[1:]
	switch name {
	case "fmt.Fprintln":
		if len(args) != 0 {
			t.un(x, "fmt.Fprintln with operands (spacing rules are not translated)")
		}
		return true, nil, bytesLit("\n")
	case "io.WriteString":
		if len(args) != 1 {
			t.un(x, "io.WriteString argument count")
		}
	}
	var pre []bind
	var parts []string
	for _, a := range args {
		p, s, ty := t.expr(a)
		if ty != tString {
			t.un(a, name+" operand of type "+string(ty)+" (only string operands: no spacing, no formatting)")
		}
		pre = append(pre, p...)
		parts = append(parts, s)
	}
	if len(parts) == 0 {
		return true, pre, bytesLit("")
	}
	if len(parts) == 1 {
		return true, pre, parts[0]
	}
	return true, pre, "(" + strings.Join(parts, " ++ ") + ")"
}

// ---------------------------------------------------------------- statements

// the locals (declared before the construct) that the statements assign
func (t *tr) assigned(nodes ...ast.Node) []string {
	set := map[string]bool{}
	add := func(e ast.Expr) {
		switch l := e.(type) {
		case *ast.Ident:
			set[l.Name] = true
		case *ast.IndexExpr:
			if id, ok := l.X.(*ast.Ident); ok {
				set[id.Name] = true
			}
		}
	}
	for _, n := range nodes {
		if n == nil {
			continue
		}
		ast.Inspect(n, func(n ast.Node) bool {
			switch s := n.(type) {
			case *ast.AssignStmt:
				if s.Tok != token.DEFINE {
					for _, l := range s.Lhs {
						add(l)
					}
				}
			case *ast.IncDecStmt:
				add(s.X)
			}
			t.assignedExt(n, set)
			return true
		})
	}
	var out []string
	for _, v := range t.order {
		if set[v] && t.env[v] != tError {
			out = append(out, v)
		}
	}
	return out
}

func (t *tr) block(list []ast.Stmt, final func() string) string {
	if len(list) == 0 {
		return final()
	}
	return t.stmt(list[0], len(list) == 1, func() string { return t.block(list[1:], final) })
}

// a nested block with its own scope, ending in Norm of the given variables
func (t *tr) scoped(list []ast.Stmt, out []string) string {
	s := t.save()
	r := t.block(list, func() string { return "ret (Norm " + tuple(out) + ")" })
	t.restore(s)
	return r
}

// `[_,] err :=|= CALL` with `err != nil` and `{ return err }`
func (t *tr) errIdiom(s *ast.IfStmt) (ast.Expr, bool) {
	as, ok := s.Init.(*ast.AssignStmt)
	if !ok || s.Else != nil || len(as.Rhs) != 1 || len(as.Lhs) < 1 || len(as.Lhs) > 2 {
		return nil, false
	}
	errName := ""
	for i, l := range as.Lhs {
		id, ok := l.(*ast.Ident)
		if !ok {
			return nil, false
		}
		if i == len(as.Lhs)-1 {
			errName = id.Name
		} else if id.Name != "_" {
			return nil, false
		}
	}
	if errName == "_" || errName == "" {
		return nil, false
	}
	if as.Tok == token.ASSIGN {
		if t.env[errName] != tError {
			return nil, false
		}
	} else if as.Tok != token.DEFINE {
		return nil, false
	}
	c, ok := s.Cond.(*ast.BinaryExpr)
	if !ok || c.Op != token.NEQ || !isPkg(c.X, errName) || !isPkg(c.Y, "nil") {
		return nil, false
	}
	if len(s.Body.List) != 1 {
		return nil, false
	}
	r, ok := s.Body.List[0].(*ast.ReturnStmt)
	if !ok || len(r.Results) != 1 || !isPkg(r.Results[0], errName) || t.fn.result != tError {
		return nil, false
	}
	return as.Rhs[0], true
}

func (t *tr) stmt(s ast.Stmt, last bool, rest func() string) string {
	if out, ok := t.stmtExt3(s, last, rest); ok {
		return out
	}
	if out, ok := t.stmtExt(s, last, rest); ok {
		return out
	}
	switch x := s.(type) {
	case *ast.EmptyStmt:
		return rest()
	case *ast.DeclStmt:
		gd, ok := x.Decl.(*ast.GenDecl)
		if !ok || gd.Tok != token.VAR || len(gd.Specs) != 1 {
			t.un(s, "declaration other than a single var")
		}
		vs := gd.Specs[0].(*ast.ValueSpec)
		if len(vs.Names) != 1 || len(vs.Values) > 1 {
			t.un(s, "var with several names")
		}
		name := vs.Names[0].Name
		if len(vs.Values) == 1 {
			pre, v, ty := t.expr(vs.Values[0])
			if vs.Type != nil && t.parseType(vs.Type) != ty {
				t.un(s, "var "+name+": a "+string(ty)+" for a "+string(t.parseType(vs.Type)))
			}
			return t.bindVar(s, pre, v, ty, name, true, rest)
		}
		if vs.Type == nil {
			t.un(s, "var without type")
		}
		ty := t.parseType(vs.Type)
		switch ty {
		case tError:
			t.declare(s, name, ty)
			return rest()
		case tInt:
			return t.bindVar(s, nil, "0", ty, name, true, rest)
		case tBool:
			return t.bindVar(s, nil, "false", ty, name, true, rest)
		case tString:
			return t.bindVar(s, nil, bytesLit(""), ty, name, true, rest)
		}
		t.un(s, "zero value of "+string(ty))
	case *ast.AssignStmt:
		if len(x.Lhs) != 1 || len(x.Rhs) != 1 {
			t.un(s, "assignment with several operands")
		}
		switch x.Tok {
		case token.DEFINE, token.ASSIGN:
		case token.ADD_ASSIGN, token.SUB_ASSIGN:
			id, ok := x.Lhs[0].(*ast.Ident)
			if !ok || t.env[id.Name] != tInt {
				t.un(s, "operator assignment on something other than an int local")
			}
			pre, v, ty := t.expr(x.Rhs[0])
			if ty != tInt {
				t.un(s, "operator assignment of a "+string(ty))
			}
			op := map[token.Token]string{token.ADD_ASSIGN: "+", token.SUB_ASSIGN: "-"}[x.Tok]
			return t.bindVar(s, pre, "("+coqName(id.Name)+" "+op+" "+v+")", tInt, id.Name, false, rest)
		default:
			t.un(s, "assignment operator "+x.Tok.String())
		}
		switch l := x.Lhs[0].(type) {
		case *ast.Ident:
			pre, v, ty := t.expr(x.Rhs[0])
			if x.Tok == token.ASSIGN {
				have, ok := t.env[l.Name]
				if !ok {
					t.un(s, "assignment to "+l.Name+" (not a local)")
				}
				if have != ty {
					t.un(s, "assignment of a "+string(ty)+" to "+l.Name+" of type "+string(have))
				}
			}
			return t.bindVar(s, pre, v, ty, l.Name, x.Tok == token.DEFINE, rest)
		case *ast.IndexExpr:
			id, ok := l.X.(*ast.Ident)
			if !ok || x.Tok != token.ASSIGN || t.env[id.Name] != tBytes {
				t.un(s, "indexed assignment to something other than a []byte local")
			}
			p1, i, ti := t.expr(l.Index)
			p2, v, tv := t.expr(x.Rhs[0])
			if ti != tInt || tv != tByte {
				t.un(s, "indexed assignment "+string(ti)+" / "+string(tv))
			}
			n := coqName(id.Name)
			return wrap(append(p1, p2...), fmt.Sprintf("mbind (store %s %s %s) (fun %s =>\n%s)", n, atom(i), atom(v), n, rest()))
		}
		t.un(s, "assignment target")
	case *ast.IncDecStmt:
		id, ok := x.X.(*ast.Ident)
		if !ok || t.env[id.Name] != tInt {
			t.un(s, "++ / -- on something other than an int local")
		}
		op := "+"
		if x.Tok == token.DEC {
			op = "-"
		}
		return t.bindVar(s, nil, "("+coqName(id.Name)+" "+op+" 1)", tInt, id.Name, false, rest)
	case *ast.ExprStmt:
		if ok, pre, payload := t.writeCall(x.X); ok {
			return wrap(pre, fmt.Sprintf("mbind (write %s false) (fun _ =>\n%s)", atom(payload), rest()))
		}
		if c, ok := x.X.(*ast.CallExpr); ok {
			if f, ok := c.Fun.(*ast.SelectorExpr); ok && isPkg(f.X, t.fn.recv) && t.fn.recv != "" && len(c.Args) == 0 {
				if acc, ok := accessors[f.Sel.Name]; ok && acc.recv == tTable && acc.result == tUnit {
					t.used[f.Sel.Name] = true
					return fmt.Sprintf("mbind (%s %s) (fun _ =>\n%s)", acc.coq, coqName(t.fn.recv), rest())
				}
			}
		}
		t.un(s, "expression statement "+exprString(x.X)+" (a call whose result is dropped)")
	case *ast.ReturnStmt:
		if !last {
			t.un(s, "statements after return")
		}
		switch t.fn.result {
		case tUnit:
			if len(x.Results) != 0 {
				t.un(s, "return with a value")
			}
			return "ret (Ret tt)"
		case tError:
			if len(x.Results) != 1 {
				t.un(s, "return arity")
			}
			if isPkg(x.Results[0], "nil") {
				return "ret (Ret tt)"
			}
			if c, ok := x.Results[0].(*ast.CallExpr); ok {
				if f, ok := c.Fun.(*ast.SelectorExpr); ok && isPkg(f.X, "fmt") && f.Sel.Name == "Errorf" && t.imports["fmt"] {
					for _, a := range c.Args {
						if p, _, _ := t.expr(a); len(p) > 0 {
							t.un(a, "fmt.Errorf operand that can panic")
						}
					}
					return "fail_err"
				}
			}
			t.un(s, "return of an error other than nil, fmt.Errorf(...) or the `if err := f(); err != nil { return err }` idiom")
		}
		if len(x.Results) != 1 {
			t.un(s, "return arity")
		}
		pre, v, ty := t.expr(x.Results[0])
		if ty != t.fn.result {
			t.un(s, "return of a "+string(ty)+" from a function returning "+string(t.fn.result))
		}
		return wrap(pre, "ret (Ret "+atom(v)+")")
	case *ast.BranchStmt:
		if x.Label != nil || !t.inLoop || !last {
			t.un(s, x.Tok.String()+" with a label, outside a loop, or followed by statements")
		}
		switch x.Tok {
		case token.CONTINUE:
			return "ret (Cont " + tuple(t.loop) + ")"
		case token.BREAK:
			return "ret (Brk " + tuple(t.loop) + ")"
		}
		t.un(s, x.Tok.String())
	case *ast.BlockStmt:
		asg := t.assigned(x)
		return fmt.Sprintf("sbind (%s) (%s\n%s)", t.scoped(x.List, asg), t.lam(asg), rest())
	case *ast.IfStmt:
		return t.ifStmt(x, rest)
	case *ast.ForStmt:
		return t.forStmt(x, rest)
	case *ast.RangeStmt:
		return t.rangeStmt(x, rest)
	}
	t.un(s, fmt.Sprintf("statement %T", s))
	return ""
}

func (t *tr) bindVar(n ast.Node, pre []bind, v string, ty typ, name string, define bool, rest func() string) string {
	if ty == tNil || ty == tError || ty == tUnit || ty == tWriter {
		t.un(n, "a local of type "+string(ty))
	}
	if define {
		t.declare(n, name, ty)
	}
	cn := coqName(name)
	if len(pre) > 0 && pre[len(pre)-1].name == v {
		// the value is the last temporary: bind it to the local directly
		last := pre[len(pre)-1]
		return wrap(pre[:len(pre)-1], fmt.Sprintf("mbind (%s) (fun %s =>\n%s)", last.m, cn, rest()))
	}
	return wrap(pre, fmt.Sprintf("let %s := %s in\n%s", cn, v, rest()))
}

func (t *tr) ifStmt(x *ast.IfStmt, rest func() string) string {
	if rhs, ok := t.errIdiom(x); ok {
		// the error of CALL is returned at once: a checked write, or the
		// callee's error propagating (Err is the monad's own early exit)
		if ok, pre, payload := t.writeCall(rhs); ok {
			return wrap(pre, fmt.Sprintf("mbind (write %s true) (fun _ =>\n%s)", atom(payload), rest()))
		}
		if c, ok := rhs.(*ast.CallExpr); ok {
			var callee *fnInfo
			switch f := c.Fun.(type) {
			case *ast.Ident:
				if g, ok := t.fns[f.Name]; ok && g.recv == "" {
					callee = g
				}
			case *ast.SelectorExpr:
				if g, ok := t.fns[f.Sel.Name]; ok && g.recv != "" && isPkg(f.X, t.fn.recv) {
					callee = g
				}
			}
			if callee != nil && callee.result == tError && callee.done && (callee.writer == "" || t.fn.writer != "") {
				pre, app := t.apply(c, callee, c.Args)
				if callee.writer == "" {
					app = "lift_pure (" + app + ")"
				}
				return wrap(pre, fmt.Sprintf("mbind (%s) (fun _ =>\n%s)", app, rest()))
			}
		}
		t.un(x, "`if err := "+exprString(rhs)+"; err != nil { return err }` on a call that is neither a destination write nor a translated target returning error")
	}
	if x.Init != nil {
		t.un(x, "if with an init statement (other than the error idiom)")
	}
	pre, c, ty := t.expr(x.Cond)
	if ty != tBool {
		t.un(x.Cond, "condition of type "+string(ty))
	}
	var els []ast.Stmt
	var nodes []ast.Node
	nodes = append(nodes, x.Body)
	switch e := x.Else.(type) {
	case nil:
	case *ast.BlockStmt:
		els = e.List
		nodes = append(nodes, e)
	case *ast.IfStmt:
		els = []ast.Stmt{e}
		nodes = append(nodes, e)
	default:
		t.un(x, "else form")
	}
	asg := t.assigned(nodes...)
	thn := t.scoped(x.Body.List, asg)
	el := t.scoped(els, asg)
	return wrap(pre, fmt.Sprintf("sbind (if %s then\n%s\nelse\n%s) (%s\n%s)", c, thn, el, t.lam(asg), rest()))
}

func (t *tr) forStmt(x *ast.ForStmt, rest func() string) string {
	outer := t.save()
	after := func() string {
		if x.Cond == nil {
			t.un(x, "for without a condition (no bound)")
		}
		carried := t.assigned(x.Cond, x.Post, x.Body)
		// the bound: `v < e` (or <=) with post `v++`, e free of the carried locals
		c, ok := x.Cond.(*ast.BinaryExpr)
		var fuel string
		if ok && (c.Op == token.LSS || c.Op == token.LEQ) {
			if v, ok := c.X.(*ast.Ident); ok && t.env[v.Name] == tInt {
				if p, ok := x.Post.(*ast.IncDecStmt); ok && p.Tok == token.INC && isPkg(p.X, v.Name) {
					pre, e, ty := t.expr(c.Y)
					usesCarried := false
					ast.Inspect(c.Y, func(n ast.Node) bool {
						if id, ok := n.(*ast.Ident); ok {
							for _, cv := range carried {
								if cv == id.Name {
									usesCarried = true
								}
							}
						}
						return true
					})
					if len(pre) == 0 && ty == tInt && !usesCarried {
						if c.Op == token.LEQ {
							e = "(" + e + " + 1)"
						}
						fuel = fmt.Sprintf("fuel_upto %s %s", coqName(v.Name), atom(e))
					}
				}
			}
		}
		if fuel == "" {
			t.un(x, "for loop without a recognisable bound (`v < e; v++` with e not assigned in the loop)")
		}
		pre, ct, ty := t.expr(x.Cond)
		if ty != tBool {
			t.un(x.Cond, "loop condition of type "+string(ty))
		}
		cond := wrap(pre, "ret "+atom(ct))
		saveLoop, saveIn := t.loop, t.inLoop
		t.loop, t.inLoop = carried, true
		var postList []ast.Stmt
		if x.Post != nil {
			postList = []ast.Stmt{x.Post}
		}
		post := t.scoped(postList, carried)
		body := t.scoped(x.Body.List, carried)
		t.loop, t.inLoop = saveLoop, saveIn
		l := t.lam(carried)
		loop := fmt.Sprintf("sbind (for_loop (%s)\n(%s %s)\n(%s %s)\n(%s\n%s)\n%s) (%s\n", fuel, l, cond, l, post, l, body, tuple(carried), l)
		// locals declared by the init statement end with the loop
		for _, v := range t.order[len(outer.order):] {
			for _, cv := range carried {
				if cv == v {
					t.un(x, "loop-carried local declared in the for-init ("+v+")")
				}
			}
		}
		t.restore(outer)
		return loop + rest() + ")"
	}
	if x.Init != nil {
		return t.stmt(x.Init, false, after)
	}
	return after()
}

func (t *tr) rangeStmt(x *ast.RangeStmt, rest func() string) string {
	if out, ok := t.rangeExt3(x, rest); ok {
		return out
	}
	if x.Tok == token.DEFINE && x.Value == nil && x.Key != nil {
		return t.rangeIdx(x, rest)
	}
	if x.Tok != token.DEFINE || x.Value == nil {
		t.un(x, "range form other than `for _, v := range xs`")
	}
	if k, ok := x.Key.(*ast.Ident); !ok || k.Name != "_" {
		t.un(x, "range with an index variable")
	}
	v, ok := x.Value.(*ast.Ident)
	if !ok {
		t.un(x, "range value")
	}
	pre, xs, ty := t.expr(x.X)
	var el typ
	switch ty {
	case tRows:
		el = tRow
	case tCells:
		el = tCell
	case tBytes:
		el = tByte
	case tCellsOpt:
		el, xs = tCell, "(slice_of "+xs+")"
	default:
		t.un(x, "range over a "+string(ty)+" (only slices; a string ranges over runes)")
	}
	carried := t.assigned(x.Body)
	outer := t.save()
	t.declare(x, v.Name, el)
	saveLoop, saveIn := t.loop, t.inLoop
	t.loop, t.inLoop = carried, true
	body := t.scoped(x.Body.List, carried)
	t.loop, t.inLoop = saveLoop, saveIn
	t.restore(outer)
	l := t.lam(carried)
	return wrap(pre, fmt.Sprintf("sbind (range_loop %s\n(fun %s => %s\n%s)\n%s) (%s\n%s)", atom(xs), coqName(v.Name), l, body, tuple(carried), l, rest()))
}

// ---------------------------------------------------------------- per function

// does the body read the receiver as a table (anything but constant fields and
// calls of targets that do not read it)?
func usesReceiver(f *fnInfo, fns map[string]*fnInfo, consts map[string]string) bool {
	if f.recv == "" {
		return false
	}
	uses := false
	skip := map[*ast.Ident]bool{}
	ast.Inspect(f.decl.Body, func(n ast.Node) bool {
		switch x := n.(type) {
		case *ast.CallExpr:
			if s, ok := x.Fun.(*ast.SelectorExpr); ok && isPkg(s.X, f.recv) {
				if g, ok := fns[s.Sel.Name]; ok && g.done && !g.usesRecv {
					skip[s.X.(*ast.Ident)] = true
				}
			}
		case *ast.SelectorExpr:
			if isPkg(x.X, f.recv) {
				if _, ok := consts[x.Sel.Name]; ok {
					skip[x.X.(*ast.Ident)] = true
				}
			}
		case *ast.Ident:
			if x.Name == f.recv && !skip[x] {
				uses = true
			}
		}
		return true
	})
	return uses
}

// the receiver's struct type: every composite literal of it in the file must
// set a constant field to the same string literal, and nothing may assign it
func recvConsts(f *fnInfo) map[string]string {
	out := map[string]string{}
	if f.recv == "" {
		return out
	}
	var tname string
	switch r := f.decl.Recv.List[0].Type.(type) {
	case *ast.StarExpr:
		if id, ok := r.X.(*ast.Ident); ok {
			tname = id.Name
		}
	case *ast.Ident:
		tname = r.Name
	}
	bad := map[string]bool{}
	seen := map[string]int{}
	lits := 0
	ast.Inspect(f.file, func(n ast.Node) bool {
		switch x := n.(type) {
		case *ast.CompositeLit:
			if id, ok := x.Type.(*ast.Ident); ok && id.Name == tname {
				lits++
				for _, el := range x.Elts {
					kv, ok := el.(*ast.KeyValueExpr)
					if !ok {
						bad["*"] = true
						continue
					}
					k, ok := kv.Key.(*ast.Ident)
					if !ok {
						continue
					}
					seen[k.Name]++
					lit, ok := kv.Value.(*ast.BasicLit)
					if !ok || lit.Kind != token.STRING {
						bad[k.Name] = true
						continue
					}
					s, err := strconv.Unquote(lit.Value)
					if err != nil {
						bad[k.Name] = true
						continue
					}
					c := bytesLit(s)
					if prev, ok := out[k.Name]; ok && prev != c {
						bad[k.Name] = true
					}
					out[k.Name] = c
				}
			}
		case *ast.AssignStmt:
			for _, l := range x.Lhs {
				if s, ok := l.(*ast.SelectorExpr); ok {
					bad[s.Sel.Name] = true
				}
			}
		case *ast.IncDecStmt:
			if s, ok := x.X.(*ast.SelectorExpr); ok {
				bad[s.Sel.Name] = true
			}
		case *ast.UnaryExpr:
			if x.Op == token.AND {
				if s, ok := x.X.(*ast.SelectorExpr); ok {
					bad[s.Sel.Name] = true
				}
			}
		}
		return true
	})
	for k := range out {
		if bad[k] || bad["*"] || seen[k] != lits {
			delete(out, k)
		}
	}
	return out
}

func translate(f *fnInfo, fns map[string]*fnInfo, used map[string]bool, usedConsts map[string]string) string {
	t := &tr{fn: f, fns: fns, env: map[string]typ{}, imports: map[string]bool{}, used: used}
	for _, im := range f.file.Imports {
		p, _ := strconv.Unquote(im.Path.Value)
		name := filepath.Base(p)
		if im.Name != nil {
			name = im.Name.Name
		}
		t.imports[name] = true
	}
	d := f.decl
	if d.Type.TypeParams != nil {
		t.un(d, "type parameters")
	}
	t.consts = recvConsts(f)
	// result
	f.result = tUnit
	if d.Type.Results != nil {
		if d.Type.Results.NumFields() != 1 || len(d.Type.Results.List[0].Names) != 0 {
			t.un(d, "several or named results")
		}
		f.result = t.parseType(d.Type.Results.List[0].Type)
	}
	// parameters
	for _, fl := range d.Type.Params.List {
		ty := t.parseType(fl.Type)
		if len(fl.Names) == 0 {
			t.un(fl, "unnamed parameter")
		}
		for _, n := range fl.Names {
			if ty == tWriter {
				if f.writer != "" {
					t.un(fl, "two io.Writer parameters")
				}
				f.writer = n.Name
				continue
			}
			if ty == tError {
				ty = tErrVal // an error VALUE handed in (compared with nil, stored); see the end of this file
			}
			f.params = append(f.params, param{n.Name, ty})
		}
	}
	f.usesRecv = usesReceiver(f, fns, t.consts)
	t.setupExt3()
	t.setupExt()
	for _, p := range f.params {
		t.declare(d, p.name, p.ty)
	}
	if d.Body == nil {
		t.un(d, "function without body")
	}
	body := t.block(d.Body.List, func() string {
		if f.result != tUnit {
			t.un(d, "function body that does not end in return")
		}
		if f.mutRecv {
			return "ret (Ret " + coqName(f.recv) + ")"
		}
		return "ret (Norm tt)"
	})
	for k, v := range t.consts {
		if strings.Contains(body, v) {
			usedConsts[k] = v
		}
	}
	var sig strings.Builder
	fmt.Fprintf(&sig, "Definition src_%s%s", d.Name.Name, extSig(f))
	if f.usesRecv {
		fmt.Fprintf(&sig, " (%s : %s)", coqName(f.recv), recvCoqType3(f))
	}
	for _, p := range f.params {
		fmt.Fprintf(&sig, " (%s : %s)", coqName(p.name), coqType[p.ty])
	}
	rt := coqType[f.result]
	if f.result == tError {
		rt = "unit"
	}
	wrapper := "fn_body"
	if f.result == tUnit {
		wrapper = "fn_body_unit"
	}
	if f.mutRecv {
		rt, wrapper = mutResult(f, rt), "fn_body"
	}
	if f.writer == "" {
		fmt.Fprintf(&sig, " : fres %s :=\npure_fn (%s (\n%s)).\n", parenType(rt), wrapper, body)
	} else {
		fmt.Fprintf(&sig, " : M %s :=\n%s (\n%s).\n", parenType(rt), wrapper, body)
	}
	f.done = true
	return indent(sig.String())
}

func parenType(s string) string {
	if strings.Contains(s, " ") {
		return "(" + s + ")"
	}
	return s
}

// indentation by parenthesis depth (cosmetic; the text is otherwise final)
func indent(s string) string {
	var out strings.Builder
	depth := 0
	for _, ln := range strings.Split(s, "\n") {
		if ln == "" {
			continue
		}
		d := depth
		if d > 40 {
			d = 40
		}
		out.WriteString(strings.Repeat(" ", d))
		out.WriteString(ln)
		out.WriteString("\n")
		for _, c := range ln {
			switch c {
			case '(':
				depth++
			case ')':
				depth--
			}
		}
	}
	return out.String()
}

func main() {
	repo := flag.String("repo", "", "repository to read")
	out := flag.String("o", "", "output file (default: stdout)")
	flag.Parse()
	if *repo == "" || flag.NArg() == 0 {
		usage("usage: go2coq -repo <repository> [-o Out.v] file.go:Func ...")
	}
	fns := map[string]*fnInfo{}
	var order []*fnInfo
	files := map[string]*fnInfo{}
	var relFiles []string
	for _, a := range flag.Args() {
		i := strings.LastIndex(a, ":")
		if i < 0 {
			usage("target " + a + " is not file.go:Func")
		}
		rel, name := a[:i], a[i+1:]
		var fset *token.FileSet
		var file *ast.File
		if prev, ok := files[rel]; ok {
			fset, file = prev.fset, prev.file
		} else {
			fset = token.NewFileSet()
			var err error
			file, err = parser.ParseFile(fset, filepath.Join(*repo, rel), nil, parser.SkipObjectResolution)
			if err != nil {
				usage(err.Error())
			}
			relFiles = append(relFiles, rel)
		}
		var decl *ast.FuncDecl
		n := 0
		for _, d := range file.Decls {
			if fd, ok := d.(*ast.FuncDecl); ok && fd.Name.Name == name {
				// a method and a function may share a name (csv.RenderTo and
				// (*CSVTable).RenderTo): the one with a body that is not a
				// one-line forwarder is ambiguous, so prefer the method
				n++
				if decl == nil || (fd.Recv != nil && decl.Recv == nil) {
					decl = fd
				}
			}
		}
		if decl == nil {
			usage("no function " + name + " in " + rel)
		}
		f := &fnInfo{rel: rel, fset: fset, file: file, decl: decl}
		if n > 1 && decl.Recv == nil {
			unsupported(f, decl, "several functions named "+name)
		}
		if decl.Recv != nil {
			if len(decl.Recv.List) != 1 || len(decl.Recv.List[0].Names) != 1 {
				unsupported(f, decl, "receiver form")
			}
			f.recv = decl.Recv.List[0].Names[0].Name
		}
		if _, dup := fns[name]; dup {
			usage("target " + name + " listed twice")
		}
		files[rel] = f
		fns[name] = f
		order = append(order, f)
	}
	used := map[string]bool{}
	usedConsts := map[string]string{}
	var defs []string
	for _, f := range order {
		defs = append(defs, translate(f, fns, used, usedConsts))
	}
	var b strings.Builder
	var names []string
	for _, f := range order {
		n := f.decl.Name.Name
		if f.recv != "" {
			n = "method " + n + " of " + exprString(f.decl.Recv.List[0].Type) // never "(*": that opens a Coq comment
		}
		names = append(names, f.rel+": "+n)
	}
	fmt.Fprintf(&b, "(* GENERATED by tools/go2coq - do not edit.  Regenerated from the repository under\n   test on every run of check.py and compared with this committed copy.\n\n   Source functions:\n")
	for _, n := range names {
		fmt.Fprintf(&b, "     %s\n", n)
	}
	fmt.Fprintf(&b, "\n   A shallow translation into the combinators of Base/GoSem.v: same loops, same\n   order of writes, same index expressions; int = Z, string / []byte = bytes.\n   A destination write is one entry (payload, checked) of the write list.\n")
	var accs []string
	for k := range used {
		accs = append(accs, k)
	}
	sort.Strings(accs)
	if len(accs) > 0 || len(usedConsts) > 0 {
		fmt.Fprintf(&b, "\n   ASSUMED interface (what the functions read of their table; Base/GoSem.v):\n")
		for _, k := range accs {
			fmt.Fprintf(&b, "     %s\n", accessors[k].doc)
		}
		var cs []string
		for k := range usedConsts {
			cs = append(cs, k)
		}
		sort.Strings(cs)
		for _, k := range cs {
			fmt.Fprintf(&b, "     .%s = %s   (a constant: the string literal every composite literal of the\n       receiver's type sets, never assigned; read from the source)\n", k, usedConsts[k])
		}
	}
	fmt.Fprintf(&b, "%s*)\nFrom Tab Require Import Base.GoSem%s.\nLocal Open Scope Z_scope.\n", libHeader()+extHeader()+extHeader3(), libImport()+extImport3())
	for _, d := range defs {
		b.WriteString("\n")
		b.WriteString(d)
	}
	if *out == "" {
		fmt.Print(b.String())
		return
	}
	if err := os.WriteFile(*out, []byte(b.String()), 0o644); err != nil {
		usage(err.Error())
	}
}

// ---------------------------------------------------------------- pure standard-library calls
// Each has a definition in coq/Base/GoLib.v (the ASSUMED meaning of the library
// function, stated there once); a generated file that uses one imports GoLib and
// lists it in its header.

var usedLibs = map[string]string{}

func libHeader() string {
	if len(usedLibs) == 0 {
		return ""
	}
	var ks []string
	for k := range usedLibs {
		ks = append(ks, k)
	}
	sort.Strings(ks)
	s := "\n   ASSUMED standard-library functions (definitions: Base/GoLib.v):\n"
	for _, k := range ks {
		s += "     " + k + " = " + usedLibs[k] + "\n"
	}
	return s
}

func libImport() string {
	if len(usedLibs) == 0 {
		return ""
	}
	return " Base.GoLib"
}

func (t *tr) libCall(x *ast.CallExpr, name string) ([]bind, string, typ, bool) {
	str := func(e ast.Expr) ([]bind, string) {
		p, a, ty := t.expr(e)
		if ty != tString {
			t.un(e, name+" operand of type "+string(ty))
		}
		return p, a
	}
	switch name {
	case "html.EscapeString":
		if len(x.Args) != 1 {
			t.un(x, name+" argument count")
		}
		p, a := str(x.Args[0])
		usedLibs[name+"(s)"] = "lib_html_EscapeString s   (the five characters & ' < > and the double quote, to &amp; &#39; &lt; &gt; &#34;)"
		return p, "(lib_html_EscapeString " + atom(a) + ")", tString, true
	case "strings.Replace":
		if len(x.Args) != 4 {
			t.un(x, name+" argument count")
		}
		// only: a one-byte literal pattern, every occurrence (n = -1)
		lit, ok := x.Args[1].(*ast.BasicLit)
		if !ok || lit.Kind != token.STRING {
			t.un(x, "strings.Replace whose pattern is not a string literal")
		}
		old, err := strconv.Unquote(lit.Value)
		if err != nil || len(old) != 1 {
			t.un(x, "strings.Replace whose pattern is not a one-byte literal")
		}
		u, ok := x.Args[3].(*ast.UnaryExpr)
		if !ok || u.Op != token.SUB {
			t.un(x, "strings.Replace with a count other than -1")
		}
		if n, ok := u.X.(*ast.BasicLit); !ok || n.Kind != token.INT || n.Value != "1" {
			t.un(x, "strings.Replace with a count other than -1")
		}
		p1, s := str(x.Args[0])
		p2, nw := str(x.Args[2])
		usedLibs[name+"(s, b, new, -1), b a one-byte literal"] = "lib_strings_Replace1 b new s   (every occurrence of the byte b)"
		return append(p1, p2...), fmt.Sprintf("(lib_strings_Replace1 %d%%N %s %s)", old[0], atom(nw), atom(s)), tString, true
	}
	return nil, "", "", false
}

// ================================================================ extensions
// (length/length.go, error_containers.go; notes/SOURCE_TIE_2.md)
//
//   - []string = list bytes; s == "" on strings; ss[i], ss[:n], len(ss);
//   - `switch e { case 0: ... case 1: ... default: ... }` on an int, constants
//     only, no fallthrough, no break: an if-chain on the tag evaluated once;
//   - `for i := range xs`: one trip per index of xs as it is when the loop is
//     entered (range_loop over range_idx xs);
//   - calls of EXTERNAL functions, by import path:
//     strings.Split(s, "<one byte>")    = strings_Split1 s <byte>   (defined in the prelude)
//     utf8.RuneCountInString(s)         = utf8_RuneCountInString s  (defined in the prelude)
//     runewidth.StringWidth(s)          = a PARAMETER runewidth_StringWidth : bytes -> Z of
//     every definition that reaches it (nothing is assumed about it here);
//   - an `error` parameter / element is a VALUE goerror (nil or an opaque non-nil
//     error): compared with nil, stored, never looked into;  []error = a nil-able
//     slice option (list goerror), make([]error, 0, n) = the empty non-nil slice
//     (capacity is not observable by the translated functions and is dropped),
//     append(s, e);  a slice is a VALUE: indexed stores into such slices are not
//     translated, so sharing of backing arrays cannot be observed by the subset;
//   - a method on a pointer to a struct declared in the same file with exactly ONE
//     field: the receiver is STATE, option <field type> (None = the nil pointer);
//     p.f reads (deref p: a nil p panics), p.f = e writes; a method that assigns
//     the receiver returns the new state (with its result, if it has one).

const (
	tStrings typ = "[]string"
	tErrVal  typ = "error value"
	tErrs    typ = "[]error"
	tPtrS    typ = "*struct{f []error}"
)

var extType = map[string]string{"runewidth_StringWidth": "bytes -> Z"}
var usedExternals = map[string]string{}
var usedStructs = map[string]string{}

func init() {
	coqType[tStrings] = "list bytes"
	coqType[tErrVal] = "goerror"
	coqType[tErrs] = "option (list goerror)"
	coqType[tPtrS] = "option (option (list goerror))"
	for _, w := range strings.Fields(`runewidth_StringWidth strings_Split1 utf8_RuneCountInString goerror deref append1
		range_idx Some None option list Z N nat bool unit`) {
		reserved[w] = true
	}
}

// the struct type a *T names, if it is declared in this file with exactly one
// field, of type []error
func (t *tr) oneFieldStruct(name string) (string, bool) {
	for _, d := range t.fn.file.Decls {
		gd, ok := d.(*ast.GenDecl)
		if !ok || gd.Tok != token.TYPE {
			continue
		}
		for _, sp := range gd.Specs {
			ts := sp.(*ast.TypeSpec)
			st, ok := ts.Type.(*ast.StructType)
			if !ok || ts.Name.Name != name || ts.TypeParams != nil {
				continue
			}
			if st.Fields.NumFields() != 1 || len(st.Fields.List[0].Names) != 1 {
				return "", false
			}
			at, ok := st.Fields.List[0].Type.(*ast.ArrayType)
			if !ok || at.Len != nil || !isPkg(at.Elt, "error") {
				return "", false
			}
			return st.Fields.List[0].Names[0].Name, true
		}
	}
	return "", false
}

func (t *tr) parseTypeExt(e ast.Expr) (typ, bool) {
	switch x := e.(type) {
	case *ast.ArrayType:
		if x.Len == nil && isPkg(x.Elt, "string") {
			return tStrings, true
		}
		if x.Len == nil && isPkg(x.Elt, "error") {
			return tErrs, true
		}
	case *ast.StarExpr:
		if id, ok := x.X.(*ast.Ident); ok {
			if f, ok := t.oneFieldStruct(id.Name); ok {
				usedStructs[id.Name] = f
				return tPtrS, true
			}
		}
	}
	return "", false
}

// the import path a package identifier stands for ("" = not a package here)
func (t *tr) importPath(e ast.Expr) string {
	id, ok := e.(*ast.Ident)
	if !ok {
		return ""
	}
	if _, local := t.env[id.Name]; local {
		return ""
	}
	defaults := map[string]string{"github.com/mattn/go-runewidth": "runewidth"}
	for _, im := range t.fn.file.Imports {
		p, _ := strconv.Unquote(im.Path.Value)
		name := filepath.Base(p)
		if d, ok := defaults[p]; ok {
			name = d
		}
		if im.Name != nil {
			name = im.Name.Name
		}
		if name == id.Name {
			return p
		}
	}
	return ""
}

func (t *tr) needExt(name string) {
	for _, e := range t.fn.exts {
		if e == name {
			return
		}
	}
	t.fn.exts = append(t.fn.exts, name)
}

// the external parameters a callee is applied to (the caller takes them too)
func (t *tr) extArgs(callee *fnInfo) string {
	s := ""
	for _, e := range callee.exts {
		t.needExt(e)
		s += " " + e
	}
	return s
}

func extSig(f *fnInfo) string {
	s := ""
	for _, e := range f.exts {
		s += fmt.Sprintf(" (%s : %s)", e, extType[e])
	}
	if f.ptrRecv {
		s += fmt.Sprintf(" (%s : %s)", coqName(f.recv), coqType[tPtrS])
	}
	return s
}

func mutResult(f *fnInfo, rt string) string {
	if f.result == tUnit {
		return coqType[tPtrS]
	}
	return coqType[tPtrS] + " * " + rt
}

// the local (or receiver) a selector p.f reads, if p is a pointer to a one-field struct
func (t *tr) fieldOf(e ast.Expr) (string, bool) {
	s, ok := e.(*ast.SelectorExpr)
	if !ok {
		return "", false
	}
	id, ok := s.X.(*ast.Ident)
	if !ok || t.env[id.Name] != tPtrS {
		return "", false
	}
	if id.Name != t.fn.recv || !t.fn.ptrRecv {
		t.un(e, "field of a struct pointer other than the receiver")
	}
	rt := t.fn.decl.Recv.List[0].Type.(*ast.StarExpr).X.(*ast.Ident).Name
	if f, _ := t.oneFieldStruct(rt); f != s.Sel.Name {
		t.un(e, "field "+s.Sel.Name+" (not the field of "+rt+")")
	}
	return id.Name, true
}

func (t *tr) setupExt() {
	f := t.fn
	if f.recv == "" {
		return
	}
	st, ok := f.decl.Recv.List[0].Type.(*ast.StarExpr)
	if !ok {
		return
	}
	id, ok := st.X.(*ast.Ident)
	if !ok {
		return
	}
	field, ok := t.oneFieldStruct(id.Name)
	if !ok {
		return
	}
	usedStructs[id.Name] = field
	f.ptrRecv, f.usesRecv = true, false
	t.env[f.recv] = tPtrS
	t.order = append(t.order, f.recv)
	// does the body assign the receiver (its field, or through a method that does)?
	ast.Inspect(f.decl.Body, func(n ast.Node) bool {
		set := map[string]bool{}
		t.assignedExt(n, set)
		if set[f.recv] {
			f.mutRecv = true
		}
		if as, ok := n.(*ast.AssignStmt); ok {
			for _, l := range as.Lhs {
				if isPkg(l, f.recv) {
					t.un(n, "assignment to the receiver variable itself")
				}
			}
		}
		if u, ok := n.(*ast.UnaryExpr); ok && u.Op == token.AND {
			t.un(n, "address-of inside a method on a struct pointer")
		}
		return true
	})
}

// assignments the generic scan does not see: p.f = e, and p.M(...) for a
// translated method M that assigns its receiver
func (t *tr) assignedExt(n ast.Node, set map[string]bool) {
	switch s := n.(type) {
	case *ast.AssignStmt:
		for _, l := range s.Lhs {
			if sel, ok := l.(*ast.SelectorExpr); ok {
				if id, ok := sel.X.(*ast.Ident); ok {
					set[id.Name] = true
				}
			}
		}
	case *ast.IncDecStmt:
		if sel, ok := s.X.(*ast.SelectorExpr); ok {
			if id, ok := sel.X.(*ast.Ident); ok {
				set[id.Name] = true
			}
		}
	case *ast.CallExpr:
		if sel, ok := s.Fun.(*ast.SelectorExpr); ok {
			if id, ok := sel.X.(*ast.Ident); ok && t.fn.recv != "" && id.Name == t.fn.recv {
				if g, ok := t.fns[sel.Sel.Name]; ok && g.ptrRecv && g.mutRecv {
					set[id.Name] = true
				}
			}
		}
	}
}

func (t *tr) exprExt(e ast.Expr) ([]bind, string, typ, bool) {
	switch x := e.(type) {
	case *ast.IndexExpr:
		id, ok := x.X.(*ast.Ident)
		if !ok {
			return nil, "", "", false
		}
		var el typ
		a := coqName(id.Name)
		switch t.env[id.Name] {
		case tStrings:
			el = tString
		case tErrs:
			el, a = tErrVal, "(slice_of "+a+")"
		default:
			return nil, "", "", false
		}
		pre, i, ti := t.expr(x.Index)
		if ti != tInt {
			t.un(e, "index of type "+string(ti))
		}
		n := t.fresh()
		return append(pre, bind{n, fmt.Sprintf("index %s %s", a, atom(i))}), n, el, true
	case *ast.SliceExpr:
		id, ok := x.X.(*ast.Ident)
		if !ok || t.env[id.Name] != tStrings {
			return nil, "", "", false
		}
		if x.Low != nil || x.High == nil || x.Max != nil || x.Slice3 {
			t.un(e, "slice expression other than b[:n]")
		}
		pre, h, th := t.expr(x.High)
		if th != tInt {
			t.un(e, "slice bound of type "+string(th))
		}
		n := t.fresh()
		return append(pre, bind{n, fmt.Sprintf("slice_to %s %s", coqName(id.Name), atom(h))}), n, tStrings, true
	case *ast.SelectorExpr:
		if p, ok := t.fieldOf(e); ok {
			n := t.fresh()
			return []bind{{n, "deref " + coqName(p)}}, n, tErrs, true
		}
	case *ast.UnaryExpr:
		// &T{f: e} for a one-field struct T
		cl, ok := x.X.(*ast.CompositeLit)
		if x.Op != token.AND || !ok {
			return nil, "", "", false
		}
		id, ok := cl.Type.(*ast.Ident)
		if !ok {
			t.un(e, "composite literal")
		}
		field, ok := t.oneFieldStruct(id.Name)
		if !ok {
			t.un(e, "composite literal of "+id.Name+" (not a struct of this file with exactly one []error field)")
		}
		usedStructs[id.Name] = field
		switch len(cl.Elts) {
		case 0:
			return nil, "(Some None)", tPtrS, true
		case 1:
			kv, ok := cl.Elts[0].(*ast.KeyValueExpr)
			if !ok || !isPkg(kv.Key, field) {
				t.un(e, "composite literal element")
			}
			pre, v, ty := t.expr(kv.Value)
			if ty == tNil {
				v, ty = "None", tErrs
			}
			if ty != tErrs {
				t.un(e, "field value of type "+string(ty))
			}
			return pre, "(Some " + atom(v) + ")", tPtrS, true
		}
		t.un(e, "composite literal with several elements")
	}
	return nil, "", "", false
}

func (t *tr) binaryExt(x *ast.BinaryExpr, a string, ta typ, b string, tb typ) (string, typ, bool) {
	op := x.Op
	if op != token.EQL && op != token.NEQ {
		return "", "", false
	}
	if ta == tString && tb == tString {
		if op == token.EQL {
			return "(bytes_eqb " + atom(a) + " " + atom(b) + ")", tBool, true
		}
		return "(negb (bytes_eqb " + atom(a) + " " + atom(b) + "))", tBool, true
	}
	if ta == tNil || tb == tNil {
		v, tv := a, ta
		if ta == tNil {
			v, tv = b, tb
		}
		switch tv {
		case tErrVal, tErrs, tPtrS:
			if op == token.NEQ {
				return "(not_nil " + atom(v) + ")", tBool, true
			}
			return "(negb (not_nil " + atom(v) + "))", tBool, true
		}
	}
	return "", "", false
}

func (t *tr) callExt(x *ast.CallExpr) ([]bind, string, typ, bool) {
	switch f := x.Fun.(type) {
	case *ast.Ident:
		if _, shadow := t.env[f.Name]; shadow {
			return nil, "", "", false
		}
		switch f.Name {
		case "len":
			if len(x.Args) != 1 {
				return nil, "", "", false
			}
			mine := false
			if id, ok := x.Args[0].(*ast.Ident); ok {
				ty := t.env[id.Name]
				mine = ty == tStrings || ty == tErrs
			} else if _, ok := x.Args[0].(*ast.SelectorExpr); ok {
				mine = true
			}
			if !mine {
				return nil, "", "", false
			}
			pre, a, ta := t.expr(x.Args[0])
			switch ta {
			case tStrings:
				return pre, "(Zlen " + a + ")", tInt, true
			case tErrs:
				return pre, "(Zlen (slice_of " + a + "))", tInt, true
			}
			t.un(x, "len of a "+string(ta))
		case "append":
			if len(x.Args) != 2 {
				t.un(x, "append with other than two operands")
			}
			p1, a, ta := t.expr(x.Args[0])
			p2, b, tb := t.expr(x.Args[1])
			if ta != tErrs || tb != tErrVal {
				t.un(x, "append("+string(ta)+", "+string(tb)+")")
			}
			return append(p1, p2...), "(append1 " + atom(a) + " " + atom(b) + ")", tErrs, true
		case "make":
			if len(x.Args) < 1 {
				return nil, "", "", false
			}
			if ty, ok := t.parseTypeExt(x.Args[0]); !ok || ty != tErrs {
				return nil, "", "", false
			}
			// make([]error, 0) / make([]error, 0, cap): the empty non-nil slice
			if len(x.Args) < 2 || len(x.Args) > 3 {
				t.un(x, "make([]error ...) argument count")
			}
			for i, a := range x.Args[1:] {
				lit, ok := a.(*ast.BasicLit)
				if !ok || lit.Kind != token.INT || (i == 0 && lit.Value != "0") {
					t.un(x, "make([]error, n, c) other than length literal 0 and a literal capacity")
				}
				if v, err := strconv.ParseInt(lit.Value, 0, 64); err != nil || v < 0 {
					t.un(x, "make([]error ...) size")
				}
			}
			return nil, "(Some (@nil goerror))", tErrs, true
		}
	case *ast.SelectorExpr:
		path := t.importPath(f.X)
		if path == "" {
			return nil, "", "", false
		}
		name := path + "." + f.Sel.Name
		switch name {
		case "strings.Split":
			if len(x.Args) != 2 {
				t.un(x, "strings.Split argument count")
			}
			lit, ok := x.Args[1].(*ast.BasicLit)
			if !ok || lit.Kind != token.STRING {
				t.un(x, "strings.Split with a separator that is not a string literal")
			}
			sep, err := strconv.Unquote(lit.Value)
			if err != nil || len(sep) != 1 {
				t.un(x, "strings.Split with a separator that is not one byte")
			}
			pre, a, ta := t.expr(x.Args[0])
			if ta != tString {
				t.un(x, "strings.Split of a "+string(ta))
			}
			usedExternals[name] = fmt.Sprintf("strings.Split(s, <one byte b>)   = strings_Split1 s b   (Base/GoSem.v: the maximal b-free pieces of s, in order; never empty)")
			return pre, fmt.Sprintf("(strings_Split1 %s %d%%N)", atom(a), sep[0]), tStrings, true
		case "unicode/utf8.RuneCountInString":
			if len(x.Args) != 1 {
				t.un(x, "utf8.RuneCountInString argument count")
			}
			pre, a, ta := t.expr(x.Args[0])
			if ta != tString {
				t.un(x, "utf8.RuneCountInString of a "+string(ta))
			}
			usedExternals[name] = "utf8.RuneCountInString(s)       = utf8_RuneCountInString s = Z.of_nat (rune_count s)   (Base/Utf8.v: Go's decoder, an invalid byte is one rune)"
			return pre, "(utf8_RuneCountInString " + atom(a) + ")", tInt, true
		case "github.com/mattn/go-runewidth.StringWidth":
			if len(x.Args) != 1 {
				t.un(x, "runewidth.StringWidth argument count")
			}
			pre, a, ta := t.expr(x.Args[0])
			if ta != tString {
				t.un(x, "runewidth.StringWidth of a "+string(ta))
			}
			t.needExt("runewidth_StringWidth")
			usedExternals[name] = "runewidth.StringWidth(s)        = runewidth_StringWidth s, a PARAMETER (bytes -> Z) of every definition that reaches it: a pure function of the string, nothing else is assumed"
			return pre, "(runewidth_StringWidth " + atom(a) + ")", tInt, true
		}
	}
	return nil, "", "", false
}

func (t *tr) stmtExt(s ast.Stmt, last bool, rest func() string) (string, bool) {
	switch x := s.(type) {
	case *ast.SwitchStmt:
		return t.switchStmt(x, rest), true
	case *ast.ReturnStmt:
		f := t.fn
		if f.mutRecv {
			if !last {
				t.un(s, "statements after return")
			}
			r := coqName(f.recv)
			if f.result == tUnit {
				if len(x.Results) != 0 {
					t.un(s, "return with a value")
				}
				return "ret (Ret " + r + ")", true
			}
			if len(x.Results) != 1 {
				t.un(s, "return arity")
			}
			pre, v, ty := t.expr(x.Results[0])
			if ty == tNil && (f.result == tErrs || f.result == tErrVal || f.result == tPtrS) {
				v, ty = "None", f.result
			}
			if ty != f.result {
				t.un(s, "return of a "+string(ty)+" from a function returning "+string(f.result))
			}
			return wrap(pre, "ret (Ret ("+r+", "+v+"))"), true
		}
		if len(x.Results) == 1 && isPkg(x.Results[0], "nil") && (f.result == tErrs || f.result == tErrVal || f.result == tPtrS) {
			if _, local := t.env["nil"]; !local {
				if !last {
					t.un(s, "statements after return")
				}
				return "ret (Ret None)", true
			}
		}
	case *ast.AssignStmt:
		if len(x.Lhs) != 1 || len(x.Rhs) != 1 {
			return "", false
		}
		if _, ok := x.Lhs[0].(*ast.SelectorExpr); !ok {
			return "", false
		}
		p, ok := t.fieldOf(x.Lhs[0])
		if !ok {
			return "", false
		}
		if x.Tok != token.ASSIGN {
			t.un(s, "assignment operator "+x.Tok.String()+" on a field")
		}
		pre, v, ty := t.expr(x.Rhs[0])
		if ty == tNil {
			v, ty = "None", tErrs
		}
		if ty != tErrs {
			t.un(s, "assignment of a "+string(ty)+" to a []error field")
		}
		n := coqName(p)
		return wrap(pre, fmt.Sprintf("mbind (deref %s) (fun _ =>\nlet %s := (Some %s) in\n%s)", n, n, atom(v), rest())), true
	case *ast.ExprStmt:
		c, ok := x.X.(*ast.CallExpr)
		if !ok {
			return "", false
		}
		sel, ok := c.Fun.(*ast.SelectorExpr)
		if !ok || !t.fn.ptrRecv || !isPkg(sel.X, t.fn.recv) {
			return "", false
		}
		g, ok := t.fns[sel.Sel.Name]
		if !ok || !g.ptrRecv || !g.done {
			t.un(s, "call of the receiver's method "+sel.Sel.Name+" (not a translated target listed before this function)")
		}
		if g.result != tUnit {
			t.un(s, "call of "+sel.Sel.Name+" whose result is dropped")
		}
		if c.Ellipsis != token.NoPos || len(c.Args) != len(g.params) {
			t.un(s, "argument list of "+sel.Sel.Name)
		}
		// p.M(args): a nil p is passed on as it is (M decides); the arguments are
		// evaluated first, left to right
		var pre []bind
		app := "src_" + sel.Sel.Name + t.extArgs(g) + " " + coqName(t.fn.recv)
		for i, a := range c.Args {
			p, v, ty := t.expr(a)
			if ty == tNil && g.params[i].ty != tInt && g.params[i].ty != tBool {
				v, ty = "None", g.params[i].ty
			}
			pre = append(pre, p...)
			app += " " + atom(t.coerce(a, v, ty, g.params[i].ty))
		}
		n := coqName(t.fn.recv)
		if g.mutRecv {
			return wrap(pre, fmt.Sprintf("mbind (lift_pure (%s)) (fun %s =>\n%s)", app, n, rest())), true
		}
		return wrap(pre, fmt.Sprintf("mbind (lift_pure (%s)) (fun _ =>\n%s)", app, rest())), true
	}
	return "", false
}

func (t *tr) switchStmt(x *ast.SwitchStmt, rest func() string) string {
	if x.Init != nil || x.Tag == nil {
		t.un(x, "switch with an init statement or without a tag")
	}
	pre, tag, ty := t.expr(x.Tag)
	if ty != tInt {
		t.un(x, "switch on a "+string(ty))
	}
	asg := t.assigned(x.Body)
	tv := t.fresh()
	type arm struct {
		cond string
		body []ast.Stmt
	}
	var arms []arm
	var def []ast.Stmt
	hasDef := false
	seen := map[int64]bool{}
	for _, st := range x.Body.List {
		cc := st.(*ast.CaseClause)
		if cc.List == nil {
			if hasDef {
				t.un(cc, "two default clauses")
			}
			hasDef, def = true, cc.Body
			continue
		}
		var cs []string
		for _, e := range cc.List {
			lit, ok := e.(*ast.BasicLit)
			if !ok || lit.Kind != token.INT {
				t.un(e, "case that is not an integer literal")
			}
			v, err := strconv.ParseInt(lit.Value, 0, 64)
			if err != nil || seen[v] {
				t.un(e, "case "+lit.Value)
			}
			seen[v] = true
			cs = append(cs, fmt.Sprintf("(%s =? %d)", tv, v))
		}
		c := cs[0]
		if len(cs) > 1 {
			c = "(" + strings.Join(cs, " || ") + ")"
		}
		arms = append(arms, arm{c, cc.Body})
	}
	// break would leave the switch, continue the enclosing loop: neither is translated here
	saveIn := t.inLoop
	t.inLoop = false
	chain := t.scoped(def, asg)
	for i := len(arms) - 1; i >= 0; i-- {
		chain = fmt.Sprintf("if %s then\n%s\nelse\n%s", arms[i].cond, t.scoped(arms[i].body, asg), chain)
	}
	t.inLoop = saveIn
	return wrap(pre, fmt.Sprintf("let %s := %s in\nsbind (%s) (%s\n%s)", tv, tag, chain, t.lam(asg), rest()))
}

// for i := range xs
func (t *tr) rangeIdx(x *ast.RangeStmt, rest func() string) string {
	k, ok := x.Key.(*ast.Ident)
	if !ok || k.Name == "_" {
		t.un(x, "range key")
	}
	pre, xs, ty := t.expr(x.X)
	switch ty {
	case tStrings, tBytes, tCells, tRows:
	case tErrs, tCellsOpt:
		xs = "(slice_of " + xs + ")"
	default:
		t.un(x, "range over a "+string(ty)+" (only slices; a string ranges over runes)")
	}
	carried := t.assigned(x.Body)
	outer := t.save()
	t.declare(x, k.Name, tInt)
	for _, v := range t.assigned(x.Body) {
		if v == k.Name {
			t.un(x, "assignment to the range index "+v+" inside the loop")
		}
	}
	saveLoop, saveIn := t.loop, t.inLoop
	t.loop, t.inLoop = carried, true
	body := t.scoped(x.Body.List, carried)
	t.loop, t.inLoop = saveLoop, saveIn
	t.restore(outer)
	l := t.lam(carried)
	return wrap(pre, fmt.Sprintf("sbind (range_loop (range_idx %s)\n(fun %s => %s\n%s)\n%s) (%s\n%s)", atom(xs), coqName(k.Name), l, body, tuple(carried), l, rest()))
}

// the header lines for the externals and the struct types used ("" if none)
func extHeader() string {
	var b strings.Builder
	var ks []string
	for k := range usedExternals {
		ks = append(ks, k)
	}
	sort.Strings(ks)
	if len(ks) > 0 {
		b.WriteString("\n   EXTERNAL functions (called, not translated):\n")
		for _, k := range ks {
			fmt.Fprintf(&b, "     %s\n", usedExternals[k])
		}
	}
	ks = nil
	for k := range usedStructs {
		ks = append(ks, k)
	}
	sort.Strings(ks)
	for _, k := range ks {
		fmt.Fprintf(&b, "\n   struct %s { %s []error }, used through a pointer: STATE PASSING.  A pointer to it is\n"+
			"     option (option (list goerror)): None = the nil pointer, Some f = a struct whose field %s is f;\n"+
			"     a []error is option (list goerror) (None = the nil slice); goerror = nil or an opaque non-nil error.\n"+
			"     A method that assigns the receiver returns the new state.  The CAPACITY of a slice is dropped\n"+
			"     (make([]error, 0, n) = the empty non-nil slice): none of the translated functions can observe it.\n"+
			"     Slices are values: no translated function stores through an index of such a slice.\n", k, usedStructs[k], usedStructs[k])
	}
	return b.String()
}
