// extensions for texttable/decoration/emit.go and strings.go (notes/SOURCE_TIE_3.md).
// Everything here is reached through the one-line hooks *Ext3 in main.go; each
// hook either handles a construct completely or declines WITHOUT side effects
// (no temporaries are consumed), so the output for the older targets is unchanged.
//
//   - []int, []WidthString, []align.Alignment parameters / fields: len, x[i]
//     (checked), `for i := range xs`;
//   - the receiver `e emitter` (a VALUE receiver): e.colWidths, e.eol,
//     e.decor.<glyph>, e.decor.isBoxless are projections of the record `emitter` of
//     coq/Base/GoText.v, whose decor is Model/Decoration.v's `decoration` (e.decor is
//     assumed non-nil); the receiver `ws WidthString` = Model/Text.v's wstr;
//   - DividerSet{Left: a, Inner: b, Right: c} and ds.Left / ds.Inner / ds.Right
//     (the triple the hand model uses);
//   - a []string local made by make([]string, 0, n) and grown by
//     fields = append(fields, x): a list; the CAPACITY is dropped, which is sound
//     because (1) such a local is never copied to another variable (refused), (2) it
//     is only re-sliced as fields[:len(fields)-k] (anything that could reach into
//     the spare capacity is refused), so no translated function can observe it;
//     make panics on a negative capacity;  fields[i] = x is a checked store;
//   - strings.Repeat(s, n) (panics on n < 0), strings.Join(xs, sep): Base/GoLib.v;
//   - align.Alignment values: nil, align.Left / Right / Center, or any other;
//     x == nil, `switch x { case align.Left: ... default: ... }` (an if-chain, the
//     tag evaluated once), x = align.Left;
//   - a / <positive integer literal> (Go truncates towards zero: Z.quot);
//   - panic(<literal>) as the last statement of a block.
package main

import (
	"flag"
	"fmt"
	"go/ast"
	"go/parser"
	"go/token"
	"os"
	"path/filepath"
	"sort"
	"strconv"
	"strings"
)

const (
	tInts    typ = "[]int"
	tEmitter typ = "emitter"
	tDecor   typ = "*Decoration"
	tDivSet  typ = "DividerSet"
	tWStr    typ = "WidthString"
	tWStrs   typ = "[]WidthString"
	tAlign   typ = "align.Alignment"
	tAligns  typ = "[]align.Alignment"
)

var decorGlyphs = map[string]bool{}

var recvTyOf = map[*fnInfo]typ{}
var used3 = map[string]string{}     // header lines, keyed for sorting
var capLocals = map[string]bool{}    // "<func>.<local>": made with spare capacity
var allowedAppend *ast.CallExpr      // the append call of `x = append(x, v)` being translated
var structCache = map[string]map[string]string{}

func init() {
	coqType[tInts] = "list Z"
	coqType[tEmitter] = "emitter"
	coqType[tDivSet] = "divset"
	coqType[tWStr] = "wstr"
	coqType[tWStrs] = "list wstr"
	coqType[tAlign] = "alignment"
	coqType[tAligns] = "list alignment"
	for _, w := range strings.Fields(`Horizontal Vertical CrossPiece TopDown VBorder HOuter HRule VHeader VBodyBorder
		VBodyInner TopLeft TopRight BottomLeft BottomRight LeftBodyRule RightBodyRule HTopDown BTopDown BBottomUp
		HBCross HBLeft HBRight`) {
		decorGlyphs[w] = true
	}
	for _, w := range strings.Fields(`emitter decoration divset wstr alignment align al_is al_is_nil AlNil AlKnown AlUnknown
		ALeft ARight ACenter ds_Left ds_Inner ds_Right mk_DividerSet ws_s ws_w e_colWidths e_decor e_eol make_strings_cap
		lib_strings_Repeat lib_strings_Join nilb concat repeat`) {
		reserved[w] = true
	}
}

// the fields (name -> type, as text) of a struct type declared in the package
// directory of the function being translated ("" map = no such struct)
func (t *tr) pkgStruct(name string) map[string]string {
	dir := filepath.Join(flag.Lookup("repo").Value.String(), filepath.Dir(t.fn.rel))
	key := dir + ":" + name
	if m, ok := structCache[key]; ok {
		return m
	}
	var out map[string]string
	ents, _ := os.ReadDir(dir)
	var names []string
	for _, e := range ents {
		if !e.IsDir() && strings.HasSuffix(e.Name(), ".go") && !strings.HasSuffix(e.Name(), "_test.go") {
			names = append(names, e.Name())
		}
	}
	sort.Strings(names)
	for _, n := range names {
		f, err := parser.ParseFile(token.NewFileSet(), filepath.Join(dir, n), nil, parser.SkipObjectResolution)
		if err != nil {
			continue
		}
		for _, d := range f.Decls {
			gd, ok := d.(*ast.GenDecl)
			if !ok || gd.Tok != token.TYPE {
				continue
			}
			for _, sp := range gd.Specs {
				ts := sp.(*ast.TypeSpec)
				st, ok := ts.Type.(*ast.StructType)
				if !ok || ts.Name.Name != name || ts.TypeParams != nil || out != nil {
					continue
				}
				out = map[string]string{}
				for _, fl := range st.Fields.List {
					if len(fl.Names) == 0 {
						out["(embedded)"] = exprString(fl.Type)
					}
					for _, fn := range fl.Names {
						out[fn.Name] = exprString(fl.Type)
					}
				}
			}
		}
	}
	structCache[key] = out
	return out
}

func (t *tr) needField(n ast.Node, st, field, want string) {
	m := t.pkgStruct(st)
	if m == nil || m[field] != want || m["(embedded)"] != "" {
		t.un(n, fmt.Sprintf("field %s.%s (the package does not declare it as a plain %s field)", st, field, want))
	}
}

func (t *tr) isAlignPkg(e ast.Expr) bool {
	return strings.HasSuffix(t.importPath(e), "/properties/align")
}

func (t *tr) parseTypeExt3(e ast.Expr) (typ, bool) {
	switch x := e.(type) {
	case *ast.Ident:
		switch x.Name {
		case "DividerSet":
			for _, f := range []string{"Left", "Inner", "Right"} {
				t.needField(e, "DividerSet", f, "string")
			}
			if len(t.pkgStruct("DividerSet")) != 3 {
				t.un(e, "DividerSet with other than the three fields Left, Inner, Right")
			}
			used3["2 DividerSet"] = "DividerSet                = divset = bytes * bytes * bytes (Left, Inner, Right), the triple of Model/Text.v"
			return tDivSet, true
		case "WidthString":
			t.needField(e, "WidthString", "S", "string")
			t.needField(e, "WidthString", "W", "int")
			used3["3 WidthString"] = "WidthString               = wstr of Model/Text.v (ws.S = ws_s, ws.W = ws_w)"
			return tWStr, true
		}
	case *ast.ArrayType:
		if x.Len != nil {
			return "", false
		}
		if isPkg(x.Elt, "int") {
			return tInts, true
		}
		if isPkg(x.Elt, "WidthString") {
			t.parseTypeExt3(x.Elt)
			return tWStrs, true
		}
		if ty, ok := t.parseTypeExt3(x.Elt); ok && ty == tAlign {
			return tAligns, true
		}
	case *ast.SelectorExpr:
		if x.Sel.Name == "Alignment" && t.isAlignPkg(x.X) {
			used3["4 align"] = "align.Alignment           = alignment of Model/Text.v: AlNil (the nil interface), AlKnown ALeft / ARight / ACenter\n" +
				"                                 (align.Left / Right / Center: three distinct non-nil package variables, assumed never\n" +
				"                                 reassigned), AlUnknown (any other value); x == nil is al_is_nil x, `case align.Left` is al_is x ALeft"
			return tAlign, true
		}
	}
	return "", false
}

func recvCoqType3(f *fnInfo) string {
	if ty, ok := recvTyOf[f]; ok {
		return coqType[ty]
	}
	return "view"
}

func (t *tr) setupExt3() {
	f := t.fn
	if f.recv == "" {
		return
	}
	switch r := f.decl.Recv.List[0].Type.(type) {
	case *ast.Ident:
		switch r.Name {
		case "emitter":
			recvTyOf[f] = tEmitter
		case "WidthString":
			t.parseTypeExt3(r)
			recvTyOf[f] = tWStr
		}
	case *ast.StarExpr:
		if isPkg(r.X, "emitter") || isPkg(r.X, "WidthString") {
			t.un(f.decl, "pointer receiver of type "+exprString(r))
		}
	}
}

// a selector this file gives a meaning to; pure (no temporaries)
func (t *tr) selector3(x *ast.SelectorExpr) (string, typ, bool) {
	if id, ok := x.X.(*ast.Ident); ok {
		if _, local := t.env[id.Name]; !local && t.fn.recv != "" && id.Name == t.fn.recv {
			r := coqName(t.fn.recv)
			switch recvTyOf[t.fn] {
			case tEmitter:
				switch x.Sel.Name {
				case "colWidths":
					t.needField(x, "emitter", "colWidths", "[]int")
					used3["1 emitter"] = emitterDoc
					return "(e_colWidths " + r + ")", tInts, true
				case "eol":
					t.needField(x, "emitter", "eol", "string")
					used3["1 emitter"] = emitterDoc
					return "(e_eol " + r + ")", tString, true
				case "decor":
					t.needField(x, "emitter", "decor", "*Decoration")
					used3["1 emitter"] = emitterDoc
					return "(e_decor " + r + ")", tDecor, true
				}
				t.un(x, "field "+x.Sel.Name+" of the emitter (only colWidths, eol, decor are mapped)")
			case tWStr:
				return t.wstrField(x, r)
			}
			return "", "", false
		}
		switch t.env[id.Name] {
		case tDivSet:
			switch x.Sel.Name {
			case "Left", "Inner", "Right":
				return "(ds_" + x.Sel.Name + " " + coqName(id.Name) + ")", tString, true
			}
			t.un(x, "field "+x.Sel.Name+" of a DividerSet")
		case tWStr:
			return t.wstrField(x, coqName(id.Name))
		}
		if _, local := t.env[id.Name]; !local && t.isAlignPkg(id) {
			c := map[string]string{"Left": "ALeft", "Right": "ARight", "Center": "ACenter"}[x.Sel.Name]
			if c == "" {
				t.un(x, "align."+x.Sel.Name)
			}
			t.parseTypeExt3(&ast.SelectorExpr{X: id, Sel: ast.NewIdent("Alignment")})
			return "(AlKnown " + c + ")", tAlign, true
		}
		return "", "", false
	}
	if inner, ok := x.X.(*ast.SelectorExpr); ok {
		if a, ty, ok := t.selector3(inner); ok && ty == tDecor {
			if x.Sel.Name == "isBoxless" {
				t.needField(x, "Decoration", "isBoxless", "bool")
				return "(d_boxless " + a + ")", tBool, true
			}
			if decorGlyphs[x.Sel.Name] {
				t.needField(x, "Decoration", x.Sel.Name, "string")
				return "(d_" + x.Sel.Name + " " + a + ")", tString, true
			}
			t.un(x, "field "+x.Sel.Name+" of a Decoration (not one of the 22 glyphs of Model/Decoration.v, nor isBoxless)")
		}
	}
	return "", "", false
}

const emitterDoc = "e (an emitter, by value)  = the record emitter of Base/GoText.v: e.colWidths = e_colWidths e (list Z), e.eol = e_eol e,\n" +
	"                                 e.decor = e_decor e, a decoration of Model/Decoration.v (the pointer is assumed non-nil):\n" +
	"                                 e.decor.<Glyph> = d_<Glyph>, e.decor.isBoxless = d_boxless; totalWidth is not read"

func (t *tr) wstrField(x *ast.SelectorExpr, base string) (string, typ, bool) {
	switch x.Sel.Name {
	case "S":
		return "(ws_s " + base + ")", tString, true
	case "W":
		return "(ws_w " + base + ")", tInt, true
	}
	t.un(x, "field "+x.Sel.Name+" of a WidthString")
	return "", "", false
}

// the type of an expression, if it can be told without translating it
func (t *tr) peekType(e ast.Expr) typ {
	switch x := e.(type) {
	case *ast.ParenExpr:
		return t.peekType(x.X)
	case *ast.Ident:
		return t.env[x.Name]
	case *ast.SelectorExpr:
		if _, ty, ok := t.selector3(x); ok {
			return ty
		}
	}
	return ""
}

func isMine(ty typ) bool {
	return ty == tInts || ty == tWStrs || ty == tAligns
}

func elemOf(ty typ) typ {
	return map[typ]typ{tInts: tInt, tWStrs: tWStr, tAligns: tAlign}[ty]
}

func (t *tr) fnKey(local string) string { return t.fn.rel + ":" + t.fn.decl.Name.Name + "." + local }

func (t *tr) exprExt3(e ast.Expr) ([]bind, string, typ, bool) {
	switch x := e.(type) {
	case *ast.SelectorExpr:
		if s, ty, ok := t.selector3(x); ok {
			if ty == tDecor {
				t.un(e, "e.decor used as a value (only its fields are mapped)")
			}
			return nil, s, ty, true
		}
	case *ast.IndexExpr:
		ta := t.peekType(x.X)
		if !isMine(ta) {
			return nil, "", "", false
		}
		p1, a, _ := t.expr(x.X)
		p2, i, ti := t.expr(x.Index)
		if ti != tInt {
			t.un(e, "index of type "+string(ti))
		}
		n := t.fresh()
		return append(append(p1, p2...), bind{n, fmt.Sprintf("index %s %s", atom(a), atom(i))}), n, elemOf(ta), true
	case *ast.SliceExpr:
		// a slice that may have spare capacity: only x[:len(x)-k], which stays within the length
		id, ok := x.X.(*ast.Ident)
		if !ok || t.env[id.Name] != tStrings || !capLocals[t.fnKey(id.Name)] {
			return nil, "", "", false
		}
		okForm := false
		if b, ok := x.High.(*ast.BinaryExpr); ok && x.Low == nil && x.Max == nil && !x.Slice3 && b.Op == token.SUB {
			if c, ok := b.X.(*ast.CallExpr); ok && isPkg(c.Fun, "len") && len(c.Args) == 1 && isPkg(c.Args[0], id.Name) {
				if _, shadow := t.env["len"]; !shadow {
					if lit, ok := b.Y.(*ast.BasicLit); ok && lit.Kind == token.INT {
						if v, err := strconv.ParseInt(lit.Value, 0, 64); err == nil && v >= 0 {
							okForm = true
						}
					}
				}
			}
		}
		if !okForm {
			t.un(e, "slice of "+id.Name+" (made with spare capacity, which is not modelled) other than "+id.Name+"[:len("+id.Name+")-k]")
		}
		return nil, "", "", false // the generic x[:n] (slice_to: checked against the length) is exact for this form
	case *ast.CompositeLit:
		id, ok := x.Type.(*ast.Ident)
		if !ok || id.Name != "DividerSet" {
			return nil, "", "", false
		}
		t.parseTypeExt3(id)
		vals := map[string]string{"Left": bytesLit(""), "Inner": bytesLit(""), "Right": bytesLit("")}
		seen := map[string]bool{}
		var pre []bind
		for _, el := range x.Elts {
			kv, ok := el.(*ast.KeyValueExpr)
			if !ok {
				t.un(e, "DividerSet literal without field names")
			}
			k, ok := kv.Key.(*ast.Ident)
			if !ok || seen[k.Name] {
				t.un(e, "DividerSet literal key")
			}
			if _, known := vals[k.Name]; !known {
				t.un(e, "DividerSet literal field "+k.Name)
			}
			seen[k.Name] = true
			p, v, ty := t.expr(kv.Value)
			if ty != tString {
				t.un(kv.Value, "DividerSet field of type "+string(ty))
			}
			pre = append(pre, p...)
			vals[k.Name] = v
		}
		return pre, fmt.Sprintf("(mk_DividerSet %s %s %s)", atom(vals["Left"]), atom(vals["Inner"]), atom(vals["Right"])), tDivSet, true
	}
	return nil, "", "", false
}

func (t *tr) binaryExt3(x *ast.BinaryExpr, a string, ta typ, b string, tb typ) (string, typ, bool) {
	switch x.Op {
	case token.EQL, token.NEQ:
		v := ""
		if ta == tAlign && tb == tNil {
			v = a
		} else if ta == tNil && tb == tAlign {
			v = b
		} else {
			return "", "", false
		}
		if x.Op == token.EQL {
			return "(al_is_nil " + atom(v) + ")", tBool, true
		}
		return "(negb (al_is_nil " + atom(v) + "))", tBool, true
	case token.QUO:
		if ta != tInt || tb != tInt {
			return "", "", false
		}
		lit, ok := x.Y.(*ast.BasicLit)
		if !ok || lit.Kind != token.INT {
			t.un(x, "division by something other than a positive integer literal")
		}
		if v, err := strconv.ParseInt(lit.Value, 0, 64); err != nil || v <= 0 {
			t.un(x, "division by something other than a positive integer literal")
		}
		used3["7 quo"] = "a / k (k a positive literal) = Z.quot a k (Go truncates towards zero)"
		return "(Z.quot " + atom(a) + " " + atom(b) + ")", tInt, true
	}
	return "", "", false
}

func (t *tr) callExt3(x *ast.CallExpr) ([]bind, string, typ, bool) {
	switch f := x.Fun.(type) {
	case *ast.Ident:
		if _, shadow := t.env[f.Name]; shadow {
			return nil, "", "", false
		}
		switch f.Name {
		case "len":
			if len(x.Args) != 1 || !isMine(t.peekType(x.Args[0])) {
				return nil, "", "", false
			}
			pre, a, _ := t.expr(x.Args[0])
			return pre, "(Zlen " + a + ")", tInt, true
		case "append":
			if len(x.Args) != 2 || x.Ellipsis != token.NoPos {
				return nil, "", "", false
			}
			id, ok := x.Args[0].(*ast.Ident)
			if !ok || t.env[id.Name] != tStrings {
				return nil, "", "", false
			}
			if x != allowedAppend {
				t.un(x, "append to a []string outside the statement `"+id.Name+" = append("+id.Name+", v)`")
			}
			pre, v, tv := t.expr(x.Args[1])
			if tv != tString {
				t.un(x, "append of a "+string(tv)+" to a []string")
			}
			return pre, "(" + coqName(id.Name) + " ++ [" + v + "])", tStrings, true
		case "make":
			if len(x.Args) != 3 {
				return nil, "", "", false
			}
			if ty, ok := t.parseTypeExt(x.Args[0]); !ok || ty != tStrings {
				return nil, "", "", false
			}
			if lit, ok := x.Args[1].(*ast.BasicLit); !ok || lit.Kind != token.INT || lit.Value != "0" {
				t.un(x, "make([]string, n, c) with a length other than the literal 0")
			}
			pre, c, tc := t.expr(x.Args[2])
			if tc != tInt {
				t.un(x, "make with a capacity of type "+string(tc))
			}
			used3["5 make"] = "make([]string, 0, c)      = make_strings_cap c: the empty list; Panic if c < 0.  The capacity is otherwise DROPPED: such a\n" +
				"                                 local is only grown by x = append(x, v), stored into (checked) and re-sliced as x[:len(x)-k], and\n" +
				"                                 never copied to another variable, so no translated function can observe it"
			v := t.fresh()
			return append(pre, bind{v, "make_strings_cap " + atom(c)}), v, tStrings, true
		}
	case *ast.SelectorExpr:
		switch t.importPath(f.X) + "." + f.Sel.Name {
		case "strings.Repeat":
			if len(x.Args) != 2 || x.Ellipsis != token.NoPos {
				t.un(x, "strings.Repeat argument count")
			}
			p1, s, ts := t.expr(x.Args[0])
			p2, n, tn := t.expr(x.Args[1])
			if ts != tString || tn != tInt {
				t.un(x, "strings.Repeat("+string(ts)+", "+string(tn)+")")
			}
			used3["6 strings.Repeat"] = "strings.Repeat(s, n)      = lib_strings_Repeat s n (Base/GoLib.v): n copies of s; Panic if n < 0 (the overflow panic is out\n" +
				"                                 of scope: int = Z)"
			v := t.fresh()
			return append(append(p1, p2...), bind{v, "lib_strings_Repeat " + atom(s) + " " + atom(n)}), v, tString, true
		case "strings.Join":
			if len(x.Args) != 2 || x.Ellipsis != token.NoPos {
				t.un(x, "strings.Join argument count")
			}
			p1, xs, txs := t.expr(x.Args[0])
			p2, sep, tsep := t.expr(x.Args[1])
			if txs != tStrings || tsep != tString {
				t.un(x, "strings.Join("+string(txs)+", "+string(tsep)+")")
			}
			used3["6 strings.Join"] = "strings.Join(xs, sep)     = lib_strings_Join xs sep (Base/GoLib.v)"
			return append(p1, p2...), "(lib_strings_Join " + atom(xs) + " " + atom(sep) + ")", tString, true
		}
		// v.Method(args) on a WidthString value that is not the receiver: a call of a
		// translated method, the value passed as its receiver
		callee, ok := t.fns[f.Sel.Name]
		if !ok || recvTyOf[callee] != tWStr {
			return nil, "", "", false
		}
		if id, ok := f.X.(*ast.Ident); ok {
			if _, local := t.env[id.Name]; !local {
				return nil, "", "", false // a package, or this function's own receiver
			}
		}
		if !callee.done {
			t.un(x, "call of "+f.Sel.Name+" before its translation (list callees first)")
		}
		if callee.writer != "" || callee.result == tError || callee.result == tUnit || x.Ellipsis != token.NoPos || len(x.Args) != len(callee.params) {
			t.un(x, "call of "+f.Sel.Name+" in an expression")
		}
		pre, a, ta := t.expr(f.X)
		if ta != tWStr {
			t.un(x, "method "+f.Sel.Name+" on a "+string(ta))
		}
		app := "src_" + f.Sel.Name + t.extArgs(callee)
		if callee.usesRecv {
			app += " " + atom(a)
		}
		for i, arg := range x.Args {
			p, v, ty := t.expr(arg)
			pre = append(pre, p...)
			if ty == tNil && callee.params[i].ty == tAlign {
				v, ty = "AlNil", tAlign
			}
			app += " " + atom(t.coerce(arg, v, ty, callee.params[i].ty))
		}
		n := t.fresh()
		return append(pre, bind{n, "lift_pure (" + app + ")"}), n, callee.result, true
	}
	return nil, "", "", false
}

func (t *tr) isCallOf(e ast.Expr, name string) (*ast.CallExpr, bool) {
	c, ok := e.(*ast.CallExpr)
	if !ok || !isPkg(c.Fun, name) {
		return nil, false
	}
	if _, shadow := t.env[name]; shadow {
		return nil, false
	}
	return c, true
}

func (t *tr) stmtExt3(s ast.Stmt, last bool, rest func() string) (string, bool) {
	switch x := s.(type) {
	case *ast.SwitchStmt:
		if x.Tag != nil && x.Init == nil && t.peekType(x.Tag) == tAlign {
			return t.switchAlign(x, last, rest), true
		}
	case *ast.ExprStmt:
		if c, ok := t.isCallOf(x.X, "panic"); ok {
			if !last {
				t.un(s, "statements after panic")
			}
			if len(c.Args) != 1 {
				t.un(s, "panic argument count")
			}
			if lit, ok := c.Args[0].(*ast.BasicLit); !ok || lit.Kind != token.STRING {
				t.un(s, "panic of something other than a string literal")
			}
			return "panic", true
		}
	case *ast.AssignStmt:
		if len(x.Lhs) != 1 || len(x.Rhs) != 1 {
			return "", false
		}
		// x = append(x, v) on a []string local: the only form of append
		if c, ok := t.isCallOf(x.Rhs[0], "append"); ok && len(c.Args) == 2 {
			if a0, ok := c.Args[0].(*ast.Ident); ok && t.env[a0.Name] == tStrings {
				if x.Tok != token.ASSIGN || !isPkg(x.Lhs[0], a0.Name) {
					t.un(s, "append whose result is not assigned back to its first operand (the slices would share a backing array)")
				}
				allowedAppend = c
				return "", false
			}
		}
		if c, ok := t.isCallOf(x.Rhs[0], "make"); ok && len(c.Args) == 3 {
			if ty, ok := t.parseTypeExt(c.Args[0]); ok && ty == tStrings {
				id, ok := x.Lhs[0].(*ast.Ident)
				if !ok {
					t.un(s, "make([]string, 0, c) assigned to something other than a local")
				}
				capLocals[t.fnKey(id.Name)] = true
				return "", false
			}
		}
		// copying a slice that may have spare capacity: refused
		if id, ok := x.Rhs[0].(*ast.Ident); ok && t.env[id.Name] == tStrings && capLocals[t.fnKey(id.Name)] {
			t.un(s, "copy of the slice "+id.Name+" to another variable (aliasing is not modelled)")
		}
		// fields[i] = v
		if l, ok := x.Lhs[0].(*ast.IndexExpr); ok {
			id, ok := l.X.(*ast.Ident)
			if !ok || t.env[id.Name] != tStrings {
				return "", false
			}
			if x.Tok != token.ASSIGN {
				t.un(s, "assignment operator "+x.Tok.String()+" on an element")
			}
			p1, i, ti := t.expr(l.Index)
			p2, v, tv := t.expr(x.Rhs[0])
			if ti != tInt || tv != tString {
				t.un(s, "indexed assignment "+string(ti)+" / "+string(tv))
			}
			n := coqName(id.Name)
			return wrap(append(p1, p2...), fmt.Sprintf("mbind (store %s %s %s) (fun %s =>\n%s)", n, atom(i), atom(v), n, rest())), true
		}
	}
	return "", false
}

// switch x { case align.Left: ... default: ... } on an align.Alignment
func (t *tr) switchAlign(x *ast.SwitchStmt, last bool, rest func() string) string {
	pre, tag, _ := t.expr(x.Tag)
	asg := t.assigned(x.Body)
	tv := t.fresh()
	type arm struct {
		cond string
		body []ast.Stmt
	}
	var arms []arm
	var def []ast.Stmt
	hasDef := false
	for _, st := range x.Body.List {
		cc := st.(*ast.CaseClause)
		for _, b := range cc.Body {
			if br, ok := b.(*ast.BranchStmt); ok {
				t.un(br, br.Tok.String()+" inside a switch")
			}
		}
		if cc.List == nil {
			if hasDef {
				t.un(cc, "two default clauses")
			}
			hasDef, def = true, cc.Body
			continue
		}
		var cs []string
		for _, e := range cc.List {
			sel, ok := e.(*ast.SelectorExpr)
			if !ok {
				t.un(e, "case that is not align.Left / align.Right / align.Center")
			}
			c, ty, ok := t.selector3(sel)
			if !ok || ty != tAlign {
				t.un(e, "case that is not align.Left / align.Right / align.Center")
			}
			cs = append(cs, fmt.Sprintf("(al_is %s %s)", tv, strings.TrimSuffix(strings.TrimPrefix(c, "(AlKnown "), ")")))
		}
		c := cs[0]
		if len(cs) > 1 {
			c = "(" + strings.Join(cs, " || ") + ")"
		}
		arms = append(arms, arm{c, cc.Body})
	}
	saveIn := t.inLoop
	t.inLoop = false
	chain := t.scoped(def, asg)
	for i := len(arms) - 1; i >= 0; i-- {
		chain = fmt.Sprintf("if %s then\n%s\nelse\n%s", arms[i].cond, t.scoped(arms[i].body, asg), chain)
	}
	t.inLoop = saveIn
	// a terminating statement (Go spec): a default clause, and every clause ends in
	// return or panic - nothing follows, the chain is the rest of the function
	terminating := hasDef && last
	for _, st := range x.Body.List {
		b := st.(*ast.CaseClause).Body
		if len(b) == 0 {
			terminating = false
			continue
		}
		switch e := b[len(b)-1].(type) {
		case *ast.ReturnStmt:
		case *ast.ExprStmt:
			if _, ok := t.isCallOf(e.X, "panic"); !ok {
				terminating = false
			}
		default:
			terminating = false
		}
	}
	if terminating {
		return wrap(pre, fmt.Sprintf("let %s := %s in\n%s", tv, tag, chain))
	}
	return wrap(pre, fmt.Sprintf("let %s := %s in\nsbind (%s) (%s\n%s)", tv, tag, chain, t.lam(asg), rest()))
}

// for i := range xs over one of this file's slice types
func (t *tr) rangeExt3(x *ast.RangeStmt, rest func() string) (string, bool) {
	if x.Tok != token.DEFINE || x.Value != nil || x.Key == nil || !isMine(t.peekType(x.X)) {
		return "", false
	}
	k, ok := x.Key.(*ast.Ident)
	if !ok || k.Name == "_" {
		t.un(x, "range key")
	}
	pre, xs, _ := t.expr(x.X)
	carried := t.assigned(x.Body)
	outer := t.save()
	t.declare(x, k.Name, tInt)
	for _, v := range t.assigned(x.Body) {
		if v == k.Name {
			t.un(x, "assignment to the range index "+v+" inside the loop")
		}
	}
	saveLoop, saveIn := t.loop, t.inLoop
	t.loop, t.inLoop = carried, true
	body := t.scoped(x.Body.List, carried)
	t.loop, t.inLoop = saveLoop, saveIn
	t.restore(outer)
	l := t.lam(carried)
	return wrap(pre, fmt.Sprintf("sbind (range_loop (range_idx %s)\n(fun %s => %s\n%s)\n%s) (%s\n%s)", atom(xs), coqName(k.Name), l, body, tuple(carried), l, rest())), true
}

func extHeader3() string {
	if len(used3) == 0 {
		return ""
	}
	var ks []string
	for k := range used3 {
		ks = append(ks, k)
	}
	sort.Strings(ks)
	s := "\n   ASSUMED for texttable/decoration (definitions: Base/GoText.v, Base/GoLib.v; notes/SOURCE_TIE_3.md):\n"
	for _, k := range ks {
		s += "     " + used3[k] + "\n"
	}
	return s
}

func extImport3() string {
	if len(used3) == 0 {
		return ""
	}
	return " Base.GoText"
}
