#!/bin/sh
# merge_builder.sh <clone-of-verif>: merge a builder's commit(s) into /verif (the generated _CoqProject is
# regenerated, never merged)
set -e
cd "$(dirname "$0")/.."
git add -A; git commit -qm "wip before merging $1" || true
git fetch -q "$1" HEAD
if ! git merge -q --no-edit FETCH_HEAD >/tmp/merge.$$.log 2>&1; then
  if git diff --name-only --diff-filter=U | grep -qv '^coq/_CoqProject$'; then
    echo "CONFLICTS:"; git diff --name-only --diff-filter=U; cat /tmp/merge.$$.log; exit 1
  fi
  rm -f coq/_CoqProject; sh tools/gen_coqproject.sh; git add -A; git commit -qm "merge $1"
fi
rm -f /tmp/merge.$$.log
sh tools/gen_coqproject.sh
git add -A; git commit -qm "regenerate _CoqProject after merging $1" || true
git log --oneline | head -2
