#!/usr/bin/env python3
"""Prints the table of seeded changes (seeded/*/meta.json) for DESIGN.md."""
import glob, json, os
V = os.path.dirname(os.path.dirname(os.path.abspath(__file__)))
print("| seeded change | what it breaks / what it needs to manifest | first run | now |")
print("|---|---|---|---|")
for d in sorted(glob.glob(os.path.join(V, "seeded", "*"))):
    mp = os.path.join(d, "meta.json")
    if not os.path.exists(mp):
        continue
    m = json.load(open(mp))
    c = m.get("confirmed_by_main", {}).get("checks", {})
    first = m.get("first_run") or "; ".join("%s %s" % (k, "caught" if v["exit"] == 1 and v["violation_lines"] else "MISSED") for k, v in c.items())
    now = m.get("now") or first
    s = (m.get("summary", "") + " — needs: " + str(m.get("needs_to_manifest", ""))).replace("|", "\\|").replace("\n", " ")
    print("| %s | %s | %s | %s |" % (os.path.basename(d), s[:420], first, now))
