#!/bin/sh
# Regenerates coq/_CoqProject from the files on disk (every .v under the
# development's directories); rewrites it only when the list changed.
cd "$(dirname "$0")/../coq" || exit 2
{
  echo "-R . Tab"
  find Base Model Spec Proofs Props Run Findings Generated -name '*.v' 2>/dev/null | LC_ALL=C sort
} > _CoqProject.new
if cmp -s _CoqProject.new _CoqProject; then rm _CoqProject.new; else mv _CoqProject.new _CoqProject; rm -f Makefile Makefile.conf; fi
