#!/usr/bin/env python3
"""rerun_seeded.py [names...]: re-runs every filed seeded change (seeded/<name>/patch.diff) against the
current checks in a scratch worktree of /repo and records the outcome as meta.json["now"].
The property checked is the one in the directory name (Cxx-n); meta.json["also_check"] may list more."""
import glob, json, os, subprocess, sys, tempfile, shutil, concurrent.futures
V = os.path.dirname(os.path.dirname(os.path.abspath(__file__)))
env = dict(os.environ, GOFLAGS="-mod=mod", GOPROXY="off", GOSUMDB="off", GOTOOLCHAIN="local")
def sh(cmd, cwd=None):
    r = subprocess.run(cmd, shell=True, cwd=cwd, env=env, stdout=subprocess.PIPE, stderr=subprocess.STDOUT, text=True, errors="replace")
    return r.returncode, r.stdout
def one(d):
    name = os.path.basename(d)
    m = json.load(open(os.path.join(d, "meta.json")))
    rev = m.get("repo_head_when_confirmed", "HEAD")
    wt = tempfile.mkdtemp(prefix="rerun.", dir="/tmp")
    sh("git -C /repo worktree add -q --detach %s %s" % (wt, m.get("pin_rev", "HEAD")))   # pin_rev: the change only breaks the property on that revision of /repo (a later repair neutralises it)
    rc, _ = sh("git apply %s" % os.path.join(d, "patch.diff"), wt)
    if rc != 0:  # cut against an older HEAD of /repo
        sh("git -C /repo worktree remove --force %s" % wt)
        sh("git -C /repo worktree add -q --detach %s %s" % (wt, rev))
        rc, _ = sh("git apply %s" % os.path.join(d, "patch.diff"), wt)
    res = []
    try:
        if rc != 0:
            return name, "patch-does-not-apply"
        for pid in [name.split("-")[0]] + m.get("also_check", []):
            rc, o = sh("python3 check.py %s --tier quick --repo %s --no-evidence" % (pid, wt), V)
            nv = len([l for l in o.splitlines() if l.startswith("VIOLATION")])
            nf = len([l for l in o.splitlines() if l.startswith("VIOLATION") and "no-failing-input-found" in l])
            res.append("%s %s" % (pid, "caught" + (" (no-failing-input-found)" if nf == nv and nv else "") if rc == 1 and nv else ("MISSED" if rc == 0 else "BROKEN rc=%d" % rc)))
    finally:
        sh("git -C /repo worktree remove --force %s" % wt)
        shutil.rmtree(wt, ignore_errors=True)
    m["now"] = "; ".join(res)
    json.dump(m, open(os.path.join(d, "meta.json"), "w"), indent=1)
    return name, m["now"]
names = sys.argv[1:]
dirs = [d for d in sorted(glob.glob(os.path.join(V, "seeded", "*"))) if os.path.isdir(d) and (not names or os.path.basename(d) in names)]
with concurrent.futures.ThreadPoolExecutor(max_workers=5) as ex:
    for name, r in ex.map(one, dirs):
        print(name, r)
