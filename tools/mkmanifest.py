#!/usr/bin/env python3
"""Regenerates /verif/MANIFEST.json from the table below (kept valid at all times)."""
import json, os
V = os.path.dirname(os.path.dirname(os.path.abspath(__file__)))
ALL = ["C%02d" % i for i in range(1, 20)]

CLAIMED = {
 "C05": dict(
   text="Machine-checked proof (Coq 8.16.1, closed under the global context) over a Gallina model of csv.go: for every view, whenever rendering succeeds a strict RFC 4180 all-quoted parser (Spec/CsvParse.v, a byte-level state machine) reads the output back as exactly header ++ non-separator rows padded to the column count, byte for byte; zero columns are refused; no input panics; every well-formed table with a column renders. Unbounded in table shape and byte content. The model is tied to the code on every run by executing the real renderer and the model on the same enumerated and random tables and by judging the implementation's own bytes with the same parser.",
   note="Trusted: Coq kernel + VM; no axioms. The theorem is about the hand-written model Model/Csv.v; its agreement with csv.go is established only on the cases each run executes (all table shapes up to 3 rows x 2 cells, all short hostile strings in each field position, random tables to 6x6). fmt.Fprint/Fprintln write semantics and bytes.Buffer are not modelled beyond 'one call = one Write'.",
   technique="Coq proof by induction (parse . render round trip over a fold_left state machine) + differential correspondence check (vm_compute)",
   ref="6 (C05)"),
 "C15": dict(
   text="Machine-checked proof (Coq 8.16.1, closed under the global context): for EVERY list of Write calls whose results are all checked and EVERY scripted destination writer (fault at any call, persistent or on a single call, with or without a partial write) RenderTo returns an error whenever a call it made failed, the accepted bytes are a prefix of the fault-free output, and no error implies the complete output (Model/Writer.v, by induction over the write list; instantiated for any chunking of the HTML output and for the CSV model's write list). The tie to the code is fault enumeration: every renderer through every entry point is run against a recording writer and then against a scripted writer failing at EVERY write index in four modes; Coq judges each observed (error, accepted bytes) pair against the property and against the model's prediction from the observed write list.",
   note="Trusted: Coq kernel + VM; no axioms. Modelled, not verified: that each renderer is a straight sequence of Write calls which stops at the first error it checks (text/template's Execute included) - validated by the per-run enumeration on the tables run (8 fixed shapes covering every write site + random tables, 15 targets). Writers that return n < len(p) with a nil error violate io.Writer and are out of scope.",
   technique="Coq proof by induction over write lists for all fault scripts + exhaustive fault enumeration (every write index x 4 modes) against the real renderers, judged by vm_compute",
   ref="6 (C15)"),
 "C10": dict(
   text="Machine-checked proof (Coq 8.16.1, closed under the global context) over a model of the wrapper layer (Model/Wrap.v): for every history of building, wrapping (any kinds, any nesting, any creation path: X.New() = New + Wrap, auto = dispatch + Wrap) and rendering, a render through a wrapper of kind k yields exactly format k's output for the current view, hence any two paths to the same content render identically; proved by induction over the history with the invariant that a measuring format's callback stays registered once its Wrap has run, for every choice of renderer bodies (instantiated with the CSV model). The tie to the code: each run builds the same table along 14 creation paths x nestings x 6 entry points per format and Coq requires all outputs byte-identical to the reference (and, for CSV, to the model).",
   note="Trusted: Coq kernel + VM; no axioms. Modelled, not verified: that a Wrap's only effect on the core table is registering its measuring callback and that a render's output depends only on the view and on those measurements being fresh (the renderer bodies are parameters of the theorem); Go method promotion through the embedded Table interface. Tied to the code only on the (table, format, path) combinations each run executes.",
   technique="Coq proof by induction over build/wrap/render histories (registration invariant) + differential check of all creation paths x nestings x entry points, judged by vm_compute",
   ref="6 (C10)"),
 "C14": dict(
   text="Machine-checked proof (Coq 8.16.1, closed under the global context) over the same wrapper/render-pass model: any sequence of wraps and renders, of any length and order of formats and decorations, leaves the caller-observable state (view + user-visible rest) unchanged, and every format renders the same bytes after it as before it - a render pass only refreshes private measurements and a Wrap only appends a callback; by induction over the sequence, for all renderer bodies. The tie to the code: render sequences (all of length <= 2 over 9 slots exhaustively, random up to 12) are run on real tables; Coq compares every output with the first of its slot and a full serialised snapshot (counts, texts, locations, sizes, CellAt, user properties of every owner, errors) before and after, and the CSV outputs with the model.",
   note="Trusted: Coq kernel + VM; no axioms. Modelled, not verified: that render passes write only the three private property keys and that wrappers cache nothing but the parsed HTML template; user callbacks are absent (as the property says). Tied to the code only on the sequences each run executes.",
   technique="Coq proof by induction over render sequences (observable-state preservation) + differential check of repeated renders and before/after snapshots, judged by vm_compute",
   ref="6 (C14)"),
 "C09": dict(
   text="Machine-checked proof (Coq 8.16.1, closed under the global context), per renderer model and for ALL views (no bound on rows, cells or bytes): rendering never panics (every Go index expression is a checked idx in the model, so this is a real statement), and the Render() wrapper returns the empty string whenever it returns an error; composed with the core invariant that no row is longer than the column count. The renderer theorems present are listed in coq/Props/C09.v (it grows as renderer models are merged). The tie to the code is the property's own quantifier: every table shape up to 3 rows x 2 cells built by every public building method (incl. rows extended after attach) and random tables with text-like items whose declared sizes disagree with their text are rendered under recover() by all five renderers, every registered decoration and every listed auto style; Coq requires no panic and no text with an error, and agreement with the model's outcome.",
   note="Trusted: Coq kernel + VM; no axioms. The totality theorems are about the hand-written renderer models; renderers whose model is not yet merged are covered by the exhaustive/random execution only (see the theorem list in evidence). Resource exhaustion (absurd declared heights) and wrongly typed property values are outside the property's domain (DESIGN 13).",
   technique="Coq proof of totality per renderer model over all views + exhaustive small-scope and random execution of every renderer/style under recover(), judged by vm_compute",
   ref="6 (C09)"),
 "C02": dict(
   text="Machine-checked proof (Coq 8.16.1, closed under the global context) by invariant over ALL well-formed build histories of a Gallina model of atable.go/row.go/location.go (Model/Core.v) against an independent history spec (Spec/History.v): row list = attach order, row count = number of attaching calls, column count = max over every header so far and every current row size (cells appended after attach included), columns = count+1, rows and cells numbered 1-based; CellAt returns exactly the c-th cell of the r-th row whose own location is (r,c), else no-such-cell for out-of-range or separator, never a panic; Column(n) non-nil iff 0<=n<=count; mutating the AllRows copy changes nothing; plus view_wf used by C09. Tied to the code by replaying every history of 3 ops (full alphabet) and 4 ops (reduced) and random histories to 25 ops against the real table, dumping every observable after EVERY op; Coq compares the dump with the spec and with the model.",
   note="Trusted: Coq kernel + VM; no axioms. wf_hist: a pre-built row is attached at most once (DESIGN 13.1). Modelled, not verified: Go slices/pointers as values with row handles (Detached/Attached); agreement with the code only on the histories each run executes.",
   technique="Coq proof of a state invariant and refinement to a history spec by induction over operation sequences + exhaustive small-scope and random differential replay, judged by vm_compute",
   ref="6 (C02)"),
 "C08": dict(
   text="Machine-checked proof (Coq 8.16.1, closed under the global context; for every display-width measure W) over a Gallina model of markdown.go: for every well-formed view rendering never panics, is refused exactly without headers or columns, and on success the output is header line + delimiter line + one line per non-separator row, each with exactly columns+1 unescaped pipes (and no pipe adjacent to a backslash), every delimiter cell has >= 3 dashes and the colon markers of the effective alignment (own, else column 0), every cell trimmed and entity-decoded (strict seven-entity decoder) equals the trimmed text, and no raw pipe, LF, angle bracket, ampersand-not-starting-an-entity or quote from content reaches the output; md_okb (the bit computed on the implementation's bytes) is proved equivalent to that Prop. Tied to the code by rendering enumerated shapes x alignment assignments x a pipe/backslash/entity-hostile alphabet with the real renderer; Coq judges the implementation's bytes with md_okb and compares them with the model's.",
   note="Trusted: Coq kernel + VM; no axioms. External: go-runewidth display width enters only as the oracle W (padding); html.EscapeString's table is modelled byte-wise and validated per run through byte equality. CR inside cells is outside GFM (documented non-goal); an explicit Left alignment is written like unset (' --- '), as the renderer does.",
   technique="Coq proof by induction over rows/bytes (escape/decode round trip, pipe counting, delimiter row) for all width oracles + differential correspondence and oracle on the real bytes, judged by vm_compute",
   ref="6 (C08)"),
 "C13": dict(
   text="Machine-checked proof (Coq 8.16.1, closed under the global context) over a Gallina model of RegisterPropertyCallback, the add-time call sites of Row.Add/AddRow/AddHeaders and InvokeRenderCallbacks (Model/Callbacks.v) against a trace spec written from the statement (Spec/CbTrace.v): registration is refused exactly for unsupported owner/target combinations; for every well-formed history and any number k of passes the render log equals k copies of the documented nesting order and the add-time log equals the spec's events; add-time events occur exactly once per matching target (count_occ); every logged callback's property is readable on its target afterwards. c13_once is proved per traversal position only (c13_once_partial; the sum over positions needs NoDup of row identities - stated in the file). Tied to the code by recording callbacks for all 48 owner x time x target registrations on every small table shape, before and after the rows exist, 1-3 passes; Coq compares the implementation's log (render: list; add: multiset) and the read-back properties with the spec and the model.",
   note="Trusted: Coq kernel + VM; no axioms. Targets are addressed by identity in the model (live-object clause is near by construction there; its content is the harness comparing received pointers with t.Column(n)/AllRows()/CellAt). User callbacks are total and only set the property the test sets (DESIGN 13.3).",
   technique="Coq proof by induction over histories and passes (model trace = spec trace, counting lemma) + differential check with recording callbacks, judged by vm_compute",
   ref="6 (C13)"),
 "C07": dict(
   text="Machine-checked proof (Coq 8.16.1, closed under the global context) over a Gallina model of json.go: for every well-formed view, rendering never panics; it returns an error exactly under the listed conditions (no columns, no/too few/empty/duplicate headers, a non-boolean Skipable on column 0 or a column, a row longer than the column count, a Marshal failure on a non-omitted cell) and Render() then returns no text; otherwise a complete JSON parser written in Coq (byte-level pushdown machine: all escapes, \\uXXXX with surrogate pairs, numbers per the grammar, ordered objects) reads the output back as exactly the array of one object per non-separator row, wherever separators fall (the comma look-ahead is proved by induction on the row list), with members omitted for missing cells and for empty cells exactly in skipable columns (own, else column 0). The encoding/json oracle premise (each key/value encoding is a self-delimiting JSON value) is discharged by a boolean that the run evaluates on every case (c07_valid_and_mirrors_checked). Tied to the code by rendering all row/separator sequences up to length 4 x skipable assignments and random tables with hostile headers and every JSON-relevant item kind; Coq parses the implementation's real bytes and compares with the value expected from the input, and with the model's bytes; the Coq parser itself is validated each run against json.Valid / Decoder.Token on ~1,200 snippets and mutated outputs (a disagreement is exit 2).",
   note="Trusted: Coq kernel + VM; no axioms. External: encoding/json's Marshal output enters as oracle bytes (checked per case to parse standalone). Key equality with the header text is claimed for valid UTF-8 headers (DESIGN 13.9).",
   technique="Coq proof of a parse . render round trip through a fold_left pushdown JSON parser (induction on rows, cells, bytes) + differential correspondence and parser self-validation against encoding/json, judged by vm_compute",
   ref="6 (C07)"),
 "C16": dict(
   text="PARTIAL by design. Proved (Coq 8.16.1, closed under the global context): in an interleaving model (registry + one local state per goroutine; actions Local/RegRead/RegNames) every complete schedule - any merge, unbounded - of confined, registry-reading programs leaves each goroutine's final state and observations equal to running it alone, and the registry unchanged (induction on the schedule with a commutation lemma); the hypothesis is shown necessary by two refuted variants (a registry write, an unconfined Local). Validated, not proved, on every run: that the Go code is confined this way - (a) the harness, built with -race, runs 8-64 goroutines each building and rendering its own tables in all 26 formats/decorations/auto styles while others read the registry, and compares every output with the same table rendered alone (a race report or a mismatch is the replay); (b) a source inventory regenerated from the repository's AST on every run (every package-level var; every post-init write, address-taking or pointer-receiver call on one; lock coverage of registry.table) must satisfy shared_ok, evaluated in Coq.",
   note="Trusted: Coq kernel + VM; no axioms; the Go race detector and scheduler; the AST walk (harness/c16_srcfacts.go: lexical lock rule, no alias tracking). Data-race freedom under the Go memory model is NOT proved (no Go semantics for Coq is installed); the inventory clause sits on the correspondence bit, so a harmless rewrite that trips it is reported, after a widened race search, as no-failing-input-found.",
   technique="Coq proof of schedule independence by induction over all interleavings (partial: confinement of the real code validated by race-detector runs and a regenerated source inventory judged in Coq)",
   ref="6 (C16)"),
}

def main():
    checks = []
    for pid in ALL:
        if pid not in CLAIMED:
            continue
        c = CLAIMED[pid]
        checks.append({
            "property_id": pid,
            "quick_cmd": "python3 check.py %s --tier quick" % pid,
            "thorough_cmd": "python3 check.py %s --tier thorough" % pid,
            "evidence_file": "/verif/evidence/%s.json" % pid,
            "replay_cmd_template": "python3 check.py %s --replay {path}" % pid,
            "engine": "coq-model+correspondence",
            "level_claimed": {"category": "proof", "text": c["text"], "design_ref": "DESIGN.md section " + c["ref"]},
            "level_note": c["note"],
            "technique": c["technique"],
        })
    na = [{"property_id": p, "reason": "check under construction in this round: not claimed until its model, theorems and correspondence check are committed (machine-checked proof does apply; see DESIGN.md section 6)"}
          for p in ALL if p not in CLAIMED]
    m = {
        "version": 1,
        "setup_cmd": "sh setup.sh",
        "hooks": {
            "guard": "verif",
            "enable": "go build -tags verif (the harness module replaces go.pennock.tech/tabular with the repository under test); no hook code exists in the repository: everything is observed through the public API",
            "baseline_off_cmd": "cd /repo && GOFLAGS=-mod=mod GOPROXY=off GOSUMDB=off go test -vet=off -count=1 ./...",
            "source_commits": [],
            "add_only": True,
        },
        "engines": [{
            "name": "coq-model+correspondence",
            "path": "/verif/check.py",
            "serves_properties": sorted(CLAIMED),
            "kind_free_text": "Coq 8.16.1 development under /verif/coq (Model, Spec, Proofs, Props) + Go differential harness under /verif/harness evaluated by vm_compute",
        }],
        "checks": checks,
        "not_applicable": na,
        "notes": "Repairs of genuine defects are unguarded 'fix:' commits in /repo, listed in KNOWN_FINDINGS.txt.",
    }
    json.dump(m, open(os.path.join(V, "MANIFEST.json"), "w"), indent=1)

main()
