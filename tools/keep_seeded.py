#!/usr/bin/env python3
"""keep_seeded.py <out-dir> <name> <ID>... : confirm one seeded change in a scratch worktree of /repo
(patch applies; builds; the repository's own tests pass; the demonstration fails with the change and
passes without it), run the named checks against it, and file it under /verif/seeded/<name>/."""
import json, os, shutil, subprocess, sys, tempfile
out, name, ids = sys.argv[1], sys.argv[2], sys.argv[3:]
V = os.path.dirname(os.path.dirname(os.path.abspath(__file__)))
env = dict(os.environ, GOFLAGS="-mod=mod", GOPROXY="off", GOSUMDB="off", GOTOOLCHAIN="local")
def sh(cmd, cwd=None):
    r = subprocess.run(cmd, shell=True, cwd=cwd, env=env, stdout=subprocess.PIPE, stderr=subprocess.STDOUT, text=True, errors="replace")
    return r.returncode, r.stdout
meta = json.load(open(os.path.join(out, "meta.json")))
demo_dir = (meta.get("demo_dir", ".").split() or ["."])[0].strip("/").rstrip(",;") or "."
if not os.path.isdir(os.path.join("/repo", demo_dir)):
    demo_dir = "."
wt = tempfile.mkdtemp(prefix="seeded.", dir="/tmp")
rev = os.environ.get("SEEDED_REV", "HEAD")
sh("git -C /repo worktree add -q --detach %s %s" % (wt, rev))
res = {}
try:
    demo_dst = os.path.join(wt, demo_dir, "zz_seeded_demo_test.go")
    shutil.copy(os.path.join(out, "demo_test.go"), demo_dst)
    race = "-race " if meta.get("needs_race_detector") else ""
    rc, o = sh("go test %s-vet=off -count=1 ./%s" % (race, demo_dir), wt)
    res["demo_passes_without_change"] = (rc == 0)
    os.remove(demo_dst)
    rc, o = sh("git apply %s" % os.path.join(os.path.abspath(out), "patch.diff"), wt)
    res["patch_applies"] = (rc == 0)
    if rc != 0:
        # patches were cut against an earlier HEAD; retry tolerant of context drift
        rc, o = sh("git apply -3 %s || patch -p1 --no-backup-if-mismatch < %s" % ((os.path.join(os.path.abspath(out), "patch.diff"),) * 2), wt)
        res["patch_applies_with_fuzz"] = (rc == 0)
        if rc == 0:
            _, d = sh("git diff", wt)
            open(os.path.join(out, "patch.diff"), "w").write(d)
    rc, o = sh("go build ./...", wt)
    res["builds"] = (rc == 0)
    rc, o = sh("go test -vet=off -count=1 ./...", wt)
    res["existing_tests_pass_with_change"] = (rc == 0)
    shutil.copy(os.path.join(out, "demo_test.go"), demo_dst)
    rc, o = sh("go test %s-vet=off -count=1 ./%s" % (race, demo_dir), wt)
    res["demo_fails_with_change"] = (rc != 0)
    os.remove(demo_dst)
    caught = {}
    for pid in ids:
        rc, o = sh("python3 check.py %s --tier quick --repo %s --no-evidence" % (pid, wt), V)
        lines = [l for l in o.splitlines() if l.startswith("VIOLATION")]
        caught[pid] = {"exit": rc, "violation_lines": len(lines), "summary": (o.strip().splitlines() or [""])[-1 - len(lines)] if rc in (0, 1) else o[-300:]}
    res["checks"] = caught
finally:
    sh("git -C /repo worktree remove --force %s" % wt)
    shutil.rmtree(wt, ignore_errors=True)
_, head = sh("git -C /repo rev-parse --short %s" % rev)
meta["confirmed_by_main"] = res
meta["repo_head_when_confirmed"] = head.strip()
ok = all(res.get(k) for k in ("demo_passes_without_change", "builds", "existing_tests_pass_with_change", "demo_fails_with_change"))
dst = os.path.join(V, "seeded", name)
if ok:
    os.makedirs(dst, exist_ok=True)
    shutil.copy(os.path.join(out, "patch.diff"), dst)
    shutil.copy(os.path.join(out, "demo_test.go"), os.path.join(dst, "demo_test.go.txt"))
    json.dump(meta, open(os.path.join(dst, "meta.json"), "w"), indent=1)
print(name, "KEPT" if ok else "REJECTED", json.dumps(res))
