#!/usr/bin/env python3
"""run_harmless.py [numbers...] [--props C01,C05]: every behaviour-preserving rewrite filed under harmless/<n>/
is applied to a scratch worktree of /repo (outside /repo and /verif), the repository's own tests are run, and
every property's quick check is pointed at it.  Expected: every check exits 0 (QUIET).  Not a registered command."""
import glob, json, os, subprocess, sys, tempfile, shutil, concurrent.futures
V = os.path.dirname(os.path.dirname(os.path.abspath(__file__)))
env = dict(os.environ, GOFLAGS="-mod=mod", GOPROXY="off", GOSUMDB="off", GOTOOLCHAIN="local")
args = [a for a in sys.argv[1:] if not a.startswith("--")]
props = None
for a in sys.argv[1:]:
    if a.startswith("--props"):
        props = a.split("=", 1)[1].split(",") if "=" in a else None
if props is None:
    props = ["C%02d" % i for i in range(1, 20)]
def sh(cmd, cwd=None):
    r = subprocess.run(cmd, shell=True, cwd=cwd, env=env, stdout=subprocess.PIPE, stderr=subprocess.STDOUT, text=True, errors="replace")
    return r.returncode, r.stdout
def one(d):
    name = os.path.basename(d)
    wt = tempfile.mkdtemp(prefix="harmless.", dir="/tmp")
    sh("git -C /repo worktree add -q --detach %s HEAD" % wt)
    res = {}
    try:
        rc, o = sh("git apply %s" % os.path.join(d, "patch.diff"), wt)
        if rc != 0:
            return name, {"patch": "does-not-apply"}
        rc, o = sh("go build ./... && go test -vet=off -count=1 ./...", wt)
        res["tests"] = "pass" if rc == 0 else "FAIL"
        def chk(pid):
            rc, o = sh("python3 check.py %s --tier quick --repo %s --no-evidence" % (pid, wt), V)
            v = [l for l in o.splitlines() if l.startswith("VIOLATION")]
            return pid, ("quiet" if rc == 0 and not v else ("ALARM " + (v[0] if v else "rc=%d %s" % (rc, o[-200:]))))
        with concurrent.futures.ThreadPoolExecutor(max_workers=4) as ex:
            for pid, r in ex.map(chk, props):
                res[pid] = r
    finally:
        sh("git -C /repo worktree remove --force %s" % wt)
        shutil.rmtree(wt, ignore_errors=True)
    return name, res
dirs = [d for d in sorted(glob.glob(os.path.join(V, "harmless", "*")), key=lambda p: int(os.path.basename(p)) if os.path.basename(p).isdigit() else 0)
        if os.path.isdir(d) and (not args or os.path.basename(d) in args)]
out = {}
for d in dirs:
    name, res = one(d)
    out[name] = res
    alarms = {k: v for k, v in res.items() if v not in ("quiet", "pass")}
    print(name, "ALL QUIET" if not alarms else json.dumps(alarms), flush=True)
json.dump(out, open(os.path.join(V, "harmless", "last_run.json"), "w"), indent=1)
