#!/bin/sh
# Records the fingerprint of /repo's non-test Go sources in PINNED_SOURCE: the
# tree the checks were last validated against.  check.py runs two extra passes
# (other seeds) when the sources it is pointed at differ from it.  Not a
# registered command; run it after a fix: commit in /repo.
cd "$(dirname "$0")/.." && python3 - <<'PY'
import importlib.util, subprocess
spec = importlib.util.spec_from_file_location('check', 'check.py'); m = importlib.util.module_from_spec(spec); spec.loader.exec_module(m)
fp = m.source_fingerprint('/repo')
rev = subprocess.run(['git', '-C', '/repo', 'rev-parse', '--short', 'HEAD'], capture_output=True, text=True).stdout.strip()
open('PINNED_SOURCE', 'w').write(fp + "  non-test Go sources of /repo at " + rev + " (tools/pin_source.sh)\n")
print(open('PINNED_SOURCE').read())
PY
