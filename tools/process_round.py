#!/usr/bin/env python3
"""process_round.py <round-dir> <suffix> [IDs...]: confirm and file every change of an adversary round
(<round-dir>/out-Cxx/N -> seeded/Cxx-<suffix>-N) and print, per property, what was missed with its trigger."""
import concurrent.futures, glob, json, os, re, subprocess, sys
V = os.path.dirname(os.path.dirname(os.path.abspath(__file__)))
rd, suf = sys.argv[1], sys.argv[2]
ids = sys.argv[3:] or ["C%02d" % i for i in range(1, 20)]
jobs = []
for pid in ids:
    for d in sorted(glob.glob(os.path.join(rd, "out-%s" % pid, "[0-9]*"))):
        if os.path.exists(os.path.join(d, "patch.diff")) and os.path.exists(os.path.join(d, "meta.json")):
            jobs.append((pid, d, "%s-%s-%s" % (pid, suf, os.path.basename(d))))
def one(j):
    pid, d, name = j
    if os.path.exists(os.path.join(V, "seeded", name, "meta.json")):
        return name, "already-filed", None
    r = subprocess.run(["python3", os.path.join(V, "tools", "keep_seeded.py"), d, name, pid], stdout=subprocess.PIPE, stderr=subprocess.STDOUT, text=True, errors="replace")
    m = re.search(r"^(\S+) (KEPT|REJECTED) (.*)$", r.stdout, flags=re.M)
    if not m:
        return name, "ERROR " + r.stdout[-300:], None
    res = json.loads(m.group(3))
    c = res.get("checks", {}).get(pid, {})
    st = "REJECTED" if m.group(2) == "REJECTED" else ("caught" if c.get("exit") == 1 and c.get("violation_lines") else ("BROKEN" if c.get("exit") not in (0, 1) else "MISSED"))
    return name, st, d
with concurrent.futures.ThreadPoolExecutor(max_workers=6) as ex:
    results = list(ex.map(one, jobs))
by = {}
for name, st, d in results:
    print(name, st)
    if st in ("MISSED", "BROKEN") and d:
        m = json.load(open(os.path.join(d, "meta.json")))
        by.setdefault(name.split("-")[0], []).append("%s (%s): %s NEEDS: %s" % (name, st, m.get("summary", ""), m.get("needs_to_manifest", "")))
for pid, l in sorted(by.items()):
    print("\n== %s" % pid)
    for x in l:
        print(" -", x)
