#!/bin/sh
# run_harmless_targeted.sh: each behaviour-preserving rewrite against the checks whose anchored code (or source tie) it touches.
# Results are merged into harmless/last_run_targeted.json (not a registered command).
cd "$(dirname "$0")/.."
run() { n=$1; shift; python3 tools/run_harmless.py $n --props=$1 | tee -a harmless/targeted.log; cp harmless/last_run.json harmless/.t_$n.json; }
: > harmless/targeted.log
run 1 C01,C04,C05,C09,C13,C14,C16
run 2 C02,C10,C11,C12,C13
run 3 C02,C11,C13
run 4 C08,C10,C12,C13
run 5 C10,C11,C13
run 6 C02,C12,C17,C19
run 7 C04,C09,C18
run 8 C05,C14,C15
run 9 C02,C07,C14,C16
run 10 C08,C16
run 11 C06,C10,C16
run 12 C03,C04,C09,C10
run 13 C03,C04,C17,C19
run 14 C16,C17,C19
python3 - <<'PY'
import json,glob
out={}
for f in sorted(glob.glob('harmless/.t_*.json')):
    out.update(json.load(open(f)))
json.dump(out,open('harmless/last_run_targeted.json','w'),indent=1)
PY
rm -f harmless/.t_*.json
git checkout -- harmless/last_run.json 2>/dev/null
