#!/bin/sh
# keep_both.sh <file>...: resolve "both sides appended" merge conflicts by keeping both sides (removes the markers)
for f in "$@"; do sed -i -e '/^<<<<<<< /d' -e '/^=======$/d' -e '/^>>>>>>> /d' "$f"; git add "$f"; done
