#!/bin/sh
# merge_agent.sh <copy-of-verif>: bring in the files a property's builder added
# in its scratch copy.  New files are copied; existing files that differ are
# only listed (shared files are merged by hand).
src="$1"; dst="$(cd "$(dirname "$0")/.." && pwd)"
cd "$src" || exit 2
find coq harness corpus tools notes -type f \( -name '*.v' -o -name '*.go' -o -name '*.json' -o -name '*.sh' -o -name '*.py' -o -name '*.md' -o -name 'go.mod' \) 2>/dev/null \
 | grep -v '^coq/\(Makefile\|\.\)' | while read f; do
  if [ ! -e "$dst/$f" ]; then mkdir -p "$dst/$(dirname "$f")"; cp -p "$f" "$dst/$f"; echo "NEW  $f";
  elif ! cmp -s "$f" "$dst/$f"; then echo "DIFF $f"; fi
done
