(* Base definitions shared by every model: bytes, results with an explicit
   Panic outcome, checked indexing.  Stdlib only, no axioms. *)
From Coq Require Export List NArith ZArith Bool Lia Arith PeanoNat.
Export ListNotations.

Notation byte := N (only parsing).
Notation bytes := (list N) (only parsing).

(* ---- results: Ok / Err (a Go error return) / Panic (a Go run-time panic) *)
Inductive res (A : Type) : Type :=
| Ok (a : A)
| Err
| Panic.
Arguments Ok {A} a.
Arguments Err {A}.
Arguments Panic {A}.

Definition bind {A B} (r : res A) (f : A -> res B) : res B :=
  match r with Ok a => f a | Err => Err | Panic => Panic end.

Definition is_panic {A} (r : res A) : bool :=
  match r with Panic => true | _ => false end.
Definition is_ok {A} (r : res A) : bool :=
  match r with Ok _ => true | _ => false end.

(* Go slice indexing s[i]: panics out of range.  nth-with-default is never
   used in Model/. *)
Definition idx {A} (l : list A) (i : nat) : res A :=
  match nth_error l i with Some a => Ok a | None => Panic end.

Lemma idx_lt {A} (l : list A) i : i < length l -> exists a, idx l i = Ok a /\ nth_error l i = Some a.
Proof.
  intros H. unfold idx. destruct (nth_error l i) eqn:E.
  - eauto.
  - apply nth_error_None in E. lia.
Qed.

Lemma idx_ok_nth {A} (l : list A) i a : idx l i = Ok a <-> nth_error l i = Some a.
Proof. unfold idx. destruct (nth_error l i); split; intros H; inversion H; auto. Qed.

(* ---- byte constants *)
Definition LF : N := 10.
Definition CR : N := 13.
Definition DQ : N := 34.   (* double quote *)
Definition COMMA : N := 44.
Definition SP : N := 32.

(* ---- decidable equality on byte strings *)
Fixpoint bytes_eqb (a b : bytes) : bool :=
  match a, b with
  | [], [] => true
  | x :: a', y :: b' => N.eqb x y && bytes_eqb a' b'
  | _, _ => false
  end.

Lemma bytes_eqb_eq a b : bytes_eqb a b = true <-> a = b.
Proof.
  revert b; induction a as [|x a IH]; intros [|y b]; simpl; split; intros H;
    try reflexivity; try discriminate.
  - apply andb_true_iff in H as [H1 H2]. apply N.eqb_eq in H1. apply IH in H2. congruence.
  - inversion H; subst. rewrite N.eqb_refl. simpl. apply IH. reflexivity.
Qed.

Lemma bytes_eqb_refl a : bytes_eqb a a = true.
Proof. apply bytes_eqb_eq. reflexivity. Qed.

Section ListEqb.
  Context {A : Type} (eqb : A -> A -> bool).
  Fixpoint list_eqb (a b : list A) : bool :=
    match a, b with
    | [], [] => true
    | x :: a', y :: b' => eqb x y && list_eqb a' b'
    | _, _ => false
    end.
  Hypothesis eqb_eq : forall x y, eqb x y = true <-> x = y.
  Lemma list_eqb_eq a b : list_eqb a b = true <-> a = b.
  Proof.
    revert b; induction a as [|x a IH]; intros [|y b]; simpl; split; intros H;
      try reflexivity; try discriminate.
    - apply andb_true_iff in H as [H1 H2]. apply eqb_eq in H1. apply IH in H2. congruence.
    - inversion H; subst. apply andb_true_iff. split; [apply eqb_eq; reflexivity | apply IH; reflexivity].
  Qed.
End ListEqb.

Definition option_eqb {A} (eqb : A -> A -> bool) (a b : option A) : bool :=
  match a, b with
  | None, None => true
  | Some x, Some y => eqb x y
  | _, _ => false
  end.

Lemma option_eqb_eq {A} (eqb : A -> A -> bool)
      (H : forall x y, eqb x y = true <-> x = y) a b :
  option_eqb eqb a b = true <-> a = b.
Proof.
  destruct a, b; simpl; split; intros E; try discriminate; try reflexivity.
  - apply H in E. congruence.
  - inversion E; subst. apply H. reflexivity.
Qed.

(* strings.Repeat *)
Fixpoint rep {A} (n : nat) (x : list A) : list A :=
  match n with 0 => [] | S k => x ++ rep k x end.

Lemma rep_length1 {A} n (x : A) : length (rep n [x]) = n.
Proof. induction n; simpl; auto. Qed.

(* strings.Join *)
Fixpoint join {A} (sep : list A) (l : list (list A)) : list A :=
  match l with
  | [] => []
  | [x] => x
  | x :: r => x ++ sep ++ join sep r
  end.

Definition Zlen {A} (l : list A) : Z := Z.of_nat (length l).

Fixpoint list_max (l : list nat) : nat :=
  match l with [] => 0 | x :: r => Nat.max x (list_max r) end.

Lemma join_cons_ne {A} (sep : list A) x l : l <> [] -> join sep (x :: l) = x ++ sep ++ join sep l.
Proof. destruct l; [congruence | reflexivity]. Qed.

Lemma join_single {A} (sep : list A) x : join sep [x] = x.
Proof. reflexivity. Qed.

Lemma repeat_snoc {A} (x : A) n : repeat x (S n) = repeat x n ++ [x].
Proof. induction n; simpl; [reflexivity | rewrite <- IHn; reflexivity]. Qed.

Lemma join_snoc {A} (sep : list A) l x : l <> [] -> join sep (l ++ [x]) = join sep l ++ sep ++ x.
Proof.
  induction l as [|y l IH]; [congruence|]. intros _.
  destruct l as [|z l'].
  - reflexivity.
  - change ((y :: z :: l') ++ [x]) with (y :: ((z :: l') ++ [x])).
    rewrite join_cons_ne by (destruct l'; discriminate).
    rewrite IH by discriminate. rewrite (join_cons_ne sep y (z :: l')) by discriminate.
    rewrite <- !app_assoc. reflexivity.
Qed.
