(* C12 - vocabulary for histories in which the table is handled through
   rendering wrappers.  texttable.TextTable, csv.CSVTable, json.JSONTable,
   html.HTMLTable and markdown.MarkdownTable embed a tabular.Table and are
   themselves tabular.Tables (auto.New / auto.Wrap return one of them for every
   style); a program holds the table under any number of such names at once.
   Facade 0 is the core table itself (what tabular.New() returned), facade
   S i is the i-th wrapper made in the history.  No behaviour is defined here. *)
From Tab Require Export Base.PropsOps.

(* an owner as the program reaches it: every Table method on the way to it
   (SetProperty / GetProperty of the table, Column(n), CellAt) is called on
   facade w *)
Definition vowner := (nat * owner)%type.

Inductive vop :=
| VWrap (kind : nat)        (* wrappers = append(wrappers, <package kind>.Wrap(t)) - or <package>.New(), auto.New(style),
                               auto.Wrap(t, style): every exported constructor of something that is a tabular.Table *)
| VOp (w : nat) (o : op).   (* the op o, every Table method it calls being called on facade w *)

(* the ops of a history, whatever they were called through *)
Definition vop_op (o : vop) : list op := match o with VOp _ x => [x] | VWrap _ => [] end.
Definition vops_ops (l : list vop) : list op := flat_map vop_op l.

(* the ops that take effect: those called on a facade that exists at that
   moment (nw = number of wrappers made so far) *)
Fixpoint vops_effective (nw : nat) (l : list vop) : list op :=
  match l with
  | [] => []
  | VWrap _ :: r => vops_effective (S nw) r
  | VOp w o :: r => if w <=? nw then o :: vops_effective nw r else vops_effective nw r
  end.
