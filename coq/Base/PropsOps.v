(* C12 - vocabulary shared by the model, the spec and the evaluation glue:
   property keys and values, owners, and the op language of set / get / copy /
   growth histories.  No behaviour is defined here. *)
From Tab Require Export Base.Bytes.

(* A Go interface value used as a key is (dynamic type, value); two keys are
   == iff both agree.  So int 1 = (0,1), int64 1 = (1,1), "1" = (2,49), a
   pointer = (3, identity), a struct key = (4, field) are five distinct keys. *)
Definition key := (nat * N)%type.
Definition key_eqb (a b : key) : bool := Nat.eqb (fst a) (fst b) && N.eqb (snd a) (snd b).

Lemma key_eqb_eq a b : key_eqb a b = true <-> a = b.
Proof.
  destruct a as [t x], b as [u y]. unfold key_eqb. cbn [fst snd].
  rewrite andb_true_iff, Nat.eqb_eq, N.eqb_eq. split.
  - intros [-> ->]. reflexivity.
  - intros H. inversion H. auto.
Qed.
Lemma key_eqb_refl a : key_eqb a a = true.
Proof. apply key_eqb_eq. reflexivity. Qed.
Lemma key_eqb_neq a b : key_eqb a b = false <-> a <> b.
Proof.
  split.
  - intros H E. apply key_eqb_eq in E. congruence.
  - intros H. destruct (key_eqb a b) eqn:E; auto. apply key_eqb_eq in E. contradiction.
Qed.
Lemma key_eqb_sym a b : key_eqb a b = key_eqb b a.
Proof.
  destruct (key_eqb a b) eqn:E; symmetry.
  - apply key_eqb_eq in E. subst. apply key_eqb_refl.
  - apply key_eqb_neq in E. apply key_eqb_neq. auto.
Qed.
Lemma key_eq_dec (a b : key) : {a = b} + {a <> b}.
Proof.
  destruct (key_eqb a b) eqn:E.
  - left. apply key_eqb_eq. exact E.
  - right. apply key_eqb_neq. exact E.
Defined.

(* A stored value is a non-nil interface value, identified by a small number;
   "option val" is what GetProperty returns / SetProperty takes (None = nil). *)
Definition val := nat.

(* Who holds properties.  Rows, detached cell copies and handles are named by
   their creation index (ids are never reused). *)
Inductive owner :=
| OTable
| OCol (n : nat)          (* t.Column(n), looked up afresh; 0 = defaults column *)
| OHandle (h : nat)       (* the h-th handle taken earlier by TakeColumn *)
| ORow (r : nat)
| OCell (r c : nat)       (* cell c (0-based) of row r, through CellAt / Cells() *)
| ODet (d : nat).         (* a detached Cell value held by the caller *)

Definition owner_eqb (a b : owner) : bool :=
  match a, b with
  | OTable, OTable => true
  | OCol n, OCol m => Nat.eqb n m
  | OHandle n, OHandle m => Nat.eqb n m
  | ORow n, ORow m => Nat.eqb n m
  | OCell r c, OCell r' c' => Nat.eqb r r' && Nat.eqb c c'
  | ODet n, ODet m => Nat.eqb n m
  | _, _ => false
  end.

Lemma owner_eqb_eq a b : owner_eqb a b = true <-> a = b.
Proof.
  destruct a, b; cbn; try (split; intros H; [discriminate|inversion H]); try tauto;
    try (rewrite Nat.eqb_eq; split; [intros ->; reflexivity | intros H; inversion H; reflexivity]).
  rewrite andb_true_iff, !Nat.eqb_eq. split.
  - intros [-> ->]. reflexivity.
  - intros H. inversion H. auto.
Qed.
Lemma owner_eqb_refl a : owner_eqb a a = true.
Proof. apply owner_eqb_eq. reflexivity. Qed.
Lemma owner_eqb_neq a b : owner_eqb a b = false <-> a <> b.
Proof.
  split.
  - intros H E. apply owner_eqb_eq in E. congruence.
  - intros H. destruct (owner_eqb a b) eqn:E; auto. apply owner_eqb_eq in E. contradiction.
Qed.

Inductive op :=
| SetP (o : owner) (k : key) (v : option val)   (* o.SetProperty(k, v); None = nil *)
| GetP (o : owner) (k : key)                    (* o.GetProperty(k) *)
| CopyCell (o : owner)          (* c2 := *cellPtr: a new detached copy of a cell / of a copy *)
| NewCell                       (* c := tabular.NewCell("x"): a new detached cell *)
| NewRow                        (* r := tabular.NewRow(), not in the table *)
| RowAdd (r d : nat)            (* rows[r].Add(dets[d]) - by value - on a row not yet in the table *)
| AddRow (r : nat)              (* t.AddRow(rows[r]), at most once per row *)
| AddRowItems (n : nat)         (* t.AddRowItems(n items): a new row in the table, grows it to n columns *)
| TakeColumn (n : nat)          (* handles = append(handles, t.Column(n)) *)
| AddHeaders (n : nat)          (* t.AddHeaders(n items): first, repeated, shorter or longer; the table grows to n columns and never shrinks *)
| Touch (o : owner)             (* something done to / around an owner that exists and that is NOT a set: Update() after
                                   mutating the item, String(), a CSV / HTML / JSON render, Headers(), a %#v dump *)
| AddSeparator                  (* t.AddSeparator(): a new row of the table without cells; rows are owners, separators included *)
| NewCellOf (o : owner).        (* c := tabular.NewCell(the cell value): a new detached cell around a cell; its own properties are empty *)

(* Observation after every step: the step's own result, then for every watched
   owner that currently exists (chain length, the value under each key of the
   case's key universe). Values are shipped as 0 = nil, S v = value v. *)
Definition enc (v : option val) : nat := match v with None => 0 | Some x => S x end.
Definition R_OK : nat := 0.
Definition R_INVALID : nat := 99.   (* the op names an owner that does not exist (only after shrinking) *)
Definition R_PANIC : nat := 98.
Definition dump := list (option (nat * list nat)).
Definition stepobs := (nat * dump)%type.

Definition list_nat_eqb := list_eqb Nat.eqb.
Definition entry_eqb (a b : option (nat * list nat)) : bool :=
  match a, b with
  | None, None => true
  | Some (n, l), Some (m, l') => Nat.eqb n m && list_nat_eqb l l'
  | _, _ => false
  end.
Definition stepobs_eqb (a b : stepobs) : bool :=
  Nat.eqb (fst a) (fst b) && list_eqb entry_eqb (snd a) (snd b).
Definition obs_eqb (a b : list stepobs) : bool := list_eqb stepobs_eqb a b.
