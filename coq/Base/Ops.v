(* The op language shared by the core model (Model/Core.v), the history spec
   (Spec/History.v) and the Go harness (harness/c02.go), the observation record
   both sides produce, and its byte encoding.  Small list helpers (assoc, upd)
   with their lemmas.  Stdlib only. *)
From Tab Require Export Base.Bytes.

(* How an op names a row: by the handle the program holds (the result of
   NewRow / NewRowSizedFor / AppendNewRow), or as AllRows()[i] (the only way to
   reach a separator or a row made by AddRowItems). *)
Inductive rref := RName (r : nat) | RIdx (i : nat).

(* Building operations.  A is what a cell carries (an id, a text, a vcell). *)
Inductive op (A : Type) : Type :=
| NewRow (r : nat)                    (* r := tabular.NewRow() *)
| NewRowSizedFor (r : nat)            (* r := t.NewRowSizedFor() *)
| AppendNewRow (r : nat)              (* r := t.AppendNewRow() *)
| RowAdd (ref : rref) (x : A)         (* row.Add(NewCell(x)) *)
| AddRow (r : nat)                    (* t.AddRow(r) *)
| AddRowItems (xs : list A)           (* t.AddRowItems(xs...) *)
| AddSeparator                        (* t.AddSeparator() *)
| AddHeaders (xs : list A)            (* t.AddHeaders(xs...) *)
| MutateAllRowsCopy                   (* rr := t.AllRows(); reverse rr; rr[k] = nil; rr = rr[:0] *)
| OtherAddRow (ref : rref) (k : nat). (* other.AddRow(row) on ANOTHER table, where the row becomes row k *)
Arguments NewRow {A} r.
Arguments NewRowSizedFor {A} r.
Arguments AppendNewRow {A} r.
Arguments RowAdd {A} ref x.
Arguments AddRow {A} r.
Arguments AddRowItems {A} xs.
Arguments AddSeparator {A}.
Arguments AddHeaders {A} xs.
Arguments MutateAllRowsCopy {A}.
Arguments OtherAddRow {A} ref k.

(* ---- association lists keyed by nat; the first binding wins *)
Fixpoint assoc {B} (k : nat) (l : list (nat * B)) : option B :=
  match l with
  | [] => None
  | (k', v) :: r => if k =? k' then Some v else assoc k r
  end.

Lemma assoc_map {B C} (f : B -> C) k (l : list (nat * B)) :
  assoc k (map (fun p => (fst p, f (snd p))) l) = option_map f (assoc k l).
Proof.
  induction l as [|[k' v] l IH]; cbn [map assoc fst snd option_map]; [reflexivity|].
  destruct (k =? k'); [reflexivity | exact IH].
Qed.

Lemma assoc_In {B} k (l : list (nat * B)) v : assoc k l = Some v -> In (k, v) l.
Proof.
  induction l as [|[k' w] l IH]; cbn [assoc]; [discriminate|].
  destruct (k =? k') eqn:E.
  - intros H. inversion H; subst. apply Nat.eqb_eq in E. subst. left. reflexivity.
  - intros H. right. apply IH, H.
Qed.

(* ---- functional update of the i-th element (no change out of range) *)
Fixpoint upd {B} (l : list B) (i : nat) (v : B) : list B :=
  match l, i with
  | [], _ => []
  | _ :: t, 0 => v :: t
  | x :: t, S j => x :: upd t j v
  end.

Lemma upd_length {B} (l : list B) i v : length (upd l i v) = length l.
Proof. revert i; induction l as [|x l IH]; intros [|i]; cbn [upd length]; auto. Qed.

Lemma nth_error_upd_same {B} (l : list B) i v : i < length l -> nth_error (upd l i v) i = Some v.
Proof.
  revert i; induction l as [|x l IH]; intros [|i]; cbn [upd length nth_error]; intros H;
    try lia; [reflexivity | apply IH; lia].
Qed.

Lemma nth_error_upd_other {B} (l : list B) i j v : i <> j -> nth_error (upd l i v) j = nth_error l j.
Proof.
  revert i j; induction l as [|x l IH]; intros [|i] [|j] H; cbn [upd nth_error]; try reflexivity;
    try congruence. apply IH. congruence.
Qed.

Lemma map_upd {B C} (f : B -> C) (l : list B) i v : map f (upd l i v) = upd (map f l) i (f v).
Proof. revert i; induction l as [|x l IH]; intros [|i]; cbn [upd map]; try reflexivity. f_equal. apply IH. Qed.

Lemma upd_split {B} (l : list B) i x v :
  nth_error l i = Some x -> exists l1 l2, l = l1 ++ x :: l2 /\ length l1 = i /\ upd l i v = l1 ++ v :: l2.
Proof.
  revert i; induction l as [|y l IH]; intros [|i]; cbn [nth_error upd]; try discriminate.
  - intros H; inversion H; subst. exists [], l. auto.
  - intros H. destruct (IH _ H) as (l1 & l2 & E1 & E2 & E3).
    exists (y :: l1), l2. cbn [app length]. rewrite E3, <- E1, E2. auto.
Qed.

(* ---- list_max facts *)
Lemma list_max_app l1 l2 : list_max (l1 ++ l2) = Nat.max (list_max l1) (list_max l2).
Proof. induction l1 as [|x l IH]; cbn [app list_max]; [reflexivity | rewrite IH; lia]. Qed.

Lemma list_max_ge l x : In x l -> x <= list_max l.
Proof. induction l as [|y l IH]; cbn [In list_max]; [tauto|]. intros [->|H]; [lia | apply IH in H; lia]. Qed.

(* ---- integer ranges (for the CellAt bounding box and Column(n)) *)
Definition zrange (lo : Z) (n : nat) : list Z := map (fun k => (lo + Z.of_nat k)%Z) (seq 0 n).

(* ---- what one dump of a table shows (harness and Coq produce the same record) *)
Definition ocell := (Z * Z * N)%type.      (* Cell.Location().Row, .Column, identifying item *)

Record orow := mkORow {
  or_sep   : bool;            (* Row.IsSeparator() *)
  or_nil   : bool;            (* Row.Cells() == nil *)
  or_loc   : Z * Z;           (* Row.Location() *)
  or_cells : list ocell       (* Row.Cells(), each with its own Location() *)
}.

Record obs := mkObs {
  o_nrows  : Z;                       (* NRows() *)
  o_ncols  : Z;                       (* NColumns() *)
  o_header : option (list ocell);     (* Headers(); None = nil *)
  o_rows   : list orow;               (* AllRows() in order *)
  o_hits   : list (Z * Z * ocell);    (* every (r,c) of the box [-1..NRows+1] x [-1..W+1], row-major,
                                         for which CellAt returned a cell; W = max(NColumns, longest row) *)
  o_cols   : list bool                (* Column(n) != nil for n = -1 .. NColumns+1 *)
}.

(* byte encoding.  A number is one byte when it is in -5..244 (offset 5), two
   bytes [250+k; b] for 245 + 256k + b up to 1524 (rows of several hundred
   cells, tables of several hundred rows), 255 beyond; lists are prefixed by
   their length in two bytes (base 250). *)
Local Open Scope Z_scope.
Definition enc_z (z : Z) : list N :=
  if (z <? -5) || (1524 <? z) then [255%N]
  else if z <=? 244 then [Z.to_N (z + 5)]
  else [Z.to_N (250 + (z - 245) / 256); Z.to_N ((z - 245) mod 256)].
Definition enc_len (n : nat) : list N := [Z.to_N (Z.of_nat n / 250); Z.to_N (Z.of_nat n mod 250)].
Definition enc_bool (b : bool) : N := if b then 1%N else 0%N.
Definition enc_list {B} (f : B -> list N) (l : list B) : list N := enc_len (length l) ++ flat_map f l.
Definition enc_ocell (c : ocell) : list N := let '(r, k, x) := c in enc_z r ++ enc_z k ++ enc_z (Z.of_N x).
Definition enc_orow (r : orow) : list N :=
  [enc_bool (or_sep r); enc_bool (or_nil r)] ++ enc_z (fst (or_loc r)) ++ enc_z (snd (or_loc r))
  ++ enc_list enc_ocell (or_cells r).
Definition enc_obs (o : obs) : list N :=
  enc_z (o_nrows o) ++ enc_z (o_ncols o)
  ++ match o_header o with None => [0%N] | Some h => 1%N :: enc_list enc_ocell h end
  ++ enc_list enc_orow (o_rows o)
  ++ enc_list (fun h => let '(r, c, x) := h in enc_z r ++ enc_z c ++ enc_ocell x) (o_hits o)
  ++ enc_list (fun b => [enc_bool b]) (o_cols o).
Close Scope Z_scope.
