(* ASCII literals as byte lists, for the HTML model and spec (C06).  Files that
   use it evaluate their literals to plain numeral lists at definition time. *)
From Tab Require Export Base.Bytes.
From Coq Require Strings.String Strings.Ascii.

Definition bytes_of_string (s : String.string) : bytes :=
  map Ascii.N_of_ascii (String.list_ascii_of_string s).
