(* GoText: the prelude of tools/go2coq for texttable/decoration/emit.go and
   strings.go (notes/SOURCE_TIE_3.md).  The data the translated functions read is
   mapped onto the types the hand model (Model/Text.v, Model/Decoration.v) already
   uses, so that the tie theorems compare like with like:

   * the receiver `e emitter` (a struct passed BY VALUE) is the record below:
     colWidths ([]int), decor (a pointer to a Decoration, assumed non-nil; its 22 glyph strings
     and isBoxless are the fields of Model/Decoration.v's `decoration`), eol.
     totalWidth is not read by any translated function and is left out;
   * DividerSet = the triple (Left, Inner, Right) of Model/Text.v;
   * WidthString = wstr (S, W);
   * an align.Alignment interface value = alignment: AlNil (nil), AlKnown ALeft /
     ARight / ACenter (the package variables align.Left / Right / Center: three
     distinct non-nil values, assumed never reassigned), AlUnknown (any other value).

   Stdlib only, no axioms.  Trusted like Base/GoSem.v. *)
From Tab Require Export Model.Text.
From Tab Require Export Base.GoLib.

Record emitter := mkEmitter {
  e_colWidths : list Z;
  e_decor     : decoration;
  e_eol       : bytes
}.

Definition divset : Type := (bytes * bytes * bytes)%type.
Definition mk_DividerSet (l i r : bytes) : divset := (l, i, r).
Definition ds_Left (d : divset) : bytes := fst (fst d).
Definition ds_Inner (d : divset) : bytes := snd (fst d).
Definition ds_Right (d : divset) : bytes := snd d.

(* x == nil *)
Definition al_is_nil (a : alignment) : bool := match a with AlNil => true | _ => false end.
(* x == align.Left (c = ALeft), ... : equality of interface values against one
   of the three package variables *)
Definition align_eqb (a b : align) : bool :=
  match a, b with ALeft, ALeft | ARight, ARight | ACenter, ACenter => true | _, _ => false end.
Definition al_is (a : alignment) (c : align) : bool :=
  match a with AlKnown x => align_eqb x c | _ => false end.
