(* GoLib: the ASSUMED meaning of the few pure standard-library functions that
   tools/go2coq translates as calls (notes/SOURCE_TIE.md).  Each definition is
   the documented behaviour of the Go function, stated once, here; a generated
   file that uses one lists it in its header.  They are trusted like the
   combinators of Base/GoSem.v, and validated like every hand-written model of a
   library function in this tree: by the correspondence runs of the properties
   that use them (C06/C08 compare html.EscapeString's real output byte for byte).
   Stdlib only, no axioms. *)
From Tab Require Export Base.GoSem.

(* html.EscapeString escapes only five characters: <, >, &, the single and the
   double quote, to &lt; &gt; &amp; &#39; &#34; *)
Definition lib_html_esc_byte (b : N) : bytes :=
  if N.eqb b 38 then [38; 97; 109; 112; 59]%N          (* &  -> &amp; *)
  else if N.eqb b 39 then [38; 35; 51; 57; 59]%N       (* sq -> &#39; *)
  else if N.eqb b 60 then [38; 108; 116; 59]%N         (* <  -> &lt;  *)
  else if N.eqb b 62 then [38; 103; 116; 59]%N         (* >  -> &gt;  *)
  else if N.eqb b 34 then [38; 35; 51; 52; 59]%N       (* dq -> &#34; *)
  else [b].
Definition lib_html_EscapeString (s : bytes) : bytes := flat_map lib_html_esc_byte s.

(* strings.Replace(s, old, new, -1) for a pattern of exactly one byte: every
   occurrence, left to right (one-byte matches cannot overlap) *)
Definition lib_strings_Replace1 (old : N) (new s : bytes) : bytes :=
  flat_map (fun b => if N.eqb b old then new else [b]) s.
