(* GoLib: the ASSUMED meaning of the few pure standard-library functions that
   tools/go2coq translates as calls (notes/SOURCE_TIE.md).  Each definition is
   the documented behaviour of the Go function, stated once, here; a generated
   file that uses one lists it in its header.  They are trusted like the
   combinators of Base/GoSem.v, and validated like every hand-written model of a
   library function in this tree: by the correspondence runs of the properties
   that use them (C06/C08 compare html.EscapeString's real output byte for byte).
   Stdlib only, no axioms. *)
From Tab Require Export Base.GoSem.

(* html.EscapeString escapes only five characters: <, >, &, the single and the
   double quote, to &lt; &gt; &amp; &#39; &#34; *)
Definition lib_html_esc_byte (b : N) : bytes :=
  if N.eqb b 38 then [38; 97; 109; 112; 59]%N          (* &  -> &amp; *)
  else if N.eqb b 39 then [38; 35; 51; 57; 59]%N       (* sq -> &#39; *)
  else if N.eqb b 60 then [38; 108; 116; 59]%N         (* <  -> &lt;  *)
  else if N.eqb b 62 then [38; 103; 116; 59]%N         (* >  -> &gt;  *)
  else if N.eqb b 34 then [38; 35; 51; 52; 59]%N       (* dq -> &#34; *)
  else [b].
Definition lib_html_EscapeString (s : bytes) : bytes := flat_map lib_html_esc_byte s.

(* strings.Replace(s, old, new, -1) for a pattern of exactly one byte: every
   occurrence, left to right (one-byte matches cannot overlap) *)
Definition lib_strings_Replace1 (old : N) (new s : bytes) : bytes :=
  flat_map (fun b => if N.eqb b old then new else [b]) s.

(* ================================================================ strings.Repeat, strings.Join,
   make([]string, 0, c)   (notes/SOURCE_TIE_3.md) *)

(* strings.Repeat(s, n): n copies of s; it panics on a negative count.  (It also
   panics when len(s)*n overflows an int: out of scope, int = Z.) *)
Fixpoint lib_repeat_nat (s : bytes) (n : nat) : bytes :=
  match n with O => [] | S k => s ++ lib_repeat_nat s k end.
Definition lib_strings_Repeat (s : bytes) (n : Z) : M bytes :=
  if (n <? 0)%Z then panic else ret (lib_repeat_nat s (Z.to_nat n)).

(* strings.Join(xs, sep): the elements of xs with sep between consecutive ones *)
Fixpoint lib_strings_Join (xs : list bytes) (sep : bytes) : bytes :=
  match xs with
  | [] => []
  | x :: r => match r with [] => x | _ :: _ => x ++ sep ++ lib_strings_Join r sep end
  end.

(* make([]string, 0, c): the empty slice; a negative capacity panics.  The
   capacity itself is dropped (see the header of a generated file that uses it). *)
Definition make_strings_cap (c : Z) : M (list bytes) := if (c <? 0)%Z then panic else ret [].

(* ---- characterisations *)
Lemma lib_repeat_nat_length s n : length (lib_repeat_nat s n) = (n * length s)%nat.
Proof. induction n as [|n IH]; cbn [lib_repeat_nat]; [reflexivity|]. rewrite app_length, IH. reflexivity. Qed.

Lemma lib_repeat_nat_rep s n : lib_repeat_nat s n = rep n s.
Proof. induction n as [|n IH]; cbn [lib_repeat_nat rep]; [reflexivity|]. rewrite IH. reflexivity. Qed.

Lemma lib_repeat_nat_concat s n : lib_repeat_nat s n = concat (repeat s n).
Proof. induction n as [|n IH]; cbn [lib_repeat_nat repeat concat]; [reflexivity|]. rewrite IH. reflexivity. Qed.

Lemma lib_strings_Repeat_neg s n : (n < 0)%Z -> lib_strings_Repeat s n = panic.
Proof. intros H. unfold lib_strings_Repeat. apply Z.ltb_lt in H. rewrite H. reflexivity. Qed.

Lemma lib_strings_Repeat_nonneg s n : (0 <= n)%Z -> lib_strings_Repeat s n = ret (rep (Z.to_nat n) s).
Proof.
  intros H. unfold lib_strings_Repeat. destruct (n <? 0)%Z eqn:E; [apply Z.ltb_lt in E; lia|].
  rewrite lib_repeat_nat_rep. reflexivity.
Qed.

Lemma lib_strings_Join_join xs sep : lib_strings_Join xs sep = join sep xs.
Proof.
  induction xs as [|x r IH]; [reflexivity|]. cbn [lib_strings_Join join]. destruct r; [reflexivity|].
  rewrite IH. reflexivity.
Qed.

Lemma lib_strings_Join_nil xs : lib_strings_Join xs [] = concat xs.
Proof.
  induction xs as [|x r IH]; [reflexivity|]. cbn [lib_strings_Join concat]. destruct r as [|y r].
  - cbn. rewrite app_nil_r. reflexivity.
  - rewrite IH. reflexivity.
Qed.

Lemma make_strings_cap_nonneg c : (0 <= c)%Z -> make_strings_cap c = ret [].
Proof. intros H. unfold make_strings_cap. destruct (c <? 0)%Z eqn:E; [apply Z.ltb_lt in E; lia|reflexivity]. Qed.
