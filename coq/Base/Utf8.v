(* UTF-8 as Go reads and writes it.

   decode1        = utf8.DecodeRuneInString (the `first` / `acceptRanges`
                    tables written out as byte ranges): an ill-formed or
                    truncated sequence yields (U+FFFD, 1), i.e. ONE byte is
                    consumed;
   decode_runes   = `for _, r := range s` / []rune(s);
   rune_count     = utf8.RuneCountInString;
   utf8_of_rune   = string(rune) / utf8.AppendRune: negative values, values
                    above U+10FFFF and surrogates become U+FFFD = EF BF BD.

   A rune is a Z (Go: int32), a byte is an N.  Lists of N with elements above
   255 are a harmless superset of real strings: such an element is an invalid
   lead byte. *)
From Tab Require Export Base.Bytes.

Definition RuneError : Z := 65533.   (* U+FFFD *)
Definition MaxRune : Z := 1114111.   (* U+10FFFF *)

Local Open Scope N_scope.

Definition inr (b lo hi : N) : bool := (lo <=? b) && (b <=? hi).
Definition contb (b : N) : bool := inr b 128 191.

(* For a lead byte: (sequence length, accepted range of the second byte).
   0xC0, 0xC1 (overlong), 0xF5.. and continuation bytes are not lead bytes. *)
Definition lead (b : N) : option (nat * N * N) :=
  if inr b 194 223 then Some (2%nat, 128, 191)
  else if b =? 224 then Some (3%nat, 160, 191)       (* no overlong 3-byte forms *)
  else if inr b 225 236 then Some (3%nat, 128, 191)
  else if b =? 237 then Some (3%nat, 128, 159)       (* no surrogates *)
  else if inr b 238 239 then Some (3%nat, 128, 191)
  else if b =? 240 then Some (4%nat, 144, 191)       (* no overlong 4-byte forms *)
  else if inr b 241 243 then Some (4%nat, 128, 191)
  else if b =? 244 then Some (4%nat, 128, 143)       (* nothing above U+10FFFF *)
  else None.

Definition bad : Z * nat := (RuneError, 1%nat).

(* utf8.DecodeRuneInString: the rune at the front of s and its width in bytes *)
Definition decode1 (s : bytes) : Z * nat :=
  match s with
  | [] => (RuneError, 0%nat)
  | b0 :: t0 =>
    if b0 <? 128 then (Z.of_N b0, 1%nat) else
    match lead b0 with
    | None => bad
    | Some (n, lo, hi) =>
      match t0 with
      | [] => bad
      | b1 :: t1 =>
        if negb (inr b1 lo hi) then bad else
        if (n =? 2)%nat then (Z.of_N ((b0 - 192) * 64 + (b1 - 128)), 2%nat) else
        match t1 with
        | [] => bad
        | b2 :: t2 =>
          if negb (contb b2) then bad else
          if (n =? 3)%nat then (Z.of_N ((b0 - 224) * 4096 + (b1 - 128) * 64 + (b2 - 128)), 3%nat) else
          match t2 with
          | [] => bad
          | b3 :: _ =>
            if negb (contb b3) then bad else
            (Z.of_N ((b0 - 240) * 262144 + (b1 - 128) * 4096 + (b2 - 128) * 64 + (b3 - 128)), 4%nat)
          end
        end
      end
    end
  end.

(* for i < len(s) { r, size := DecodeRuneInString(s[i:]); i += size }.
   The fuel is the number of bytes left, which every step decreases. *)
Fixpoint decode_fuel (f : nat) (s : bytes) : list Z :=
  match f with
  | O => []
  | S f' =>
    match s with
    | [] => []
    | _ :: _ => let '(r, n) := decode1 s in r :: decode_fuel f' (skipn n s)
    end
  end.

Definition decode_runes (s : bytes) : list Z := decode_fuel (length s) s.
Definition rune_count (s : bytes) : nat := length (decode_runes s).

(* ---- encoding *)
Definition valid_rune (r : Z) : bool :=
  (((0 <=? r) && (r <? 55296)) || ((57343 <? r) && (r <=? MaxRune)))%Z.

Definition utf8_of_rune (r : Z) : bytes :=
  if negb (valid_rune r) then [239; 191; 189] else
  let n := Z.to_N r in
  if n <? 128 then [n]
  else if n <? 2048 then [192 + n / 64; 128 + n mod 64]
  else if n <? 65536 then [224 + n / 4096; 128 + (n / 64) mod 64; 128 + n mod 64]
  else [240 + n / 262144; 128 + (n / 4096) mod 64; 128 + (n / 64) mod 64; 128 + n mod 64].

Local Close Scope N_scope.

(* ---- facts about decoding *)

Lemma decode1_size s : s <> [] -> 1 <= snd (decode1 s) <= length s.
Proof.
  destruct s as [|b0 t0]; [congruence|]. intros _. unfold decode1, bad.
  destruct (N.ltb b0 128); [simpl; lia|].
  destruct (lead b0) as [[[n lo] hi]|]; [|simpl; lia].
  destruct t0 as [|b1 t1]; [simpl; lia|].
  destruct (negb (inr b1 lo hi)); [simpl; lia|].
  destruct (n =? 2); [simpl; lia|].
  destruct t1 as [|b2 t2]; [simpl; lia|].
  destruct (negb (contb b2)); [simpl; lia|].
  destruct (n =? 3); [simpl; lia|].
  destruct t2 as [|b3 t3]; [simpl; lia|].
  destruct (negb (contb b3)); simpl; lia.
Qed.

Lemma decode_fuel_indep f1 : forall f2 s, length s <= f1 -> length s <= f2 ->
  decode_fuel f1 s = decode_fuel f2 s.
Proof.
  induction f1 as [|f1 IH]; intros f2 s H1 H2.
  - destruct s; [destruct f2; reflexivity | cbn [length] in H1; lia].
  - destruct s as [|b t]; [destruct f2; reflexivity|].
    destruct f2 as [|f2]; [cbn [length] in H2; lia|].
    cbn [decode_fuel].
    pose proof (decode1_size (b :: t) ltac:(discriminate)) as Hs.
    destruct (decode1 (b :: t)) as [r n]. cbn [snd] in Hs.
    f_equal.
    assert (L : length (skipn n (b :: t)) <= length t).
    { rewrite skipn_length. cbn [length] in *. lia. }
    cbn [length] in H1, H2. apply IH; lia.
Qed.

Lemma decode_fuel_enough f s : length s <= f -> decode_fuel f s = decode_runes s.
Proof. intros H. unfold decode_runes. apply decode_fuel_indep; lia. Qed.

(* the loop, unfolded once *)
Lemma decode_runes_nil : decode_runes [] = [].
Proof. reflexivity. Qed.

Lemma decode_runes_step s : s <> [] ->
  decode_runes s = fst (decode1 s) :: decode_runes (skipn (snd (decode1 s)) s).
Proof.
  intros H. destruct s as [|b t]; [congruence|].
  unfold decode_runes at 1. cbn [length decode_fuel].
  pose proof (decode1_size (b :: t) H) as Hs.
  destruct (decode1 (b :: t)) as [r n]. cbn [fst snd] in *.
  f_equal. apply decode_fuel_enough. rewrite skipn_length. cbn [length] in *. lia.
Qed.

(* utf8.RuneCountInString(s) <= len(s) *)
Lemma rune_count_le_length s : rune_count s <= length s.
Proof.
  unfold rune_count.
  assert (G : forall n s, length s <= n -> length (decode_runes s) <= length s).
  { induction n as [|n IH]; intros s0 H.
    - destruct s0; [simpl; lia | cbn [length] in H; lia].
    - destruct s0 as [|b t]; [simpl; lia|].
      rewrite decode_runes_step by discriminate.
      pose proof (decode1_size (b :: t) ltac:(discriminate)) as Hs.
      set (k := snd (decode1 (b :: t))) in *.
      assert (L : length (skipn k (b :: t)) = length (b :: t) - k) by apply skipn_length.
      specialize (IH (skipn k (b :: t))).
      cbn [length] in *. lia. }
  apply (G (length s)). lia.
Qed.

(* a non-empty string has at least one rune *)
Lemma rune_count_pos s : s <> [] -> 1 <= rune_count s.
Proof. intros H. unfold rune_count. rewrite decode_runes_step by exact H. simpl. lia. Qed.

(* ASCII decodes to itself *)
Lemma decode_runes_ascii b t : (b < 128)%N -> decode_runes (b :: t) = Z.of_N b :: decode_runes t.
Proof.
  intros H. rewrite decode_runes_step by discriminate.
  unfold decode1. apply N.ltb_lt in H. rewrite H. reflexivity.
Qed.
