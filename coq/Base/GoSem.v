(* GoSem: the hand-written prelude of tools/go2coq.

   tools/go2coq translates a documented subset of Go (notes/SOURCE_TIE.md),
   SHALLOWLY, into Gallina terms built from the combinators of this file.  The
   meaning the translator gives to a Go construct is the definition below; this
   file (with the translator) is the trusted reading of the source text.

   * a Go computation is a value of  M A = writes issued so far * outcome,
     outcome = Done (Ok a | Err | Panic) | OutOfFuel.
     Err   = the function returned a non-nil error,
     Panic = a run-time panic (index / slice bound, negative make),
     OutOfFuel = a `for` loop ran past the bound the translator computed for
                 it: a result of its own, which the tie theorems exclude.
   * a destination write (fmt.Fprint / Fprintln / io.WriteString) is ONE entry
     (payload, checked) of the write list, as in Model/Writer.v; `checked` says
     the source returns the write's error at once.  The writes are listed as
     if every one succeeded: which of them fails is decided afterwards by a
     scripted writer (Model/Writer.v: run_writes).
   * statements yield a control outcome: fall through with the live locals
     (Norm), `continue` / `break` with the loop-carried locals, or `return`.
   * int is Z (overflow is out of scope: all lengths are far below 2^63),
     string and []byte are `bytes`, a byte is N.

   Stdlib only, no axioms. *)
From Tab Require Export Base.Bytes Model.View Model.Writer.

(* ---------------------------------------------------------------- outcomes *)
Inductive fres (A : Type) : Type :=
| Done (r : res A)
| OutOfFuel.
Arguments Done {A} r.
Arguments OutOfFuel {A}.
Coercion Done : res >-> fres.

Definition wlist := list (bytes * bool).
Definition M (A : Type) : Type := (wlist * fres A)%type.

Definition ret {A} (a : A) : M A := ([], Done (Ok a)).
Definition fail_err {A} : M A := ([], Done Err).          (* return <non-nil error> *)
Definition panic {A} : M A := ([], Done Panic).
Definition out_of_fuel {A} : M A := ([], OutOfFuel).

Definition mbind {A B} (m : M A) (f : A -> M B) : M B :=
  match m with
  | (w, Done (Ok a)) => let '(w', r) := f a in (w ++ w', r)
  | (w, Done Err) => (w, Done Err)
  | (w, Done Panic) => (w, Done Panic)
  | (w, OutOfFuel) => (w, OutOfFuel)
  end.

(* one Write call on the destination *)
Definition write (p : bytes) (chk : bool) : M unit := ([(p, chk)], Done (Ok tt)).

(* a function without a destination parameter issues no write: its value is
   the outcome alone *)
Definition pure_fn {A} (m : M A) : fres A := snd m.
Definition lift_pure {A} (r : fres A) : M A := ([], r).
Definition lift {A} (r : res A) : M A := ([], Done r).

(* ---------------------------------------------------------------- control *)
Inductive ctl (S L R : Type) : Type :=
| Norm (s : S)      (* fell through; s = the locals the rest of the block reads *)
| Cont (l : L)      (* continue; l = the loop-carried locals *)
| Brk (l : L)       (* break *)
| Ret (r : R).      (* return r *)
Arguments Norm {S L R} s.
Arguments Cont {S L R} l.
Arguments Brk {S L R} l.
Arguments Ret {S L R} r.

(* s1 ; rest *)
Definition sbind {S S' L R} (m : M (ctl S L R)) (k : S -> M (ctl S' L R)) : M (ctl S' L R) :=
  mbind m (fun c => match c with
                    | Norm s => k s
                    | Cont l => ret (Cont l)
                    | Brk l => ret (Brk l)
                    | Ret r => ret (Ret r)
                    end).

(* a whole function body.  Go rejects a result-returning function whose body
   can fall off its end, so Norm is unreachable there; for a function without
   results falling off the end is `return` (fn_body_unit). *)
Definition fn_body {R} (m : M (ctl unit Empty_set R)) : M R :=
  mbind m (fun c => match c with
                    | Ret r => ret r
                    | Norm _ => panic
                    | Cont l | Brk l => match l with end
                    end).
Definition fn_body_unit (m : M (ctl unit Empty_set unit)) : M unit :=
  mbind m (fun c => match c with
                    | Ret r => ret r
                    | Norm _ => ret tt
                    | Cont l | Brk l => match l with end
                    end).

(* ---------------------------------------------------------------- loops *)
(* one trip of `for init; cond; post { body }` from the loop-carried locals l:
   Norm l' = go round again with l', Brk l' = the loop is left with l'. *)
Definition loop_iter {L R} (cond : L -> M bool) (post body : L -> M (ctl L L R)) (l : L) : M (ctl L L R) :=
  mbind (cond l) (fun c =>
    if c : bool then
      mbind (body l) (fun r =>
        match r with
        | Norm l' | Cont l' => post l'
        | Brk l' => ret (Brk l')
        | Ret r => ret (Ret r)
        end)
    else ret (Brk l)).

Definition iter_k {L L' R} (again : L -> M (ctl L L' R)) (r : ctl L L R) : M (ctl L L' R) :=
  match r with
  | Norm l' | Cont l' => again l'
  | Brk l' => ret (Norm l')
  | Ret r => ret (Ret r)
  end.

Fixpoint iterate {L L' R} (fuel : nat) (step : L -> M (ctl L L R)) (l : L) : M (ctl L L' R) :=
  match fuel with
  | O => out_of_fuel
  | S f => mbind (step l) (iter_k (iterate f step))
  end.

Definition for_loop {L L' R} (fuel : nat) (cond : L -> M bool) (post body : L -> M (ctl L L R)) (l : L)
  : M (ctl L L' R) := iterate fuel (loop_iter cond post body) l.

(* the bound the translator supplies for `for ...; x < e; x++`: the trips
   still to go when the loop is entered, plus the last evaluation of cond *)
Definition fuel_upto (x e : Z) : nat := S (Z.to_nat (e - x)).

(* `for _, x := range xs { body }` over a slice: xs is evaluated once, one trip
   per element, in order - structural, no fuel needed *)
Fixpoint range_loop {A L L' R} (xs : list A) (body : A -> L -> M (ctl L L R)) (l : L) : M (ctl L L' R) :=
  match xs with
  | [] => ret (Norm l)
  | x :: r => mbind (body x l) (iter_k (range_loop r body))
  end.

(* ---------------------------------------------------------------- Go operations *)
Local Open Scope Z_scope.

(* x[i] on a string or slice *)
Definition index {A} (l : list A) (i : Z) : M A :=
  if i <? 0 then panic else lift (idx l (Z.to_nat i)).

(* make([]byte, n) *)
Definition make_bytes (n : Z) : M bytes :=
  if n <? 0 then panic else ret (repeat 0%N (Z.to_nat n)).

Fixpoint upd {A} (l : list A) (i : nat) (v : A) : option (list A) :=
  match l, i with
  | [], _ => None
  | _ :: r, O => Some (v :: r)
  | x :: r, S k => option_map (cons x) (upd r k v)
  end.

(* b[i] = v *)
Definition store {A} (l : list A) (i : Z) (v : A) : M (list A) :=
  if i <? 0 then panic else
  match upd l (Z.to_nat i) v with Some l' => ret l' | None => panic end.

(* b[:n] on a buffer whose capacity is its length (make([]byte, n)) *)
Definition slice_to {A} (l : list A) (n : Z) : M (list A) :=
  if (n <? 0) || (Zlen l <? n) then panic else ret (firstn (Z.to_nat n) l).

(* ---------------------------------------------------------------- the ASSUMED table interface
   What a renderer reads of its table, as projections of Model/View.v's view
   (the view IS the table as the renderer sees it once the render callbacks have
   run).  A nil slice is None; used as a slice it is the empty slice. *)
Definition tbl_NColumns (t : view) : Z := Z.of_nat (v_ncols t).
Definition tbl_Headers (t : view) : option (list vcell) := v_header t.
Definition tbl_AllRows (t : view) : list vrow := v_rows t.
Definition tbl_InvokeRenderCallbacks (t : view) : M unit := ret tt.
Definition row_IsSeparator (r : vrow) : bool := match r with None => true | Some _ => false end.
Definition row_Cells (r : vrow) : option (list vcell) := r.
Definition cell_String (c : vcell) : bytes := vc_text c.
Definition not_nil {A} (o : option A) : bool := match o with Some _ => true | None => false end.
Definition slice_of {A} (o : option (list A)) : list A := match o with Some l => l | None => [] end.

(* ================================================================ laws *)
Lemma mbind_ret_l {A B} (a : A) (f : A -> M B) : mbind (ret a) f = f a.
Proof. unfold mbind, ret. destruct (f a). reflexivity. Qed.

Lemma mbind_ret_r {A} (m : M A) : mbind m ret = m.
Proof.
  destruct m as [w [[a| |]|]]; cbn; try reflexivity. rewrite app_nil_r. reflexivity.
Qed.

Lemma mbind_assoc {A B C} (m : M A) (f : A -> M B) (g : B -> M C) :
  mbind (mbind m f) g = mbind m (fun a => mbind (f a) g).
Proof.
  destruct m as [w [[a| |]|]]; cbn; try reflexivity.
  destruct (f a) as [w' [[b| |]|]]; cbn; try reflexivity.
  destruct (g b) as [w'' r]. rewrite app_assoc. reflexivity.
Qed.

Lemma mbind_ok {A B} w (a : A) (f : A -> M B) :
  mbind (w, Done (Ok a)) f = (w ++ fst (f a), snd (f a)).
Proof. cbn. destruct (f a). reflexivity. Qed.

Lemma mbind_write {B} p c (f : unit -> M B) :
  mbind (write p c) f = ((p, c) :: fst (f tt), snd (f tt)).
Proof. unfold write. rewrite mbind_ok. reflexivity. Qed.

Lemma sbind_norm {S S' L R} (s : S) (k : S -> M (ctl S' L R)) : sbind (ret (Norm s)) k = k s.
Proof. unfold sbind. rewrite mbind_ret_l. reflexivity. Qed.

(* ---- operations on the shapes loop invariants use *)
Lemma Zlen_app {A} (a b : list A) : Zlen (a ++ b) = Zlen a + Zlen b.
Proof. unfold Zlen. rewrite app_length. lia. Qed.

Lemma Zlen_cons {A} (x : A) l : Zlen (x :: l) = 1 + Zlen l.
Proof. unfold Zlen. cbn [length]. lia. Qed.

Lemma Zlen_nonneg {A} (l : list A) : 0 <= Zlen l.
Proof. unfold Zlen. lia. Qed.

Lemma index_app {A} (done rest : list A) x i :
  i = Zlen done -> index (done ++ x :: rest) i = ret x.
Proof.
  intros ->. unfold index, Zlen. destruct (Z.of_nat (length done) <? 0) eqn:E; [apply Z.ltb_lt in E; lia|].
  rewrite Nat2Z.id. unfold idx. rewrite nth_error_app2 by lia. rewrite Nat.sub_diag. reflexivity.
Qed.

Lemma index_nat {A} (l : list A) (k : nat) x :
  nth_error l k = Some x -> index l (Z.of_nat k) = ret x.
Proof.
  intros H. unfold index. destruct (Z.of_nat k <? 0) eqn:E; [apply Z.ltb_lt in E; lia|].
  rewrite Nat2Z.id. unfold idx. rewrite H. reflexivity.
Qed.

Lemma upd_app {A} (pre pad : list A) y v : upd (pre ++ y :: pad) (length pre) v = Some (pre ++ v :: pad).
Proof. induction pre as [|p pre IH]; cbn [app length upd]; [reflexivity|]. rewrite IH. reflexivity. Qed.

Lemma store_app {A} (pre pad : list A) y v i :
  i = Zlen pre -> store (pre ++ y :: pad) i v = ret (pre ++ v :: pad).
Proof.
  intros ->. unfold store, Zlen. destruct (Z.of_nat (length pre) <? 0) eqn:E; [apply Z.ltb_lt in E; lia|].
  rewrite Nat2Z.id, upd_app. reflexivity.
Qed.

Lemma slice_to_app {A} (pre pad : list A) n :
  n = Zlen pre -> slice_to (pre ++ pad) n = ret pre.
Proof.
  intros ->. unfold slice_to. rewrite Zlen_app.
  destruct (Zlen pre <? 0) eqn:E; [apply Z.ltb_lt in E; pose proof (Zlen_nonneg pre); lia|].
  destruct (Zlen pre + Zlen pad <? Zlen pre) eqn:E2; [apply Z.ltb_lt in E2; pose proof (Zlen_nonneg pad); lia|].
  cbn [orb]. unfold Zlen. rewrite Nat2Z.id, firstn_app, Nat.sub_diag, firstn_all. cbn [firstn]. rewrite app_nil_r. reflexivity.
Qed.

(* ---- loop rules.  Inv n l ws o: "from the loop-carried locals l, n more
   trips go round; what is still to be written is ws and the loop ends as o". *)
Section IterateRule.
  Context {L L' R : Type} (step : L -> M (ctl L L R)).
  Variable Inv : nat -> L -> wlist -> fres (ctl L L' R) -> Prop.
  Hypothesis Hstop : forall l ws o, Inv 0 l ws o ->
    forall k : L -> M (ctl L L' R), mbind (step l) (iter_k k) = (ws, o).
  Hypothesis Hgo : forall n l ws o, Inv (S n) l ws o ->
    exists w l' ws', (step l = (w, Done (Ok (Norm l'))) \/ step l = (w, Done (Ok (Cont l'))))
                     /\ ws = w ++ ws' /\ Inv n l' ws' o.

  Lemma iterate_rule n : forall l ws o fuel, Inv n l ws o -> (n < fuel)%nat -> iterate fuel step l = (ws, o).
  Proof.
    induction n as [|n IH]; intros l ws o fuel HI Hf; (destruct fuel as [|f]; [lia|]); cbn [iterate].
    - apply Hstop. exact HI.
    - destruct (Hgo _ _ _ _ HI) as (w & l' & ws' & Hs & -> & HI').
      assert (E : mbind (step l) (iter_k (iterate (L':=L') f step)) = (w ++ fst (iterate (L':=L') f step l'), snd (iterate (L':=L') f step l'))).
      { destruct Hs as [-> | ->]; rewrite mbind_ok; reflexivity. }
      rewrite E, (IH l' ws' o f HI') by lia. reflexivity.
  Qed.
End IterateRule.

Section RangeRule.
  Context {A L L' R : Type} (body : A -> L -> M (ctl L L R)).
  Variable Inv : list A -> L -> wlist -> fres (ctl L L' R) -> Prop.
  Hypothesis Hnil : forall l ws o, Inv [] l ws o -> ws = [] /\ o = Done (Ok (Norm l)).
  Hypothesis Hcons : forall x xs l ws o, Inv (x :: xs) l ws o ->
    (exists w l' ws', (body x l = (w, Done (Ok (Norm l'))) \/ body x l = (w, Done (Ok (Cont l'))))
                      /\ ws = w ++ ws' /\ Inv xs l' ws' o)
    \/ (forall k : L -> M (ctl L L' R), mbind (body x l) (iter_k k) = (ws, o)).

  Lemma range_rule xs : forall l ws o, Inv xs l ws o -> range_loop xs body l = (ws, o).
  Proof.
    induction xs as [|x xs IH]; intros l ws o HI; cbn [range_loop].
    - destruct (Hnil _ _ _ HI) as [-> ->]. reflexivity.
    - destruct (Hcons _ _ _ _ _ HI) as [(w & l' & ws' & Hs & -> & HI') | Hstop].
      + assert (E : mbind (body x l) (iter_k (range_loop (L':=L') xs body)) = (w ++ fst (range_loop (L':=L') xs body l'), snd (range_loop (L':=L') xs body l'))).
        { destruct Hs as [-> | ->]; rewrite mbind_ok; reflexivity. }
        rewrite E, (IH l' ws' o HI'). reflexivity.
      + apply Hstop.
  Qed.
End RangeRule.

(* the same, with the shape of the list and the position as side conditions
   (for erewrite) *)
Lemma index_at {A} (l : list A) i done x rest :
  l = done ++ x :: rest -> i = Zlen done -> index l i = ret x.
Proof. intros -> ->. apply index_app. reflexivity. Qed.

Lemma store_at {A} (l : list A) i v pre y pad :
  l = pre ++ y :: pad -> i = Zlen pre -> store l i v = ret (pre ++ v :: pad).
Proof. intros -> ->. apply store_app. reflexivity. Qed.

Lemma slice_to_at {A} (l : list A) n pre pad :
  l = pre ++ pad -> n = Zlen pre -> slice_to l n = ret pre.
Proof. intros -> ->. apply slice_to_app. reflexivity. Qed.

Lemma make_bytes_nat n : make_bytes (Z.of_nat n) = ret (repeat 0%N n).
Proof.
  unfold make_bytes. destruct (Z.of_nat n <? 0) eqn:E; [apply Z.ltb_lt in E; lia|]. rewrite Nat2Z.id. reflexivity.
Qed.

Lemma fuel_upto_gt x e n : e - x <= Z.of_nat n -> (n < fuel_upto x e)%nat \/ (Z.to_nat (e - x) < fuel_upto x e)%nat.
Proof. intros _. right. unfold fuel_upto. lia. Qed.

(* ---- writes accumulated in front of a computation *)
Definition pre_w {A} (w : wlist) (m : M A) : M A := (w ++ fst m, snd m).

Lemma mbind_ok' {A B} w (a : A) (f : A -> M B) : mbind (w, Done (Ok a)) f = pre_w w (f a).
Proof. apply mbind_ok. Qed.
Lemma sbind_ok {S S' L R} w (s : S) (k : S -> M (ctl S' L R)) : sbind (w, Done (Ok (Norm s))) k = pre_w w (k s).
Proof. unfold sbind. rewrite mbind_ok'. reflexivity. Qed.
Lemma mbind_write' {B} p c (f : unit -> M B) : mbind (write p c) f = pre_w [(p, c)] (f tt).
Proof. unfold write. apply mbind_ok'. Qed.
Lemma mbind_pre_w {A B} w (m : M A) (f : A -> M B) : mbind (pre_w w m) f = pre_w w (mbind m f).
Proof.
  destruct m as [w' [[a| |]|]]; unfold pre_w; cbn; try reflexivity.
  destruct (f a) as [w'' r]. cbn. rewrite app_assoc. reflexivity.
Qed.
Lemma sbind_pre_w {S S' L R} w (m : M (ctl S L R)) (k : S -> M (ctl S' L R)) : sbind (pre_w w m) k = pre_w w (sbind m k).
Proof. unfold sbind. apply mbind_pre_w. Qed.
Lemma pre_w_eq {A} w (m : M A) w' r : m = (w', r) -> pre_w w m = (w ++ w', r).
Proof. intros ->. reflexivity. Qed.
Lemma pre_w_nil {A} (m : M A) : pre_w [] m = m.
Proof. destruct m. reflexivity. Qed.
Lemma lift_pure_ok {A} (a : A) : lift_pure (Done (Ok a)) = ret a.
Proof. reflexivity. Qed.

Lemma skipn_nth {A} (l : list A) j a : nth_error l j = Some a -> skipn j l = a :: skipn (S j) l.
Proof.
  revert j. induction l as [|x l IH]; intros [|j] H; try discriminate.
  - inversion H. reflexivity.
  - cbn [nth_error] in H. rewrite (skipn_cons j x l). rewrite (IH j H). reflexivity.
Qed.

Lemma checked_app a b : checked (a ++ b) = checked a ++ checked b.
Proof. apply map_app. Qed.
Lemma checked_repeat x n : checked (repeat x n) = repeat (x, true) n.
Proof. induction n; cbn; [reflexivity | f_equal; exact IHn]. Qed.
Lemma all_checked_checked l : all_checked (checked l).
Proof. unfold all_checked, checked. apply Forall_forall. intros w H. apply in_map_iff in H as (p & <- & _). reflexivity. Qed.

(* ================================================================ extensions
   for length/length.go and error_containers.go (notes/SOURCE_TIE_2.md).

   EXTERNAL functions the translated sources call:
   * strings.Split(s, sep) for a separator of ONE byte b: the maximal b-free
     pieces of s, in order.  The definition below is the trusted reading; its
     characterisation (never empty, no piece contains b, joining the pieces with
     b gives s back, and it is the ONLY such list) is proved right after it.
   * utf8.RuneCountInString = rune_count of Base/Utf8.v (Go's decoder).
   * runewidth.StringWidth is NOT defined: a parameter of the generated definitions. *)
From Tab Require Import Base.Utf8.

Fixpoint strings_Split1 (s : bytes) (sep : N) : list bytes :=
  match s with
  | [] => [[]]
  | b :: r =>
      if N.eqb b sep then [] :: strings_Split1 r sep
      else match strings_Split1 r sep with
           | [] => [[b]]                 (* unreachable: never empty *)
           | l :: ls => (b :: l) :: ls
           end
  end.

Lemma strings_Split1_nonempty s sep : strings_Split1 s sep <> [].
Proof.
  induction s as [|b r IH]; cbn [strings_Split1]; [discriminate|].
  destruct (N.eqb b sep); [discriminate|]. destruct (strings_Split1 r sep); discriminate.
Qed.

Lemma strings_Split1_join s sep : join [sep] (strings_Split1 s sep) = s.
Proof.
  induction s as [|b r IH]; [reflexivity|]. cbn [strings_Split1].
  destruct (N.eqb b sep) eqn:Eb.
  - apply N.eqb_eq in Eb. subst b.
    rewrite join_cons_ne by apply strings_Split1_nonempty. rewrite IH. reflexivity.
  - pose proof (strings_Split1_nonempty r sep) as Hne.
    destruct (strings_Split1 r sep) as [|l ls]; [congruence|].
    destruct ls as [|l2 ls].
    + cbn in *. congruence.
    + rewrite join_cons_ne by discriminate. rewrite join_cons_ne in IH by discriminate.
      rewrite <- IH. reflexivity.
Qed.

Lemma strings_Split1_no_sep s sep : Forall (fun l => ~ In sep l) (strings_Split1 s sep).
Proof.
  induction s as [|b r IH]; cbn [strings_Split1].
  - constructor; [intros []|constructor].
  - destruct (N.eqb b sep) eqn:Eb.
    + constructor; [intros []|exact IH].
    + destruct (strings_Split1 r sep) as [|l ls]; [constructor; [|constructor]|].
      * intros [H|[]]. subst. rewrite N.eqb_refl in Eb. discriminate.
      * inversion IH; subst. constructor; [|assumption].
        intros [H|H]; [subst; rewrite N.eqb_refl in Eb; discriminate | contradiction].
Qed.

(* ... and it is the only list with these three properties *)
Lemma strings_Split1_unique sep ps : ps <> [] -> Forall (fun l => ~ In sep l) ps ->
  strings_Split1 (join [sep] ps) sep = ps.
Proof.
  induction ps as [|p ps IH]; [congruence|]. intros _ Hf. inversion Hf as [|? ? Hp Hps]; subst.
  destruct ps as [|q ps].
  - rewrite join_single. clear IH Hf Hps. induction p as [|b p IHp]; [reflexivity|].
    cbn [strings_Split1]. destruct (N.eqb b sep) eqn:Eb.
    + apply N.eqb_eq in Eb. subst. exfalso. apply Hp. left. reflexivity.
    + rewrite IHp; [reflexivity|]. intros H. apply Hp. right. exact H.
  - rewrite join_cons_ne by discriminate. specialize (IH ltac:(discriminate) Hps).
    clear Hf. change ([sep] ++ join [sep] (q :: ps)) with (sep :: join [sep] (q :: ps)).
    induction p as [|b p IHp].
    + cbn [app strings_Split1]. rewrite N.eqb_refl. rewrite IH. reflexivity.
    + cbn [app strings_Split1]. destruct (N.eqb b sep) eqn:Eb.
      * apply N.eqb_eq in Eb. subst. exfalso. apply Hp. left. reflexivity.
      * rewrite IHp; [reflexivity|]. intros H. apply Hp. right. exact H.
Qed.

Definition utf8_RuneCountInString (s : bytes) : Z := Z.of_nat (rune_count s).

(* `for i := range xs`: the indices of xs as it is when the loop is entered *)
Definition range_idx {A} (xs : list A) : list Z := map Z.of_nat (seq 0 (length xs)).

(* error values, []error, pointers *)
Definition goerror : Type := option N.      (* None = nil; Some k = an opaque non-nil error *)
Definition append1 {A} (s : option (list A)) (x : A) : option (list A) := Some (slice_of s ++ [x]).
Definition deref {A} (p : option A) : M A := match p with Some a => ret a | None => panic end.

Lemma deref_some {A} (a : A) : deref (Some a) = ret a.
Proof. reflexivity. Qed.

(* a range-over-indices loop whose body, at index k holding x, does nothing but
   turn the carried locals l into f x l, is a fold *)
Lemma range_idx_fold {A L L' R} (xs : list A) (body : Z -> L -> M (ctl L L R)) (f : A -> L -> L) :
  (forall k x l, nth_error xs k = Some x -> body (Z.of_nat k) l = ret (Norm (f x l))) ->
  forall l, range_loop (L':=L') (range_idx xs) body l = ret (Norm (fold_left (fun l x => f x l) xs l)).
Proof.
  intros Hb. unfold range_idx.
  assert (G : forall rest pre l, xs = pre ++ rest ->
            range_loop (L':=L') (map Z.of_nat (seq (length pre) (length rest))) body l
            = ret (Norm (fold_left (fun l x => f x l) rest l))).
  { induction rest as [|x rest IH]; intros pre l E; cbn [length seq map range_loop fold_left]; [reflexivity|].
    rewrite (Hb (length pre) x l).
    - rewrite mbind_ret_l. cbn [iter_k].
      specialize (IH (pre ++ [x]) (f x l)). rewrite app_length in IH. cbn [length] in IH.
      rewrite Nat.add_1_r in IH. apply IH. rewrite <- app_assoc. exact E.
    - rewrite E, nth_error_app2 by lia. rewrite Nat.sub_diag. reflexivity. }
  intros l. apply (G xs [] l). reflexivity.
Qed.

Lemma index_last {A} (l : list A) x : index (l ++ [x]) (Zlen (l ++ [x]) - 1) = ret x.
Proof. apply index_app. rewrite Zlen_app. unfold Zlen. cbn [length]. lia. Qed.

Lemma slice_to_last {A} (l : list A) x : slice_to (l ++ [x]) (Zlen (l ++ [x]) - 1) = ret l.
Proof. apply slice_to_app. rewrite Zlen_app. unfold Zlen. cbn [length]. lia. Qed.
