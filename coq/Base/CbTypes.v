(* Vocabulary shared by the callback model (Model/Callbacks.v) and the callback
   specification (Spec/CbTrace.v): owners, times, targets, target identities,
   events, and the operation language of a build history.  Only data types and
   their decidable equalities live here; nothing behavioural. *)
From Tab Require Export Base.Bytes.

(* the four kinds of PropertyOwner a callback can be registered upon *)
Inductive okind := KTable | KColumn | KRow | KCell.

(* a concrete owner.  Rows are named by allocation id (index in the row store,
   header rows and separators included); a cell by its row id and its 1-based
   column number (Cell.columnNum); a column by its number, 0 = the defaults
   column. *)
Inductive owner :=
| OTable
| OColumn (n : nat)
| ORow (r : nat)
| OCell (r c : nat).

Definition kind (o : owner) : okind :=
  match o with OTable => KTable | OColumn _ => KColumn | ORow _ => KRow | OCell _ _ => KCell end.

(* callbackTime: CB_AT_ADD, CB_AT_RENDER_PRECELL, CB_AT_RENDER, CB_AT_RENDER_POSTCELL *)
Inductive ctime := TAdd | TPre | TRender | TPost.

(* cbTarget: CB_ON_ITSELF, CB_ON_CELL, CB_ON_ROW *)
Inductive target := GItself | GCell | GRow.

(* identity of the object handed to a callback.  XUnknown only ever appears in
   observations of the implementation ("an object that is none of the table's
   own"); neither model nor specification produce it. *)
Inductive tgt :=
| XTable
| XCol (n : nat)
| XRow (r : nat)
| XCell (r c : nat)
| XUnknown.

(* one callback invocation: (callback id, identity of the object it received) *)
Definition event := (nat * tgt)%type.

(* build history.  Row ids are allocated in order by ONewRow, OAppendNewRow,
   OAddRowItems, OAddSeparator and OAddHeaders. *)
Inductive op :=
| ONewRow                         (* r := tabular.NewRow() *)
| ORowAdd (r : nat)               (* rows[r].Add(NewCell(..)) *)
| OAddRow (r : nat)               (* t.AddRow(rows[r]) *)
| OAppendNewRow                   (* r := t.AppendNewRow() *)
| OAddRowItems (n : nat)          (* t.AddRowItems(n items) *)
| OAddSeparator                   (* t.AddSeparator() *)
| OAddHeaders (n : nat)           (* t.AddHeaders(n items) *)
| ORegister (o : owner) (tm : ctime) (g : target) (cb : nat)    (* t.RegisterPropertyCallback(o, tm, g, recorder cb) *)
| OOtherAddRow (r : nat).         (* other.AddRow(rows[r]): ANOTHER table takes the row too (rows are shared by pointer) *)

(* l[i] = x for an index known to be in range (the callers check with idx first) *)
Fixpoint set_nth {A} (l : list A) (i : nat) (x : A) : list A :=
  match l, i with
  | [], _ => []
  | _ :: r, 0 => x :: r
  | y :: r, S k => y :: set_nth r k x
  end.

(* ---- decidable equalities *)
Definition okind_eqb (a b : okind) : bool :=
  match a, b with KTable, KTable | KColumn, KColumn | KRow, KRow | KCell, KCell => true | _, _ => false end.

Definition owner_eqb (a b : owner) : bool :=
  match a, b with
  | OTable, OTable => true
  | OColumn n, OColumn m => n =? m
  | ORow r, ORow s => r =? s
  | OCell r c, OCell s d => (r =? s) && (c =? d)
  | _, _ => false
  end.

Definition ctime_eqb (a b : ctime) : bool :=
  match a, b with TAdd, TAdd | TPre, TPre | TRender, TRender | TPost, TPost => true | _, _ => false end.

Definition target_eqb (a b : target) : bool :=
  match a, b with GItself, GItself | GCell, GCell | GRow, GRow => true | _, _ => false end.

Definition tgt_eqb (a b : tgt) : bool :=
  match a, b with
  | XTable, XTable => true
  | XCol n, XCol m => n =? m
  | XRow r, XRow s => r =? s
  | XCell r c, XCell s d => (r =? s) && (c =? d)
  | XUnknown, XUnknown => true
  | _, _ => false
  end.

Definition event_eqb (a b : event) : bool := (fst a =? fst b) && tgt_eqb (snd a) (snd b).

Lemma owner_eqb_eq a b : owner_eqb a b = true <-> a = b.
Proof.
  destruct a, b; simpl; split; intros H; try discriminate; try reflexivity;
    try (apply andb_true_iff in H as [H1 H2]; apply Nat.eqb_eq in H1, H2; congruence);
    try (apply Nat.eqb_eq in H; congruence);
    try (inversion H; subst; rewrite ?Nat.eqb_refl; reflexivity).
Qed.

Lemma ctime_eqb_eq a b : ctime_eqb a b = true <-> a = b.
Proof. destruct a, b; simpl; split; intros H; try discriminate; reflexivity. Qed.

Lemma target_eqb_eq a b : target_eqb a b = true <-> a = b.
Proof. destruct a, b; simpl; split; intros H; try discriminate; reflexivity. Qed.

Lemma tgt_eqb_eq a b : tgt_eqb a b = true <-> a = b.
Proof.
  destruct a, b; simpl; split; intros H; try discriminate; try reflexivity;
    try (apply andb_true_iff in H as [H1 H2]; apply Nat.eqb_eq in H1, H2; congruence);
    try (apply Nat.eqb_eq in H; congruence);
    try (inversion H; subst; rewrite ?Nat.eqb_refl; reflexivity).
Qed.

Lemma event_eqb_eq a b : event_eqb a b = true <-> a = b.
Proof.
  destruct a as [a x], b as [b y]; unfold event_eqb; simpl. split; intros H.
  - apply andb_true_iff in H as [H1 H2]. apply Nat.eqb_eq in H1. apply tgt_eqb_eq in H2. congruence.
  - inversion H; subst. rewrite Nat.eqb_refl. apply tgt_eqb_eq. reflexivity.
Qed.

Lemma tgt_eq_dec (a b : tgt) : {a = b} + {a <> b}.
Proof. decide equality; apply Nat.eq_dec. Defined.

Lemma event_eq_dec (a b : event) : {a = b} + {a <> b}.
Proof. decide equality; [apply tgt_eq_dec | apply Nat.eq_dec]. Defined.
