(* What C06 says, written without reference to the model:

   1. a strict lexer for the only three things the output may consist of,
        open tag   <name( attr=QvalueQ)*>      (Q = the double quote)
        close tag  </name>
        text
      as a byte-level state machine run by fold_left (structural, no fuel).
      Names are non-empty runs of a-z.  Exactly one space before an attribute,
      no space anywhere else inside a tag.  Raw text and attribute values may
      not contain NUL, the double quote, the single quote, < or > (a < in text
      starts a tag); anything else is a lexing error;
   2. a strict entity decoder: an & must start one of the six entities the
      html/template escaper can emit (amp lt gt #34 #39 #43), anything else is
      an error; every other byte, invalid UTF-8 included, stands for itself;
   3. the comparison form: the text directly after an opening th / td /
      caption tag is that element's content and is always kept (even empty);
      any other text is dropped when it consists of white space only and kept
      otherwise (so stray text can never go unnoticed);
   4. skeleton: the token list the table must produce, built from the inputs. *)
From Tab Require Export Base.HtmlLit.

Inductive tok :=
| TOpen (name : bytes) (attrs : list (bytes * bytes))
| TClose (name : bytes)
| TText (s : bytes).

(* ------------------------------------------------------------------ lexer *)

Definition is_name_char (b : N) : bool := (97 <=? b)%N && (b <=? 122)%N.

(* bytes that may appear raw in text and in a quoted attribute value *)
Definition raw_ok (b : N) : bool :=
  negb (N.eqb b 0 || N.eqb b 34 || N.eqb b 39 || N.eqb b 60 || N.eqb b 62).

Inductive lmode :=
| LText                                                   (* between tags *)
| LLt                                                     (* saw < *)
| LOpenName (name : bytes)                                (* in <name *)
| LSpace (name : bytes) (attrs : list (bytes * bytes))    (* saw the space before an attribute *)
| LAttrName (name : bytes) (attrs : list (bytes * bytes)) (an : bytes)
| LEq (name : bytes) (attrs : list (bytes * bytes)) (an : bytes)        (* saw = *)
| LVal (name : bytes) (attrs : list (bytes * bytes)) (an v : bytes)     (* inside the quotes *)
| LAfterVal (name : bytes) (attrs : list (bytes * bytes))               (* after the closing quote *)
| LCloseName (name : bytes)                               (* in </name *)
| LFail.

Record lst := mkL {
  l_toks : list tok;   (* completed tokens; a TText (possibly empty) precedes every tag *)
  l_text : bytes;      (* raw text since the last tag *)
  l_mode : lmode
}.

Definition lex_init : lst := mkL [] [] LText.

Definition lex_step (s : lst) (b : N) : lst :=
  let go m := mkL (l_toks s) (l_text s) m in
  let emit t := mkL (l_toks s ++ [TText (l_text s); t]) [] LText in
  match l_mode s with
  | LFail => s
  | LText =>
      if N.eqb b 60 then go LLt
      else if raw_ok b then mkL (l_toks s) (l_text s ++ [b]) LText
      else go LFail
  | LLt =>
      if N.eqb b 47 then go (LCloseName [])
      else if is_name_char b then go (LOpenName [b])
      else go LFail
  | LOpenName n =>
      if is_name_char b then go (LOpenName (n ++ [b]))
      else if N.eqb b 32 then go (LSpace n [])
      else if N.eqb b 62 then emit (TOpen n [])
      else go LFail
  | LSpace n a =>
      if is_name_char b then go (LAttrName n a [b]) else go LFail
  | LAttrName n a an =>
      if is_name_char b then go (LAttrName n a (an ++ [b]))
      else if N.eqb b 61 then go (LEq n a an)
      else go LFail
  | LEq n a an =>
      if N.eqb b 34 then go (LVal n a an []) else go LFail
  | LVal n a an v =>
      if N.eqb b 34 then go (LAfterVal n (a ++ [(an, v)]))
      else if raw_ok b then go (LVal n a an (v ++ [b]))
      else go LFail
  | LAfterVal n a =>
      if N.eqb b 32 then go (LSpace n a)
      else if N.eqb b 62 then emit (TOpen n a)
      else go LFail
  | LCloseName n =>
      if is_name_char b then go (LCloseName (n ++ [b]))
      else if N.eqb b 62 then
        match n with [] => go LFail | _ => emit (TClose n) end
      else go LFail
  end.

Definition lex_run (s : lst) (input : bytes) : lst := fold_left lex_step input s.

(* raw tokens: text and attribute values still entity-encoded *)
Definition lex (input : bytes) : option (list tok) :=
  let s := lex_run lex_init input in
  match l_mode s with
  | LText => Some (l_toks s ++ [TText (l_text s)])
  | _ => None
  end.

(* --------------------------------------------------------- entity decoder *)

(* entity body after the ampersand, and the byte it stands for *)
Definition entities : list (bytes * N) :=
  [ ([97; 109; 112; 59], 38);   (* amp; *)
    ([108; 116; 59], 60);       (* lt; *)
    ([103; 116; 59], 62);       (* gt; *)
    ([35; 51; 52; 59], 34);     (* #34; *)
    ([35; 51; 57; 59], 39);     (* #39; *)
    ([35; 52; 51; 59], 43) ]%N. (* #43; *)

Fixpoint is_prefix (p s : bytes) : bool :=
  match p, s with
  | [], _ => true
  | x :: p', y :: s' => N.eqb x y && is_prefix p' s'
  | _ :: _, [] => false
  end.

Inductive ent_res := EComplete (c : N) | EPartial | EBad.

Definition ent_lookup (p : bytes) : ent_res :=
  match find (fun e => bytes_eqb (fst e) p) entities with
  | Some e => EComplete (snd e)
  | None => if existsb (fun e => is_prefix p (fst e)) entities then EPartial else EBad
  end.

(* state: None = error; Some (decoded so far, bytes seen since a pending &) *)
Definition dstate := option (bytes * option bytes).

Definition dec_step (st : dstate) (b : N) : dstate :=
  match st with
  | None => None
  | Some (out, None) =>
      if N.eqb b 38 then Some (out, Some []) else Some (out ++ [b], None)
  | Some (out, Some p) =>
      match ent_lookup (p ++ [b]) with
      | EComplete c => Some (out ++ [c], None)
      | EPartial => Some (out, Some (p ++ [b]))
      | EBad => None
      end
  end.

Definition dec_run (st : dstate) (s : bytes) : dstate := fold_left dec_step s st.

Definition decode (s : bytes) : option bytes :=
  match dec_run (Some ([], None)) s with
  | Some (out, None) => Some out
  | _ => None
  end.

Fixpoint decode_attrs (a : list (bytes * bytes)) : option (list (bytes * bytes)) :=
  match a with
  | [] => Some []
  | (n, v) :: r =>
      match decode v, decode_attrs r with
      | Some v', Some r' => Some ((n, v') :: r')
      | _, _ => None
      end
  end.

Definition decode_tok (t : tok) : option tok :=
  match t with
  | TOpen n a => option_map (TOpen n) (decode_attrs a)
  | TClose n => Some (TClose n)
  | TText s => option_map TText (decode s)
  end.

Fixpoint decode_toks (ts : list tok) : option (list tok) :=
  match ts with
  | [] => Some []
  | t :: r =>
      match decode_tok t, decode_toks r with
      | Some t', Some r' => Some (t' :: r')
      | _, _ => None
      end
  end.

(* ------------------------------------------- what acceptance means (used
   only to state that the two parsers above are faithful, Props/C06.v) *)

(* the printed form of raw tokens *)
Definition ser_attr (a : bytes * bytes) : bytes := ([32] ++ fst a ++ [61; 34] ++ snd a ++ [34])%N.

Definition ser_tok (t : tok) : bytes :=
  match t with
  | TOpen n a => [60] ++ n ++ flat_map ser_attr a ++ [62]
  | TClose n => [60; 47] ++ n ++ [62]
  | TText s => s
  end%N.

Definition ser (ts : list tok) : bytes := flat_map ser_tok ts.

(* raw encodes d: a sequence of bytes other than & standing for themselves and
   of the six entities, d being what they stand for, in order *)
Inductive enc1 : bytes -> N -> Prop :=
| enc_plain b : b <> 38%N -> enc1 [b] b
| enc_entity e c : In (e, c) entities -> enc1 (38%N :: e) c.

Inductive encodes : bytes -> bytes -> Prop :=
| encodes_nil : encodes [] []
| encodes_snoc w d r c : encodes w d -> enc1 r c -> encodes (w ++ r) (d ++ [c]).

(* ------------------------------------------------------- comparison form *)

Module Names.
  Import Coq.Strings.String Coq.Strings.Ascii.
  Local Open Scope string_scope.
  Definition table   := Eval vm_compute in bytes_of_string "table".
  Definition caption := Eval vm_compute in bytes_of_string "caption".
  Definition thead   := Eval vm_compute in bytes_of_string "thead".
  Definition tbody   := Eval vm_compute in bytes_of_string "tbody".
  Definition tr      := Eval vm_compute in bytes_of_string "tr".
  Definition th      := Eval vm_compute in bytes_of_string "th".
  Definition td      := Eval vm_compute in bytes_of_string "td".
  Definition class   := Eval vm_compute in bytes_of_string "class".
  Definition id      := Eval vm_compute in bytes_of_string "id".
End Names.

Definition is_ws (b : N) : bool := N.eqb b 32 || N.eqb b 10 || N.eqb b 9 || N.eqb b 13.

Definition content_elem (n : bytes) : bool :=
  bytes_eqb n Names.th || bytes_eqb n Names.td || bytes_eqb n Names.caption.

(* keep = the previous token opened a th / td / caption *)
Fixpoint norm (keep : bool) (ts : list tok) : list tok :=
  match ts with
  | [] => []
  | TText s :: r =>
      (if keep || negb (forallb is_ws s) then [TText s] else []) ++ norm false r
  | TOpen n a :: r => TOpen n a :: norm (content_elem n) r
  | TClose n :: r => TClose n :: norm false r
  end.

Definition tokenize (out : bytes) : option (list tok) :=
  match lex out with
  | None => None
  | Some raw => option_map (norm false) (decode_toks raw)
  end.

(* -------------------------------------------------------------- skeleton *)

(* the inputs of a render, as the property names them *)
Record html_spec_in := mkSpecIn {
  s_id : bytes; s_class : bytes; s_caption : bytes;
  s_have_rc : bool;             (* a row-class generator is set *)
  s_rcs : list bytes;           (* its return values, call by call *)
  s_header : list bytes;        (* header texts (none when there is no header) *)
  s_rows : list (option (list bytes))   (* None = separator *)
}.

Definition opt_attr (name v : bytes) : list (bytes * bytes) :=
  match v with [] => [] | _ => [(name, v)] end.

Definition elem (name text : bytes) : list tok := [TOpen name []; TText text; TClose name].

Definition row_toks (cell : bytes) (texts : list bytes) (cls : option bytes) : list tok :=
  TOpen Names.tr (match cls with Some c => [(Names.class, c)] | None => [] end)
  :: flat_map (elem cell) texts ++ [TClose Names.tr].

Definition nonsep (rows : list (option (list bytes))) : list (list bytes) :=
  flat_map (fun r => match r with Some cs => [cs] | None => [] end) rows.

(* one class per emitted row, in order: the generator's return values when
   one is set, else none *)
Definition row_classes (x : html_spec_in) (n : nat) : list (option bytes) :=
  if s_have_rc x then map Some (s_rcs x) else repeat None n.

Definition skeleton (x : html_spec_in) : list tok :=
  let body := nonsep (s_rows x) in
  match row_classes x (S (length body)) with
  | [] => []     (* a generator that was never called: no table to expect *)
  | hc :: bcs =>
      [TOpen Names.table (opt_attr Names.class (s_class x) ++ opt_attr Names.id (s_id x))]
      ++ match s_caption x with [] => [] | c => elem Names.caption c end
      ++ [TOpen Names.thead []]
      ++ row_toks Names.th (s_header x) hc
      ++ [TClose Names.thead; TOpen Names.tbody []]
      ++ concat (map (fun '(texts, c) => row_toks Names.td texts c) (combine body bcs))
      ++ [TClose Names.tbody; TClose Names.table]
  end.

(* the generator is called for the header with 0, then for each non-separator
   row with its 1-based position among all rows, separators counted *)
Fixpoint positions_from (i : nat) (rows : list (option (list bytes))) : list nat :=
  match rows with
  | [] => []
  | None :: r => positions_from (S i) r
  | Some _ :: r => i :: positions_from (S i) r
  end.

Definition expected_calls (x : html_spec_in) : list nat :=
  if s_have_rc x then 0 :: positions_from 1 (s_rows x) else [].

(* ----------------------------------------------------- decidable equality *)

Definition attr_eqb (a b : bytes * bytes) : bool :=
  bytes_eqb (fst a) (fst b) && bytes_eqb (snd a) (snd b).

Definition tok_eqb (a b : tok) : bool :=
  match a, b with
  | TOpen n x, TOpen m y => bytes_eqb n m && list_eqb attr_eqb x y
  | TClose n, TClose m => bytes_eqb n m
  | TText s, TText t => bytes_eqb s t
  | _, _ => false
  end.

Lemma attr_eqb_eq a b : attr_eqb a b = true <-> a = b.
Proof.
  destruct a as [a1 a2], b as [b1 b2]. unfold attr_eqb. cbn [fst snd].
  rewrite andb_true_iff, !bytes_eqb_eq. split; [intros [-> ->]; reflexivity | intros H; inversion H; auto].
Qed.

Lemma tok_eqb_eq a b : tok_eqb a b = true <-> a = b.
Proof.
  destruct a, b; cbn [tok_eqb]; try (split; [discriminate | intros H; inversion H]).
  - rewrite andb_true_iff, bytes_eqb_eq, (list_eqb_eq attr_eqb attr_eqb_eq).
    split; [intros [-> ->]; reflexivity | intros H; inversion H; auto].
  - rewrite bytes_eqb_eq. split; [intros ->; reflexivity | intros H; inversion H; auto].
  - rewrite bytes_eqb_eq. split; [intros ->; reflexivity | intros H; inversion H; auto].
Qed.

Definition toks_eqb := list_eqb tok_eqb.

(* ----------------------------------------------------------- NUL (13.5) *)

Definition nul_free (s : bytes) : Prop := Forall (fun b => b <> 0%N) s.

(* what html/template documents for NUL: it becomes U+FFFD *)
Definition nul_subst (s : bytes) : bytes :=
  flat_map (fun b => if N.eqb b 0 then [239; 191; 189]%N else [b]) s.

Definition spec_strings (x : html_spec_in) : list bytes :=
  s_id x :: s_class x :: s_caption x :: s_rcs x ++ s_header x ++ concat (nonsep (s_rows x)).

Definition spec_nul_free (x : html_spec_in) : Prop := Forall nul_free (spec_strings x).

Definition spec_nul_subst (x : html_spec_in) : html_spec_in :=
  mkSpecIn (nul_subst (s_id x)) (nul_subst (s_class x)) (nul_subst (s_caption x))
           (s_have_rc x) (map nul_subst (s_rcs x)) (map nul_subst (s_header x))
           (map (option_map (map nul_subst)) (s_rows x)).
