(* C02, what the property says, written from the build history alone and
   independently of Model/Core.v: the table is the list of rows in the order
   they were attached, each a separator or the list of items added to it so
   far; nothing is numbered and no column count is kept.  Counts, addresses and
   locations are then *read off* that list:
     row count     = its length = the number of attaching calls in the history,
     column count  = the largest of: every header size the history contains,
                     the current size of every row in the list,
     CellAt (r,c)  = the c-th item of the r-th entry (1-based), if there is one,
     locations     = positions in the list,
     Column(n)     exists iff 0 <= n <= column count. *)
From Tab Require Export Base.Ops.

Inductive shandle (A : Type) := SDet (xs : list A) | SAtt (i : nat).
Arguments SDet {A}.
Arguments SAtt {A}.

Record spstate (A : Type) := mkSp {
  sp_rows    : list (option (list A));     (* attach order; None = separator *)
  sp_header  : option (list A);            (* the current header *)
  sp_hsizes  : list nat;                   (* size of every header so far *)
  sp_handles : list (nat * shandle A);     (* the program's row variables *)
  sp_else    : list (nat * (nat * nat))    (* rows (1-based position) that ANOTHER table's AddRow has taken:
                                              their position there, their size when taken.  Empty in every
                                              history the property quantifies over (wf_hist). *)
}.
Arguments mkSp {A}.
Arguments sp_rows {A}.
Arguments sp_header {A}.
Arguments sp_hsizes {A}.
Arguments sp_handles {A}.
Arguments sp_else {A}.

Section Spec.
Context {A : Type}.
Notation spstate := (spstate A).

Definition sp_init : spstate := mkSp [] None [] [] [].

Definition sp_attach (sp : spstate) (row : option (list A)) : spstate :=
  mkSp (sp_rows sp ++ [row]) (sp_header sp) (sp_hsizes sp) (sp_handles sp) (sp_else sp).
Definition sp_bind (sp : spstate) r h : spstate :=
  mkSp (sp_rows sp) (sp_header sp) (sp_hsizes sp) ((r, h) :: sp_handles sp) (sp_else sp).

Definition srow_size (r : option (list A)) : nat := match r with None => 0 | Some xs => length xs end.

(* other.AddRow(row) for the row at index i of this table: one *Row object
   serves both tables, and it now speaks of the other one - it reports its
   position THERE, and cells added to it from now on widen THAT table; this
   table keeps listing it, with its cells, and keeps the width it had. *)
Definition sp_taken (sp : spstate) (i k : nat) : spstate :=
  match nth_error (sp_rows sp) i with
  | Some row =>
      let frozen := match assoc (S i) (sp_else sp) with Some (_, n) => n | None => srow_size row end in
      mkSp (sp_rows sp) (sp_header sp) (sp_hsizes sp) (sp_handles sp) ((S i, (k, frozen)) :: sp_else sp)
  | None => sp
  end.

Definition sp_add_at (sp : spstate) (i : nat) (x : A) : spstate :=
  match nth_error (sp_rows sp) i with
  | Some (Some xs) => mkSp (upd (sp_rows sp) i (Some (xs ++ [x]))) (sp_header sp) (sp_hsizes sp) (sp_handles sp) (sp_else sp)
  | _ => sp                                    (* separator, or no such row *)
  end.

Definition sp_step (sp : spstate) (o : op A) : spstate :=
  match o with
  | NewRow r | NewRowSizedFor r => sp_bind sp r (SDet [])
  | AppendNewRow r => sp_bind (sp_attach sp (Some [])) r (SAtt (length (sp_rows sp)))
  | RowAdd (RIdx i) x => sp_add_at sp i x
  | RowAdd (RName r) x =>
      match assoc r (sp_handles sp) with
      | Some (SDet xs) => sp_bind sp r (SDet (xs ++ [x]))
      | Some (SAtt i) => sp_add_at sp i x
      | None => sp
      end
  | AddRow r =>
      match assoc r (sp_handles sp) with
      | Some (SDet xs) => sp_bind (sp_attach sp (Some xs)) r (SAtt (length (sp_rows sp)))
      | _ => sp
      end
  | AddRowItems xs => sp_attach sp (Some xs)
  | AddSeparator => sp_attach sp None
  | AddHeaders xs => mkSp (sp_rows sp) (Some xs) (sp_hsizes sp ++ [length xs]) (sp_handles sp) (sp_else sp)
  | MutateAllRowsCopy => sp
  | OtherAddRow (RIdx i) k => sp_taken sp i k
  | OtherAddRow (RName r) k =>
      match assoc r (sp_handles sp) with
      | Some (SAtt i) => sp_taken sp i k
      | _ => sp                                  (* not a row of this table (yet) *)
      end
  end.

Definition spec_run (h : list (op A)) : spstate := fold_left sp_step h sp_init.

(* ---- the histories the property quantifies over (DESIGN section 13.1):
   every op denotes a call a Go program can make - a new row variable is
   fresh, a named row exists, AllRows()[i] is in range - a pre-built row is
   attached at most once (AddRow only on a row that is still detached), and
   no row of this table is passed to another table's AddRow (a row another
   table holds may still join this one: OtherAddRow on a detached row). *)
Definition op_wf (sp : spstate) (o : op A) : bool :=
  match o with
  | NewRow r | NewRowSizedFor r | AppendNewRow r =>
      match assoc r (sp_handles sp) with None => true | Some _ => false end
  | RowAdd (RName r) _ =>
      match assoc r (sp_handles sp) with None => false | Some _ => true end
  | RowAdd (RIdx i) _ => i <? length (sp_rows sp)
  | AddRow r =>
      match assoc r (sp_handles sp) with Some (SDet _) => true | _ => false end
  | OtherAddRow (RName r) _ =>       (* only a row that is not (yet) in this table may join another one *)
      match assoc r (sp_handles sp) with Some (SDet _) => true | _ => false end
  | OtherAddRow (RIdx _) _ => false
  | _ => true
  end.

Inductive wf_hist : list (op A) -> Prop :=
| wf_nil : wf_hist []
| wf_snoc h o : wf_hist h -> op_wf (spec_run h) o = true -> wf_hist (h ++ [o]).

Fixpoint wf_from (sp : spstate) (h : list (op A)) : bool :=
  match h with
  | [] => true
  | o :: r => op_wf sp o && wf_from (sp_step sp o) r
  end.
Definition wf_histb (h : list (op A)) : bool := wf_from sp_init h.

Lemma spec_run_snoc h o : spec_run (h ++ [o]) = sp_step (spec_run h) o.
Proof. unfold spec_run. rewrite fold_left_app. reflexivity. Qed.

Lemma wf_from_sound h2 : forall h1, wf_hist h1 -> wf_from (spec_run h1) h2 = true -> wf_hist (h1 ++ h2).
Proof.
  induction h2 as [|o h2 IH]; intros h1 W H.
  - rewrite app_nil_r. exact W.
  - cbn [wf_from] in H. apply andb_true_iff in H as [H1 H2].
    replace (h1 ++ o :: h2) with ((h1 ++ [o]) ++ h2) by (rewrite <- app_assoc; reflexivity).
    apply IH.
    + constructor; assumption.
    + rewrite spec_run_snoc. exact H2.
Qed.

Lemma wf_histb_sound h : wf_histb h = true -> wf_hist h.
Proof. intros H. apply (wf_from_sound h [] wf_nil). exact H. Qed.

(* ---- functions of the history alone *)
Definition is_attach (o : op A) : bool :=
  match o with
  | AppendNewRow _ | AddRow _ | AddRowItems _ | AddSeparator => true
  | _ => false
  end.
Definition count_attaches (h : list (op A)) : nat := length (filter is_attach h).

Definition header_sizes (h : list (op A)) : list nat :=
  flat_map (fun o => match o with AddHeaders xs => [length xs] | _ => [] end) h.

(* the rows in attach order, each with the items it holds at the end of h *)
Definition attach_order (h : list (op A)) : list (option (list A)) := sp_rows (spec_run h).

(* ---- what the table must show, read off the spec state *)
Definition e_nrows (sp : spstate) : nat := length (sp_rows sp).

(* the size a row counts with: its current size, or the size it had when
   another table took it *)
Fixpoint counted (els : list (nat * (nat * nat))) (p : nat) (rows : list (option (list A))) : list nat :=
  match rows with
  | [] => []
  | r :: rest => match assoc p els with Some (_, n) => n | None => srow_size r end :: counted els (S p) rest
  end.
Lemma counted_nil p rows : counted [] p rows = map srow_size rows.
Proof. revert p; induction rows as [|r rows IH]; intros p; cbn [counted map assoc]; [reflexivity | rewrite IH; reflexivity]. Qed.

Definition e_ncols (sp : spstate) : nat := list_max (sp_hsizes sp ++ counted (sp_else sp) 1 (sp_rows sp)).

(* the row number the p-th row reports (and its cells with it) *)
Definition e_row_num (els : list (nat * (nat * nat))) (p : nat) : Z :=
  match assoc p els with Some (k, _) => Z.of_nat k | None => Z.of_nat p end.

(* CellAt(r,c): the item, or None for "no such cell" *)
Local Open Scope Z_scope.
Definition e_cell_at (sp : spstate) (r c : Z) : option A :=
  if (1 <=? r) && (1 <=? c) then
    match nth_error (sp_rows sp) (Z.to_nat (r - 1)) with
    | Some (Some xs) => nth_error xs (Z.to_nat (c - 1))
    | _ => None
    end
  else None.
Definition e_column_exists (sp : spstate) (n : Z) : bool := (0 <=? n) && (n <=? Z.of_nat (e_ncols sp)).
Close Scope Z_scope.

End Spec.

(* ---- the expected dump, for cells that carry ids *)
Definition number_cells (row : Z) (xs : list N) : list ocell :=
  map (fun p => (row, Z.of_nat (fst p), snd p)) (combine (seq 1 (length xs)) xs).

Definition expected (sp : spstate N) : obs :=
  let w := Nat.max (e_ncols sp) (list_max (map srow_size (sp_rows sp))) in
  mkObs (Z.of_nat (e_nrows sp)) (Z.of_nat (e_ncols sp))
        (option_map (number_cells 0) (sp_header sp))
        (map (fun p => let i := e_row_num (sp_else sp) (fst p) in
                       match snd p with
                       | None => mkORow true true (i, 0%Z) []
                       | Some xs => mkORow false false (i, 0%Z) (number_cells i xs)
                       end)
             (combine (seq 1 (length (sp_rows sp))) (sp_rows sp)))
        (flat_map (fun r => flat_map (fun c =>
             match e_cell_at sp r c with
             | Some x => [(r, c, (e_row_num (sp_else sp) (Z.to_nat r), c, x))]
             | None => []
             end) (zrange (-1) (w + 3))) (zrange (-1) (e_nrows sp + 3)))
        (map (e_column_exists sp) (zrange (-1) (e_ncols sp + 3))).

Fixpoint spec_trace_from (sp : spstate N) (h : list (op N)) : list obs :=
  match h with
  | [] => []
  | o :: r => let sp' := sp_step sp o in expected sp' :: spec_trace_from sp' r
  end.
Definition spec_dump (h : list (op N)) : list N := flat_map enc_obs (spec_trace_from sp_init h).
Definition spec_dump_last (h : list (op N)) : list N := enc_obs (expected (spec_run h)).
