(* C06 over histories of long-lived wrappers: what each render of a history
   must show, read off the history alone.  No template, no cache, nothing that
   remembers an earlier render: a render of wrapper w shows the table that w
   points at NOW, as that table is NOW, under the fields and the generator that
   w has NOW.  (A by-value copy starts with the fields of the original and is
   an independent wrapper from then on.) *)
From Tab Require Export Model.HtmlWrapOps.

Record hspec_state := mkSS {
  ss_tables : list view;
  ss_cfgs   : list hcfg
}.

Definition ss_init : hspec_state := mkSS [] [].

(* the input of the render of wrapper w: its settings and its table's view *)
Definition ss_render (s : hspec_state) (w : nat) : res (hcfg * view) :=
  match nth_error (ss_cfgs s) w with
  | None => Panic
  | Some c =>
      match nth_error (ss_tables s) (c_table c) with
      | None => Panic                   (* a nil Table *)
      | Some v => Ok (c, v)
      end
  end.

Definition ss_step (s : hspec_state) (o : hop) : hspec_state * list (res (hcfg * view)) :=
  match o with
  | HTable t v => (mkSS (put_table (ss_tables s) t v) (ss_cfgs s), [])
  | HWrap t => (mkSS (ss_tables s) (ss_cfgs s ++ [mkCfg t [] [] [] None]), [])
  | HCopy w =>
      match nth_error (ss_cfgs s) w with
      | Some c => (mkSS (ss_tables s) (ss_cfgs s ++ [c]), [])
      | None => (s, [])
      end
  | HPoint w t => (mkSS (ss_tables s) (modify (ss_cfgs s) w (fun c => cfg_point c t)), [])
  | HConf w id cls cap g => (mkSS (ss_tables s) (modify (ss_cfgs s) w (fun c => cfg_set c id cls cap g)), [])
  | HRender w => (s, [ss_render s w])
  | HRenderFails _ => (s, [])
  end.

Fixpoint ss_run (s : hspec_state) (ops : list hop) : list (res (hcfg * view)) :=
  match ops with
  | [] => []
  | o :: rest => let '(s', r) := ss_step s o in r ++ ss_run s' rest
  end.

(* the inputs of the renders of a history, in order *)
Definition hspec_renders (ops : list hop) : list (res (hcfg * view)) := ss_run ss_init ops.
