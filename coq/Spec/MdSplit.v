(* What C08 says, written independently of Model/Markdown.v: a GFM table row
   splitter, a U+0020 trimmer, a strict decoder for the seven entities the
   renderer may use, the delimiter-cell grammar, and the decidable judgement
   md_okb that the correspondence check applies to the implementation's bytes.

   Unescaped pipe.  GFM (cmark-gfm's row scanner: a cell is a run of
   `\` + punctuation pairs and non-pipe bytes) lets a cell contain a pipe
   written `\|`; `\\|` is an escaped backslash followed by a structural pipe.
   So a pipe is *escaped* iff it is preceded by an odd run of backslashes,
   and *unescaped* (structural, a cell boundary) otherwise.  split_pipes cuts
   a line at the unescaped pipes only; an escaped pipe stays inside its piece
   - where the cell judgement (raw_free) rejects it, because the property
   demands that content pipes arrive as an HTML entity, not as `\|`.

   A table line must begin and end with a structural pipe: splitting a line
   with n columns yields the n+2 pieces  [] :: cells ++ [[]]. *)
From Tab Require Export Base.Bytes Model.View.

Definition cPIPE  : N := 124.
Definition cBSL   : N := 92.
Definition cAMP   : N := 38.
Definition cDASH  : N := 45.
Definition cCOLON : N := 58.

(* ---------- lines ---------- *)

(* split on LF; never empty *)
Fixpoint split_on_lf (s : bytes) : list bytes :=
  match s with
  | [] => [[]]
  | b :: r =>
      if N.eqb b LF then [] :: split_on_lf r
      else match split_on_lf r with
           | [] => [[b]]
           | l :: ls => (b :: l) :: ls
           end
  end.

(* the LF-terminated lines of s; None when the last line is unterminated *)
Definition lines_lf (s : bytes) : option (list bytes) :=
  let ss := split_on_lf s in
  match last ss [cPIPE] with
  | [] => Some (removelast ss)
  | _ => None
  end.

(* ---------- GFM row splitting ---------- *)

Definition prepend (c : bytes) (ps : list bytes) : list bytes :=
  match ps with [] => [c] | p :: r => (c ++ p) :: r end.

(* esc = the bytes read so far end in an odd run of backslashes *)
Fixpoint split_pipes (esc : bool) (l : bytes) : list bytes :=
  match l with
  | [] => [[]]
  | b :: r =>
      if N.eqb b cPIPE && negb esc then [] :: split_pipes false r
      else prepend [b] (split_pipes (if N.eqb b cBSL then negb esc else false) r)
  end.

Definition unescaped_pipes (l : bytes) : nat := length (split_pipes false l) - 1.

(* Two cruder readings, to show that nothing hinges on the escape convention:
   the number of pipe bytes whatsoever, and whether some pipe is immediately
   preceded by a backslash (the reading of splitters that do not count the
   parity of the run, under which a pipe after two backslashes is escaped too). *)
Definition pipe_bytes (l : bytes) : nat := length (filter (fun b => N.eqb b cPIPE) l).

Fixpoint bsl_pipe (prev : bool) (l : bytes) : bool :=
  match l with
  | [] => false
  | b :: r => (prev && N.eqb b cPIPE) || bsl_pipe (N.eqb b cBSL) r
  end.

(* the cells of a table line: pieces between the first and the last
   structural pipe; None unless the line starts and ends with one *)
Definition line_cells (l : bytes) : option (list bytes) :=
  match split_pipes false l with
  | [] :: rest =>
      match last rest [cPIPE] with
      | [] => match rest with [] => None | _ => Some (removelast rest) end
      | _ => None
      end
  | _ => None
  end.

(* ---------- trimming U+0020 ---------- *)

Fixpoint trim_left (l : bytes) : bytes :=
  match l with
  | [] => []
  | b :: r => if N.eqb b SP then trim_left r else l
  end.

Fixpoint trim_right (l : bytes) : bytes :=
  match l with
  | [] => []
  | b :: r =>
      match trim_right r with
      | [] => if N.eqb b SP then [] else [b]
      | r' => b :: r'
      end
  end.

Definition trim (l : bytes) : bytes := trim_right (trim_left l).

(* ---------- the seven entities ---------- *)

(* (name after the ampersand, decoded byte) *)
Definition entities : list (bytes * N) :=
  [ ([97; 109; 112; 59],      38);    (* amp;  -> & *)
    ([108; 116; 59],          60);    (* lt;   -> < *)
    ([103; 116; 59],          62);    (* gt;   -> > *)
    ([35; 51; 52; 59],        34);    (* #34;  -> double quote *)
    ([35; 51; 57; 59],        39);    (* #39;  -> single quote *)
    ([35; 120; 55; 99; 59],  124);    (* #x7c; -> | *)
    ([35; 120; 48; 97; 59],   10)     (* #x0a; -> LF *)
  ]%N.

Fixpoint is_prefix (p l : bytes) : bool :=
  match p, l with
  | [], _ => true
  | x :: p', y :: l' => N.eqb x y && is_prefix p' l'
  | _ :: _, [] => false
  end.

Fixpoint match_entity (es : list (bytes * N)) (l : bytes) : option (N * nat) :=
  match es with
  | [] => None
  | (name, c) :: rest => if is_prefix name l then Some (c, length name) else match_entity rest l
  end.

(* Strict: an ampersand that does not start one of the seven entities is an
   error.  skip = bytes of an entity name still to be consumed. *)
Fixpoint decode_from (skip : nat) (l : bytes) : option bytes :=
  match l with
  | [] => Some []
  | b :: r =>
      match skip with
      | S k => decode_from k r
      | 0 =>
          if N.eqb b cAMP then
            match match_entity entities r with
            | Some (c, n) => option_map (cons c) (decode_from n r)
            | None => None
            end
          else option_map (cons b) (decode_from 0 r)
      end
  end.

Definition decode (l : bytes) : option bytes := decode_from 0 l.

(* what follows an ampersand is the name of one of the seven entities *)
Definition starts_entity (post : bytes) : Prop :=
  exists name c, In (name, c) entities /\ is_prefix name post = true.

(* bytes that must never reach the output raw: pipe, LF, <, >, double and single quote *)
Definition raw_forbidden (b : N) : bool :=
  N.eqb b 124 || N.eqb b 10 || N.eqb b 60 || N.eqb b 62 || N.eqb b 34 || N.eqb b 39.

Definition raw_free (l : bytes) : bool := forallb (fun b => negb (raw_forbidden b)) l.

(* ---------- judgement of one content cell ---------- *)

Definition cell_okb (piece text : bytes) : bool :=
  raw_free piece && option_eqb bytes_eqb (decode (trim piece)) (Some (trim text)).

Definition cell_ok (piece text : bytes) : Prop :=
  raw_free piece = true /\ decode (trim piece) = Some (trim text).

Fixpoint forall2b {A B} (f : A -> B -> bool) (a : list A) (b : list B) : bool :=
  match a, b with
  | [], [] => true
  | x :: a', y :: b' => f x y && forall2b f a' b'
  | _, _ => false
  end.

Definition pad_texts (n : nat) (r : list bytes) : list bytes := r ++ repeat [] (n - length r).

Definition row_okb (ncols : nat) (l : bytes) (texts : list bytes) : bool :=
  match line_cells l with
  | Some ps => forall2b cell_okb ps (pad_texts ncols texts)
  | None => false
  end.

Definition row_ok (ncols : nat) (l : bytes) (texts : list bytes) : Prop :=
  exists ps, line_cells l = Some ps /\ Forall2 cell_ok ps (pad_texts ncols texts).

(* ---------- delimiter row ---------- *)

(* colon markers (left, right) of an effective alignment, as the renderer is
   documented to write them: none for unset or Left, right for Right, both for
   Center *)
Definition markers (a : option align) : bool * bool :=
  match a with
  | None | Some ALeft => (false, false)
  | Some ARight => (false, true)
  | Some ACenter => (true, true)
  end.

Fixpoint count_dashes (l : bytes) : nat * bytes :=
  match l with
  | b :: r => if N.eqb b cDASH then let '(n, t) := count_dashes r in (S n, t) else (0, l)
  | [] => (0, [])
  end.

(* trimmed delimiter cell = [:] dashes(>=3) [:] *)
Definition parse_delim (t : bytes) : option (bool * nat * bool) :=
  let '(lc, t1) := match t with b :: r => if N.eqb b cCOLON then (true, r) else (false, t) | [] => (false, []) end in
  let '(n, t2) := count_dashes t1 in
  match t2 with
  | [] => Some (lc, n, false)
  | [b] => if N.eqb b cCOLON then Some (lc, n, true) else None
  | _ => None
  end.

Definition delim_cell_okb (piece : bytes) (a : option align) : bool :=
  match parse_delim (trim piece) with
  | Some (lc, n, rc) => (3 <=? n) && Bool.eqb lc (fst (markers a)) && Bool.eqb rc (snd (markers a))
  | None => false
  end.

Definition delim_cell_ok (piece : bytes) (a : option align) : Prop :=
  exists n, 3 <= n /\
    trim piece = (if fst (markers a) then [cCOLON] else []) ++ repeat cDASH n
                 ++ (if snd (markers a) then [cCOLON] else []).

(* effective alignment of column i+1 (i = 0 .. ncols-1): own, else column 0 *)
Definition spec_eff_align (al : list (option align)) (i : nat) : option align :=
  match nth_error al (S i) with
  | Some (Some a) => Some a
  | _ => match nth_error al 0 with Some d => d | None => None end
  end.

Definition eff_aligns (v : view) : list (option align) :=
  map (spec_eff_align (v_align v)) (seq 0 (v_ncols v)).

Definition delim_okb (l : bytes) (als : list (option align)) : bool :=
  match line_cells l with
  | Some ps => forall2b delim_cell_okb ps als
  | None => false
  end.

Definition delim_ok (l : bytes) (als : list (option align)) : Prop :=
  exists ps, line_cells l = Some ps /\ Forall2 delim_cell_ok ps als.

(* ---------- the whole output ---------- *)

Definition header_texts (v : view) : list bytes :=
  match v_header v with Some h => row_texts h | None => [] end.

Definition body_texts (v : view) : list (list bytes) := map row_texts (body_rows v).

Definition cr_free_bytes (s : bytes) : bool := forallb (fun b => negb (N.eqb b CR)) s.
Definition cr_free_row (r : list vcell) : bool := forallb (fun c => cr_free_bytes (vc_text c)) r.
Definition cr_freeb (v : view) : bool :=
  match v_header v with Some h => cr_free_row h | None => true end
  && forallb (fun r => match r with Some cs => cr_free_row cs | None => true end) (v_rows v).

Definition lines_okb (v : view) (ls : list bytes) : bool :=
  match ls with
  | hl :: dl :: bl =>
      forallb (fun l => unescaped_pipes l =? S (v_ncols v)) ls
      && row_okb (v_ncols v) hl (header_texts v)
      && delim_okb dl (eff_aligns v)
      && forall2b (row_okb (v_ncols v)) bl (body_texts v)
  | _ => false
  end.

(* a successful output, judged *)
Definition md_okb (v : view) (out : bytes) : bool :=
  negb (v_ncols v =? 0)
  && match v_header v with Some _ => true | None => false end
  && match lines_lf out with
     | Some ls => (length ls =? 2 + length (body_rows v)) && lines_okb v ls
     | None => false
     end
  && (negb (cr_freeb v) || cr_free_bytes out).

(* Prop reading *)
Definition md_ok (v : view) (out : bytes) : Prop :=
  v_ncols v <> 0 /\ v_header v <> None /\
  exists hl dl bl,
    lines_lf out = Some (hl :: dl :: bl)
    /\ length (hl :: dl :: bl) = 2 + length (body_rows v)
    /\ Forall (fun l => unescaped_pipes l = S (v_ncols v)) (hl :: dl :: bl)
    /\ row_ok (v_ncols v) hl (header_texts v)
    /\ delim_ok dl (eff_aligns v)
    /\ Forall2 (row_ok (v_ncols v)) bl (body_texts v)
    /\ (cr_freeb v = true -> cr_free_bytes out = true).
