(* C08 (round 6) - what a history of SetProperty calls over ARBITRARY keys means
   for the two properties the renderers read, said from the history alone and
   without chains: a call under align.PropertyType is a setting of the
   alignment, a call under properties.Skipable a setting of skipable, and a call
   under any other key is a setting of neither.  The rest (last setting wins,
   nil removes, a column that does not exist yet is a no-op, properties stay
   with their column as the table grows) is Spec/TableHist.v. *)
From Tab Require Import Model.Props.
From Tab Require Import Model.Table Model.ColProps Spec.TableHist.

Section Proj.
Context {A : Type}.

Definition cp_proj1 (o : gptop A) : list (gtop A) :=
  match o with
  | PCore c => [TCore c]
  | PSet n k v =>
      if key_eqb k align_key then [TSetAlign n (match v with Some x => dec_align x | None => None end)]
      else if key_eqb k skip_key then [TSetSkip n (option_map dec_skip v)]
      else []
  end.
Definition cp_proj (h : list (gptop A)) : list (gtop A) := flat_map cp_proj1 h.

(* the domain: what is stored under the alignment key is an alignment *)
Definition cp_domain (h : list (gptop A)) : Prop :=
  Forall (fun o => match o with
                   | PSet _ k (Some x) => k = align_key -> dec_align x <> None
                   | _ => True
                   end) h.

(* the latest alignment set on column i (0 = the default), whatever else was
   set on it before, between and after *)
Definition cp_align (h : list (gptop A)) (i : nat) : option align := hist_align (cp_proj h) i.
End Proj.
