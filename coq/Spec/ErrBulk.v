(* What C11 says about a bulk history, written on the bulk operations
   themselves (no loop, no model function): the log is what was handed in, in
   order - n consecutive errors for a loop of n AddError calls, the non-nil
   entries of a long list - however long it already is.  There is no bound:
   the property text has none ("every error ... is reported ... exactly
   once"). *)
From Tab Require Export Model.ErrBulk Spec.ErrLog.

Fixpoint vraised_from (acc : list errid) (ops : list vop) : list errid :=
  match ops with
  | [] => acc
  | VOp o :: r => vraised_from (raised_from acc [o]) r
  | VAddMany k n :: r => vraised_from (acc ++ ids_from k (N.to_nat n)) r
  | VAddList gs :: r => vraised_from (acc ++ non_nil (unruns gs)) r
  end.

Definition vexpected (m : cmode) (ops : list vop) : list errid :=
  match m with MNil => [] | _ => vraised_from [] ops end.
