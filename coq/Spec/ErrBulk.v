(* What C11 says about a bulk history, written on the bulk operations
   themselves (no loop, no model function): the log is what was handed in, in
   order - n consecutive errors for a loop of n AddError calls, the non-nil
   entries of a long list - however long it already is.  There is no bound:
   the property text has none ("every error ... is reported ... exactly
   once"). *)
From Tab Require Export Model.ErrBulk Spec.ErrLog.

Fixpoint vraised_from (acc : list errid) (ops : list vop) : list errid :=
  match ops with
  | [] => acc
  | VOp o :: r => vraised_from (raised_from acc [o]) r
  | VAddMany k n :: r => vraised_from (acc ++ ids_from k (N.to_nat n)) r
  | VAddList gs :: r => vraised_from (acc ++ non_nil (unruns gs)) r
  end.

Definition vexpected (m : cmode) (ops : list vop) : list errid :=
  match m with MNil => [] | _ => vraised_from [] ops end.

(* ---- the table at volume: the same reading as Spec/ErrLog.v's [contribution]
   (an error whose source is the table or a row of the table goes to the end of
   the log; an error on a row outside it is pending and spliced in at the
   attach), kept as a running state - log, pending chunks in order of
   occurrence, rows that belong to the table - so that judging a history of n
   errors costs n and not n^2.  Only the table under test (no other table in a
   volume history).  It is written on the bulk events themselves. *)
Record sst := mkS { s_log : list errid; s_pend : list (nat * list errid); s_joined : list nat }.
Definition s_init : sst := mkS [] [] [].

Definition pend_of (p : list (nat * list errid)) (r : nat) : list errid :=
  flat_map (fun x => if fst x =? r then snd x else []) p.
Definition is_joined (s : sst) (r : nat) : bool := existsb (Nat.eqb r) (s_joined s).

Definition bev_src (b : bev) : source :=
  match b with
  | BOne ev => ev_src ev
  | BRowErrs r _ _ => Some r
  | BTableErrs _ _ => None
  | BCallbacks s r _ _ => if site_has_row s then Some r else None
  end.
Definition bev_ids (b : bev) : list errid :=
  match b with
  | BOne ev => ev_ids ev
  | BRowErrs _ k n | BTableErrs k n | BCallbacks _ _ k n => ids_from k (N.to_nat n)
  end.

Definition sstep (s : sst) (b : bev) : sst :=
  match b with
  | BOne (AttachRow r) => mkS (s_log s ++ pend_of (s_pend s) r) (s_pend s) (r :: s_joined s)
  | BOne (AddSeparator r) | BOne (AddHeaders r) => mkS (s_log s) (s_pend s) (r :: s_joined s)
  | _ =>
      match bev_ids b with
      | [] => s
      | ids =>
          match bev_src b with
          | None => mkS (s_log s ++ ids) (s_pend s) (s_joined s)
          | Some r => if is_joined s r then mkS (s_log s ++ ids) (s_pend s) (s_joined s)
                      else mkS (s_log s) (s_pend s ++ [(r, ids)]) (s_joined s)
          end
      end
  end.
Definition srun (bh : list bev) : sst := fold_left sstep bh s_init.
