(* What a text render SHOWS when render-time callbacks change cells while the
   render is in progress, said without running anything: every cell is shown -
   width, height and lines alike - as the LAST measuring callback of the pass
   found it.  A change made before that callback ran is shown by this render; a
   change made after it is shown by the next one.  So whatever the callbacks
   do and whenever they run, the text is the layout of ONE table (the one made
   of the cells as measured), hence a rectangle with fitted columns. *)
From Tab Require Export Model.TextLive.

Local Open Scope nat_scope.

(* how many changes one pass makes to a cell *)
Fixpoint advances (evs : list cb_act) : nat :=
  match evs with
  | [] => 0
  | AAdvance :: r => S (advances r)
  | AMeasure :: r => advances r
  end.

(* how many of them come before the pass's last measuring callback
   (None: the pass never measures the cell) *)
Fixpoint before_last_measure (evs : list cb_act) : option nat :=
  match evs with
  | [] => None
  | AAdvance :: r => option_map S (before_last_measure r)
  | AMeasure :: r => match before_last_measure r with Some n => Some n | None => Some 0 end
  end.

Fixpoint advance_n (n : nat) (lc : lcell) : lcell :=
  match n with 0 => lc | S m => advance_n m (advance lc) end.

(* the cell as render number j (0 = the first) of a history of renders shows it *)
Definition spec_shown (evs : list cb_act) (j : nat) (pc : pcell) : vcell :=
  match before_last_measure evs with
  | Some n => lc_cur (advance_n (j * advances evs + n) (fst pc))
  | None => shown pc
  end.

Definition spec_view (regs : list reg) (t : ptable) (j : nat) : view :=
  view_with (fun r c => spec_shown (cell_events regs (pt_ncols t) r c) j) t.

(* the wrapper's own measuring callback is registered on the table *)
Definition table_measures (regs : list reg) : Prop := In AMeasure (sel regs OwTable TRender).
