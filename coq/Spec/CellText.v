(* What C01 says: the documented text form of an item, clause by clause from
   the property statement.  Only the TYPES of Model/Cell.v are used (item,
   obj, cell and the stored text of a nested cell); Update is not. *)
From Tab Require Export Base.Bytes Base.Utf8 Model.Cell.

(* "an item offering String(), else GoString(), else Error() gives that
   method's result (in that precedence) ... anything else is formatted as
   fmt's %v" *)
Definition object_text (o : obj) : bytes :=
  match m_string o, m_gostring o, m_error o with
  | Some s, _, _ => s
  | None, Some g, _ => g
  | None, None, Some x => x
  | None, None, None => fmt_v o
  end.

Definition documented_text (e : env) (it : item) : bytes :=
  match it with
  | IString s => s                    (* a string is itself *)
  | IRune r => utf8_of_rune r         (* a rune is that character (U+FFFD if it is not one) *)
  | ICell inner => c_str inner        (* a nested cell gives the inner cell's text *)
  | INil => []                        (* nil gives the empty string *)
  | IObj id => object_text (e id)
  end.

(* "that character", said without the encoder: the text decodes to exactly
   the one code point (used by the run-time oracle next to utf8_of_rune) *)
Definition is_char_text (r : Z) (t : bytes) : bool :=
  list_eqb Z.eqb (decode_runes t) [if valid_rune r then r else RuneError].

(* "The cell reports itself empty exactly when that text is empty" *)
Definition cell_wf (c : cell) : Prop := c_empty c = true <-> c_str c = [].

(* an item is well formed when a cell nested in it is *)
Definition item_wf (it : item) : Prop :=
  match it with ICell inner => cell_wf inner | _ => True end.

(* ---- C18, cell clause *)

(* "height equals its number of lines and width equals its longest line's
   display width" (W = the display-width measure of one line) *)
Definition cell_metric_ok (W : bytes -> nat) (c : cell) : Prop :=
  cell_height c = Zlen (lines_of (cell_text c))
  /\ cell_width c = Z.of_nat (list_max (map W (lines_of (cell_text c)))).

(* "a cell whose item does not override its size": the item's type has neither
   Height() nor TerminalCellWidth(); a nested cell passes its own measures on,
   so it must itself be such a cell *)
Definition no_override (W : bytes -> nat) (e : env) (it : item) : Prop :=
  match it with
  | IObj id => m_height (e id) = None /\ m_width (e id) = None
  | ICell inner => cell_metric_ok W inner
  | _ => True
  end.
