(* Go's method sets, as far as C01 needs them ("an item OFFERING String()").
   A named type T declares each of the five methods the library looks for on
   the value receiver, on the pointer receiver, or not at all.  An item that
   holds a T offers the value-receiver methods only; an item that holds a *T
   offers those of both receivers (Go spec, "Method sets"; promotion through
   embedded fields ends in the same two sets).  In particular a struct or array
   VALUE whose String() is declared on the pointer receiver - url.URL,
   big.Int, bytes.Buffer - does not offer String(), and its documented text
   is fmt's %v of the value.

   [obj_of d s h] is the descriptor (Model/Cell.v: obj) of such an item; the
   harness obtains the same descriptor from Go's own type assertions on the
   very value it stores. *)
From Tab Require Export Spec.CellText.

Inductive recv := NoMethod | OnValue | OnPointer.
Inductive hold := ByValue | ByPointer.

Record tdecl := mkDecl { r_string : recv; r_gostring : recv; r_error : recv; r_height : recv; r_width : recv }.

(* what the declared methods return in the object's current state; fmt %v and
   encoding/json of the value and of the pointer *)
Record tstate := mkTS {
  s_string : bytes; s_gostring : bytes; s_error : bytes; s_height : Z; s_width : Z;
  s_fmt_value : bytes; s_fmt_pointer : bytes;
  s_json_value : option bytes; s_json_pointer : option bytes
}.

Definition offers (h : hold) (r : recv) : bool :=
  match r, h with
  | NoMethod, _ => false
  | OnValue, _ => true
  | OnPointer, ByPointer => true
  | OnPointer, ByValue => false
  end.

Definition offered {A} (h : hold) (r : recv) (a : A) : option A := if offers h r then Some a else None.

Definition obj_of (d : tdecl) (s : tstate) (h : hold) : obj :=
  mkObj (offered h (r_string d) (s_string s)) (offered h (r_gostring d) (s_gostring s)) (offered h (r_error d) (s_error s))
        (offered h (r_height d) (s_height s)) (offered h (r_width d) (s_width s))
        (match h with ByValue => s_fmt_value s | ByPointer => s_fmt_pointer s end)
        (match h with ByValue => s_json_value s | ByPointer => s_json_pointer s end).

(* the property's precedence, read over the method set *)
Definition method_set_text (d : tdecl) (s : tstate) (h : hold) : bytes :=
  if offers h (r_string d) then s_string s
  else if offers h (r_gostring d) then s_gostring s
  else if offers h (r_error d) then s_error s
  else match h with ByValue => s_fmt_value s | ByPointer => s_fmt_pointer s end.
