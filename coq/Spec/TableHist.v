(* What a renderer must see of a table, said from the history of calls alone
   and independently of Model/Table.v and Model/Core.v: the rows are the
   attach order of the history spec (Spec/History.v), each cell showing its
   item; the column count is the largest header or row; a column's alignment /
   skipable setting is the value of the LAST SetProperty made through a handle
   of that column - where a handle exists only for 0 .. the column count at
   the time of the call - and nothing if there was none. *)
From Tab Require Export Spec.History Model.Table.

Record gtspec (A : Type) := mkTS {
  ts_sp    : spstate A;
  ts_align : list (nat * option align);     (* settings, latest first *)
  ts_skip  : list (nat * option skipv)
}.
Arguments mkTS {A}.
Arguments ts_sp {A}.
Arguments ts_align {A}.
Arguments ts_skip {A}.

(* the latest setting of column i; None = never set, or set to nil last *)
Definition setting {B} (l : list (nat * option B)) (i : nat) : option B :=
  match assoc i l with Some v => v | None => None end.

Section TableSpec.
Context {A : Type}.

Definition tspec_init : gtspec A := mkTS sp_init [] [].

Definition tspec_step (ts : gtspec A) (o : gtop A) : gtspec A :=
  match o with
  | TCore c => mkTS (sp_step (ts_sp ts) c) (ts_align ts) (ts_skip ts)
  | TSetAlign n a =>
      if n <=? e_ncols (ts_sp ts) then mkTS (ts_sp ts) ((n, a) :: ts_align ts) (ts_skip ts) else ts
  | TSetSkip n s =>
      if n <=? e_ncols (ts_sp ts) then mkTS (ts_sp ts) (ts_align ts) ((n, s) :: ts_skip ts) else ts
  end.

Definition tspec_run (h : list (gtop A)) : gtspec A := fold_left tspec_step h tspec_init.

Definition spec_table_view (f : A -> vcell) (ts : gtspec A) : view :=
  let sp := ts_sp ts in
  let n := e_ncols sp in
  mkView n
         (option_map (map f) (sp_header sp))
         (map (option_map (map f)) (sp_rows sp))
         (map (setting (ts_align ts)) (seq 0 (S n)))
         (map (setting (ts_skip ts)) (seq 0 (S n))).

(* the histories the end-to-end statements quantify over: the building calls
   form a well-formed core history (Spec/History.v wf_hist); property settings
   may come anywhere, on any column number (a missing column is a no-op) *)
Definition twf_hist (h : list (gtop A)) : Prop := wf_hist (core_ops h).
Definition twf_histb (h : list (gtop A)) : bool := wf_histb (core_ops h).

Lemma twf_histb_sound h : twf_histb h = true -> twf_hist h.
Proof. apply wf_histb_sound. Qed.

(* what the header / each non-separator row carries, in order: what every
   renderer must show is [map f] of these *)
Definition hist_header (h : list (gtop A)) : option (list A) := sp_header (ts_sp (tspec_run h)).
Definition hist_rows (h : list (gtop A)) : list (option (list A)) := sp_rows (ts_sp (tspec_run h)).
Definition hist_ncols (h : list (gtop A)) : nat := e_ncols (ts_sp (tspec_run h)).
Definition hist_records (h : list (gtop A)) : list (list A) :=
  match hist_header h with Some xs => [xs] | None => [] end
  ++ flat_map (fun r => match r with Some xs => [xs] | None => [] end) (hist_rows h).

(* the latest alignment / skipable value set through a handle of column i
   (0 = the all-columns default); None = never set, or set to nil last *)
Definition hist_align (h : list (gtop A)) (i : nat) : option align := setting (ts_align (tspec_run h)) i.
Definition hist_skip (h : list (gtop A)) (i : nat) : option skipv := setting (ts_skip (tspec_run h)) i.
End TableSpec.

Notation tspec := (gtspec item).
