(* What a renderer must see of a table, said from the history of calls alone
   and independently of Model/Table.v and Model/Core.v: the rows are the
   attach order of the history spec (Spec/History.v), each cell showing its
   item; the column count is the largest header or row; a column's alignment /
   skipable setting is the value of the LAST SetProperty made through a handle
   of that column - where a handle exists only for 0 .. the column count at
   the time of the call - and nothing if there was none. *)
From Tab Require Export Spec.History Model.Table.

Record tspec := mkTS {
  ts_sp    : spstate item;
  ts_align : list (nat * option align);     (* settings, latest first *)
  ts_skip  : list (nat * option skipv)
}.

Definition tspec_init : tspec := mkTS sp_init [] [].

Definition tspec_step (ts : tspec) (o : top) : tspec :=
  match o with
  | TCore c => mkTS (sp_step (ts_sp ts) c) (ts_align ts) (ts_skip ts)
  | TSetAlign n a =>
      if n <=? e_ncols (ts_sp ts) then mkTS (ts_sp ts) ((n, a) :: ts_align ts) (ts_skip ts) else ts
  | TSetSkip n s =>
      if n <=? e_ncols (ts_sp ts) then mkTS (ts_sp ts) (ts_align ts) ((n, s) :: ts_skip ts) else ts
  end.

Definition tspec_run (h : list top) : tspec := fold_left tspec_step h tspec_init.

(* the latest setting of column i; None = never set, or set to nil last *)
Definition setting {B} (l : list (nat * option B)) (i : nat) : option B :=
  match assoc i l with Some v => v | None => None end.

Definition spec_table_view (f : item -> vcell) (ts : tspec) : view :=
  let sp := ts_sp ts in
  let n := e_ncols sp in
  mkView n
         (option_map (map f) (sp_header sp))
         (map (option_map (map f)) (sp_rows sp))
         (map (setting (ts_align ts)) (seq 0 (S n)))
         (map (setting (ts_skip ts)) (seq 0 (S n))).

(* the histories the end-to-end statements quantify over: the building calls
   form a well-formed core history (Spec/History.v wf_hist); property settings
   may come anywhere, on any column number (a missing column is a no-op) *)
Definition twf_hist (h : list top) : Prop := wf_hist (core_ops h).
Definition twf_histb (h : list top) : bool := wf_histb (core_ops h).

Lemma twf_histb_sound h : twf_histb h = true -> twf_hist h.
Proof. apply wf_histb_sound. Qed.

(* the items of the header / of each non-separator row, in order: what every
   renderer must show, as texts, is [map text] of these *)
Definition hist_header (h : list top) : option (list item) := sp_header (ts_sp (tspec_run h)).
Definition hist_rows (h : list top) : list (option (list item)) := sp_rows (ts_sp (tspec_run h)).
Definition hist_ncols (h : list top) : nat := e_ncols (ts_sp (tspec_run h)).
Definition hist_records (h : list top) : list (list item) :=
  match hist_header h with Some xs => [xs] | None => [] end
  ++ flat_map (fun r => match r with Some xs => [xs] | None => [] end) (hist_rows h).

(* the latest alignment / skipable value set through a handle of column i
   (0 = the all-columns default); None = never set, or set to nil last *)
Definition hist_align (h : list top) (i : nat) : option align := setting (ts_align (tspec_run h)) i.
Definition hist_skip (h : list top) (i : nat) : option skipv := setting (ts_skip (tspec_run h)) i.
