(* A complete JSON parser (RFC 8259 grammar, the language json.Valid accepts)
   as a byte-level pushdown machine run by fold_left: structural, no fuel, so
   every composition lemma is an instance of fold_left_app.

     text   = ws value ws
     value  = string / number / object / array / true / false / null
     object = "{" ws [ member *( "," member ) ] "}"     member = ws string ws ":" value
     array  = "[" ws [ value *( "," value ) ] "]"
     number = [ "-" ] ( "0" / digit1-9 *digit ) [ "." 1*digit ] [ ("e"/"E") ["+"/"-"] 1*digit ]
     string = DQ *( byte >= 0x20 except DQ and "\" / escape ) DQ
     escape = "\" ( DQ / "\" / "/" / b / f / n / r / t / u 4hex )
     ws     = *( space / tab / LF / CR )

   Values keep member order and duplicates; a number keeps its raw lexeme; a
   string is decoded to bytes: simple escapes, \uXXXX to UTF-8, a surrogate
   pair to one code point, a lone surrogate to U+FFFD (as encoding/json's
   Unmarshal does; json.Valid accepts them).  Raw bytes >= 0x80 are kept as
   they are (json.Valid does not look at UTF-8 validity either). *)
From Tab Require Export Base.Bytes.
Local Open Scope N_scope.

Inductive jvalue :=
| JNull
| JBool (b : bool)
| JNum (raw : bytes)
| JStr (s : bytes)
| JArr (items : list jvalue)
| JObj (members : list (bytes * jvalue)).

(* ---- byte classes *)
Definition BSL : N := 92.      (* backslash *)
Definition LBRK : N := 91.     (* [ *)
Definition RBRK : N := 93.     (* ] *)
Definition LBRC : N := 123.    (* { *)
Definition RBRC : N := 125.    (* } *)
Definition COLON : N := 58.
Definition TAB : N := 9.

Definition is_ws (b : N) : bool :=
  N.eqb b SP || N.eqb b TAB || N.eqb b LF || N.eqb b CR.
Definition is_digit (b : N) : bool := (48 <=? b) && (b <=? 57).
Definition is_digit19 (b : N) : bool := (49 <=? b) && (b <=? 57).

Definition hexval (b : N) : option N :=
  if (48 <=? b) && (b <=? 57) then Some (b - 48)
  else if (97 <=? b) && (b <=? 102) then Some (b - 87)
  else if (65 <=? b) && (b <=? 70) then Some (b - 55)
  else None.

(* the byte a simple escape stands for *)
Definition simple_escape (b : N) : option N :=
  if N.eqb b DQ then Some DQ
  else if N.eqb b BSL then Some BSL
  else if N.eqb b 47 then Some 47
  else if N.eqb b 98 then Some 8
  else if N.eqb b 102 then Some 12
  else if N.eqb b 110 then Some LF
  else if N.eqb b 114 then Some CR
  else if N.eqb b 116 then Some TAB
  else None.

(* UTF-8 encoding of a code point (callers never pass a surrogate) *)
Definition utf8_encode (c : N) : bytes :=
  if c <? 128 then [c]
  else if c <? 2048 then [192 + c / 64; 128 + c mod 64]
  else if c <? 65536 then [224 + c / 4096; 128 + (c / 64) mod 64; 128 + c mod 64]
  else [240 + c / 262144; 128 + (c / 4096) mod 64; 128 + (c / 64) mod 64; 128 + c mod 64].

Definition FFFD : bytes := [239; 191; 189].
Definition is_hi_surr (c : N) : bool := (55296 <=? c) && (c <=? 56319).   (* D800..DBFF *)
Definition is_lo_surr (c : N) : bool := (56320 <=? c) && (c <=? 57343).   (* DC00..DFFF *)

(* ---- machine states *)
Inductive strsub :=
| SNorm (hi : option N)                  (* hi: a high surrogate waiting for its low half *)
| SEsc (hi : option N)                   (* after a backslash *)
| SHex (hi : option N) (k : nat) (cu : N). (* inside \u: k digits read, value so far *)

Inductive numstate :=
| NMinus   (* after "-": a digit must follow *)
| NZero    (* after a leading 0 *)
| NInt     (* inside digit1-9 *digit *)
| NDot     (* after ".": a digit must follow *)
| NFrac    (* inside the fraction digits *)
| NE       (* after e/E: sign or digit *)
| NESign   (* after the exponent sign: a digit must follow *)
| NExp.    (* inside the exponent digits *)

Inductive jframe :=
| FArr (items : list jvalue)
| FObj (members : list (bytes * jvalue)) (key : option bytes).

Inductive jmode :=
| MVal                         (* a value must start here *)
| MArrFirst                    (* after "[": a value or "]" *)
| MObjFirst                    (* after "{": a key or "}" *)
| MKey                         (* after "," in an object: a key *)
| MColon                       (* after a key: ":" *)
| MAfter                       (* after a value in a container: "," or the closer *)
| MDone (v : jvalue)           (* the top-level value is complete: only ws may follow *)
| MStr (acc : bytes) (sub : strsub)
| MNum (lex : bytes) (ns : numstate)
| MLit (rest : bytes) (v : jvalue)
| MFail.

Definition jstate : Type := list jframe * jmode.
Definition j_fail : jstate := ([], MFail).

(* a value v has just been completed below the stack stk *)
Definition j_complete (stk : list jframe) (v : jvalue) : jstate :=
  match stk with
  | [] => ([], MDone v)
  | FArr items :: r => (FArr (items ++ [v]) :: r, MAfter)
  | FObj ms None :: r =>
      match v with JStr k => (FObj ms (Some k) :: r, MColon) | _ => j_fail end
  | FObj ms (Some k) :: r => (FObj (ms ++ [(k, v)]) None :: r, MAfter)
  end.

(* b is the first byte of a value *)
Definition j_start_value (stk : list jframe) (b : N) : jstate :=
  if N.eqb b DQ then (stk, MStr [] (SNorm None))
  else if N.eqb b LBRK then (FArr [] :: stk, MArrFirst)
  else if N.eqb b LBRC then (FObj [] None :: stk, MObjFirst)
  else if N.eqb b 45 then (stk, MNum [b] NMinus)
  else if N.eqb b 48 then (stk, MNum [b] NZero)
  else if is_digit19 b then (stk, MNum [b] NInt)
  else if N.eqb b 116 then (stk, MLit [114; 117; 101] (JBool true))
  else if N.eqb b 102 then (stk, MLit [97; 108; 115; 101] (JBool false))
  else if N.eqb b 110 then (stk, MLit [117; 108; 108] JNull)
  else j_fail.

Definition flush_hi (hi : option N) (acc : bytes) : bytes :=
  match hi with Some _ => acc ++ FFFD | None => acc end.

(* a \uXXXX code unit cu has been read with no high surrogate pending *)
Definition finish_cu0 (acc : bytes) (cu : N) : jmode :=
  if is_hi_surr cu then MStr acc (SNorm (Some cu))
  else if is_lo_surr cu then MStr (acc ++ FFFD) (SNorm None)
  else MStr (acc ++ utf8_encode cu) (SNorm None).

Definition finish_cu (acc : bytes) (hi : option N) (cu : N) : jmode :=
  match hi with
  | Some h =>
      if is_lo_surr cu
      then MStr (acc ++ utf8_encode (65536 + (h - 55296) * 1024 + (cu - 56320))) (SNorm None)
      else finish_cu0 (acc ++ FFFD) cu
  | None => finish_cu0 acc cu
  end.

Definition str_step (stk : list jframe) (acc : bytes) (sub : strsub) (b : N) : jstate :=
  match sub with
  | SNorm hi =>
      if N.eqb b DQ then j_complete stk (JStr (flush_hi hi acc))
      else if N.eqb b BSL then (stk, MStr acc (SEsc hi))
      else if b <? 32 then j_fail
      else (stk, MStr (flush_hi hi acc ++ [b]) (SNorm None))
  | SEsc hi =>
      if N.eqb b 117 then (stk, MStr acc (SHex hi 0 0))
      else match simple_escape b with
           | Some c => (stk, MStr (flush_hi hi acc ++ [c]) (SNorm None))
           | None => j_fail
           end
  | SHex hi k cu =>
      match hexval b with
      | None => j_fail
      | Some d =>
          let cu' := cu * 16 + d in
          match k with
          | 3%nat => (stk, finish_cu acc hi cu')
          | _ => (stk, MStr acc (SHex hi (S k) cu'))
          end
      end
  end.

(* the number grammar: the next state on a byte that continues the lexeme *)
Definition num_next (ns : numstate) (b : N) : option numstate :=
  let isE := N.eqb b 101 || N.eqb b 69 in
  match ns with
  | NMinus => if N.eqb b 48 then Some NZero else if is_digit19 b then Some NInt else None
  | NZero => if N.eqb b 46 then Some NDot else if isE then Some NE else None
  | NInt => if is_digit b then Some NInt else if N.eqb b 46 then Some NDot else if isE then Some NE else None
  | NDot => if is_digit b then Some NFrac else None
  | NFrac => if is_digit b then Some NFrac else if isE then Some NE else None
  | NE => if N.eqb b 43 || N.eqb b 45 then Some NESign else if is_digit b then Some NExp else None
  | NESign => if is_digit b then Some NExp else None
  | NExp => if is_digit b then Some NExp else None
  end.

Definition num_accepting (ns : numstate) : bool :=
  match ns with NZero | NInt | NFrac | NExp => true | _ => false end.

(* every mode but MNum *)
Definition j_step_main (st : jstate) (b : N) : jstate :=
  let '(stk, m) := st in
  match m with
  | MFail => st
  | MVal => if is_ws b then st else j_start_value stk b
  | MArrFirst =>
      if is_ws b then st
      else if N.eqb b RBRK
           then match stk with FArr items :: r => j_complete r (JArr items) | _ => j_fail end
           else j_start_value stk b
  | MObjFirst =>
      if is_ws b then st
      else if N.eqb b RBRC
           then match stk with FObj ms None :: r => j_complete r (JObj ms) | _ => j_fail end
           else if N.eqb b DQ then (stk, MStr [] (SNorm None)) else j_fail
  | MKey =>
      if is_ws b then st
      else if N.eqb b DQ then (stk, MStr [] (SNorm None)) else j_fail
  | MColon =>
      if is_ws b then st
      else if N.eqb b COLON then (stk, MVal) else j_fail
  | MAfter =>
      if is_ws b then st
      else match stk with
           | FArr items :: r =>
               if N.eqb b COMMA then (stk, MVal)
               else if N.eqb b RBRK then j_complete r (JArr items) else j_fail
           | FObj ms None :: r =>
               if N.eqb b COMMA then (stk, MKey)
               else if N.eqb b RBRC then j_complete r (JObj ms) else j_fail
           | _ => j_fail
           end
  | MDone _ => if is_ws b then st else j_fail
  | MStr acc sub => str_step stk acc sub b
  | MLit rest v =>
      match rest with
      | x :: rest' =>
          if N.eqb b x
          then match rest' with [] => j_complete stk v | _ => (stk, MLit rest' v) end
          else j_fail
      | [] => j_fail
      end
  | MNum _ _ => j_fail   (* not reached: j_step handles numbers *)
  end.

(* a number ends at the first byte that cannot continue it; that byte is then
   read in the state after the completed number *)
Definition j_step (st : jstate) (b : N) : jstate :=
  match st with
  | (stk, MNum lex ns) =>
      match num_next ns b with
      | Some ns' => (stk, MNum (lex ++ [b]) ns')
      | None => if num_accepting ns then j_step_main (j_complete stk (JNum lex)) b else j_fail
      end
  | _ => j_step_main st b
  end.

Definition j_run (st : jstate) (input : bytes) : jstate := fold_left j_step input st.

Definition j_init : jstate := ([], MVal).

Definition j_finish (st : jstate) : option jvalue :=
  match st with
  | ([], MDone v) => Some v
  | ([], MNum lex ns) => if num_accepting ns then Some (JNum lex) else None
  | _ => None
  end.

Definition parse_json (input : bytes) : option jvalue := j_finish (j_run j_init input).

Lemma j_run_app st a b : j_run st (a ++ b) = j_run (j_run st a) b.
Proof. apply fold_left_app. Qed.

Lemma j_run_cons st b r : j_run st (b :: r) = j_run (j_step st b) r.
Proof. reflexivity. Qed.

(* ---- decidable equality of values *)
Fixpoint jvalue_eqb (a b : jvalue) {struct a} : bool :=
  match a, b with
  | JNull, JNull => true
  | JBool x, JBool y => Bool.eqb x y
  | JNum x, JNum y => bytes_eqb x y
  | JStr x, JStr y => bytes_eqb x y
  | JArr x, JArr y =>
      (fix go (x y : list jvalue) {struct x} : bool :=
         match x, y with
         | [], [] => true
         | a' :: x', b' :: y' => jvalue_eqb a' b' && go x' y'
         | _, _ => false
         end) x y
  | JObj x, JObj y =>
      (fix go (x y : list (bytes * jvalue)) {struct x} : bool :=
         match x, y with
         | [], [] => true
         | (k1, a') :: x', (k2, b') :: y' => bytes_eqb k1 k2 && jvalue_eqb a' b' && go x' y'
         | _, _ => false
         end) x y
  | _, _ => false
  end.

(* ---- Go's utf8.Valid: no overlong forms, no surrogates, nothing above U+10FFFF *)
Definition is_cont (b : N) : bool := (128 <=? b) && (b <=? 191).

Fixpoint valid_utf8 (s : bytes) : bool :=
  match s with
  | [] => true
  | b :: r =>
      if b <? 128 then valid_utf8 r
      else if (194 <=? b) && (b <=? 223) then
        match r with c1 :: r1 => is_cont c1 && valid_utf8 r1 | _ => false end
      else if (224 <=? b) && (b <=? 239) then
        match r with
        | c1 :: c2 :: r2 =>
            (if N.eqb b 224 then (160 <=? c1) && (c1 <=? 191)
             else if N.eqb b 237 then (128 <=? c1) && (c1 <=? 159)
             else is_cont c1) && is_cont c2 && valid_utf8 r2
        | _ => false
        end
      else if (240 <=? b) && (b <=? 244) then
        match r with
        | c1 :: c2 :: c3 :: r3 =>
            (if N.eqb b 240 then (144 <=? c1) && (c1 <=? 191)
             else if N.eqb b 244 then (128 <=? c1) && (c1 <=? 143)
             else is_cont c1) && is_cont c2 && is_cont c3 && valid_utf8 r3
        | _ => false
        end
      else false
  end.

(* ---- a canonical dump of a value, for comparing with encoding/json's token
   stream in the parser's self-validation: n t f, #lexeme; s<bytes as 2 hex
   digits each>; [ ... ] { key value ... } *)
Definition hexdigit (d : N) : N := if d <? 10 then 48 + d else 87 + d.
Definition hex_bytes (s : bytes) : bytes := flat_map (fun b => [hexdigit (b / 16); hexdigit (b mod 16)]) s.

Fixpoint jdump (v : jvalue) : bytes :=
  match v with
  | JNull => [110]
  | JBool true => [116]
  | JBool false => [102]
  | JNum raw => 35 :: raw ++ [59]
  | JStr s => 115 :: hex_bytes s ++ [59]
  | JArr items => LBRK :: flat_map jdump items ++ [RBRK]
  | JObj ms =>
      LBRC :: (fix go (ms : list (bytes * jvalue)) : bytes :=
                 match ms with
                 | [] => []
                 | (k, x) :: r => 115 :: hex_bytes k ++ [59] ++ jdump x ++ go r
                 end) ms ++ [RBRC]
  end.
