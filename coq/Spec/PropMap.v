(* C12 - what the property says, written without reference to chains, links or
   pointers: every owner that exists has its own map from keys to values.

     * set k v on an owner changes that owner's map at k, and nothing else
       anywhere; set k nil makes k absent;
     * get reads the owner's map;
     * a by-value copy of a cell (c2 := *p, or the value handed to Row.Add) is a
       NEW owner whose map starts as the source's map at that moment;
     * a column handle keeps naming the column it was taken for, whatever the
       table grows to;
     * what an owner stores is one entry per key that is present ("live").

   The expected observation of a history is recomputed here from the history
   alone; C12_ok (Run/C12Run.v) compares it with what the implementation did. *)
From Tab Require Export Base.PropsOps.

Definition amap := key -> option val.
Definition a_empty : amap := fun _ => None.
Definition a_set (m : amap) (k : key) (v : option val) : amap :=
  fun k' => if key_eqb k k' then v else m k'.

(* number of keys of the universe U that are present *)
Definition live_count (U : list key) (m : amap) : nat :=
  length (filter (fun k => match m k with Some _ => true | None => false end) U).

Record sstate := mkS {
  s_map : owner -> amap;          (* consulted only at canonical names of existing owners *)
  s_ncols : nat;
  s_rows : list (bool * nat);     (* per row id: in the table?, number of cells *)
  s_ndets : nat;
  s_handles : list nat            (* handle h was taken for column s_handles[h] *)
}.

Definition s_init : sstate := mkS (fun _ => a_empty) 0 [] 0 [].

Definition s_put (f : owner -> amap) (o : owner) (m : amap) : owner -> amap :=
  fun o' => if owner_eqb o o' then m else f o'.

(* the canonical name of an owner, None when there is no such owner *)
Definition canon (st : sstate) (o : owner) : option owner :=
  match o with
  | OTable => Some OTable
  | OCol n => if n <=? s_ncols st then Some (OCol n) else None
  | OHandle h => match nth_error (s_handles st) h with Some n => Some (OCol n) | None => None end
  | ORow r => match nth_error (s_rows st) r with Some _ => Some (ORow r) | None => None end
  | OCell r c => match nth_error (s_rows st) r with
                 | Some (_, nc) => if c <? nc then Some (OCell r c) else None
                 | None => None
                 end
  | ODet d => if d <? s_ndets st then Some (ODet d) else None
  end.

Definition s_is_cell (o : owner) : bool :=
  match o with OCell _ _ | ODet _ => true | _ => false end.

Fixpoint s_upd {A} (l : list A) (i : nat) (x : A) : list A :=
  match l, i with
  | [], _ => []
  | _ :: r, 0 => x :: r
  | y :: r, S j => y :: s_upd r j x
  end.

(* new columns start empty; columns that exist keep their maps *)
Definition s_grow (st : sstate) (n : nat) (f : owner -> amap) : owner -> amap :=
  fun o => match o with
           | OCol c => if s_ncols st <? c then a_empty else f o
           | _ => f o
           end.

(* every cell of the (new) row r starts empty *)
Definition s_fresh_cells (r : nat) (f : owner -> amap) : owner -> amap :=
  fun o => match o with
           | OCell r' c => if Nat.eqb r r' then a_empty else f o
           | _ => f o
           end.

Definition s_step (st : sstate) (o : op) : sstate * nat :=
  match o with
  | SetP ow k v =>
      match canon st ow with
      | None => (st, R_INVALID)
      | Some c => (mkS (s_put (s_map st) c (a_set (s_map st c) k v)) (s_ncols st) (s_rows st) (s_ndets st) (s_handles st), R_OK)
      end
  | GetP ow k =>
      match canon st ow with
      | None => (st, R_INVALID)
      | Some c => (st, enc (s_map st c k))
      end
  | CopyCell ow =>
      if s_is_cell ow then
        match canon st ow with
        | None => (st, R_INVALID)
        | Some c => (mkS (s_put (s_map st) (ODet (s_ndets st)) (s_map st c)) (s_ncols st) (s_rows st) (S (s_ndets st)) (s_handles st), R_OK)
        end
      else (st, R_INVALID)
  | NewCell =>
      (mkS (s_put (s_map st) (ODet (s_ndets st)) a_empty) (s_ncols st) (s_rows st) (S (s_ndets st)) (s_handles st), R_OK)
  | NewRow =>
      (mkS (s_put (s_map st) (ORow (length (s_rows st))) a_empty) (s_ncols st) (s_rows st ++ [(false, 0)]) (s_ndets st) (s_handles st), R_OK)
  | RowAdd r d =>
      match nth_error (s_rows st) r with
      | Some (false, nc) =>
          if d <? s_ndets st then
            (mkS (s_put (s_map st) (OCell r nc) (s_map st (ODet d))) (s_ncols st) (s_upd (s_rows st) r (false, S nc)) (s_ndets st) (s_handles st), R_OK)
          else (st, R_INVALID)
      | _ => (st, R_INVALID)
      end
  | AddRow r =>
      match nth_error (s_rows st) r with
      | Some (false, nc) =>
          (mkS (s_grow st nc (s_map st)) (Nat.max (s_ncols st) nc) (s_upd (s_rows st) r (true, nc)) (s_ndets st) (s_handles st), R_OK)
      | _ => (st, R_INVALID)
      end
  | AddRowItems n =>
      let r := length (s_rows st) in
      (mkS (s_put (s_fresh_cells r (s_grow st n (s_map st))) (ORow r) a_empty)
           (Nat.max (s_ncols st) n) (s_rows st ++ [(true, n)]) (s_ndets st) (s_handles st), R_OK)
  | TakeColumn n =>
      if n <=? s_ncols st then (mkS (s_map st) (s_ncols st) (s_rows st) (s_ndets st) (s_handles st ++ [n]), R_OK)
      else (st, R_INVALID)
  | AddHeaders n =>
      (* headers, however often and however long: every column that exists keeps
         existing and keeps its map; columns that come into being start empty *)
      (mkS (s_grow st n (s_map st)) (Nat.max (s_ncols st) n) (s_rows st) (s_ndets st) (s_handles st), R_OK)
  | Touch ow =>
      (* not a set: nobody's map changes *)
      match canon st ow with
      | None => (st, R_INVALID)
      | Some _ => (st, R_OK)
      end
  | AddSeparator =>
      (* every separator is a row of its own, hence an owner of its own, starting empty *)
      (mkS (s_put (s_map st) (ORow (length (s_rows st))) a_empty) (s_ncols st) (s_rows st ++ [(true, 0)]) (s_ndets st) (s_handles st), R_OK)
  | NewCellOf ow =>
      if s_is_cell ow then
        match canon st ow with
        | None => (st, R_INVALID)
        | Some _ => (mkS (s_put (s_map st) (ODet (s_ndets st)) a_empty) (s_ncols st) (s_rows st) (S (s_ndets st)) (s_handles st), R_OK)
        end
      else (st, R_INVALID)
  end.

Definition s_entry (st : sstate) (U : list key) (o : owner) : option (nat * list nat) :=
  match canon st o with
  | None => None
  | Some c => Some (live_count U (s_map st c), map (fun k => enc (s_map st c k)) U)
  end.

Definition s_dump (st : sstate) (U : list key) (watch : list owner) : dump := map (s_entry st U) watch.

Fixpoint s_run (st : sstate) (U : list key) (watch : list owner) (ops : list op) : list stepobs :=
  match ops with
  | [] => []
  | o :: rest => let '(st', r) := s_step st o in (r, s_dump st' U watch) :: s_run st' U watch rest
  end.

(* the key universe of a case must name every key the history sets, without
   repetition: "live keys" are counted over it *)
Definition op_key (o : op) : list key :=
  match o with SetP _ k _ => [k] | GetP _ k => [k] | _ => [] end.
Fixpoint nodupb (l : list key) : bool :=
  match l with
  | [] => true
  | k :: r => negb (existsb (key_eqb k) r) && nodupb r
  end.
Definition universe_ok (U : list key) (ops : list op) : bool :=
  nodupb U && forallb (fun k => existsb (key_eqb k) U) (flat_map op_key ops).

(* the property, judged on an observed trace *)
Definition expected (U : list key) (watch : list owner) (ops : list op) : list stepobs :=
  s_run s_init U watch ops.
