(* C12 - what the property says about a table handled through rendering
   wrappers, written without reference to the model: a wrapper STANDS FOR the
   table it was made around, so

     * an owner reached through a wrapper (the table itself, t.Column(n), a
       cell through CellAt) is the very owner reached through the table: one
       map per owner, under all of its names;
     * making a wrapper changes nobody's map;
     * the table and its defaults column 0 stay two owners whichever facade
       the set went through.

   The owners' maps are those of Spec/PropMap.v; a facade only has to exist. *)
From Tab Require Export Base.PropsViaOps Spec.PropMap.

Definition vsstate := (sstate * nat)%type.       (* the owners' maps, number of wrappers made *)
Definition vs_init : vsstate := (s_init, 0).

Definition vs_step (vs : vsstate) (o : vop) : vsstate * nat :=
  match o with
  | VWrap _ => ((fst vs, S (snd vs)), R_OK)
  | VOp w x =>
      if w <=? snd vs then (let sr := s_step (fst vs) x in ((fst sr, snd vs), snd sr))
      else (vs, R_INVALID)
  end.

Definition vs_entry (vs : vsstate) (U : list key) (vo : vowner) : option (nat * list nat) :=
  if fst vo <=? snd vs then s_entry (fst vs) U (snd vo) else None.

Definition vs_dump (vs : vsstate) (U : list key) (watch : list vowner) : dump := map (vs_entry vs U) watch.

Fixpoint vs_run (vs : vsstate) (U : list key) (watch : list vowner) (ops : list vop) : list stepobs :=
  match ops with
  | [] => []
  | o :: rest => let sr := vs_step vs o in (snd sr, vs_dump (fst sr) U watch) :: vs_run (fst sr) U watch rest
  end.

Definition vuniverse_ok (U : list key) (ops : list vop) : bool := universe_ok U (vops_ops ops).

(* the property, judged on an observed trace *)
Definition vexpected (U : list key) (watch : list vowner) (ops : list vop) : list stepobs :=
  vs_run vs_init U watch ops.
