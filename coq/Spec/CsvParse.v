(* A strict parser for RFC 4180 in its all-fields-quoted form, as a byte-level
   state machine run by fold_left (structural, no fuel).

     file   = *record
     record = field *("," field) LF
     field  = DQUOTE *( any byte but DQUOTE / 2DQUOTE ) DQUOTE

   Inside quotes every byte other than the quote (comma, CR, LF, NUL, >= 0x80)
   is data.  Anything else is a parse error.  This is the independent reading
   of "RFC 4180 all-fields-quoted syntax that a strict parser reads back". *)
From Tab Require Export Base.Bytes.

Inductive csv_mode :=
| MRec      (* at the start of a record: end of input allowed, or a quote *)
| MField    (* after a comma: a quote must follow *)
| MInQ      (* inside a quoted field *)
| MQQ       (* saw a quote inside a quoted field: "" or end of field *)
| MFail.

Record csv_st := mkCsvSt {
  cs_recs   : list (list bytes);   (* completed records *)
  cs_fields : list bytes;          (* completed fields of the current record *)
  cs_cur    : bytes;               (* bytes of the current field *)
  cs_mode   : csv_mode
}.

Definition csv_init : csv_st := mkCsvSt [] [] [] MRec.

Definition csv_fail (s : csv_st) : csv_st := mkCsvSt (cs_recs s) (cs_fields s) (cs_cur s) MFail.

Definition csv_step (s : csv_st) (b : N) : csv_st :=
  match cs_mode s with
  | MFail => s
  | MRec | MField =>
      if N.eqb b DQ then mkCsvSt (cs_recs s) (cs_fields s) [] MInQ else csv_fail s
  | MInQ =>
      if N.eqb b DQ then mkCsvSt (cs_recs s) (cs_fields s) (cs_cur s) MQQ
      else mkCsvSt (cs_recs s) (cs_fields s) (cs_cur s ++ [b]) MInQ
  | MQQ =>
      if N.eqb b DQ then mkCsvSt (cs_recs s) (cs_fields s) (cs_cur s ++ [DQ]) MInQ
      else if N.eqb b COMMA then mkCsvSt (cs_recs s) (cs_fields s ++ [cs_cur s]) [] MField
      else if N.eqb b LF then mkCsvSt (cs_recs s ++ [cs_fields s ++ [cs_cur s]]) [] [] MRec
      else csv_fail s
  end.

Definition csv_run (s : csv_st) (input : bytes) : csv_st := fold_left csv_step input s.

Definition parse_csv (input : bytes) : option (list (list bytes)) :=
  let s := csv_run csv_init input in
  match cs_mode s with
  | MRec => Some (cs_recs s)
  | _ => None
  end.

(* what the table says the file must contain: header (if any) then each
   non-separator row, every record padded with empty fields to ncols *)
Definition pad_to (n : nat) (r : list bytes) : list bytes := r ++ repeat [] (n - length r).
