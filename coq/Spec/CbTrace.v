(* C13, what the property SAYS - written from the statement, not from the code:

     "Add-time callbacks are invoked exactly once per matching target - a row's
      cell callbacks when a cell is added to that row, and table- and
      column-level cell and row callbacks when a row with its cells is added to
      the table - and each render-time callback exactly once per matching
      target per render pass, in the documented nesting order: table, columns,
      then per row the row itself and per cell the pre-cell callbacks of table,
      column and row, the render callbacks of table and cell, and the post-cell
      callbacks of row, column and table, then the row, the columns and the
      table again.  The object handed to a callback is the live table, column,
      row or cell, so properties it sets are visible afterwards through the
      table, and registering an unsupported owner/target combination is refused
      with an error."

   Nothing here refers to Model/.  The table a history builds (how many cells
   each row has, which rows are in the table and in which order, the header,
   the column count) is recomputed here by [shape_step]; the registrations in
   force are the accepted ones, in registration order. *)
From Tab Require Export Base.CbTypes.

(* ---- registrations *)
Record reg := mkReg { r_owner : owner; r_time : ctime; r_target : target; r_cb : nat }.

(* supported owner/target combinations: a table has callbacks for itself, for
   its cells and for its rows; a column for itself and its cells; a row for
   itself and its cells; a cell for itself *)
Definition accepts (k : okind) (g : target) : bool :=
  match k, g with
  | KTable, _ => true
  | KColumn, GItself | KColumn, GCell => true
  | KColumn, GRow => false
  | KRow, _ => true
  | KCell, GItself | KCell, GCell => true
  | KCell, GRow => false
  end.

(* a row's "row" is the row itself, a cell's "cell" is the cell itself *)
Definition norm (k : okind) (g : target) : target :=
  match k, g with
  | KRow, GRow => GItself
  | KCell, GCell => GItself
  | _, _ => g
  end.

(* rg is one of owner o's callbacks aimed at g (g in normal form), for time tm *)
Definition is_for (o : owner) (g : target) (tm : ctime) (rg : reg) : bool :=
  owner_eqb (r_owner rg) o && target_eqb (norm (kind o) (r_target rg)) g && ctime_eqb (r_time rg) tm.

(* those callbacks, in registration order, each handed the object x *)
Definition fire (regs : list reg) (o : owner) (g : target) (tm : ctime) (x : tgt) : list event :=
  map (fun rg => (r_cb rg, x)) (filter (is_for o g tm) regs).

(* ---- the table a history builds *)
Record srow := mkSrow { sr_cells : option nat;    (* None: a separator *)
                        sr_attached : bool }.     (* is in the table (body row, header row or separator) *)
Record shape := mkShape { sh_rows : list srow;    (* every row ever made, by id *)
                          sh_order : list nat;    (* body rows and separators of the table, in order *)
                          sh_header : option nat;
                          sh_ncols : nat }.
Definition shape0 : shape := mkShape [] [] None 0.

Definition cells_n (sr : srow) : nat := match sr_cells sr with Some n => n | None => 0 end.

Definition shape_step (sh : shape) (o : op) : shape :=
  let id := length (sh_rows sh) in
  match o with
  | ONewRow => mkShape (sh_rows sh ++ [mkSrow (Some 0) false]) (sh_order sh) (sh_header sh) (sh_ncols sh)
  | ORowAdd r =>
      match nth_error (sh_rows sh) r with
      | Some (mkSrow (Some n) att) =>
          mkShape (set_nth (sh_rows sh) r (mkSrow (Some (S n)) att)) (sh_order sh) (sh_header sh)
                  (if att then Nat.max (sh_ncols sh) (S n) else sh_ncols sh)
      | _ => sh
      end
  | OAddRow r =>
      match nth_error (sh_rows sh) r with
      | Some sr =>
          mkShape (set_nth (sh_rows sh) r (mkSrow (sr_cells sr) true)) (sh_order sh ++ [r]) (sh_header sh)
                  (Nat.max (sh_ncols sh) (cells_n sr))
      | None => sh
      end
  | OAppendNewRow => mkShape (sh_rows sh ++ [mkSrow (Some 0) true]) (sh_order sh ++ [id]) (sh_header sh) (sh_ncols sh)
  | OAddRowItems n => mkShape (sh_rows sh ++ [mkSrow (Some n) true]) (sh_order sh ++ [id]) (sh_header sh) (Nat.max (sh_ncols sh) n)
  | OAddSeparator => mkShape (sh_rows sh ++ [mkSrow None true]) (sh_order sh ++ [id]) (sh_header sh) (sh_ncols sh)
  | OAddHeaders n => mkShape (sh_rows sh ++ [mkSrow (Some n) true]) (sh_order sh) (Some id) (Nat.max (sh_ncols sh) n)
  | ORegister _ _ _ _ => sh
  (* the row becomes a row of another table as well; this table - its rows,
     their order, its header, its columns - is what it was *)
  | OOtherAddRow _ => sh
  end.

(* ---- which histories the property quantifies over *)
Definition owner_exists (sh : shape) (o : owner) : bool :=
  match o with
  | OTable => true
  | OColumn n => n <=? sh_ncols sh
  | ORow r => r <? length (sh_rows sh)
  | OCell r c =>
      match nth_error (sh_rows sh) r with
      | Some (mkSrow (Some n) _) => (1 <=? c) && (c <=? n)
      | _ => false
      end
  end.

(* rows named by an operation exist; AddRow is given a row with cells (the
   public API cannot make a detached separator) that is not yet in a table: a
   row is added at most once (DESIGN section 13, decision 1); a registration
   names an existing owner *)
Definition op_wf (sh : shape) (o : op) : bool :=
  match o with
  | ORowAdd r => r <? length (sh_rows sh)
  | OAddRow r => match nth_error (sh_rows sh) r with Some (mkSrow (Some _) false) => true | _ => false end
  | ORegister ow _ _ _ => owner_exists sh ow
  (* the other table is handed a row with cells, like this table's AddRow; the
     row may or may not be in this table, before or afterwards *)
  | OOtherAddRow r => match nth_error (sh_rows sh) r with Some (mkSrow (Some _) _) => true | _ => false end
  | _ => true
  end.

Fixpoint wf_from (sh : shape) (h : list op) : bool :=
  match h with
  | [] => true
  | o :: r => op_wf sh o && wf_from (shape_step sh o) r
  end.
Definition wf_hist (h : list op) : bool := wf_from shape0 h.

Definition final_shape (sh : shape) (h : list op) : shape := fold_left shape_step h sh.

(* ---- a row that another table holds too: what the run-time oracle is asked
   about (Run/C13Run.v).  A *Row has one table pointer, and two things follow
   it rather than the table that is being built or rendered: where a cell
   added to the row afterwards is announced, and which table's column a cell
   of the row counts as being in.  The property does not say which table those
   should be once a row is in two, so histories in which it would matter are
   not judged: once another table has taken a row, the row gets no more cells,
   and a history with such a row has no column-level cell callbacks for the two
   render times.  (Theorems quantify over [wf_hist] alone: they describe the
   model, in which the table at hand always decides.) *)
Definition is_row_add (r : nat) (o : op) : bool :=
  match o with ORowAdd r' => r' =? r | _ => false end.
Definition is_other_add (o : op) : bool :=
  match o with OOtherAddRow _ => true | _ => false end.
Definition is_column_render_cell_reg (o : op) : bool :=
  match o with
  | ORegister (OColumn _) TPre GCell _ | ORegister (OColumn _) TPost GCell _ => true
  | _ => false
  end.
Fixpoint no_add_after_share (h : list op) : bool :=
  match h with
  | [] => true
  | OOtherAddRow r :: rest => negb (existsb (is_row_add r) rest) && no_add_after_share rest
  | _ :: rest => no_add_after_share rest
  end.
Definition shared_domain (h : list op) : bool :=
  if existsb is_other_add h
  then no_add_after_share h && negb (existsb is_column_render_cell_reg h)
  else true.

Definition regs_step (regs : list reg) (o : op) : list reg :=
  match o with
  | ORegister ow tm g cb => if accepts (kind ow) g then regs ++ [mkReg ow tm g cb] else regs
  | _ => regs
  end.
Definition final_regs (regs : list reg) (h : list op) : list reg := fold_left regs_step h regs.

(* per registration attempt: is it refused *)
Definition regerr_step (o : op) : list bool :=
  match o with
  | ORegister ow _ g _ => [negb (accepts (kind ow) g)]
  | _ => []
  end.
Definition spec_regerr (h : list op) : list bool := flat_map regerr_step h.

(* ---- the render pass, in the documented nesting order *)
Definition spec_cell (regs : list reg) (r c : nat) : list event :=
  let x := XCell r c in
  (* pre-cell callbacks of table, column and row *)
  fire regs OTable GCell TPre x ++ fire regs (OColumn c) GCell TPre x ++ fire regs (ORow r) GCell TPre x
  (* the render callbacks of table and cell *)
  ++ fire regs OTable GCell TRender x ++ fire regs (OCell r c) GItself TRender x
  (* post-cell callbacks of row, column and table *)
  ++ fire regs (ORow r) GCell TPost x ++ fire regs (OColumn c) GCell TPost x ++ fire regs OTable GCell TPost x.

Definition spec_row (regs : list reg) (sh : shape) (r : nat) : list event :=
  match nth_error (sh_rows sh) r with
  | Some sr =>
      fire regs (ORow r) GItself TPre (XRow r)
      ++ flat_map (spec_cell regs r) (seq 1 (cells_n sr))
      ++ fire regs (ORow r) GItself TPost (XRow r)
  | None => []
  end.

Definition spec_cols (regs : list reg) (sh : shape) (tm : ctime) : list event :=
  flat_map (fun n => fire regs (OColumn n) GItself tm (XCol n)) (seq 0 (S (sh_ncols sh))).

Definition spec_trace (regs : list reg) (sh : shape) : list event :=
  fire regs OTable GItself TPre XTable
  ++ spec_cols regs sh TPre
  ++ match sh_header sh with Some h => spec_row regs sh h | None => [] end     (* header row first *)
  ++ flat_map (spec_row regs sh) (sh_order sh)
  ++ spec_cols regs sh TPost
  ++ fire regs OTable GItself TPost XTable.

Fixpoint repeat_app {A} (l : list A) (k : nat) : list A :=
  match k with 0 => [] | S k' => l ++ repeat_app l k' end.

Definition spec_render (h : list op) (k : nat) : list event :=
  repeat_app (spec_trace (final_regs [] h) (final_shape shape0 h)) k.

(* ---- add time.  What an operation adds, in the table it is executed on: *)
(* cells added to a row (a row's cell callbacks fire) *)
Definition cells_added (sh : shape) (o : op) : list (nat * nat) :=
  match o with
  | ORowAdd r =>
      match nth_error (sh_rows sh) r with
      | Some (mkSrow (Some n) _) => [(r, S n)]
      | _ => []
      end
  | OAddRowItems n | OAddHeaders n => map (pair (length (sh_rows sh))) (seq 1 n)
  | _ => []
  end.

(* rows with cells (not separators) added to the table (the row's own and the table's row callbacks fire) *)
Definition rows_joined (sh : shape) (o : op) : list nat :=
  match o with
  | OAddRow r => if r <? length (sh_rows sh) then [r] else []
  | OAppendNewRow | OAddRowItems _ | OAddHeaders _ => [length (sh_rows sh)]
  | _ => []
  end.

(* cells that become cells of the table, with their row or later (column and table cell callbacks fire) *)
Definition cells_joined (sh : shape) (o : op) : list (nat * nat) :=
  match o with
  | OAddRow r =>
      match nth_error (sh_rows sh) r with
      | Some sr => map (pair r) (seq 1 (cells_n sr))
      | None => []
      end
  | OAddRowItems n | OAddHeaders n => map (pair (length (sh_rows sh))) (seq 1 n)
  | ORowAdd r =>
      match nth_error (sh_rows sh) r with
      | Some (mkSrow (Some n) true) => [(r, S n)]
      | _ => []
      end
  | _ => []
  end.

Definition add_step (sh : shape) (regs : list reg) (o : op) : list event :=
  flat_map (fun rc => fire regs (ORow (fst rc)) GCell TAdd (XCell (fst rc) (snd rc))) (cells_added sh o)
  ++ flat_map (fun r => fire regs (ORow r) GItself TAdd (XRow r) ++ fire regs OTable GRow TAdd (XRow r)) (rows_joined sh o)
  ++ flat_map (fun rc => fire regs (OColumn (snd rc)) GCell TAdd (XCell (fst rc) (snd rc))
                         ++ fire regs OTable GCell TAdd (XCell (fst rc) (snd rc))) (cells_joined sh o).

(* the add-time invocations of a history; their order is not part of the
   property, so this list is only ever read as a multiset *)
Fixpoint spec_add_from (sh : shape) (regs : list reg) (h : list op) : list event :=
  match h with
  | [] => []
  | o :: r => add_step sh regs o ++ spec_add_from (shape_step sh o) (regs_step regs o) r
  end.
Definition spec_add (h : list op) : list event := spec_add_from shape0 [] h.

(* ---- what a callback can see of its target when it is invoked: "a row WITH
   ITS CELLS is added to the table" - the row handed over (or the row of the
   cell handed over) has all the cells the operation gives it.  The view of a
   target is the number of cells of its row; at add time that is the number
   after the operation, at render time that of the finished table. *)
Definition view_of (sh : shape) (x : tgt) : nat :=
  match x with
  | XRow r | XCell r _ => match nth_error (sh_rows sh) r with Some sr => cells_n sr | None => 0 end
  | _ => 0
  end.

Fixpoint spec_add_views_from (sh : shape) (regs : list reg) (h : list op) : list nat :=
  match h with
  | [] => []
  | o :: r => map (fun e : event => view_of (shape_step sh o) (snd e)) (add_step sh regs o)
              ++ spec_add_views_from (shape_step sh o) (regs_step regs o) r
  end.
Definition spec_add_views (h : list op) : list nat := spec_add_views_from shape0 [] h.

Definition spec_render_views (h : list op) (k : nat) : list nat :=
  map (fun e : event => view_of (final_shape shape0 h) (snd e)) (spec_render h k).

(* ---- "exactly once per matching target", declaratively *)
(* x is a matching target of the add-time registration rg *)
Definition applies (rg : reg) (x : tgt) : bool :=
  match x with
  | XCell r c => is_for (ORow r) GCell TAdd rg || is_for (OColumn c) GCell TAdd rg || is_for OTable GCell TAdd rg
  | XRow r => is_for (ORow r) GItself TAdd rg || is_for OTable GRow TAdd rg
  | _ => false
  end.

Definition has_cell (sh : shape) (r c : nat) : bool :=
  match nth_error (sh_rows sh) r with
  | Some (mkSrow (Some n) _) => (1 <=? c) && (c <=? n)
  | _ => false
  end.
Definition in_table (sh : shape) (r : nat) : bool :=
  match nth_error (sh_rows sh) r with
  | Some (mkSrow (Some _) true) => true
  | _ => false
  end.

(* x has already been added, in the sense rg cares about: to its row for a
   row's cell callback, to the table for everything else *)
Definition present (sh : shape) (rg : reg) (x : tgt) : bool :=
  match x with
  | XCell r c => if is_for (ORow r) GCell TAdd rg then has_cell sh r c else has_cell sh r c && in_table sh r
  | XRow r => in_table sh r
  | _ => false
  end.

(* rg fires on x in history h = h1 ++ register rg :: h2 iff x is a matching
   target that is added after the registration: there at the end, not there
   when rg was registered *)
Definition matches_add (h1 h2 : list op) (rg : reg) (x : tgt) : bool :=
  applies rg x
  && present (final_shape shape0 (h1 ++ h2)) rg x
  && negb (present (final_shape shape0 h1) rg x).

(* ---- render time: x is a matching target of rg in the finished table *)
(* the rows a pass visits: the header row, then the body rows and separators *)
Definition rows_in_table (sh : shape) : list nat :=
  match sh_header sh with Some h => [h] | None => [] end ++ sh_order sh.

(* rg is one of the eight groups invoked for cell (r,c) *)
Definition cell_groups (rg : reg) (r c : nat) : bool :=
  is_for OTable GCell TPre rg || is_for (OColumn c) GCell TPre rg || is_for (ORow r) GCell TPre rg
  || is_for OTable GCell TRender rg || is_for (OCell r c) GItself TRender rg
  || is_for (ORow r) GCell TPost rg || is_for (OColumn c) GCell TPost rg || is_for OTable GCell TPost rg.

Definition matches_render (sh : shape) (rg : reg) (x : tgt) : bool :=
  match x with
  | XTable => is_for OTable GItself TPre rg || is_for OTable GItself TPost rg
  | XCol n => (n <=? sh_ncols sh) && (is_for (OColumn n) GItself TPre rg || is_for (OColumn n) GItself TPost rg)
  | XRow r =>
      existsb (Nat.eqb r) (rows_in_table sh)
      && ((r <? length (sh_rows sh)) && (is_for (ORow r) GItself TPre rg || is_for (ORow r) GItself TPost rg))
  | XCell r c => existsb (Nat.eqb r) (rows_in_table sh) && (has_cell sh r c && cell_groups rg r c)
  | XUnknown => false
  end.
