(* What C18 says, written without reference to Model/Length.v.

   Lines: a left-to-right scanner with TERMINATOR semantics - every LF ends
   the line collected so far; what remains after the last LF is a line only
   if it is not empty.  (So "" has no lines, "\n" has one empty line, "a\n"
   and "a" both have the single line "a", "a\n\n" has the lines "a" and "".) *)
From Tab Require Export Base.Bytes Base.Utf8.

Fixpoint scan_lines (cur : bytes) (s : bytes) : list bytes :=   (* cur: current line, reversed *)
  match s with
  | [] => match cur with [] => [] | _ => [rev cur] end
  | b :: r => if N.eqb b LF then rev cur :: scan_lines [] r else scan_lines (b :: cur) r
  end.

Definition spec_lines (s : bytes) : list bytes := scan_lines [] s.

(* the string ends in a newline *)
Fixpoint ends_with_lf (s : bytes) : bool :=
  match s with
  | [] => false
  | [b] => N.eqb b LF
  | _ :: r => ends_with_lf r
  end.

(* "splitting into lines loses nothing but the line breaks and at most one
   trailing newline": putting the breaks back gives the string, up to that one
   trailing newline *)
Definition lossless (s : bytes) (ls : list bytes) : Prop :=
  s = join [LF] ls ++ (if ends_with_lf s then [LF] else []).

Definition losslessb (s : bytes) (ls : list bytes) : bool :=
  bytes_eqb s (join [LF] ls ++ (if ends_with_lf s then [LF] else [])).

Lemma losslessb_spec s ls : losslessb s ls = true <-> lossless s ls.
Proof. apply bytes_eqb_eq. Qed.

(* ---- the assumptions about go-runewidth / uniseg under which "display
   cells never exceed twice the runes" is claimed *)
Section Oracle.
  Variable seg : bytes -> list (list Z).
  Variable rw : Z -> nat.

  (* the grapheme clusters of s, concatenated, are the runes of s *)
  Definition seg_partition : Prop := forall s, concat (seg s) = decode_runes s.
  (* no cluster is empty *)
  Definition seg_nonempty : Prop := forall s cl, In cl (seg s) -> cl <> [].
  (* RuneWidth is 0, 1 or 2 *)
  Definition rw_le_2 : Prop := forall r, rw r <= 2.
  (* the weaker form that is really needed, given how StringWidth measures a
     cluster: [cw] is the cluster measure, no cluster is wider than 2 *)
  Definition clusters_le_2 (cw : list Z -> nat) : Prop := forall s cl, In cl (seg s) -> cw cl <= 2.

  (* the same three facts for ONE string, decidable: checked by the harness on
     every string it generates *)
  Definition oracle_okb (s : bytes) : bool :=
    list_eqb Z.eqb (concat (seg s)) (decode_runes s)
    && forallb (fun cl => match cl with [] => false | _ => true end) (seg s)
    && forallb (fun cl => forallb (fun r => rw r <=? 2) cl) (seg s).
End Oracle.
