(* What C07 says the JSON output must be, and when rendering must fail,
   computed from the table alone (independently of Model/Json.v). *)
From Tab Require Export Model.View Spec.JsonParse.

(* the Skipable setting that governs body column i (0-based): the column's own
   boolean, else the all-columns default held by column 0, else false *)
Definition eff_skip (v : view) (i : nat) : bool :=
  match nth_error (v_skip v) (S i) with
  | Some (Some (SkBool b)) => b
  | _ => match nth_error (v_skip v) 0 with
         | Some (Some (SkBool b)) => b
         | _ => false
         end
  end.

Section Expect.
  Variable keyval : bytes -> bytes.     (* the string that a header text's JSON encoding denotes *)
  Variable cellval : vcell -> jvalue.   (* the value that a cell's JSON encoding denotes *)

  (* members of a row's object: header i -> value of cell i; cells the row
     lacks are absent; an empty cell is absent exactly where skipable *)
  Fixpoint row_members (v : view) (hs : list vcell) (i : nat) (cells : list vcell)
    : list (bytes * jvalue) :=
    match cells, hs with
    | c :: cs, h :: hs' =>
        (if eff_skip v i && vc_empty c then [] else [(keyval (vc_text h), cellval c)])
        ++ row_members v hs' (S i) cs
    | _, _ => []
    end.

  Definition header_cells (v : view) : list vcell :=
    match v_header v with Some h => h | None => [] end.

  Definition row_object (v : view) (cells : list vcell) : jvalue :=
    JObj (row_members v (header_cells v) 0 cells).

  (* one object per non-separator row, in order *)
  Definition json_expected (v : view) : jvalue := JArr (map (row_object v) (body_rows v)).
End Expect.

(* what a cell contributes as a value: the value its item's encoding denotes,
   or - when the item encodes as the empty object and the cell has text - the
   text as a JSON string.  strval / encval say what an encoding denotes. *)
Definition the_empty_obj : bytes := [123; 125]%N.
Definition cell_denotation (strval : bytes -> bytes) (encval : bytes -> jvalue) (c : vcell) : jvalue :=
  match vc_json c with
  | Some e =>
      if bytes_eqb e the_empty_obj && negb (match vc_text c with [] => true | _ => false end)
      then JStr (strval (vc_text c))
      else encval e
  | None => JNull
  end.

(* ---- when rendering must fail *)
Definition is_empty {A} (l : list A) : bool := match l with [] => true | _ => false end.
Definition skip_nonbool (o : option skipv) : bool := match o with Some SkOther => true | _ => false end.

Fixpoint has_dup (l : list bytes) : bool :=
  match l with [] => false | x :: r => existsb (bytes_eqb x) r || has_dup r end.

(* some cell that is not omitted has an item that Marshal refuses *)
Fixpoint marshal_fails (v : view) (i : nat) (cells : list vcell) : bool :=
  match cells with
  | [] => false
  | c :: cs =>
      (negb (eff_skip v i && vc_empty c) && match vc_json c with None => true | Some _ => false end)
      || marshal_fails v (S i) cs
  end.

Definition row_errb (v : view) (cells : list vcell) : bool :=
  (v_ncols v <? length cells) || marshal_fails v 0 cells.

(* the texts that serve as keys: the first ncols header cells *)
Definition key_texts (v : view) (h : list vcell) : list bytes := map vc_text (firstn (v_ncols v) h).

Definition json_errb (v : view) : bool :=
  (v_ncols v =? 0)
  || skip_nonbool (match nth_error (v_skip v) 0 with Some o => o | None => None end)
  || match v_header v with
     | None => true
     | Some h =>
         (length h <? v_ncols v)
         || existsb is_empty (key_texts v h)
         || has_dup (key_texts v h)
         || existsb skip_nonbool (firstn (v_ncols v) (tl (v_skip v)))
         || existsb (row_errb v) (body_rows v)
     end.

Definition json_error_condition (v : view) : Prop := json_errb v = true.
