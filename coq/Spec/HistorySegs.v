(* C02, histories in which some building calls are made from INSIDE another
   building call: an add-time callback (on the table for rows or cells, on a
   column, on a row) which itself appends cells to the row being added, adds
   a separator or a row, replaces the header.  Such a nested call is a
   table-building call like any other, and "the sequence of table-building
   calls" lists it where it was made: after the call it is nested in (whose
   own effect on the counts - the row joins the table, the header is set -
   comes before its callbacks run).  What cannot be done is to look at the
   table between the two: the caller gets control back only when the outer
   call returns.  So the history is cut into segments, one per call the
   PROGRAM made (the call and everything its callbacks did), and the table is
   expected to show, after every segment, what the history up to there says.
   With every segment of length 1 this is spec_dump. *)
From Tab Require Export Spec.History.

Fixpoint spec_trace_segs (sp : spstate N) (h : list (op N)) (ns : list nat) : list obs :=
  match ns with
  | [] => []
  | n :: ns' =>
      let sp' := fold_left sp_step (firstn n h) sp in
      expected sp' :: spec_trace_segs sp' (skipn n h) ns'
  end.

Definition spec_dump_segs (h : list (op N)) (ns : list nat) : list N :=
  flat_map enc_obs (spec_trace_segs sp_init h ns).
