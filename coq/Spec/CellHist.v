(* What C01 says about a whole process history, written from the statement and
   without the cell model: every cell holds the item it was given, and "re-reads
   a mutated item only when asked to update" - so per cell the history
   determines the item and the state of the objects in which the cell last READ
   it (at NewCell, or at the last Update of that very cell).  The expected text
   is the documented text of the item in that state; cells made earlier or
   later, and updates of other cells, do not enter. *)
From Tab Require Export Spec.CellText Model.CellProc.

Definition reads := list (item * env).

Definition hstep (st : env * reads) (o : pop) : env * reads :=
  match o with
  | PNew it => (fst st, snd st ++ [(it, fst st)])
  | PUpdate k => (fst st, upd_nth (fun p => (fst p, fst st)) k (snd st))
  | PMutate e' => (e', snd st)
  end.

Definition hist_reads (e0 : env) (h : list pop) : reads := snd (fold_left hstep h (e0, [])).

Definition expected_text (p : item * env) : bytes := documented_text (snd p) (fst p).
