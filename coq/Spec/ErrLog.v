(* What C11 says, written without the model's functions (only the input
   types [cop], [event], [site] are shared with Model/):

   container: the log is the list of non-nil errors handed in, in order
     (nothing for a nil container, which accepts nothing); its view is nil
     when that list is empty and the list itself otherwise.
   table: every error has a source - the table, or a row.  An error whose
     source is the table or a row that already belongs to the table goes to
     the end of the table's log; an error on a row that does not yet belong
     to it is pending, and the row's pending errors are appended, in their
     order, when the row is attached.  Nil errors are nothing.
   another table: a row may also be added to another table.  That is no
     event of this table: its log does not change, whether the row was still
     outside it or already one of its rows, and it goes on growing as before.
     AddRow's documentation says what the other table gets: "any existing
     errors in the row become table errors" - what the row shows at that
     moment.  From then on the row reports to the other table; what is raised
     on it there is nothing this table owes. *)
From Tab Require Export Model.ErrRoute.

Fixpoint non_nil (l : list err) : list errid :=
  match l with
  | [] => []
  | None :: r => non_nil r
  | Some e :: r => e :: non_nil r
  end.

(* what Errors() must return for a log *)
Definition view (l : list errid) : option (list err) :=
  match l with [] => None | _ => Some (map Some l) end.

(* ---- container *)

(* the non-nil errors handed to a container, in order.  AddErrorList(Errors())
   hands it its own log again. *)
Fixpoint raised_from (acc : list errid) (ops : list cop) : list errid :=
  match ops with
  | [] => acc
  | OpAdd (Some e) :: r => raised_from (acc ++ [e]) r
  | OpAdd None :: r => raised_from acc r
  | OpAddList (Some l) :: r => raised_from (acc ++ non_nil l) r
  | OpAddList None :: r => raised_from acc r
  | OpErrors :: r => raised_from acc r
  | OpAddSelf :: r => raised_from (acc ++ acc) r
  end.
Definition raised_non_nil (ops : list cop) : list errid := raised_from [] ops.

(* a nil *ErrorContainer accepts nothing (errors_test.go TestNilContainer) *)
Definition cont_expected (m : cmode) (ops : list cop) : list errid :=
  match m with MNil => [] | _ => raised_non_nil ops end.

(* ---- table *)

(* None = the table *)
Definition source := option nat.

Definition site_has_row (s : site) : bool :=
  match s with
  | STblItselfPre | SColItselfPre | SColItselfPost | STblItselfPost => false
  | _ => true
  end.

Definition ev_src (ev : event) : source :=
  match ev with
  | RowAddError r _ => Some r
  | RowAddOnSeparator r _ => Some r
  | CallbackFails s r _ => if site_has_row s then Some r else None
  | _ => None
  end.

(* the non-nil errors an event raises *)
Definition ev_ids (ev : event) : list errid :=
  match ev with
  | RowAddError _ (Some e) => [e]
  | TableAddError (Some e) => [e]
  | TableAddErrorList (Some l) => non_nil l
  | RowAddOnSeparator _ e => [e]
  | CallbackFails _ _ (Some e) => [e]
  | _ => []
  end.

Definition src_eqb (a b : source) : bool :=
  match a, b with
  | None, None => true
  | Some x, Some y => x =? y
  | _, _ => false
  end.

(* everything source w raised during h, in order *)
Definition raised_by (h : list event) (w : source) : list errid :=
  flat_map (fun ev => if src_eqb (ev_src ev) w then ev_ids ev else []) h.

Definition all_ids (h : list event) : list errid := flat_map ev_ids h.

(* membership, to project a log onto one source *)
Definition memb (l : list errid) (e : errid) : bool := existsb (N.eqb e) l.

(* the row belongs to the table *)
Definition joins (ev : event) (r : nat) : bool :=
  match ev with
  | AttachRow r' | AddSeparator r' | AddHeaders r' => r' =? r
  | _ => false
  end.
Definition joined (h : list event) (r : nat) : bool := existsb (fun ev => joins ev r) h.

(* the other table has taken the row *)
Definition takes (ev : event) (r : nat) : bool :=
  match ev with OtherAttachRow r' => r' =? r | _ => false end.
Definition taken (h : list event) (r : nat) : bool := existsb (fun ev => takes ev r) h.

Definition delivered (h : list event) (w : source) : bool :=
  match w with None => true | Some r => joined h r end.

(* what an event appends to the table's log, given what came before *)
Definition contribution (pre : list event) (ev : event) : list errid :=
  (match ev with AttachRow r => raised_by pre (Some r) | _ => [] end)
  ++ (if delivered pre (ev_src ev) then ev_ids ev else []).

Section Scan.
  Context {A : Type} (f : list event -> event -> A).
  Fixpoint scan (pre h : list event) : list A :=
    match h with
    | [] => []
    | ev :: t => f pre ev :: scan (pre ++ [ev]) t
    end.
End Scan.

Definition expected_errors (h : list event) : list errid := concat (scan contribution [] h).

(* what a row that reports to this table or to nobody shows: the table's log
   once it belongs to the table, its own pending errors before *)
Definition shown (h : list event) (r : nat) : list errid :=
  if joined h r then expected_errors h else raised_by h (Some r).

(* the other table's log: what each row it takes shows at that moment, its own
   errors, and whatever is raised on its rows afterwards *)
Definition other_contribution (pre : list event) (ev : event) : list errid :=
  match ev with
  | OtherAttachRow r => shown pre r
  | OtherAddError (Some e) => [e]
  | OtherRowAddError _ (Some e) => [e]
  | _ => []
  end.
Definition other_expected (h : list event) : list errid := concat (scan other_contribution [] h).

(* the non-nil errors raised in the other table's world: on that table itself,
   or on a row while it reports there *)
Definition other_ids (h : list event) : list errid :=
  flat_map (fun ev => match ev with
                      | OtherAddError (Some e) | OtherRowAddError _ (Some e) => [e]
                      | _ => []
                      end) h.

(* what a row itself shows *)
Definition expected_row (h : list event) (r : nat) : list errid :=
  if taken h r then other_expected h else shown h r.

(* ---- the histories the theorem is about (DESIGN 13.1, 13.3) *)

Definition mentions (ev : event) (r : nat) : bool :=
  match ev with
  | RowAddError r' _ | AttachRow r' | AddSeparator r' | AddHeaders r'
  | RowAddOnSeparator r' _ | CallbackFails _ r' _
  | OtherAttachRow r' | OtherRowAddError r' _ => r' =? r
  | _ => false
  end.
Definition fresh (h : list event) (r : nat) : bool := negb (existsb (fun ev => mentions ev r) h).
Definition is_sep (h : list event) (r : nat) : bool :=
  existsb (fun ev => match ev with AddSeparator r' => r' =? r | _ => false end) h.

(* the only callbacks that can run for a row outside a table are its own cell
   callbacks at Row.Add *)
Definition site_detached_ok (s : site) : bool :=
  match s with SRowCellAdd => true | _ => negb (site_has_row s) end.

(* the call sites that hand a callback's error to the row (or to whatever the
   row's container is) and not to the table running the call: all of Row.Add,
   the cell callbacks of AddRow, the column's cell callbacks of a render pass *)
Definition site_via_row (s : site) : bool :=
  match s with
  | SRowCellAdd | SColCellRowAdd | STblCellRowAdd | SColCellAddRow | STblCellAddRow
  | SColCellPre | SColCellPost => true
  | _ => false
  end.

(* A row the other table has taken is never attached here afterwards, nor
   taken twice; whatever is handed to such a row is the event
   [OtherRowAddError] (and only that), so that a history says by itself which
   errors this table owes.  A render pass of this table still visits a row of
   its own that the other table took: what its callbacks hand to the table is
   the table's as before. *)
Definition wf_event (pre : list event) (ev : event) : bool :=
  match ev with
  | RowAddError r _ => negb (taken pre r)
  | AttachRow r => negb (joined pre r) && negb (taken pre r)   (* attached at most once; never a separator or header *)
  | AddSeparator r | AddHeaders r => fresh pre r           (* the table makes the row *)
  | RowAddOnSeparator r _ => is_sep pre r && negb (taken pre r)
  | CallbackFails s r _ => (site_detached_ok s || joined pre r) && negb (taken pre r && site_via_row s)
  | OtherAttachRow r => negb (taken pre r)
  | OtherRowAddError r _ => taken pre r
  | _ => true
  end.

Definition wf_histb (h : list event) : bool := forallb (fun b => b) (scan wf_event [] h).
Definition wf_hist (h : list event) : Prop := wf_histb h = true.
