(* What C17 and C19 say, written against histories and strings rather than
   against the model's state:
     - the expected result of every registry operation as a function of the
       history before it (last registration wins; Empty when there is none);
     - what a correct listing is (sorted, duplicate-free, exactly the names
       registered so far, built-ins included);
     - "fails closed": an unknown name gives an error and a table that renders
       to ("", error) from then on;
     - a checker for time-stamped concurrent histories;
     - the documented resolution of a style string (C19), on the string itself.
   Types (decoration, op, obs) are shared with Model/Registry.v; no model
   function other than the byte order is used here. *)
From Tab Require Export Model.Registry Model.Auto.

(* ---- byte order *)
Definition bytes_le (a b : bytes) : Prop := bytes_leb a b = true.

Fixpoint memb (x : bytes) (l : list bytes) : bool :=
  match l with [] => false | y :: r => bytes_eqb y x || memb x r end.

Fixpoint sortedb (l : list bytes) : bool :=
  match l with
  | [] => true
  | x :: r => match r with [] => true | y :: _ => bytes_leb x y && sortedb r end
  end.

Fixpoint nodupb (l : list bytes) : bool :=
  match l with [] => true | x :: r => negb (memb x r) && nodupb r end.

(* ---- the abstract map, read off a history *)

(* the last registration of n in ops *)
Fixpoint last_reg (ops : list op) (n : bytes) : option decoration :=
  match ops with
  | [] => None
  | o :: r =>
      match last_reg r n with
      | Some d => Some d
      | None => match o with OReg m d => if bytes_eqb m n then Some d else None | _ => None end
      end
  end.

(* what the world started with (the built-ins, as dumped from the library) *)
Definition init_named (init : registry) (n : bytes) : decoration :=
  match find (fun p => bytes_eqb (fst p) n) init with Some p => snd p | None => DEmpty end.

Definition spec_named (init : registry) (ops : list op) (n : bytes) : decoration :=
  match last_reg ops n with Some d => d | None => init_named init n end.

Definition registered (init : registry) (ops : list op) (n : bytes) : Prop :=
  In n (map fst init) \/ exists d, In (OReg n d) ops.

Definition registeredb (init : registry) (ops : list op) (n : bytes) : bool :=
  memb n (map fst init)
  || existsb (fun o => match o with OReg m _ => bytes_eqb m n | _ => false end) ops.

Definition reg_names (ops : list op) : list bytes :=
  flat_map (fun o => match o with OReg n _ => [n] | _ => [] end) ops.

Definition listing_ok (init : registry) (ops : list op) (l : list bytes) : bool :=
  sortedb l && nodupb l
  && forallb (registeredb init ops) l
  && forallb (fun k => memb k l) (map fst init)
  && forallb (fun o => match o with OReg m _ => memb m l | _ => true end) ops.

(* the six documented names (styles.go) *)
Local Open Scope N_scope.
Definition builtin_names : list bytes :=
  [ [97;115;99;105;105;45;115;105;109;112;108;101];                  (* ascii-simple *)
    [110;111;110;101];                                               (* none *)
    [117;116;102;56;45;108;105;103;104;116];                         (* utf8-light *)
    [117;116;102;56;45;108;105;103;104;116;45;99;117;114;118;101;100]; (* utf8-light-curved *)
    [117;116;102;56;45;104;101;97;118;121];                          (* utf8-heavy *)
    [117;116;102;56;45;100;111;117;98;108;101] ].                    (* utf8-double *)
Local Close Scope N_scope.

Definition four_names : list bytes := [s_csv; s_html; s_json; s_markdown].

(* the listing: sorted; the four sub-package names and every registered name
   are there; nothing else is; duplicate-free unless a registered name is one
   of the four *)
Definition styles_listing_ok (registered_names : list bytes) (l : list bytes) : bool :=
  sortedb l
  && forallb (fun n => memb n l) four_names
  && forallb (fun n => memb n l) registered_names
  && forallb (fun n => memb n four_names || memb n registered_names) l
  && (nodupb l || existsb (fun n => memb n four_names) registered_names).

Definition res_eqb_ {A} (eqb : A -> A -> bool) (a b : res A) : bool :=
  match a, b with
  | Ok x, Ok y => eqb x y
  | Err, Err => true
  | Panic, Panic => true
  | _, _ => false
  end.

(* one operation of a concurrent run: goroutine, call, result, stamps *)
Record event := Ev { e_g : nat; e_op : op; e_obs : obs; e_s : N; e_e : N }.

Section Spec.
  Variable body : decoration -> res bytes.

  (* Render of a text table holding decoration d: the empty decoration is
     refused with ("", error) *)
  Definition spec_render (d : decoration) : res (bytes * bool) :=
    if dec_is_empty d then Ok ([], true)
    else match body d with Ok b => Ok (b, false) | Err => Ok ([], true) | Panic => Panic end.

  (* decorations held by the tables goroutine g made, in order, after history
     bef: a fold carrying (the operations so far, the tables' decorations) *)
  Definition tab_step (init : registry) (g : nat) (acc : list op * list decoration) (a : nat * op)
    : list op * list decoration :=
    (fst acc ++ [snd a],
     if Nat.eqb (fst a) g then
       match snd a with
       | OSet n | OAutoNew n => snd acc ++ [spec_named init (fst acc) n]
       | OReSet k n => set_nth k (spec_named init (fst acc) n) (snd acc)
       | OSetDec k d => set_nth k d (snd acc)
       | _ => snd acc
       end
     else snd acc).

  Definition tab_fold (init : registry) (g : nat) (bef : list (nat * op)) : list op * list decoration :=
    fold_left (tab_step init g) bef ([], []).

  Definition tab_decs (init : registry) (g : nat) (bef : list (nat * op)) : list decoration :=
    snd (tab_fold init g bef).

  Definition obs_eqb (a b : obs) : bool :=
    let r_eqb := res_eqb_ (fun x y : bytes * bool => bytes_eqb (fst x) (fst y) && Bool.eqb (snd x) (snd y)) in
    match a, b with
    | VUnit, VUnit => true
    | VDec d, VDec d' => dec_eqb d d'
    | VNames l, VNames l' => list_eqb bytes_eqb l l'
    | VSet e r, VSet e' r' => Bool.eqb e e' && r_eqb r r'
    | VRender r, VRender r' => r_eqb r r'
    | VNone, VNone => true
    | _, _ => false
    end.

  (* is v what the property demands of action a after history bef? *)
  Definition seq_event_ok (init : registry) (bef : list (nat * op)) (a : nat * op) (v : obs) : bool :=
    let ops := map snd bef in
    match snd a with
    | OReg _ _ => obs_eqb v VUnit
    | ONamed n => obs_eqb v (VDec (spec_named init ops n))
    | ONames => match v with VNames l => listing_ok init ops l | _ => false end
    | OStyles => match v with VNames l => styles_listing_ok (map fst init ++ reg_names ops) l | _ => false end
    | OSet n => let d := spec_named init ops n in obs_eqb v (VSet (dec_is_empty d) (spec_render d))
    | OAutoNew n => obs_eqb v (VRender (spec_render (spec_named init ops n)))   (* fails closed through auto too *)
    | ORender k =>
        match nth_error (tab_decs init (fst a) bef) k with
        | Some d => obs_eqb v (VRender (spec_render d))
        | None => obs_eqb v VNone
        end
    | OReSet k n =>
        (* the lookup is made anew, whatever the table held or was selected by before *)
        match nth_error (tab_decs init (fst a) bef) k with
        | Some _ => let d := spec_named init ops n in obs_eqb v (VSet (dec_is_empty d) (spec_render d))
        | None => obs_eqb v VNone
        end
    | OSetDec k d =>
        match nth_error (tab_decs init (fst a) bef) k with
        | Some _ => obs_eqb v (VRender (spec_render d))
        | None => obs_eqb v VNone
        end
    end.

  Fixpoint seq_ok_from (init : registry) (bef : list (nat * op)) (tr : list (nat * op)) (vs : list obs) : bool :=
    match tr, vs with
    | [], [] => true
    | a :: r, v :: w => seq_event_ok init bef a v && seq_ok_from init (bef ++ [a]) r w
    | _, _ => false
    end.

  (* a sequential history with its observations *)
  Definition seq_ok (init : registry) (tr : list (nat * op)) (vs : list obs) : bool :=
    seq_ok_from init [] tr vs.

  (* ---- time-stamped concurrent histories.  e_s is taken before the call,
     e_e after it returned, from one clock; "a ended before b started" is
     e_e a < e_s b. *)
  Definition reg_of (n : bytes) (e : event) : option decoration :=
    match e_op e with OReg m d => if bytes_eqb m n then Some d else None | _ => None end.

  Definition regs_of (n : bytes) (H : list event) : list event :=
    filter (fun e => match reg_of n e with Some _ => true | None => false end) H.

  (* A read of name n by e is explained by a source: a registration w of n
     that started before e ended, or the initial content; and no other
     registration of n lies strictly between the source and e in real time.
     [expect d] says whether e's observation is what decoration d gives. *)
  Definition read_ok (init : registry) (H : list event) (n : bytes) (expect : decoration -> bool) (e : event) : bool :=
    let R := regs_of n H in
    existsb (fun w =>
      match reg_of n w with
      | Some dw => expect dw && N.leb (e_s w) (e_e e)
                   && negb (existsb (fun r => N.ltb (e_e w) (e_s r) && N.ltb (e_e r) (e_s e)) R)
      | None => false
      end) R
    || (expect (init_named init n) && negb (existsb (fun r => N.ltb (e_e r) (e_s e)) R)).

  (* extra = names every such listing has besides the registered ones (the
     four sub-package names for auto.ListStyles, which may then repeat a
     registered name: dupfree = false) *)
  Definition conc_listing_ok (extra : list bytes) (dupfree : bool) (init : registry) (H : list event) (l : list bytes) (e : event) : bool :=
    sortedb l && (if dupfree then nodupb l else true)
    && forallb (fun k => memb k l) extra
    && forallb (fun n => memb n extra || memb n (map fst init)
                         || existsb (fun w => match reg_of n w with Some _ => N.leb (e_s w) (e_e e) | None => false end) H) l
    && forallb (fun k => memb k l) (map fst init)
    && forallb (fun w => match e_op w with
                         | OReg m _ => if N.ltb (e_e w) (e_s e) then memb m l else true
                         | _ => true end) H.

  Definition event_ok (init : registry) (H : list event) (e : event) : bool :=
    match e_op e with
    | OReg _ _ => obs_eqb (e_obs e) VUnit
    | ONamed n => read_ok init H n (fun d => obs_eqb (e_obs e) (VDec d)) e
    | ONames => match e_obs e with VNames l => conc_listing_ok [] true init H l e | _ => false end
    | OStyles => match e_obs e with VNames l => conc_listing_ok four_names false init H l e | _ => false end
    | OSet n => read_ok init H n (fun d => obs_eqb (e_obs e) (VSet (dec_is_empty d) (spec_render d))) e
    | OAutoNew n => read_ok init H n (fun d => obs_eqb (e_obs e) (VRender (spec_render d))) e
    | OReSet _ n => obs_eqb (e_obs e) VNone
                    || read_ok init H n (fun d => obs_eqb (e_obs e) (VSet (dec_is_empty d) (spec_render d))) e
    | ORender _ | OSetDec _ _ => true     (* local to a goroutine; judged on sequential histories *)
    end.

  Definition C17_obs_ok (init : registry) (H : list event) : bool := forallb (event_ok init H) H.
End Spec.

(* ---------------------------------------------------------------- C19 *)

(* The documented resolution of a style string, read off the string itself
   (no splitting and re-joining): the dotted prefixes of s are the p with
   s = p or s = p ++ "." ++ _, shortest first; the first one is the first
   section. *)
Fixpoint dotted_prefixes (s : bytes) : list bytes :=
  match s with
  | [] => [[]]
  | c :: r =>
      if N.eqb c DOT then [] :: map (cons c) (dotted_prefixes r)
      else map (cons c) (dotted_prefixes r)
  end.

(* the decoration a name part selects: that of the longest dotted prefix
   registered with a non-empty decoration; Empty if there is none *)
Definition spec_select (amap : bytes -> decoration) (s : bytes) : decoration :=
  fold_left (fun acc p => if dec_is_empty (amap p) then acc else amap p) (dotted_prefixes s) DEmpty.

Definition first_section (s : bytes) : bytes := hd [] (dotted_prefixes s).

Section AutoSpec.
  Variable lower : bytes -> bytes.
  Variables r_csv r_html r_markdown r_json : res (bytes * bool).
  Variable body : decoration -> res bytes.

  Definition spec_resolve (amap : bytes -> decoration) (s : bytes) : kind * res (bytes * bool) :=
    let f := first_section s in
    let l := lower f in
    if bytes_eqb l s_csv then (KCsv, r_csv)
    else if bytes_eqb l s_html then (KHtml, r_html)
    else if bytes_eqb l s_markdown then (KMarkdown, r_markdown)
    else if bytes_eqb l s_json then (KJson, r_json)
    else if bytes_eqb l s_texttable then
      (if Nat.ltb 1 (length (dotted_prefixes s))
       then (KText, spec_render body (spec_select amap (skipn (S (length f)) s)))
       else (KText, spec_render body default_decoration))
    else (KText, spec_render body (spec_select amap s)).

  (* a listed name for which the code is known not to deliver (documented in
     Props/C19.v): "texttable" (any case) followed by more sections *)
  Definition texttable_dotted (s : bytes) : bool :=
    bytes_eqb (lower (first_section s)) s_texttable && Nat.ltb 1 (length (dotted_prefixes s)).
End AutoSpec.
