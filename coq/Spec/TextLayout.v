(* What C03 and C04 say: a declarative layout of the text table, written
   independently of the renderer's model.  A line is a list of segments; the
   display width of a line is read compositionally (DESIGN section 3: the
   measure W is not additive, so it is applied to each laid-out piece and
   summed).  Depends only on the input types (view, decoration record) and on
   the line splitter. *)
From Tab Require Export Model.View Model.Length Model.Decoration.

Inductive seg :=
| Glyph (g : bytes)              (* one junction / divider glyph, width 1 *)
| HFill (g : bytes) (n : nat)    (* n copies of a horizontal glyph, width n *)
| Pad (n : nat)                  (* n spaces *)
| Txt (s : bytes) (w : nat).     (* a cell's text line, laid out as w wide *)

Definition line := list seg.

Definition flat_seg (s : seg) : bytes :=
  match s with
  | Glyph g => g
  | HFill g n => rep n g
  | Pad n => rep n [SP]
  | Txt s _ => s
  end.
Definition flat_segs (l : list seg) : bytes := flat_map flat_seg l.
Definition flatten (l : line) : bytes := flat_segs l ++ [LF].

Definition seg_width (s : seg) : nat :=
  match s with Glyph _ => 1 | HFill _ n => n | Pad n => n | Txt _ w => w end.
Definition segs_width (l : list seg) : nat := fold_right (fun s acc => seg_width s + acc) 0 l.
Definition dwidth (l : line) : nat := segs_width l.

(* the same sum with the glyphs measured by W instead of counted as 1 *)
Definition seg_measured (W : bytes -> nat) (s : seg) : nat :=
  match s with Glyph g => W g | HFill g n => n * W g | Pad n => n | Txt _ w => w end.
Definition measured_width (W : bytes -> nat) (l : line) : nat :=
  fold_right (fun s acc => seg_measured W s + acc) 0 l.
Definition seg_glyphs (s : seg) : list bytes :=
  match s with Glyph g => [g] | HFill g _ => [g] | _ => [] end.

(* The whole-line reading (DESIGN section 3, 13.8): W applied to the flattened line
   agrees with the compositional reading exactly when W is additive across
   the pieces of the line and measures each piece as it was laid out. *)
Definition piece_measured_as_laid_out (W : bytes -> nat) (s : seg) : Prop :=
  match s with
  | Glyph _ => True
  | HFill g n => W (rep n g) = n * W g
  | Pad n => W (rep n [SP]) = n
  | Txt t w => W t = w
  end.
Definition edge_additive (W : bytes -> nat) (l : line) : Prop :=
  W (flat_segs l) = fold_right (fun s acc => W (flat_seg s) + acc) 0 l
  /\ Forall (piece_measured_as_laid_out W) l.

(* display offsets of the junction / divider glyphs of a line *)
Fixpoint divider_offsets_from (off : nat) (l : line) : list nat :=
  match l with
  | [] => []
  | Glyph _ :: r => off :: divider_offsets_from (S off) r
  | s :: r => divider_offsets_from (off + seg_width s) r
  end.
Definition divider_offsets (l : line) : list nat := divider_offsets_from 0 l.

Definition is_txt (s : seg) : bool := match s with Txt _ _ => true | _ => false end.
Inductive kind := KRule | KContent.
Definition kind_of (l : line) : kind := if existsb is_txt l then KContent else KRule.

(* left glyph, per column a body, inner glyphs between, right glyph *)
Fixpoint skel_tail (i r : bytes) (bodies : list (list seg)) : list seg :=
  match bodies with
  | [] => [Glyph r]
  | [b] => b ++ [Glyph r]
  | b :: rest => b ++ Glyph i :: skel_tail i r rest
  end.
Definition skeleton (l i r : bytes) (bodies : list (list seg)) : line := Glyph l :: skel_tail i r bodies.

Definition pads (a : align) (p : nat) : nat * nat :=
  match a with
  | ALeft => (0, p)
  | ARight => (p, 0)
  | ACenter => (p / 2, p - p / 2)
  end.

(* a slot: the text line laid out as w wide inside cw cells *)
Definition spec_slot (cw : nat) (a : align) (t : bytes * nat) : list seg :=
  let '(x, y) := pads a (cw - snd t) in [Pad x; Txt (fst t) (snd t); Pad y].

(* a content line from its slots: framed when the decoration draws dividers,
   single spaces between the slots when it draws none *)
Definition frame (dv : bytes * bytes * bytes) (slots : list (list seg)) : line :=
  match dv with
  | ([], [], []) => join [Pad 1] slots
  | (l, i, r) => skeleton l i r (map (fun s => Pad 1 :: s ++ [Pad 1]) slots)
  end.

Section Layout.
  Variable W : bytes -> nat.
  Variable d : decoration.
  Variable v : view.

  Definition cell_lines (c : vcell) : list bytes := lines_of (vc_text c).

  (* a single-line item that declares its own width *)
  Definition declares_line_width (c : vcell) : bool := vc_widther c && (length (cell_lines c) =? 1).

  (* width of a cell: declared, else its widest line *)
  Definition cellw (c : vcell) : nat :=
    if vc_widther c then Z.to_nat (vc_tw c) else list_max (map W (cell_lines c)).
  (* the width one of its lines is laid out as *)
  Definition linew (c : vcell) (s : bytes) : nat :=
    if declares_line_width c then Z.to_nat (vc_tw c) else W s.
  (* lines a cell occupies: all its text lines, at least its (declared) height *)
  Definition cell_height (c : vcell) : nat := Nat.max (Z.to_nat (vc_h c)) (length (cell_lines c)).

  Definition all_rows : list (list vcell) :=
    match v_header v with Some h => [h] | None => [] end ++ body_rows v.

  Definition cellw_at (r : list vcell) (i : nat) : nat :=
    match nth_error r i with Some c => cellw c | None => 0 end.

  (* column i (0-based) is as wide as the widest cell in it, header included *)
  Definition colw (i : nat) : nat := list_max (map (fun r => cellw_at r i) all_rows).

  Definition own_align (i : nat) : option align :=        (* property of column i+1 *)
    match nth_error (v_align v) (S i) with Some a => a | None => None end.
  Definition default_align : option align :=                (* property of column 0 *)
    match nth_error (v_align v) 0 with Some a => a | None => None end.
  Definition eff_align (i : nat) : align :=
    match own_align i with
    | Some a => a
    | None => match default_align with Some a => a | None => ALeft end
    end.

  (* text line k of the cell in column i of row r, with its layout width;
     blank when the row has no such cell or the cell no such line *)
  Definition cell_line (r : list vcell) (i k : nat) : bytes * nat :=
    match nth_error r i with
    | Some c => match nth_error (cell_lines c) k with
                | Some s => (s, linew c s)
                | None => ([], 0)
                end
    | None => ([], 0)
    end.

  Definition row_slot (r : list vcell) (k i : nat) : list seg :=
    spec_slot (colw i) (eff_align i) (cell_line r i k).
  Definition row_slots (r : list vcell) (k : nat) : list (list seg) :=
    map (row_slot r k) (seq 0 (v_ncols v)).

  Definition row_height (r : list vcell) : nat :=
    Nat.max 1 (list_max (map cell_height (firstn (v_ncols v) r))).

  Definition content_line (dv : bytes * bytes * bytes) (r : list vcell) (k : nat) : line :=
    frame dv (row_slots r k).
  Definition row_block (dv : bytes * bytes * bytes) (r : list vcell) : list line :=
    map (content_line dv r) (seq 0 (row_height r)).

  Definition rule (l h c r : bytes) : line :=
    skeleton l c r (map (fun i => [HFill h (colw i + 2)]) (seq 0 (v_ncols v))).

  Definition rules (x : line) : list line := if d_boxless d then [] else [x].

  Definition hdr_div : bytes * bytes * bytes := (d_VHeader d, d_VHeader d, d_VHeader d).
  Definition body_div : bytes * bytes * bytes := (d_VBodyBorder d, d_VBodyInner d, d_VBodyBorder d).

  Definition top_part : list line :=
    match v_header v with
    | Some h =>
        rules (rule (d_TopLeft d) (d_HOuter d) (d_HTopDown d) (d_TopRight d))
        ++ row_block hdr_div h
        ++ rules (rule (d_HBLeft d) (d_HOuter d) (d_HBCross d) (d_HBRight d))
    | None => rules (rule (d_TopLeft d) (d_HOuter d) (d_BTopDown d) (d_TopRight d))
    end.

  Definition row_part (r : vrow) : list line :=
    match r with
    | None => rules (rule (d_LeftBodyRule d) (d_HRule d) (d_CrossPiece d) (d_RightBodyRule d))
    | Some cs => row_block body_div cs
    end.

  Definition layout : list line :=
    top_part ++ flat_map row_part (v_rows v)
    ++ rules (rule (d_BottomLeft d) (d_HOuter d) (d_BBottomUp d) (d_BottomRight d)).

  Definition render_spec : bytes := concat (map flatten layout).

  (* -------------------------------------------------------------- *)
  (* the expected rule / content pattern, from the texts alone      *)
  Definition text_height (r : list vcell) : nat :=
    Nat.max 1 (list_max (map (fun c => length (cell_lines c)) (firstn (v_ncols v) r))).

  Definition krules : list kind := if d_boxless d then [] else [KRule].
  Definition expected_shape_with (height : list vcell -> nat) : list kind :=
    (match v_header v with
     | Some h => krules ++ repeat KContent (height h) ++ krules
     | None => krules
     end)
    ++ flat_map (fun r => match r with None => krules | Some cs => repeat KContent (height cs) end) (v_rows v)
    ++ krules.
  Definition expected_shape : list kind := expected_shape_with text_height.

  (* -------------------------------------------------------------- *)
  (* the domain of the statements                                    *)
  (* what Cell guarantees about the sizes it reports *)
  Definition cell_ok (c : vcell) : Prop :=
    (0 <= vc_tw c)%Z /\ (0 <= vc_h c)%Z
    /\ (vc_widther c = false -> vc_tw c = Z.of_nat (list_max (map W (cell_lines c)))).
  (* no size overrides: width and height are those of the text *)
  Definition plain_cell (c : vcell) : Prop :=
    vc_widther c = false
    /\ vc_tw c = Z.of_nat (list_max (map W (cell_lines c)))
    /\ vc_h c = Z.of_nat (length (cell_lines c)).
  (* DESIGN 13.7: a multi-line item declaring a width smaller than one of its
     lines is outside C03/C04 *)
  Definition width_covers (c : vcell) : Prop :=
    vc_widther c = true -> declares_line_width c = false ->
    forall s, In s (cell_lines c) -> W s <= Z.to_nat (vc_tw c).

  Definition all_cells : list vcell := concat all_rows.

  (* the decorations of the statements: complete (as Populate leaves them) or NoBox() *)
  Definition dec_ok : Prop := complete d \/ nobox d.
  Definition cells_ok : Prop := Forall cell_ok all_cells.
  Definition cells_cover : Prop := Forall (fun c => cell_ok c /\ width_covers c) all_cells.
  Definition plain_view : Prop := Forall plain_cell all_cells.

  Definition cell_okb (c : vcell) : bool :=
    (0 <=? vc_tw c)%Z && (0 <=? vc_h c)%Z
    && (vc_widther c || (vc_tw c =? Z.of_nat (list_max (map W (cell_lines c))))%Z).
  Definition plain_cellb (c : vcell) : bool :=
    negb (vc_widther c)
    && (vc_tw c =? Z.of_nat (list_max (map W (cell_lines c))))%Z
    && (vc_h c =? Z.of_nat (length (cell_lines c)))%Z.
  Definition width_coversb (c : vcell) : bool :=
    negb (vc_widther c) || declares_line_width c
    || forallb (fun s => W s <=? Z.to_nat (vc_tw c)) (cell_lines c).

  (* glyphs the decoration can put on a line have display width 1 *)
  Definition glyphs_w1 : Prop := Forall (fun g => W g = 1) (d_fields d).
  Definition glyphs_w1b : bool := forallb (fun g => W g =? 1) (d_fields d).

  (* -------------------------------------------------------------- *)
  (* decidable geometry, used by the run-time oracle                 *)
  Definition line_width_boxed : nat := 1 + list_sum (map (fun i => colw i + 3) (seq 0 (v_ncols v))).
  Definition line_width_bare : nat := list_sum (map colw (seq 0 (v_ncols v))) + (v_ncols v - 1).
  (* offsets of the dividers of a boxed line: 0, then after each column *)
  Fixpoint offsets_after (off : nat) (ws : list nat) : list nat :=
    match ws with
    | [] => []
    | w :: rest => (off + w) :: offsets_after (S (off + w)) rest
    end.
  Definition divider_offsets_boxed : list nat :=
    0 :: offsets_after 1 (map (fun i => colw i + 2) (seq 0 (v_ncols v))).
  Definition all_same_width (ls : list line) : bool :=
    match ls with
    | [] => true
    | l :: r => forallb (fun x => dwidth x =? dwidth l) r
    end.
  Definition all_same_dividers (ls : list line) : bool :=
    match ls with
    | [] => true
    | l :: r => forallb (fun x => list_eqb Nat.eqb (divider_offsets x) (divider_offsets l)) r
    end.
End Layout.
