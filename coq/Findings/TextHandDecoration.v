(* D22, as the code was before the repair (bb1114c): commonRenderedLine dropped
   the trailing inner divider with fields[:len(fields)-1] even when no field had
   been appended.  The faithful model of that code panics on the table
   `t.AddRowItems()` (no column, one row without cells) under the hand-written,
   never populated decoration Decoration{VBodyInner: "|"} - the witness the C09
   check found on /repo (corpus/C09/d22-*.json) - so "every renderer under
   every style ... never panics" was refuted for it. *)
From Tab Require Import Model.Text Model.Decoration.

Definition common_rendered_line_pinned (ds : bytes * bytes * bytes) (cws : list Z)
           (cells : list wstr) (als : list alignment) : res bytes :=
  let '(dleft, inner, dright) := ds in
  bind (rendered_fields 0 cws cells als inner) (fun fs =>
  let fields := (if nilb dleft then [] else [dleft]) ++ fs in
  bind (if negb (nilb dright) && negb (nilb inner) then set_last fields dright
        else if negb (nilb dright) then Ok (fields ++ [dright])
        else if negb (nilb inner)
             then (if (length fields =? 0)%nat then Panic     (* fields[:len(fields)-1] with len 0 *)
                   else Ok (firstn (length fields - 1) fields))
             else Ok fields) (fun fields =>
  Ok (join [SP] fields ++ [LF]))).

(* the line of a zero-cell row in a table without columns, dividers (Left "",
   Inner "|", Right "") *)
Example d22_refuted_on_pinned :
  common_rendered_line_pinned ([], [124%N], []) [] [] [] = Panic
  /\ common_rendered_line ([], [124%N], []) [] [] [] = Ok [LF].
Proof. split; vm_compute; reflexivity. Qed.
