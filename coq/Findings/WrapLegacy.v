(* D9 (pinned tree): RegisterPropertyCallback accepted only the four core types
   as owner.  texttable.Wrap / markdown.Wrap pass the table they were handed;
   when that is itself a wrapper (csv.New(), a nested Wrap, auto.New) the
   registration failed, the error was dropped, and nothing was ever measured.
   Legacy step: a wrap registers only when handed the core table. *)
From Tab Require Import Model.Wrap.

Section Legacy.
  Variable U : Type.
  Variable out : kind -> view -> res bytes.
  Variable degraded : kind -> mstate -> view -> res bytes.

  Inductive lop := LWrap (k : kind) (given_core : bool) | LRender (k : kind).

  Definition lstep (s : tstate U) (o : lop) : tstate U :=
    match o with
    | LWrap k core => if measuring k && core then mkT (st_view s) (st_user s) (st_cbs s ++ [k]) (st_text s) (st_md s) else s
    | LRender _ => invoke s
    end.
End Legacy.

(* witness: a table created by csv.New() (a wrapper), then texttable.Wrap of it:
   the text render is the degraded one, not the format's output *)
Theorem c10_legacy_refuted :
  exists (out : kind -> view -> res bytes) degraded v,
    let s := fold_left (lstep unit) [LWrap KCsv true; LWrap KText false] (init v tt) in
    render out degraded s KText <> out KText (st_view s).
Proof.
  exists (fun _ _ => Ok [1%N]), (fun _ _ _ => Ok [2%N]), (mkView 0 None [] [] []).
  vm_compute. discriminate.
Qed.
