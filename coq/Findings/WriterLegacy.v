(* D18 (pinned tree): markdown's emitRow discarded the result of its first
   write (the row's opening bar).  With one unchecked write the fault theorem
   is false: a writer failing exactly on that call goes unnoticed and what it
   accepted is not a prefix of the fault-free output. *)
From Tab Require Import Model.Writer.

Local Open Scope N_scope.
Definition legacy_md_row : list (bytes * bool) :=
  [([124; 32], false);          (* "| "   io.WriteString(w, barLeft) -- result discarded *)
   ([97; 32; 124], true);       (* "a |"  *)
   ([10], true)].               (* "\n"   *)

Definition fail_only_first : script := fun i _ => match i with O => WFail | _ => WAccept end.

Theorem c15_unchecked_write_refuted :
  exists ws sc,
    fails_within sc 0 ws = true
    /\ run_writes sc 0 ws [] = (false, [97; 32; 124; 10])
    /\ prefixb [97; 32; 124; 10] (payloads ws) = false.
Proof. exists legacy_md_row, fail_only_first. vm_compute. repeat split. Qed.
