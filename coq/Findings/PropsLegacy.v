(* C12 - the pinned tree's defects D13 and D14, stated over legacy copies of the
   affected functions and refuted by concrete witnesses (vm_compute).

   D13: stripChainReturnValue unlinked the found link IN PLACE
          parent.chain = this.chain; this.chain = nil; return this.val, top
        so every by-value copy of the owner that shares those links lost the
        key (and, through this.chain = nil, a copy whose head IS the unlinked
        link lost everything below it).
   D14: columns was []column and Column(n) returned &t.columns[n]; append
        re-allocates the backing array once len exceeds cap (10), after which a
        handle taken earlier points into the abandoned array. *)
From Tab Require Import Model.Props Model.PropsHeap Spec.PropMap Proofs.PropsProofs Proofs.PropsHeapProofs.

(* ------------------------------------------------------------------ D13 *)

(* p.chain = q *)
Definition set_next (h : heap) (i : nat) (q : ptr) : heap :=
  match nth_error h i with
  | Some n => upd h i (mkNode (n_key n) (n_val n) q)
  | None => h
  end.

(* func stripChainReturnValue(top, parent, this_, key), pinned tree *)
Fixpoint lstrip_chain_return_value (fuel : nat) (h : heap) (top parent : nat) (this_ : ptr) (k : key)
  : res (option val * (heap * ptr)) :=
  match fuel with
  | 0 => Panic
  | S f =>
      match this_ with
      | None => Ok (None, (h, Some top))
      | Some i =>
          bind (deref h i) (fun n =>
            if key_eqb (n_key n) k then
              let h1 := set_next h parent (n_next n) in        (* parent.chain = this.chain *)
              let h2 := set_next h1 i None in                  (* this.chain = nil *)
              Ok (Some (n_val n), (h2, Some top))
            else match n_next n with
                 | None => Ok (None, (h, Some top))
                 | Some _ => lstrip_chain_return_value f h top i (n_next n) k
                 end)
      end
  end.

Definition lstrip_return_value (h : heap) (ps : ptr) (k : key) : res (option val * (heap * ptr)) :=
  match ps with
  | None => Ok (None, (h, ps))
  | Some t =>
      bind (deref h t) (fun n =>
        if key_eqb (n_key n) k then Ok (Some (n_val n), (h, n_next n))
        else match n_next n with
             | None => Ok (None, (h, ps))
             | Some _ => lstrip_chain_return_value (length h) h t t (n_next n) k
             end)
  end.

Definition lset_property (h : heap) (ps : ptr) (k : key) (v : option val) : res (heap * ptr) :=
  bind (lstrip_return_value h ps k) (fun vr =>
    match v with
    | None => Ok (snd vr)
    | Some x => let '(h2, a) := alloc (fst (snd vr)) (mkNode k x (snd (snd vr))) in Ok (h2, Some a)
    end).

(* two links, key (0,1) at the bottom and key (1,1) on top: the chain of a cell
   after SetProperty(int 1, 7); SetProperty(int64 1, 8).  A by-value copy of
   the cell holds the same head pointer, Some 1. *)
Definition d13_heap : heap := [mkNode (0, 1%N) 7 None; mkNode (1, 1%N) 8 (Some 0)].

(* the legacy set is not allocation-only ... *)
Theorem c12_alloc_only_legacy_refuted :
  ~ (forall h ps k v h' p', lset_property h ps k v = Ok (h', p') ->
       forall p, p < length h -> nth_error h' p = nth_error h p).
Proof.
  intros H.
  specialize (H d13_heap (Some 1) (0, 1%N) (Some 9)).
  specialize (H _ _ eq_refl 1 (Nat.lt_succ_diag_r 1)).
  vm_compute in H. discriminate.
Qed.

(* ... and the frame property fails: the copy's pointer (Some 1) read 7 under
   int 1 before the original re-set that key, and reads nil afterwards *)
Theorem c12_frame_legacy_refuted :
  ~ (forall h ps k v h' p', hwf h -> lset_property h ps k v = Ok (h', p') ->
       forall q, ptr_lt q (length h) -> forall k', hget_property h' q k' = hget_property h q k').
Proof.
  intros H.
  assert (hwf d13_heap) as W.
  { intros i n E. destruct i as [|[|i]]; cbn in E; inversion E; subst; cbn; auto. destruct i; discriminate. }
  specialize (H d13_heap (Some 1) (0, 1%N) (Some 9) _ _ W eq_refl (Some 1) (Nat.lt_succ_diag_r 1) (0, 1%N)).
  vm_compute in H. discriminate.
Qed.

(* the same, as a history through the owner machine: this is the minimal
   replay the check reports on the pinned tree (corpus/C12/d13-*.json) *)
Definition d13_history : list op :=
  [NewCell; SetP (ODet 0) (1, 1%N) (Some 1); SetP (ODet 0) (2, 49%N) (Some 2);
   CopyCell (ODet 0); SetP (ODet 0) (1, 1%N) (Some 4)].
Definition d13_universe : list key := [(1, 1%N); (2, 49%N)].

Theorem c12_history_legacy_refuted :
  m_run_gen lset_property m_init d13_universe [ODet 1] d13_history
    <> expected d13_universe [ODet 1] d13_history
  /\ m_run m_init d13_universe [ODet 1] d13_history = expected d13_universe [ODet 1] d13_history.
Proof. split; vm_compute; [discriminate|reflexivity]. Qed.

(* ------------------------------------------------------------------ D14 *)

(* columns []column with cap 10: a list of backing arrays (never freed), the
   current one, and handles = (array, index).  A column's content is
   abstracted to one number (what was last stored in it). *)
Record ltable := mkLT { lt_arrays : list (list nat); lt_cur : nat; lt_len : nat; lt_cap : nat }.

Definition lt_new : ltable := mkLT [[0]] 0 1 10.

(* t.columns = append(t.columns, extra...) up to newCount+1 entries *)
Definition lt_grow (t : ltable) (newCount : nat) : ltable :=
  if S newCount <=? lt_len t then t
  else match nth_error (lt_arrays t) (lt_cur t) with
       | None => t
       | Some a =>
           if S newCount <=? lt_cap t then
             mkLT (upd (lt_arrays t) (lt_cur t) (a ++ repeat 0 (S newCount - lt_len t))) (lt_cur t) (S newCount) (lt_cap t)
           else  (* re-allocation: the old array stays where it is *)
             mkLT (lt_arrays t ++ [a ++ repeat 0 (S newCount - lt_len t)]) (length (lt_arrays t)) (S newCount) (2 * S newCount)
       end.

(* &t.columns[n] *)
Definition lt_column (t : ltable) (n : nat) : nat * nat := (lt_cur t, n).

Definition lt_store (t : ltable) (hd : nat * nat) (x : nat) : ltable :=
  match nth_error (lt_arrays t) (fst hd) with
  | Some a => mkLT (upd (lt_arrays t) (fst hd) (upd a (snd hd) x)) (lt_cur t) (lt_len t) (lt_cap t)
  | None => t
  end.

Definition lt_load (t : ltable) (hd : nat * nat) : option nat :=
  match nth_error (lt_arrays t) (fst hd) with
  | Some a => nth_error a (snd hd)
  | None => None
  end.

(* a handle taken for column 0, growth to 10 columns, a store through the
   handle: Column(0) does not see it (corpus/C12/d14-*.json) *)
Theorem c12_handle_legacy_refuted :
  ~ (forall t n newCount x, n < lt_len t ->
       let hd := lt_column t n in
       let t' := lt_store (lt_grow t newCount) hd x in
       lt_load t' (lt_column t' n) = Some x).
Proof.
  intros H. specialize (H lt_new 0 10 5 (Nat.lt_succ_diag_r 0)). vm_compute in H. discriminate.
Qed.

(* while below the capacity the handle still works, which is why no test saw it *)
Example c12_handle_legacy_small :
  let t' := lt_store (lt_grow lt_new 9) (lt_column lt_new 0) 5 in lt_load t' (lt_column t' 0) = Some 5.
Proof. vm_compute. reflexivity. Qed.
