(* D1 (DESIGN section 7): on the pinned tree the rune arm of Cell.Update assigns
   nothing, so a rune item has no text.  A legacy copy of the text-selecting
   part of Update (only that arm differs from Model/Cell.v) refutes C01. *)
From Tab Require Import Base.Bytes Base.Utf8 Model.Length Model.Cell Spec.CellText.

Definition legacy_switch_text (e : env) (c : cell) : bytes :=
  match c_raw c with
  | INil => []
  | ICell o => c_str o
  | IString s => s
  | IRune _ => c_str c                          (* case rune: (nothing) *)
  | IObj id =>
      let o := e id in
      match m_string o with Some s => s | None =>
      match m_gostring o with Some g => g | None =>
      match m_error o with Some x => x | None => fmt_v o end end end
  end.

(* NewCell starts from Cell{raw: object}: str is "" *)
Definition legacy_new_cell_text (e : env) (it : item) : bytes :=
  legacy_switch_text e (mkCell it [] 0 0 false).

Theorem c01_text_refuted_on_pinned :
  exists e it, legacy_new_cell_text e it <> documented_text e it.
Proof.
  exists (fun _ => mkObj None None None None None [] None), (IRune 120).
  vm_compute. discriminate.
Qed.
Print Assumptions c01_text_refuted_on_pinned.
