(* C01 - a cell's text is the documented text form of the item stored in it.
   Only statements here; proofs live in Proofs/CellProofs.v.
   W is the display-width measure (it does not influence the text), e the
   environment giving every object's current observable state. *)
From Tab Require Import Model.Cell Spec.CellText Proofs.CellProofs.

(* The text of a new cell is the documented text form - for every item, every
   combination of optional methods (the fields of obj are universally
   quantified), every nesting. *)
Theorem c01_text : forall W e it, cell_text (new_cell W e it) = documented_text e it.
Proof. exact cell_text_documented. Qed.
Print Assumptions c01_text.

(* "A rune is that character": the text decodes (as Go decodes UTF-8) to
   exactly that code point - U+FFFD when the value is negative, a surrogate or
   above U+10FFFF - and the cell is not empty. *)
Theorem c01_rune_is_char : forall W e r,
  decode_runes (cell_text (new_cell W e (IRune r))) = [if valid_rune r then r else RuneError]
  /\ cell_empty (new_cell W e (IRune r)) = false.
Proof. exact rune_text_is_char. Qed.
Print Assumptions c01_rune_is_char.

(* Empty exactly when the text is empty - provided a nested cell is itself
   such a cell ... *)
Theorem c01_empty : forall W e it, item_wf it ->
  (cell_empty (new_cell W e it) = true <-> cell_text (new_cell W e it) = []).
Proof. exact cell_empty_iff. Qed.
Print Assumptions c01_empty.

(* ... which every cell made by NewCell / Update is, so the statement holds at
   every nesting depth (induction on how the item was built). *)
Theorem c01_wf_new : forall W e it, item_wf it -> cell_wf (new_cell W e it).
Proof. exact new_cell_wf. Qed.
Print Assumptions c01_wf_new.

Theorem c01_wf_update : forall W e c, item_wf (c_raw c) -> cell_wf (update W e c).
Proof. exact update_wf. Qed.
Print Assumptions c01_wf_update.

Theorem c01_empty_nested : forall W e it, built_item it ->
  (cell_empty (new_cell W e it) = true <-> cell_text (new_cell W e it) = []).
Proof. exact cell_empty_iff_built. Qed.
Print Assumptions c01_empty_nested.

(* The item is handed back unchanged. *)
Theorem c01_item : forall W e it, cell_item (new_cell W e it) = it.
Proof. exact cell_item_same. Qed.
Print Assumptions c01_item.

(* Mutation (environment e -> e') is not seen until Update, and Update re-reads
   everything: the cell still shows the snapshot, and after Update it shows the
   documented text of the item's new state and still holds the same item. *)
Theorem c01_update : forall W e e' it,
  cell_text (new_cell W e it) = documented_text e it
  /\ cell_item (update W e' (new_cell W e it)) = it
  /\ cell_text (update W e' (new_cell W e it)) = documented_text e' it.
Proof. exact update_rereads. Qed.
Print Assumptions c01_update.

(* Update is a function of the stored item only (no stale field survives). *)
Theorem c01_update_is_new : forall W e c, update W e c = new_cell W e (c_raw c).
Proof. exact update_raw_only. Qed.
Print Assumptions c01_update_is_new.

(* NewCell / Update never panic in the model (the only index expressions are
   in length.Lines). *)
Theorem c01_no_panic : forall W e c, update_r W e c = Ok (update W e c).
Proof. exact update_r_update. Qed.
Print Assumptions c01_no_panic.

(* non-vacuity: a rune, an object with String+Error, a nested empty cell *)
Local Open Scope N_scope.
Example c01_example :
  let W := fun s : list N => length s in
  let e := fun id : N => if N.eqb id 1 then mkObj (Some [115]) None (Some [101]) None (Some 7%Z) [63] None
                         else mkObj None None None None None [] None in
  cell_text (new_cell W e (IRune 120)) = [120]
  /\ cell_text (new_cell W e (IRune 8364)) = [226; 130; 172]
  /\ cell_text (new_cell W e (IRune 55296)) = [239; 191; 189]
  /\ cell_text (new_cell W e (IObj 1)) = [115]
  /\ cell_width (new_cell W e (IObj 1)) = 7%Z
  /\ cell_empty (new_cell W e (ICell (new_cell W e (IString [])))) = true.
Proof. vm_compute. repeat split; reflexivity. Qed.

(* END TO END (Proofs/E2E*.v).  `hview W e json h` is what a renderer sees after
   the history h of public-API calls (Model/Table.v: building calls in any
   interleaving plus column property settings) over ARBITRARY items
   (Model/Cell.v); `twf_hist h`: the building calls form a well-formed history
   (Spec/History.v).  hist_header / hist_rows / hist_records / hist_ncols are
   read off the history alone (Spec/TableHist.v); documented_text is C01's
   text form (Spec/CellText.v). *)
From Tab Require Import Model.Cell Model.Table Spec.TableHist Spec.CellText Proofs.E2EProofs.

(* "... the same text as shown by every renderer": whatever the history of
   building calls and whatever the items, every cell that any renderer reads
   (header and body, in order) shows exactly the documented text of the item
   the history put at that position.  With c05_history, c06_history,
   c07_history_keys, c08_history_texts and c03_history_colwidth this is the
   text each format's output round-trips to. *)
Theorem c01_shown_by_every_renderer : forall (W : list N -> nat) (e : env) (json : item -> option (list N)) (h : list top),
  twf_hist h ->
  option_map (map vc_text) (v_header (hview W e json h)) = option_map (map (documented_text e)) (hist_header h)
  /\ map (option_map (map vc_text)) (v_rows (hview W e json h)) = map (option_map (map (documented_text e))) (hist_rows h).
Proof. exact hview_texts. Qed.
Print Assumptions c01_shown_by_every_renderer.

(* A WHOLE PROCESS (Model/CellProc.v, Spec/CellHist.v).  A history is any
   sequence of NewCell(item) / cells[k].Update() / "the caller changes its
   objects".  After it, every cell of the process - the first as well as the
   thousandth - shows the documented text of its own item in the state of the
   objects in which that very cell last read it (hist_reads: at NewCell or at
   its own last Update), and still holds its item: what the process put into
   other cells before (other items, other types, other types of the same
   name), and the updates of other cells, do not enter. *)
From Tab Require Import Model.CellProc Spec.CellHist Spec.MethodSet Proofs.CellProcProofs.

Theorem c01_process : forall (W : list N -> nat) (e0 : env) (h : list pop),
  map cell_text (p_cells (prun W e0 h)) = map expected_text (hist_reads e0 h)
  /\ map cell_item (p_cells (prun W e0 h)) = map fst (hist_reads e0 h).
Proof. exact process_texts. Qed.
Print Assumptions c01_process.

(* "an item OFFERING String()": which methods an item offers is Go's method
   set of its dynamic type (Spec/MethodSet.v).  For a named type whose five
   methods are declared on the value receiver, the pointer receiver or not at
   all, held by value or by pointer, the cell's text follows the precedence
   over the methods that are in the method set ... *)
Theorem c01_method_set : forall (W : list N -> nat) (e : env) id d s h,
  e id = obj_of d s h -> cell_text (new_cell W e (IObj id)) = method_set_text d s h.
Proof. exact method_set_cell_text. Qed.
Print Assumptions c01_method_set.

(* ... so a VALUE none of whose text methods is declared on the value receiver
   reads as fmt's %v of the value, whatever its pointer type offers (url.URL,
   big.Int, bytes.Buffer values; a struct whose String is declared on the pointer receiver) ... *)
Theorem c01_value_ignores_pointer_methods : forall (W : list N -> nat) (e : env) id d s,
  e id = obj_of d s ByValue ->
  r_string d <> OnValue -> r_gostring d <> OnValue -> r_error d <> OnValue ->
  cell_text (new_cell W e (IObj id)) = s_fmt_value s.
Proof. exact value_ignores_pointer_methods. Qed.
Print Assumptions c01_value_ignores_pointer_methods.

(* ... and a POINTER offers the methods of both receivers. *)
Theorem c01_pointer_offers_both : forall (W : list N -> nat) (e : env) id d s,
  e id = obj_of d s ByPointer ->
  cell_text (new_cell W e (IObj id)) =
    match r_string d, r_gostring d, r_error d with
    | NoMethod, NoMethod, NoMethod => s_fmt_pointer s
    | NoMethod, NoMethod, _ => s_error s
    | NoMethod, _, _ => s_gostring s
    | _, _, _ => s_string s
    end.
Proof. exact pointer_offers_both. Qed.
Print Assumptions c01_pointer_offers_both.

(* non-vacuity: a type with String() on the pointer receiver and Error() on
   the value receiver; two cells and a mutation in between, one Update *)
Example c01_example_process :
  let W := fun s : list N => length s in
  let d := mkDecl OnPointer NoMethod OnValue NoMethod NoMethod in
  let s1 := mkTS [83] [] [69] 0 0 [118] [38; 118] None None in
  let s2 := mkTS [115] [] [101] 0 0 [118] [38; 118] None None in
  let e1 := fun id : N => if N.eqb id 1 then obj_of d s1 ByValue else obj_of d s1 ByPointer in
  let e2 := fun id : N => if N.eqb id 1 then obj_of d s2 ByValue else obj_of d s2 ByPointer in
  map cell_text (p_cells (prun W e1 [PNew (IObj 1); PNew (IObj 2); PMutate e2; PUpdate 1%nat; PNew (IObj 1)]))
  = [[69]; [115]; [101]].
Proof. vm_compute. reflexivity. Qed.

(* AT TABLE LEVEL, WITH ITEMS THAT CHANGE (Model/TableMut.v: the whole-table
   machine over cells that remember the state their item was in when they last
   read it; a program is any list of building calls, column settings,
   in-place mutations of objects, and Update() calls on cells reached through
   CellAt / Headers). *)
From Tab Require Import Model.TableMut Proofs.TableMutProofs.

(* "re-reads a mutated item only when asked to update", for every cell of every
   table at once: a mutation changes nothing that any cell has cached (texts,
   emptiness, widths, heights; counts and column properties with them), so no
   renderer shows it through text *)
Theorem c01_table_mutation_not_seen : forall W json st id ob,
  view_cached (mview W json (mstep st (MMutate id ob))) = view_cached (mview W json st).
Proof. exact mutate_not_seen. Qed.
Print Assumptions c01_table_mutation_not_seen.

(* ... and Update on the cell at (r, c) makes exactly that cell show the
   documented text of its item's present state; every other cell of the row,
   every other row, the header and the counts are what they were *)
Theorem c01_table_update_shows : forall W json st r c tr cs x,
  nth_error (t_rows (tb_core (m_tab st))) r = Some tr -> r_body tr = RCells cs -> nth_error cs c = Some x ->
  let v' := mview W json (mstep st (MUpdateAt r c)) in
  exists vcs,
    nth_error (v_rows v') r = Some (Some vcs)
    /\ option_map vc_text (nth_error vcs c) = Some (documented_text (m_env st) (fst (c_item x)))
    /\ (forall c', c' <> c ->
          nth_error vcs c' = option_map (fun y => snap_vcell W json (m_env st) (c_item y)) (nth_error cs c'))
    /\ (forall r', r' <> r -> nth_error (v_rows v') r' = nth_error (v_rows (mview W json st)) r')
    /\ v_header v' = v_header (mview W json st) /\ v_ncols v' = v_ncols (mview W json st).
Proof. exact update_shows. Qed.
Print Assumptions c01_table_update_shows.

(* a program that never mutates nor updates shows the view of the end-to-end
   theorems *)
Theorem c01_mutation_free_is_hview : forall W e json (h : list top),
  mview W json (mrun e (map MOp h)) = hview W e json h.
Proof. exact mutation_free_is_hview. Qed.
Print Assumptions c01_mutation_free_is_hview.

(* whatever the program did, CSV (and with c01_shown_by_every_renderer's
   companions every other format) shows each cell's text as of its last read *)
Theorem c01_csv_after_any_program : forall W json st out,
  Csv.csv_render (mview W json st) = Ok out ->
  CsvParse.parse_csv out
  = Some (map (CsvParse.pad_to (t_ncols (tb_core (m_tab st)))) (map (map snap_doc) (state_records st))).
Proof. exact csv_after_any_program. Qed.
Print Assumptions c01_csv_after_any_program.
